(* Cells.v -- the result of | and & is a union of cells of the arrangement of the operands'
   boundaries (straight boundaries, exact rational data).

   K1  every point of a piece of a subdivision lies on the subdivided segment; hence
       Jordan.split, split_two_jordans, split_one_against, split_all only shrink the exact
       boundary (brefines), and so do the re-split operands a', b' of recombine w.r.t. a, b.
   K2  every segment of a curve assembled by FollowPath is a segment s of the re-split
       operands whose END point was replaced by the START point of another segment t of the
       re-split operands, with Point2D.__eq__ (last s) (first t) (joined: the refinement of
       NoZero.repointed that names the new end point).
   K3  under [exact_joins] (two control points of the re-split operands that Point2D.__eq__
       identifies are equal) the re-pointing moves nothing, so the boundary of every result
       curve lies in the boundaries of a', b', hence of a, b:   op_or_boundary_sub,
       op_and_boundary_sub  (all branches: Empty / Whole / nested copies / recombination).
   K4  region is a function of the region_simple of the curves (region_congr); with
       Constancy.region_simple_move: if the closed straight segment p-q meets neither
       operand's boundary, the result has the same region at p and q (op_or_cellwise,
       op_and_cellwise), and the same along polylines (.._cellwise_polyline). *)
From Coq Require Import QArith Lqa Lia ZArith List Bool Permutation.
From SV Require Import Model.Shape Spec.Spec.
From SV Require Import Lemmas.BezierFacts Lemmas.Lines Lemmas.SplitClean Lemmas.Construct
                       Lemmas.Measure Lemmas.NoZero Lemmas.Constancy.
From SV Require Lemmas.Quadrature Lemmas.Winding Lemmas.Tolerance Lemmas.Subset Lemmas.Affine.
Import ListNotations.
Open Scope Q_scope.

(* p is exactly on the boundary of some curve of s *)
Definition on_bdry_shape (s : shape) (p : point) : Prop :=
  exists j, In j (jordans s) /\ on_boundary j p = true.

Definition on_bdry_list (js : list jordan) (p : point) : Prop :=
  exists j, In j js /\ on_boundary j p = true.

Lemma on_bdry_list_perm : forall l l' p, Permutation l l' -> on_bdry_list l p -> on_bdry_list l' p.
Proof.
  intros l l' p HP (j & Hj & H). exists j. split; [exact (Permutation_in _ HP Hj)|exact H].
Qed.

(* ================================================================== *)
(* K1. subdivisions stay on the segment                                *)
(* ================================================================== *)
Lemma piece_on_edge : forall a b s u v p, piece_par a b s u v ->
  0 <= u -> u <= v -> v <= 1 ->
  on_edge (first_pt s) (last_pt s) p = true -> on_edge a b p = true.
Proof.
  intros a b s u v p (_ & Hf & Hl) U0 UV V1 H.
  rewrite (Affine.on_edge_peq3 _ _ _ _ _ _ Hf Hl (BezierFacts.peq_refl p)) in H.
  destruct (Subset.on_edge_param _ _ _ H) as (x & [X0 X1] & Hp).
  apply (Tolerance.on_edge_param a b p (u + x * (v - u))).
  - nra.
  - nra.
  - eapply BezierFacts.peq_trans; [exact Hp|]. apply pt_at_pt_at.
Qed.

Lemma subdiv_from_on_edge : forall a b u l ps p, subdiv_from a b u l ps -> incr u l -> 0 <= u ->
  forall s, In s ps -> on_edge (first_pt s) (last_pt s) p = true -> on_edge a b p = true.
Proof.
  intros a b u l ps p H.
  induction H as [u s Hp | u v l s ps Hp Hsd IH]; intros Hi U0 s' Hin He.
  - destruct Hin as [<-|[]]. cbn [incr] in Hi.
    apply (piece_on_edge a b s u 1 p Hp); try lra. exact He.
  - cbn [incr] in Hi. destruct Hi as [Hi1 Hi2]. pose proof (incr_lt1 _ _ Hi2) as V1.
    destruct Hin as [<-|Hin].
    + apply (piece_on_edge a b s u v p Hp); try lra. exact He.
    + apply (IH Hi2 ltac:(lra) s' Hin He).
Qed.

Lemma subdiv_boundary : forall s ps p, subdiv s ps ->
  on_boundary ps p = true -> on_edge (first_pt s) (last_pt s) p = true.
Proof.
  intros s ps p (a & b & ts & -> & Hi & H) Hb. unfold on_boundary in Hb.
  apply existsb_exists in Hb. destruct Hb as (x & Hx & He). cbn [first_pt last_pt hd last].
  exact (subdiv_from_on_edge a b 0 ts ps p H Hi ltac:(lra) x Hx He).
Qed.

Lemma on_boundary_app : forall l1 l2 p,
  on_boundary (l1 ++ l2) p = on_boundary l1 p || on_boundary l2 p.
Proof. intros. unfold on_boundary. apply existsb_app. Qed.

Lemma Forall2_subdiv_boundary : forall j pieces p, Forall2 subdiv j pieces ->
  on_boundary (concat pieces) p = true -> on_boundary j p = true.
Proof.
  intros j pieces p F. induction F as [|s ps j pieces Hsd _ IH]; intro H; [exact H|].
  cbn [concat] in H. rewrite on_boundary_app in H. apply orb_true_iff in H.
  change (on_boundary (s :: j) p) with (on_edge (first_pt s) (last_pt s) p || on_boundary j p).
  apply orb_true_iff. destruct H as [H|H].
  - left. exact (subdiv_boundary s ps p Hsd H).
  - right. apply IH. exact H.
Qed.

Theorem split_boundary : forall j idx nodes j',
  all_lines j = true -> Jordan.split j idx nodes = Ok j' ->
  forall p, on_boundary j' p = true -> on_boundary j p = true.
Proof.
  intros j idx nodes j' Hl H p. destruct (split_spec _ _ _ _ Hl H) as (pieces & -> & F).
  apply Forall2_subdiv_boundary. exact F.
Qed.

(* j' is a polygon whose exact boundary lies in the boundary of j *)
Definition brefines (j j' : jordan) : Prop :=
  all_lines j' = true /\ forall p, on_boundary j' p = true -> on_boundary j p = true.

Lemma brefines_refl : forall j, all_lines j = true -> brefines j j.
Proof. intros j H. split; [exact H|]. intros p Hp. exact Hp. Qed.
Lemma brefines_trans : forall j1 j2 j3, brefines j1 j2 -> brefines j2 j3 -> brefines j1 j3.
Proof. intros j1 j2 j3 [_ H12] [L3 H23]. split; [exact L3|]. intros p Hp. apply H12, H23, Hp. Qed.
Lemma split_brefines : forall j idx nodes j', all_lines j = true ->
  Jordan.split j idx nodes = Ok j' -> brefines j j'.
Proof.
  intros j idx nodes j' Hl H. split; [exact (split_all_lines _ _ _ _ Hl H)|].
  exact (split_boundary _ _ _ _ Hl H).
Qed.

Lemma Forall2_brefines_lines : forall js js', Forall2 brefines js js' -> lines_all js'.
Proof. intros js js' F. induction F; constructor; [apply H|assumption]. Qed.

Lemma split_two_jordans_brefines : forall ja jb ja' jb',
  all_lines ja = true -> all_lines jb = true ->
  split_two_jordans ja jb = Ok (ja', jb') -> brefines ja ja' /\ brefines jb jb'.
Proof.
  intros ja jb ja' jb' Ha Hb H. unfold split_two_jordans in H.
  destruct (box_and _ _); [|inversion H; subst; split; apply brefines_refl; assumption].
  destruct (jordan_and ja jb) as [inters| |]; cbn [bind] in H; try discriminate.
  destruct (Jordan.split ja _ _) as [xa| |] eqn:Ea; cbn [bind] in H; try discriminate.
  destruct (Jordan.split jb _ _) as [xb| |] eqn:Eb; cbn [bind] in H; try discriminate.
  inversion H; subst.
  split; [exact (split_brefines _ _ _ _ Ha Ea)|exact (split_brefines _ _ _ _ Hb Eb)].
Qed.

Lemma split_one_against_brefines : forall jbs ja ja' jbs',
  all_lines ja = true -> lines_all jbs -> split_one_against ja jbs = Ok (ja', jbs') ->
  brefines ja ja' /\ Forall2 brefines jbs jbs'.
Proof.
  induction jbs as [|jb t IH]; intros ja ja' jbs' Ha Hb H; cbn [split_one_against] in H.
  - inversion H; subst. split; [apply brefines_refl, Ha|constructor].
  - inversion Hb as [|? ? Hjb Ht]; subst.
    destruct (split_two_jordans ja jb) as [[xa xb]| |] eqn:E2; cbn [bind] in H; try discriminate.
    destruct (split_two_jordans_brefines _ _ _ _ Ha Hjb E2) as [Hxa Hxb].
    destruct (split_one_against xa t) as [[ya t']| |] eqn:E1; cbn [bind] in H; try discriminate.
    destruct (IH _ _ _ (proj1 Hxa) Ht E1) as [Hya Ht'].
    inversion H; subst. split; [exact (brefines_trans _ _ _ Hxa Hya)|constructor; assumption].
Qed.

Theorem split_all_brefines : forall jas jbs jas' jbs',
  lines_all jas -> lines_all jbs -> split_all jas jbs = Ok (jas', jbs') ->
  Forall2 brefines jas jas' /\ Forall2 brefines jbs jbs'.
Proof.
  induction jas as [|ja t IH]; intros jbs jas' jbs' Ha Hb H; cbn [split_all] in H.
  - inversion H; subst. split; [constructor|].
    apply (Forall2_refl_on _ (fun j => all_lines j = true)); [apply brefines_refl|exact Hb].
  - inversion Ha as [|? ? Hja Ht]; subst.
    destruct (split_one_against ja jbs) as [[xa xbs]| |] eqn:E1; cbn [bind] in H; try discriminate.
    destruct (split_one_against_brefines _ _ _ _ Hja Hb E1) as [Hxa Hxbs].
    destruct (split_all t xbs) as [[t' ybs]| |] eqn:E2; cbn [bind] in H; try discriminate.
    destruct (IH _ _ _ Ht (Forall2_brefines_lines _ _ Hxbs) E2) as [Ht' Hybs].
    inversion H; subst. split; [constructor; assumption|].
    exact (Forall2_trans _ _ _ _ brefines_trans Hxbs Hybs).
Qed.

Lemma Forall2_brefines_bdry : forall js js' p, Forall2 brefines js js' ->
  on_bdry_list js' p -> on_bdry_list js p.
Proof.
  intros js js' p F. induction F as [|j j' js js' Hj _ IH]; intros (x & Hx & Hp).
  - destruct Hx.
  - destruct Hx as [<-|Hx].
    + exists j. split; [left; reflexivity|apply Hj, Hp].
    + destruct IH as (y & Hy & Hq); [exists x; split; assumption|].
      exists y. split; [right; exact Hy|exact Hq].
Qed.

(* the re-split operands of recombine only lose boundary points *)
Theorem recombine_resplit_boundary : forall a b closed inside a' b' new,
  shape_lines a = true -> shape_lines b = true ->
  recombine a b closed inside = Ok (a', b', new) ->
  forall p, (on_bdry_shape a' p -> on_bdry_shape a p) /\ (on_bdry_shape b' p -> on_bdry_shape b p).
Proof.
  intros a b closed inside a' b' new Ha Hb H p.
  destruct (recombine_inv _ _ _ _ _ _ _ H) as (jas & jbs & Es & Ea & Eb & _).
  apply lines_all_iff in Ha, Hb.
  destruct (split_all_brefines _ _ _ _ Ha Hb Es) as [Fa Fb].
  assert (Ja : jordans a' = jas)
    by (subst a'; apply jordans_with_jordans; symmetry; exact (Forall2_length' _ _ _ Fa)).
  assert (Jb : jordans b' = jbs)
    by (subst b'; apply jordans_with_jordans; symmetry; exact (Forall2_length' _ _ _ Fb)).
  unfold on_bdry_shape. rewrite Ja, Jb.
  split; [exact (Forall2_brefines_bdry _ _ p Fa)|exact (Forall2_brefines_bdry _ _ p Fb)].
Qed.

(* ================================================================== *)
(* K2. the new end point of a re-pointed segment is a start point      *)
(* ================================================================== *)
Lemma juncs_snd : forall js c sn, In sn (juncs c js) ->
  snd sn = c \/ exists t, In t js /\ snd sn = first_pt t.
Proof.
  induction js as [|s t IH]; intros c sn H; [destruct H|].
  cbn [juncs] in H. destruct H as [<-|H].
  - cbn [snd]. destruct t as [|s' t']; [left; reflexivity|].
    right. exists s'. split; [right; left; reflexivity|reflexivity].
  - destruct (IH c sn H) as [E|(x & Hx & E)]; [left; exact E|].
    right. exists x. split; [right; exact Hx|exact E].
Qed.

(* r is s with its end point moved to the start point of t *)
Definition joined (s t r : seg) : Prop :=
  pt_eq (last_pt s) (first_pt t) = true /\ r = seg_clean (set_last (first_pt t) s).

Lemma joined_repointed : forall s t r, joined s t r -> repointed s r.
Proof. intros s t r [H1 H2]. exists (first_pt t). split; assumption. Qed.

Theorem from_segments_joined : forall js j, from_segments js = Ok j ->
  forall r, In r j -> exists s t, In s js /\ In t js /\ joined s t r.
Proof.
  intros js j H r Hr. rewrite from_segments_juncs in H. destruct js as [|s0 t].
  - inversion H; subst. destruct Hr.
  - assert (Hfst : forall sn, In sn (juncs (first_pt s0) (s0 :: t)) -> In (fst sn) (s0 :: t))
      by (intros sn; apply juncs_In_fst).
    assert (Hsnd : forall sn, In sn (juncs (first_pt s0) (s0 :: t)) ->
                   exists x, In x (s0 :: t) /\ snd sn = first_pt x).
    { intros sn Hsn. destruct (juncs_snd _ _ _ Hsn) as [E|K]; [|exact K].
      exists s0. split; [left; reflexivity|exact E]. }
    generalize dependent (juncs (first_pt s0) (s0 :: t)). intros jl H Hfst Hsnd.
    apply bind_Ok in H. destruct H as (u & Ht & H). apply assert_Ok in Ht.
    injection H as Ej. rewrite <- Ej in Hr. clear Ej.
    rewrite map_map in Hr. apply in_map_iff in Hr.
    destruct Hr as (sn & <- & Hsn).
    destruct (Hsnd sn Hsn) as (x & Hx & Ex).
    exists (fst sn), x. split; [exact (Hfst sn Hsn)|]. split; [exact Hx|].
    rewrite forallb_forall in Ht. specialize (Ht sn Hsn). unfold jtest in Ht.
    unfold joined, repoint. rewrite <- Ex. split; [exact Ht|reflexivity].
Qed.

Theorem follow_path_joined : forall js starts new, follow_path js starts = Ok new ->
  forall j r, In j new -> In r j ->
  exists j0 s j1 t, In j0 js /\ In s j0 /\ In j1 js /\ In t j1 /\ joined s t r.
Proof.
  intros js starts new H j r Hj Hr. unfold follow_path in H.
  destruct (mapM _ starts) as [paths| |] eqn:Hp; cbn [bind] in H; try discriminate.
  destruct (mapM_ok_in _ _ _ H j Hj) as (idx & Hidx & Hfs).
  apply filter_rotations_incl in Hidx.
  destruct (mapM_ok_in _ _ _ Hp idx Hidx) as (st & _ & Hpp).
  assert (Hin : inrange js idx).
  { eapply pursue_path_inrange; [|exact Hpp]. intros i k []. }
  unfold indexs_to_jordan in Hfs.
  destruct (from_segments_joined _ _ Hfs r Hr) as (s & t & Hs & Ht & Hrs).
  apply in_map_iff in Hs. destruct Hs as ([i k] & <- & Hik).
  apply in_map_iff in Ht. destruct Ht as ([i' k'] & <- & Hik'). cbn [fst snd] in *.
  destruct (Hin i k Hik) as [Hi Hk]. destruct (Hin i' k' Hik') as [Hi' Hk'].
  exists (nth i js []), (nth k (nth i js []) []), (nth i' js []), (nth k' (nth i' js []) []).
  repeat split; try (apply nth_In; assumption); apply Hrs.
Qed.

(* ================================================================== *)
(* K3. boundary inclusion                                              *)
(* ================================================================== *)
(* re-pointing never moves a point: two control points (an end point and a start point of
   segments) of the curves js that Point2D.__eq__ identifies are equal *)
Definition exact_joins_list (js : list jordan) : Prop :=
  forall j1 s j2 t, In j1 js -> In s j1 -> In j2 js -> In t j2 ->
    pt_eq (last_pt s) (first_pt t) = true -> peq (last_pt s) (first_pt t).
Definition exact_joins (a' b' : shape) : Prop := exact_joins_list (jordans a' ++ jordans b').

Lemma joined_on_edge : forall s t r p, is_line s = true -> peq (last_pt s) (first_pt t) ->
  joined s t r ->
  on_edge (first_pt r) (last_pt r) p = on_edge (first_pt s) (last_pt s) p.
Proof.
  intros s t r p Hl E [_ ->]. destruct (Quadrature.is_line_inv s Hl) as (a & b & ->).
  cbn [set_last removelast app]. rewrite Construct.seg_clean_line.
  cbn [first_pt last_pt hd last] in *.
  apply Affine.on_edge_peq3;
    [apply BezierFacts.peq_refl|apply BezierFacts.peq_sym; exact E|apply BezierFacts.peq_refl].
Qed.

Theorem follow_path_boundary : forall js starts new,
  Forall (fun j => all_lines j = true) js -> exact_joins_list js ->
  follow_path js starts = Ok new ->
  forall p, on_bdry_list new p -> on_bdry_list js p.
Proof.
  intros js starts new Hl Hx H p (j & Hj & Hb). rewrite Forall_forall in Hl.
  unfold on_boundary in Hb. apply existsb_exists in Hb. destruct Hb as (r & Hr & He).
  destruct (follow_path_joined js starts new H j r Hj Hr)
    as (j0 & s & j1 & t & Hj0 & Hs & Hj1 & Ht & Hrs).
  assert (Ls : is_line s = true).
  { specialize (Hl j0 Hj0). unfold all_lines in Hl. rewrite forallb_forall in Hl. apply Hl, Hs. }
  pose proof (Hx j0 s j1 t Hj0 Hs Hj1 Ht (proj1 Hrs)) as E.
  rewrite (joined_on_edge s t r p Ls E Hrs) in He.
  exists j0. split; [exact Hj0|]. unfold on_boundary. apply existsb_exists.
  exists s. split; assumption.
Qed.

(* the curves FollowPath assembles lie on the boundaries of the re-split operands, hence of
   the operands *)
Theorem recombine_boundary : forall a b closed inside a' b' new,
  shape_lines a = true -> shape_lines b = true ->
  recombine a b closed inside = Ok (a', b', new) -> exact_joins a' b' ->
  forall p, on_bdry_list new p -> on_bdry_shape a p \/ on_bdry_shape b p.
Proof.
  intros a b closed inside a' b' new Ha Hb H Hx p Hp.
  destruct (recombine_operands _ _ _ _ _ _ _ Ha Hb H) as (La & Lb & Ef & _).
  destruct (recombine_resplit_boundary _ _ _ _ _ _ _ Ha Hb H p) as [Ra Rb].
  assert (Hl : Forall (fun j => all_lines j = true) (jordans a' ++ jordans b')).
  { apply Forall_forall. intros j Hj. unfold shape_lines in La, Lb.
    rewrite forallb_forall in La, Lb. apply in_app_iff in Hj. destruct Hj; auto. }
  destruct (follow_path_boundary _ _ _ Hl Hx Ef p Hp) as (j & Hj & Hq).
  apply in_app_iff in Hj. destruct Hj as [Hj|Hj].
  - left. apply Ra. exists j. split; assumption.
  - right. apply Rb. exists j. split; assumption.
Qed.

Lemma copy_shape_boundary : forall s s' p, copy_shape s = Ok s' ->
  on_bdry_shape s' p -> on_bdry_shape s p.
Proof.
  intros s s' p H. destruct (copy_shape_spec s s' H) as (_ & _ & _ & HP).
  exact (on_bdry_list_perm _ _ p HP).
Qed.

Lemma shape_from_jordans_boundary : forall js s p, shape_from_jordans js = Ok s ->
  on_bdry_shape s p -> on_bdry_list js p.
Proof.
  intros js s p H. exact (on_bdry_list_perm _ _ p (shape_from_jordans_perm js s H)).
Qed.

Lemma no_bdry_empty : forall p, ~ on_bdry_shape SEmpty p.
Proof. intros p (j & [] & _). Qed.
Lemma no_bdry_whole : forall p, ~ on_bdry_shape SWhole p.
Proof. intros p (j & [] & _). Qed.

Lemma gen_branch_boundary : forall a b ca cb closed inside dflt a' b' s,
  gen_branch a b ca cb closed inside dflt = Ok (a', b', s) ->
  shape_lines a = true -> shape_lines b = true -> exact_joins a' b' ->
  (forall p, on_bdry_shape ca p -> on_bdry_shape a p \/ on_bdry_shape b p) ->
  (forall p, on_bdry_shape cb p -> on_bdry_shape a p \/ on_bdry_shape b p) ->
  (forall p, ~ on_bdry_shape dflt p) ->
  forall p, on_bdry_shape s p -> on_bdry_shape a p \/ on_bdry_shape b p.
Proof.
  intros a b ca cb closed inside dflt a' b' s H La Lb Hx Hca Hcb Hd p Hp.
  destruct (gen_branch_cases _ _ _ _ _ _ _ _ _ _ H) as [(_ & _ & [Ec|Ec])|(new & Er & Hs)].
  - apply Hca. exact (copy_shape_boundary _ _ p Ec Hp).
  - apply Hcb. exact (copy_shape_boundary _ _ p Ec Hp).
  - destruct Hs as [[_ ->]|Es]; [destruct (Hd p Hp)|].
    apply (recombine_boundary _ _ _ _ _ _ _ La Lb Er Hx).
    exact (shape_from_jordans_boundary _ _ p Es Hp).
Qed.

(* (1) the boundary of a | b lies in the union of the boundaries of a and b *)
Theorem op_or_boundary_sub : forall a b a' b' s, op_or a b = Ok (a', b', s) ->
  shape_lines a = true -> shape_lines b = true -> exact_joins a' b' ->
  forall p, on_bdry_shape s p -> on_bdry_shape a p \/ on_bdry_shape b p.
Proof.
  intros a b a' b' s H La Lb Hx p Hp.
  destruct (shape_singleton_dec a) as [-> | [-> | [Ha1 Ha2]]].
  - rewrite op_or_empty_l in H.
    destruct (copy_shape b) as [c| |] eqn:Ec; cbn [bind] in H; try discriminate.
    inversion H; subst. right. exact (copy_shape_boundary _ _ p Ec Hp).
  - rewrite op_or_whole_l in H. inversion H; subst. destruct (no_bdry_whole p Hp).
  - destruct (shape_singleton_dec b) as [-> | [-> | [Hb1 Hb2]]].
    + rewrite op_or_empty_r in H.
      destruct (copy_shape a) as [c| |] eqn:Ec; cbn [bind] in H; try discriminate.
      inversion H; subst. left. exact (copy_shape_boundary _ _ p Ec Hp).
    + rewrite op_or_whole_r in H. inversion H; subst. destruct (no_bdry_whole p Hp).
    + rewrite op_or_general in H by assumption.
      apply (gen_branch_boundary _ _ _ _ _ _ _ _ _ _ H La Lb Hx); auto.
      exact no_bdry_whole.
Qed.

Theorem op_and_boundary_sub : forall a b a' b' s, op_and a b = Ok (a', b', s) ->
  shape_lines a = true -> shape_lines b = true -> exact_joins a' b' ->
  forall p, on_bdry_shape s p -> on_bdry_shape a p \/ on_bdry_shape b p.
Proof.
  intros a b a' b' s H La Lb Hx p Hp.
  destruct (shape_singleton_dec a) as [-> | [-> | [Ha1 Ha2]]].
  - rewrite op_and_empty_l in H. inversion H; subst. destruct (no_bdry_empty p Hp).
  - rewrite op_and_whole_l in H.
    destruct (copy_shape b) as [c| |] eqn:Ec; cbn [bind] in H; try discriminate.
    inversion H; subst. right. exact (copy_shape_boundary _ _ p Ec Hp).
  - destruct (shape_singleton_dec b) as [-> | [-> | [Hb1 Hb2]]].
    + rewrite op_and_empty_r in H. inversion H; subst. destruct (no_bdry_empty p Hp).
    + rewrite op_and_whole_r in H.
      destruct (copy_shape a) as [c| |] eqn:Ec; cbn [bind] in H; try discriminate.
      inversion H; subst. left. exact (copy_shape_boundary _ _ p Ec Hp).
    + rewrite op_and_general in H by assumption.
      apply (gen_branch_boundary _ _ _ _ _ _ _ _ _ _ H La Lb Hx); auto.
      exact no_bdry_empty.
Qed.

(* ================================================================== *)
(* K4. cell-wise constancy                                             *)
(* ================================================================== *)
(* region is a function of the region_simple of the curves *)
Lemma region_comp_congr : forall c p q,
  (forall j, In j (comp_jordans c) -> region_simple j p = region_simple j q) ->
  region_comp c p = region_comp c q.
Proof.
  intros [j|js] p q H; cbn [region_comp comp_jordans] in *.
  - apply H. left. reflexivity.
  - induction js as [|j js IH]; [reflexivity|]. cbn [fold_right].
    rewrite (H j (or_introl eq_refl)), IH; [reflexivity|].
    intros j' Hj'. apply H. right. exact Hj'.
Qed.

Theorem region_congr : forall s p q,
  (forall j, In j (jordans s) -> region_simple j p = region_simple j q) ->
  region s p = region s q.
Proof.
  intros [| |c|cs] p q H; cbn [region jordans] in *; try reflexivity.
  - apply region_comp_congr. exact H.
  - induction cs as [|c cs IH]; [reflexivity|]. cbn [fold_right map concat] in *.
    rewrite (region_comp_congr c p q), IH; [reflexivity| |].
    + intros j Hj. apply H. apply in_or_app. right. exact Hj.
    + intros j Hj. apply H. apply in_or_app. left. exact Hj.
Qed.

(* the closed straight segment from p to q meets neither operand's boundary *)
Definition seg_clear (a b : shape) (p q : point) : Prop :=
  forall t, 0 <= t -> t <= 1 ->
    ~ on_bdry_shape a (Winding.lerp_pt p q t) /\ ~ on_bdry_shape b (Winding.lerp_pt p q t).

(* the abstract step: a shape of closed curves whose boundary lies in the boundaries of a, b
   has the same region at the two ends of a segment that is clear of a and b *)
Theorem region_cellwise : forall a b s p q,
  closed_all (jordans s) ->
  (forall x, on_bdry_shape s x -> on_bdry_shape a x \/ on_bdry_shape b x) ->
  seg_clear a b p q -> region s p = region s q.
Proof.
  intros a b s p q Hc Hsub Hclear. apply region_congr. intros j Hj.
  unfold closed_all in Hc. rewrite Forall_forall in Hc.
  apply (region_simple_move j p q (Hc j Hj)). intros t T0 T1.
  destruct (on_boundary j (Winding.lerp_pt p q t)) eqn:E; [exfalso|reflexivity].
  destruct (Hclear t T0 T1) as [Na Nb].
  destruct (Hsub (Winding.lerp_pt p q t)) as [K|K]; [exists j; split; assumption|tauto|tauto].
Qed.

(* every curve of the result has the same winding number at p and q *)
Theorem wn_cellwise : forall a b s p q,
  closed_all (jordans s) ->
  (forall x, on_bdry_shape s x -> on_bdry_shape a x \/ on_bdry_shape b x) ->
  seg_clear a b p q ->
  forall j, In j (jordans s) -> wn_lines j p = wn_lines j q.
Proof.
  intros a b s p q Hc Hsub Hclear j Hj.
  unfold closed_all in Hc. rewrite Forall_forall in Hc.
  apply (wn_lines_move j p q (Hc j Hj)). intros t T0 T1.
  destruct (on_boundary j (Winding.lerp_pt p q t)) eqn:E; [exfalso|reflexivity].
  destruct (Hclear t T0 T1) as [Na Nb].
  destruct (Hsub (Winding.lerp_pt p q t)) as [K|K]; [exists j; split; assumption|tauto|tauto].
Qed.

(* (2) a | b and a & b are unions of cells of the arrangement of the two boundaries *)
Theorem op_or_cellwise : forall a b a' b' s p q, op_or a b = Ok (a', b', s) ->
  shape_lines a = true -> shape_lines b = true ->
  good (jordans a) -> good (jordans b) -> exact_joins a' b' ->
  seg_clear a b p q -> region s p = region s q.
Proof.
  intros a b a' b' s p q H La Lb Ga Gb Hx Hclear.
  destruct (op_or_good _ _ _ _ _ H Ga Gb) as [_ [_ Hc]].
  exact (region_cellwise a b s p q Hc (op_or_boundary_sub _ _ _ _ _ H La Lb Hx) Hclear).
Qed.

Theorem op_and_cellwise : forall a b a' b' s p q, op_and a b = Ok (a', b', s) ->
  shape_lines a = true -> shape_lines b = true ->
  good (jordans a) -> good (jordans b) -> exact_joins a' b' ->
  seg_clear a b p q -> region s p = region s q.
Proof.
  intros a b a' b' s p q H La Lb Ga Gb Hx Hclear.
  destruct (op_and_good _ _ _ _ _ H Ga Gb) as [_ [_ Hc]].
  exact (region_cellwise a b s p q Hc (op_and_boundary_sub _ _ _ _ _ H La Lb Hx) Hclear).
Qed.

Theorem op_or_wn_cellwise : forall a b a' b' s p q, op_or a b = Ok (a', b', s) ->
  shape_lines a = true -> shape_lines b = true ->
  good (jordans a) -> good (jordans b) -> exact_joins a' b' ->
  seg_clear a b p q -> forall j, In j (jordans s) -> wn_lines j p = wn_lines j q.
Proof.
  intros a b a' b' s p q H La Lb Ga Gb Hx Hclear.
  destruct (op_or_good _ _ _ _ _ H Ga Gb) as [_ [_ Hc]].
  exact (wn_cellwise a b s p q Hc (op_or_boundary_sub _ _ _ _ _ H La Lb Hx) Hclear).
Qed.

Theorem op_and_wn_cellwise : forall a b a' b' s p q, op_and a b = Ok (a', b', s) ->
  shape_lines a = true -> shape_lines b = true ->
  good (jordans a) -> good (jordans b) -> exact_joins a' b' ->
  seg_clear a b p q -> forall j, In j (jordans s) -> wn_lines j p = wn_lines j q.
Proof.
  intros a b a' b' s p q H La Lb Ga Gb Hx Hclear.
  destruct (op_and_good _ _ _ _ _ H Ga Gb) as [_ [_ Hc]].
  exact (wn_cellwise a b s p q Hc (op_and_boundary_sub _ _ _ _ _ H La Lb Hx) Hclear).
Qed.

(* cells: two points joined by a polyline that is clear of both boundaries *)
Fixpoint poly_clear (a b : shape) (l : list point) : Prop :=
  match l with
  | x :: ((y :: _) as t) => seg_clear a b x y /\ poly_clear a b t
  | _ => True
  end.

Lemma cellwise_polyline : forall a b (f : point -> reg),
  (forall p q, seg_clear a b p q -> f p = f q) ->
  forall l p, poly_clear a b (p :: l) -> f p = f (last l p).
Proof.
  intros a b f Hf. induction l as [|x l IH]; intros p H; [reflexivity|].
  change (seg_clear a b p x /\ poly_clear a b (x :: l)) in H. destruct H as [H1 H2].
  rewrite Constancy.last_cons, (Hf p x H1). apply IH. exact H2.
Qed.

Theorem op_or_cellwise_polyline : forall a b a' b' s l p, op_or a b = Ok (a', b', s) ->
  shape_lines a = true -> shape_lines b = true ->
  good (jordans a) -> good (jordans b) -> exact_joins a' b' ->
  poly_clear a b (p :: l) -> region s p = region s (last l p).
Proof.
  intros a b a' b' s l p H La Lb Ga Gb Hx Hl.
  apply (cellwise_polyline a b (region s)); [|exact Hl].
  intros x y Hxy. exact (op_or_cellwise _ _ _ _ _ x y H La Lb Ga Gb Hx Hxy).
Qed.

Theorem op_and_cellwise_polyline : forall a b a' b' s l p, op_and a b = Ok (a', b', s) ->
  shape_lines a = true -> shape_lines b = true ->
  good (jordans a) -> good (jordans b) -> exact_joins a' b' ->
  poly_clear a b (p :: l) -> region s p = region s (last l p).
Proof.
  intros a b a' b' s l p H La Lb Ga Gb Hx Hl.
  apply (cellwise_polyline a b (region s)); [|exact Hl].
  intros x y Hxy. exact (op_and_cellwise _ _ _ _ _ x y H La Lb Ga Gb Hx Hxy).
Qed.

(* ================================================================== *)
(* a checkable form of [exact_joins], and non-vacuity                  *)
(* ================================================================== *)
Definition exact_joinsb (js : list jordan) : bool :=
  let segs := concat js in
  forallb (fun s => forallb (fun t =>
             implb (pt_eq (last_pt s) (first_pt t)) (peqb (last_pt s) (first_pt t))) segs) segs.

Lemma exact_joinsb_sound : forall js, exact_joinsb js = true -> exact_joins_list js.
Proof.
  intros js H j1 s j2 t Hj1 Hs Hj2 Ht E. unfold exact_joinsb in H.
  rewrite forallb_forall in H.
  assert (Is : In s (concat js)) by (apply in_concat; exists j1; split; assumption).
  assert (It : In t (concat js)) by (apply in_concat; exists j2; split; assumption).
  specialize (H s Is). rewrite forallb_forall in H. specialize (H t It).
  rewrite E in H. cbn [implb] in H. apply Construct.peqb_peq. exact H.
Qed.

(* the two overlapping squares of Measure.v: general branch, exact joins, and a segment
   inside A \ B that is clear of both boundaries *)
Lemma ex_sq_off : forall x0 y0 x1 y1 r,
  (px r < x0 /\ px r < x1) \/ (x0 < px r /\ x1 < px r) \/
  (py r < y0 /\ py r < y1) \/ (y0 < py r /\ y1 < py r) \/
  (x0 < px r /\ px r < x1 /\ y0 < py r /\ py r < y1) ->
  ~ on_bdry_shape (SC (CS (ex_sq x0 y0 x1 y1))) r.
Proof.
  intros x0 y0 x1 y1 r Hr (j & Hj & Hb). cbn [jordans comp_jordans In] in Hj.
  destruct Hj as [<-|[]]. unfold on_boundary in Hb. apply existsb_exists in Hb.
  destruct Hb as (s & Hs & E). apply on_edge_iff in E. destruct E as (_ & BX & BY).
  unfold betw in BX, BY. unfold ex_sq in Hs. cbn [In] in Hs.
  repeat match goal with H : _ \/ _ |- _ => destruct H as [H|H] end;
    try contradiction; subst s; cbn [first_pt last_pt hd last px py fst snd] in BX, BY; lra.
Qed.

Example ex_seg_clear : seg_clear exA exB (1 # 2, 1 # 2) (1 # 2, 3 # 2).
Proof.
  intros t T0 T1. split; apply ex_sq_off; unfold Winding.lerp_pt; cbn [px py fst snd].
  - right. right. right. right. repeat split; lra.
  - left. split; lra.
Qed.

Lemma ex_good : forall x0 y0 x1 y1, good (jordans (SC (CS (ex_sq x0 y0 x1 y1)))).
Proof.
  intros x0 y0 x1 y1. split.
  - intros j s [<-|[]] Hs. unfold ex_sq in Hs. cbn [In] in Hs.
    repeat match goal with H : _ \/ _ |- _ => destruct H as [H|H] end;
      try contradiction; subst s; cbn [length]; lia.
  - constructor; [|constructor]. unfold ex_sq, closed_chain.
    cbn [chain_ok first_pt last_pt hd last]. unfold peqb.
    cbn [px py fst snd]. rewrite !Qeq_bool_refl. reflexivity.
Qed.

Example ex_cells :
  exists a' b' s, op_or exA exB = Ok (a', b', s) /\ exact_joins a' b' /\
    region s (1 # 2, 1 # 2) = region s (1 # 2, 3 # 2).
Proof.
  destruct (op_or exA exB) as [[[a' b'] s]| |] eqn:EU;
    [|exfalso; vm_compute in EU; discriminate EU..].
  exists a', b', s. split; [reflexivity|].
  assert (Hx : exact_joins a' b').
  { apply exact_joinsb_sound.
    assert (K : match op_or exA exB with
                | Ok (x, y, _) => exact_joinsb (jordans x ++ jordans y) = true
                | _ => True end) by (vm_compute; reflexivity).
    rewrite EU in K. exact K. }
  split; [exact Hx|].
  apply (op_or_cellwise exA exB a' b' s _ _ EU); try reflexivity; try apply ex_good;
    [exact Hx|exact ex_seg_clear].
Qed.

Print Assumptions split_boundary.
Print Assumptions recombine_resplit_boundary.
Print Assumptions follow_path_joined.
Print Assumptions recombine_boundary.
Print Assumptions op_or_boundary_sub.
Print Assumptions op_and_boundary_sub.
Print Assumptions region_congr.
Print Assumptions op_or_cellwise.
Print Assumptions op_and_cellwise.
Print Assumptions op_or_wn_cellwise.
Print Assumptions op_and_wn_cellwise.
Print Assumptions op_or_cellwise_polyline.
Print Assumptions op_and_cellwise_polyline.
Print Assumptions ex_cells.
