(* Translate.v -- C12, the operator pipeline as a whole: for polygonal shapes whose curves are
   non-empty closed chains, every operator of the model commutes with every translation,
   T(A) op T(B) = T(A op B) up to == on coordinates (the model does not normalise every
   rational).  Proved for |, &, -, ^, ~, copy, contains_point, contains_shape (B in A), shape_eq.

   Method: a logical relation [prel v p q] (q is p moved by v, up to ==) lifted to straight
   segments (lrel), curves (jrel), components (crel), shapes (shrel) and results (rrel); one
   lemma per model function, bottom-up along the call graph: vector algebra, boxes, lines /
   seg_and / intersection (rows are EQUAL: parameters are invariant and Qred-normalised), split,
   split_two_jordans / split_all, projection and the 1e-6 test on_seg, winding numbers, area,
   contains_point, midpoints, pursue_path / follow_path, recombine, simple_has_jordan /
   contains_shape, grow_group / divide_connecteds / shape_from_jordans, the short-cuts and the
   five operators, clean / unite / jordan_eq / shape_eq.  v = 0 gives compatibility of the
   whole pipeline with == on coordinates (op_or_compat).

   Hypotheses of the final theorems (both decidable, both necessary):
     shape_lines s  = true : every segment is straight (two control points);
     shape_chains s = true : every curve is a NON-EMPTY CLOSED chain (closed_chain, up to ==).
   Closedness is needed because jordan_area (int x dy, used by jordan_pos, the sorts and the
   short-cuts) is translation invariant on closed chains only
   (open_chain_not_translation_invariant); non-emptiness because jordan_box [] = (0,0,0,0)
   wherever the shape is (empty_curve_not_translation_invariant).  Both are preserved by the
   operators (the relations sg / op3_rel carry them), so the theorems compose (op_xor).
   No function of the model compares an absolute coordinate with a constant otherwise. *)
From Coq Require Import QArith ZArith List Bool Lia Lqa Setoid Morphisms Permutation Arith.
From SV Require Import Spec.Spec.
From SV Require Import Lemmas.Lines Lemmas.SplitClean Lemmas.Quadrature Lemmas.Equivariance
  Lemmas.Fuel Lemmas.Construct.
From SV Require Lemmas.Measure.
Import ListNotations.
Open Scope Q_scope.

(* ------------------------------------------------------------------ *)
(* 0. == on Q under the model's tests                                  *)
(* ------------------------------------------------------------------ *)
Global Instance Qlt_bool_P : Proper (Qeq ==> Qeq ==> eq) Qlt_bool.
Proof. intros a a' Ha b b' Hb. unfold Qlt_bool. rewrite Ha, Hb. reflexivity. Qed.
Global Instance Qmin'_P : Proper (Qeq ==> Qeq ==> Qeq) Qmin'.
Proof. intros a a' Ha b b' Hb. unfold Qmin'. rewrite Ha, Hb. destruct (Qle_bool a' b'); assumption. Qed.
Global Instance Qmax'_P : Proper (Qeq ==> Qeq ==> Qeq) Qmax'.
Proof. intros a a' Ha b b' Hb. unfold Qmax'. rewrite Ha, Hb. destruct (Qle_bool a' b'); assumption. Qed.
Global Instance Qabs'_P : Proper (Qeq ==> Qeq) Qabs'.
Proof. intros a a' Ha. unfold Qabs'. rewrite Ha. destruct (Qle_bool 0 a'); rewrite Ha; reflexivity. Qed.

Lemma Qmin'_shift : forall a b d, Qmin' (a + d) (b + d) == Qmin' a b + d.
Proof.
  intros a b d. unfold Qmin'.
  rewrite (Qle_bool_ext (a + d) (b + d) a b) by (split; intro; lra).
  destruct (Qle_bool a b); reflexivity.
Qed.
Lemma Qmax'_shift : forall a b d, Qmax' (a + d) (b + d) == Qmax' a b + d.
Proof.
  intros a b d. unfold Qmax'.
  rewrite (Qle_bool_ext (a + d) (b + d) a b) by (split; intro; lra).
  destruct (Qle_bool a b); reflexivity.
Qed.
Lemma Qred_eq : forall a b, a == b -> Qred a = Qred b.
Proof. intros. apply Qred_complete. assumption. Qed.

(* ------------------------------------------------------------------ *)
(* 1. the relation                                                     *)
(* ------------------------------------------------------------------ *)
Definition rrel {A B} (R : A -> B -> Prop) (r : res A) (r' : res B) : Prop :=
  match r, r' with
  | Ok a, Ok b => R a b
  | Err k, Err k' => k = k'
  | NoFuel, NoFuel => True
  | _, _ => False
  end.

Lemma rrel_bind : forall {A B C D} (R : A -> B -> Prop) (S : C -> D -> Prop)
  (r : res A) (r' : res B) (f : A -> res C) (f' : B -> res D),
  rrel R r r' -> (forall a b, R a b -> rrel S (f a) (f' b)) -> rrel S (bind r f) (bind r' f').
Proof.
  intros A B C D R S r r' f f' H Hf. destruct r, r'; cbn in *; try contradiction; auto.
Qed.
Lemma rrel_eq : forall {A} (r r' : res A), rrel eq r r' -> r' = r.
Proof. intros A [a|k|] [b|k'|] H; cbn in H; try contradiction; congruence. Qed.
Lemma rrel_refl : forall {A} (r : res A), rrel eq r r.
Proof. intros A [a|k|]; cbn; auto. Qed.
Lemma rrel_impl : forall {A B} (R S : A -> B -> Prop) r r',
  (forall a b, R a b -> S a b) -> rrel R r r' -> rrel S r r'.
Proof. intros A B R S [a|k|] [b|k'|] H; cbn; auto. Qed.

Lemma mapM_rel : forall {A B C D} (R : A -> B -> Prop) (S : C -> D -> Prop)
  (f : A -> res C) (f' : B -> res D) l l',
  Forall2 R l l' -> (forall a b, R a b -> rrel S (f a) (f' b)) ->
  rrel (Forall2 S) (mapM f l) (mapM f' l').
Proof.
  intros A B C D R S f f' l l' F Hf. induction F as [|a b l l' Hab F IH]; cbn [mapM].
  - constructor.
  - eapply rrel_bind; [apply Hf, Hab|]. intros y y' Hy.
    eapply rrel_bind; [exact IH|]. intros ys ys' Hys. cbn. constructor; assumption.
Qed.
Lemma forallM_rel : forall {A B} (R : A -> B -> Prop) (f : A -> res bool) (f' : B -> res bool) l l',
  Forall2 R l l' -> (forall a b, R a b -> f' b = f a) -> forallM f' l' = forallM f l.
Proof.
  intros A B R f f' l l' F Hf. induction F as [|a b l l' Hab F IH]; cbn [forallM]; [reflexivity|].
  rewrite (Hf _ _ Hab), IH. reflexivity.
Qed.
Lemma existsM_rel : forall {A B} (R : A -> B -> Prop) (f : A -> res bool) (f' : B -> res bool) l l',
  Forall2 R l l' -> (forall a b, R a b -> f' b = f a) -> existsM f' l' = existsM f l.
Proof.
  intros A B R f f' l l' F Hf. induction F as [|a b l l' Hab F IH]; cbn [existsM]; [reflexivity|].
  rewrite (Hf _ _ Hab), IH. reflexivity.
Qed.

(* generic Forall2 plumbing *)
Lemma F2_length : forall {A B} (R : A -> B -> Prop) l l', Forall2 R l l' -> length l' = length l.
Proof. intros A B R l l' F. induction F; cbn; congruence. Qed.
Lemma F2_eq : forall {A} (l l' : list A), Forall2 eq l l' -> l' = l.
Proof. intros A l l' F. induction F; congruence. Qed.
Lemma F2_map : forall {A B C D} (R : A -> B -> Prop) (S : C -> D -> Prop) (f : A -> C) (f' : B -> D) l l',
  Forall2 R l l' -> (forall a b, R a b -> S (f a) (f' b)) -> Forall2 S (map f l) (map f' l').
Proof. intros A B C D R S f f' l l' F Hf. induction F; cbn [map]; constructor; auto. Qed.
Lemma F2_map_eq : forall {A B C} (R : A -> B -> Prop) (f : A -> C) (f' : B -> C) l l',
  Forall2 R l l' -> (forall a b, R a b -> f' b = f a) -> map f' l' = map f l.
Proof. intros A B C R f f' l l' F Hf. induction F; cbn [map]; [reflexivity|]. rewrite IHF, (Hf _ _ H). reflexivity. Qed.
Lemma F2_app : forall {A B} (R : A -> B -> Prop) l1 l1' l2 l2',
  Forall2 R l1 l1' -> Forall2 R l2 l2' -> Forall2 R (l1 ++ l2) (l1' ++ l2').
Proof. intros. apply Forall2_app; assumption. Qed.
Lemma F2_rev : forall {A B} (R : A -> B -> Prop) l l', Forall2 R l l' -> Forall2 R (rev l) (rev l').
Proof.
  intros A B R l l' F. induction F; cbn [rev]; [constructor|].
  apply Forall2_app; [assumption|]. constructor; [assumption|constructor].
Qed.
Lemma F2_concat : forall {A B} (R : A -> B -> Prop) l l',
  Forall2 (Forall2 R) l l' -> Forall2 R (concat l) (concat l').
Proof. intros A B R l l' F. induction F; cbn [concat]; [constructor|]. apply Forall2_app; assumption. Qed.
Lemma F2_nth : forall {A B} (R : A -> B -> Prop) l l' d d' n,
  Forall2 R l l' -> R d d' -> R (nth n l d) (nth n l' d').
Proof.
  intros A B R l l' d d' n F Hd. revert n. induction F; intros [|n]; cbn [nth]; auto.
Qed.
Lemma F2_nth_error : forall {A B} (R : A -> B -> Prop) l l' n,
  Forall2 R l l' ->
  match nth_error l n, nth_error l' n with
  | Some a, Some b => R a b
  | None, None => True
  | _, _ => False
  end.
Proof.
  intros A B R l l' n F. revert n. induction F as [|a b l l' Hab F IH]; intros [|n]; cbn [nth_error];
    try exact I; [exact Hab|apply IH].
Qed.
Lemma F2_hd : forall {A B} (R : A -> B -> Prop) l l' d d',
  Forall2 R l l' -> R d d' -> R (hd d l) (hd d' l').
Proof. intros A B R l l' d d' F Hd. destruct F; cbn; auto. Qed.
Lemma F2_tl : forall {A B} (R : A -> B -> Prop) l l', Forall2 R l l' -> Forall2 R (tl l) (tl l').
Proof. intros A B R l l' F. destruct F; cbn; auto. Qed.
Lemma F2_last : forall {A B} (R : A -> B -> Prop) l l' d d',
  Forall2 R l l' -> R d d' -> R (last l d) (last l' d').
Proof.
  intros A B R l l' d d' F Hd. induction F as [|a b l l' Hab F IH]; cbn [last]; [assumption|].
  destruct F; [assumption|exact IH].
Qed.
Lemma F2_removelast : forall {A B} (R : A -> B -> Prop) l l',
  Forall2 R l l' -> Forall2 R (removelast l) (removelast l').
Proof.
  intros A B R l l' F. induction F as [|a b l l' Hab F IH]; cbn [removelast]; [constructor|].
  destruct F; [constructor|]. constructor; assumption.
Qed.
Lemma F2_firstn : forall {A B} (R : A -> B -> Prop) n l l',
  Forall2 R l l' -> Forall2 R (firstn n l) (firstn n l').
Proof. intros A B R n l l' F. revert n. induction F; intros [|n]; cbn [firstn]; constructor; auto. Qed.
Lemma F2_skipn : forall {A B} (R : A -> B -> Prop) n l l',
  Forall2 R l l' -> Forall2 R (skipn n l) (skipn n l').
Proof. intros A B R n l l' F. revert n. induction F; intros [|n]; cbn [skipn]; try constructor; auto. Qed.
Lemma F2_set_nth : forall {A B} (R : A -> B -> Prop) n x x' l l',
  Forall2 R l l' -> R x x' -> Forall2 R (set_nth n x l) (set_nth n x' l').
Proof.
  intros A B R n x x' l l' F Hx. revert n. induction F; intros [|n]; cbn [set_nth]; constructor; auto.
Qed.
Lemma F2_remove_nth : forall {A B} (R : A -> B -> Prop) n l l',
  Forall2 R l l' -> Forall2 R (remove_nth n l) (remove_nth n l').
Proof.
  intros A B R n l l' F. revert n. induction F; intros [|n]; cbn [remove_nth]; try constructor; auto.
Qed.
Lemma F2_combine_seq : forall {A B} (R : A -> B -> Prop) l l' k,
  Forall2 R l l' ->
  Forall2 (fun x y => fst y = fst x /\ R (snd x) (snd y)) (combine (seq k (length l)) l)
          (combine (seq k (length l')) l').
Proof.
  intros A B R l l' k F. revert k. induction F; intros k; cbn [length seq combine]; constructor; auto.
Qed.
Lemma F2_combine : forall {A B C D} (R : A -> B -> Prop) (S : C -> D -> Prop) l l' m m',
  Forall2 R l l' -> Forall2 S m m' ->
  Forall2 (fun x y => R (fst x) (fst y) /\ S (snd x) (snd y)) (combine l m) (combine l' m').
Proof.
  intros A B C D R S l l' m m' F. revert m m'. induction F; intros m m' G; cbn [combine]; [constructor|].
  destruct G; constructor; auto.
Qed.
Lemma F2_filter : forall {A B} (R : A -> B -> Prop) (f : A -> bool) (f' : B -> bool) l l',
  Forall2 R l l' -> (forall a b, R a b -> f' b = f a) ->
  Forall2 R (filter f l) (filter f' l').
Proof.
  intros A B R f f' l l' F Hf. induction F as [|a b l l' Hab F IH]; cbn [filter]; [constructor|].
  rewrite (Hf _ _ Hab). destruct (f a); [constructor|]; assumption.
Qed.
Lemma F2_forallb : forall {A B} (R : A -> B -> Prop) (f : A -> bool) (f' : B -> bool) l l',
  Forall2 R l l' -> (forall a b, R a b -> f' b = f a) -> forallb f' l' = forallb f l.
Proof.
  intros A B R f f' l l' F Hf. induction F as [|a b l l' Hab F IH]; cbn [forallb]; [reflexivity|].
  rewrite (Hf _ _ Hab), IH. reflexivity.
Qed.
Lemma F2_existsb : forall {A B} (R : A -> B -> Prop) (f : A -> bool) (f' : B -> bool) l l',
  Forall2 R l l' -> (forall a b, R a b -> f' b = f a) -> existsb f' l' = existsb f l.
Proof.
  intros A B R f f' l l' F Hf. induction F as [|a b l l' Hab F IH]; cbn [existsb]; [reflexivity|].
  rewrite (Hf _ _ Hab), IH. reflexivity.
Qed.
Lemma F2_index_where : forall {A B} (R : A -> B -> Prop) (f : A -> bool) (f' : B -> bool) l l',
  Forall2 R l l' -> (forall a b, R a b -> f' b = f a) -> index_where f' l' = index_where f l.
Proof.
  intros A B R f f' l l' F Hf. induction F as [|a b l l' Hab F IH]; cbn [index_where]; [reflexivity|].
  rewrite (Hf _ _ Hab), IH. reflexivity.
Qed.
Lemma F2_insert_sorted : forall {A B} (R : A -> B -> Prop) (le : A -> A -> bool) (le' : B -> B -> bool),
  (forall a b c d, R a b -> R c d -> le' b d = le a c) ->
  forall x x' l l', R x x' -> Forall2 R l l' ->
  Forall2 R (insert_sorted le x l) (insert_sorted le' x' l').
Proof.
  intros A B R le le' Hle x x' l l' Hx F. induction F as [|a b l l' Hab F IH]; cbn [insert_sorted].
  - constructor; [assumption|constructor].
  - rewrite (Hle _ _ _ _ Hx Hab). destruct (le x a).
    + constructor; [assumption|]. constructor; assumption.
    + constructor; assumption.
Qed.
Lemma F2_sort_by : forall {A B} (R : A -> B -> Prop) (le : A -> A -> bool) (le' : B -> B -> bool),
  (forall a b c d, R a b -> R c d -> le' b d = le a c) ->
  forall l l', Forall2 R l l' -> Forall2 R (sort_by le l) (sort_by le' l').
Proof.
  intros A B R le le' Hle l l' F. unfold sort_by. induction F; cbn [fold_right]; [constructor|].
  apply F2_insert_sorted; assumption.
Qed.
Lemma F2_In : forall {A B} (R : A -> B -> Prop) l l' a, Forall2 R l l' -> In a l -> exists b, In b l' /\ R a b.
Proof.
  intros A B R l l' a F. induction F as [|x y l l' Hxy F IH]; intros H; [contradiction|].
  destruct H as [<-|H]; [exists y; split; [left; reflexivity|assumption]|].
  destruct (IH H) as (b & Hb & Hr). exists b. split; [right|]; assumption.
Qed.
Lemma F2_Forall : forall {A B} (R : A -> B -> Prop) (P : A -> Prop) (Q : B -> Prop) l l',
  Forall2 R l l' -> (forall a b, R a b -> P a -> Q b) -> Forall P l -> Forall Q l'.
Proof.
  intros A B R P Q l l' F H. induction F; intros HP; constructor; inversion HP; subst; eauto.
Qed.

Section Translate.
Variable v : point.

Definition prel (p q : point) : Prop := px q == px p + px v /\ py q == py p + py v.
Definition srel : seg -> seg -> Prop := Forall2 prel.
(* straight segments: the relation itself says "two control points" *)
Inductive lrel : seg -> seg -> Prop :=
| lrel_i : forall a a' b b', prel a a' -> prel b b' -> lrel [a; b] [a'; b'].
Definition jrel : jordan -> jordan -> Prop := Forall2 lrel.
Definition jsrel : list jordan -> list jordan -> Prop := Forall2 jrel.
Inductive crel : comp -> comp -> Prop :=
| crel_S : forall j j', jrel j j' -> crel (CS j) (CS j')
| crel_C : forall js js', jsrel js js' -> crel (CC js) (CC js').
Inductive shrel : shape -> shape -> Prop :=
| shrel_E : shrel SEmpty SEmpty
| shrel_W : shrel SWhole SWhole
| shrel_C : forall c c', crel c c' -> shrel (SC c) (SC c')
| shrel_D : forall cs cs', Forall2 crel cs cs' -> shrel (SD cs) (SD cs').
(* boxes: all four bounds move with v *)
Definition brel (b b' : box) : Prop :=
  bxmin b' == bxmin b + px v /\ bymin b' == bymin b + py v /\
  bxmax b' == bxmax b + px v /\ bymax b' == bymax b + py v.

(* tactics: open the points, push the hypotheses x' == x + vx into the goal *)
Ltac popen :=
  repeat match goal with
  | H : prel _ _ |- _ => destruct H as [? ?]
  | H : brel _ _ |- _ => destruct H as (? & ? & ? & ?)
  end;
  repeat match goal with
  | p : point |- _ => assert_fails (constr_eq p v); destruct p as [? ?]
  | b : box |- _ => destruct b as [[[? ?] ?] ?]
  end;
  unfold bxmin, bymin, bxmax, bymax, px, py in *; cbn [fst snd] in *.
Ltac qsubst :=
  repeat match goal with
  | H : ?x == _ |- _ => is_var x; rewrite !H; clear H
  end.

Ltac qb :=
  match goal with
  | |- andb _ _ = andb _ _ => apply f_equal2; qb
  | |- orb _ _ = orb _ _ => apply f_equal2; qb
  | |- negb _ = negb _ => apply f_equal; qb
  | |- Qle_bool _ _ = Qle_bool _ _ => apply Qle_bool_ext; split; intro; lra
  | |- Qlt_bool _ _ = Qlt_bool _ _ => apply Qlt_bool_ext; split; intro; lra
  | |- Qeq_bool _ _ = Qeq_bool _ _ => apply Qeq_bool_ext; split; intro; lra
  end.

(* ---------- points ---------- *)
Lemma prel_pred : forall p q, prel p q -> prel (pred_ p) (pred_ q).
Proof.
  intros p q [H1 H2]. unfold prel, pred_. cbn [px py fst snd]. rewrite !Qred_correct. split; assumption.
Qed.
Lemma prel_peq_r : forall p q q', prel p q -> peq q q' -> prel p q'.
Proof. intros p q q' [H1 H2] [E1 E2]. split; [rewrite <- E1|rewrite <- E2]; assumption. Qed.
Lemma prel_peq_l : forall p p' q, prel p q -> peq p p' -> prel p' q.
Proof. intros p p' q [H1 H2] [E1 E2]. split; [rewrite <- E1|rewrite <- E2]; assumption. Qed.
Lemma prel_padd : forall p, prel p (padd p v).
Proof. intros p. split; reflexivity. Qed.

Lemma psub_rel : forall a a' b b', prel a a' -> prel b b' -> peq (psub a' b') (psub a b).
Proof. intros. popen. unfold peq, psub; cbn [px py fst snd]. qsubst. split; ring. Qed.
Lemma cross_rel : forall a a' b b' c c' d d', prel a a' -> prel b b' -> prel c c' -> prel d d' ->
  cross (psub a' b') (psub c' d') == cross (psub a b) (psub c d).
Proof. intros. popen. unfold cross, psub; cbn [px py fst snd]. qsubst. ring. Qed.
Lemma inner_rel : forall a a' b b' c c' d d', prel a a' -> prel b b' -> prel c c' -> prel d d' ->
  inner (psub a' b') (psub c' d') == inner (psub a b) (psub c d).
Proof. intros. popen. unfold inner, psub; cbn [px py fst snd]. qsubst. ring. Qed.
Lemma orient_rel : forall a a' b b' p p', prel a a' -> prel b b' -> prel p p' ->
  orient a' b' p' == orient a b p.
Proof. intros. unfold orient. apply cross_rel; assumption. Qed.
Lemma pt_eq_rel : forall p p' q q', prel p p' -> prel q q' -> pt_eq p' q' = pt_eq p q.
Proof.
  intros p p' q q' [P1 P2] [Q1 Q2]. unfold pt_eq. rewrite P1, P2, Q1, Q2.
  setoid_replace (px p + px v - (px q + px v)) with (px p - px q) by ring.
  setoid_replace (py p + py v - (py q + py v)) with (py p - py q) by ring. reflexivity.
Qed.
Lemma peqb_rel : forall p p' q q', prel p p' -> prel q q' -> peqb p' q' = peqb p q.
Proof. intros. popen. unfold peqb; cbn [px py fst snd]. qsubst. qb. Qed.
Lemma lerp_rel : forall t a a' b b', prel a a' -> prel b b' -> prel (lerp t a b) (lerp t a' b').
Proof.
  intros. popen. unfold prel, lerp, padd, pscale, px, py; cbn [fst snd]. qsubst. split; ring.
Qed.
Lemma cr_rel : forall a a' b b' p p', prel a a' -> prel b b' -> prel p p' -> cr a' b' p' = cr a b p.
Proof.
  intros a a' b b' p p' Ha Hb Hp. unfold cr. pose proof (orient_rel _ _ _ _ _ _ Ha Hb Hp) as Ho.
  destruct Ha as [Ha _], Hb as [Hb _], Hp as [Hp _].
  assert (E1 : Qle_bool (px a') (px p') = Qle_bool (px a) (px p)) by (rewrite Ha, Hp; qb).
  assert (E2 : Qlt_bool (px p') (px b') = Qlt_bool (px p) (px b)) by (rewrite Hb, Hp; qb).
  assert (E3 : Qle_bool (px b') (px p') = Qle_bool (px b) (px p)) by (rewrite Hb, Hp; qb).
  assert (E4 : Qlt_bool (px p') (px a') = Qlt_bool (px p) (px a)) by (rewrite Ha, Hp; qb).
  assert (E5 : Qlt_bool (orient a' b' p') 0 = Qlt_bool (orient a b p) 0) by (rewrite Ho; reflexivity).
  assert (E6 : Qlt_bool 0 (orient a' b' p') = Qlt_bool 0 (orient a b p)) by (rewrite Ho; reflexivity).
  rewrite E1, E2, E3, E4, E5, E6. reflexivity.
Qed.

(* ---------- straight segments ---------- *)
Lemma srel_line : forall s s', srel s s' -> length s = 2%nat ->
  exists a b a' b', s = [a; b] /\ s' = [a'; b'] /\ prel a a' /\ prel b b'.
Proof.
  intros s s' F Hl. destruct F as [|a a' s s' Ha F]; [discriminate|].
  destruct F as [|b b' s s' Hb F]; [discriminate|]. destruct F; [|discriminate].
  exists a, b, a', b'. auto.
Qed.
Ltac sline F Hl a b a' b' Ha Hb :=
  let s := fresh in let s' := fresh in
  destruct (srel_line _ _ F Hl) as (a & b & a' & b' & s & s' & Ha & Hb); subst.

Lemma srel_length : forall s s', srel s s' -> length s' = length s.
Proof. intros. eapply F2_length; eassumption. Qed.
Lemma srel_first : forall s s', srel s s' -> s <> [] -> prel (first_pt s) (first_pt s').
Proof. intros s s' F H. destruct F; [congruence|]. assumption. Qed.
Lemma srel_last : forall s s', srel s s' -> s <> [] -> prel (last_pt s) (last_pt s').
Proof.
  intros s s' F H. unfold last_pt. induction F as [|a b l l' Hab F IH]; [congruence|].
  cbn [last]. destruct F; [assumption|]. apply IH. discriminate.
Qed.

Lemma eval_line_rel : forall a a' b b' t, prel a a' -> prel b b' -> prel (eval [a; b] t) (eval [a'; b'] t).
Proof.
  intros a a' b b' t Ha Hb.
  eapply prel_peq_r; [|apply peq_sym, eval_deg1]. eapply prel_peq_l; [|apply peq_sym, eval_deg1].
  popen. unfold prel, pt_at, px, py; cbn [fst snd]. qsubst. split; ring.
Qed.
Lemma eval_rel : forall s s' t, srel s s' -> length s = 2%nat -> prel (eval s t) (eval s' t).
Proof. intros s s' t F Hl. sline F Hl a b a' b' Ha Hb. apply eval_line_rel; assumption. Qed.
Lemma evalr_rel : forall s s' t, srel s s' -> length s = 2%nat -> prel (evalr s t) (evalr s' t).
Proof. intros. unfold evalr. apply prel_pred, eval_rel; assumption. Qed.

(* ---------- boxes ---------- *)
Lemma seg_box_rel : forall s s', srel s s' -> length s = 2%nat -> brel (seg_box s) (seg_box s').
Proof.
  intros s s' F Hl. sline F Hl a b a' b' Ha Hb. rewrite !seg_box_2. unfold brel.
  cbn [bxmin bymin bxmax bymax fst snd].
  destruct Ha as [Ha1 Ha2], Hb as [Hb1 Hb2]. rewrite Ha1, Ha2, Hb1, Hb2.
  rewrite !Qmin'_shift, !Qmax'_shift. repeat split; reflexivity.
Qed.
Lemma box_contains_rel : forall b b' p p', brel b b' -> prel p p' -> box_contains b' p' = box_contains b p.
Proof. intros. popen. unfold box_contains. cbn [bxmin bymin bxmax bymax px py fst snd]. qsubst. qb. Qed.
Lemma box_or_rel : forall a a' b b', brel a a' -> brel b b' -> brel (box_or a b) (box_or a' b').
Proof.
  intros a a' b b' (A1 & A2 & A3 & A4) (B1 & B2 & B3 & B4). unfold brel, box_or.
  cbn [bxmin bymin bxmax bymax fst snd].
  rewrite A1, A2, A3, A4, B1, B2, B3, B4, !Qmin'_shift, !Qmax'_shift. repeat split; reflexivity.
Qed.
Definition orel {A B} (R : A -> B -> Prop) (o : option A) (o' : option B) : Prop :=
  match o, o' with Some a, Some b => R a b | None, None => True | _, _ => False end.
Lemma box_and_rel : forall a a' b b', brel a a' -> brel b b' -> orel brel (box_and a b) (box_and a' b').
Proof.
  intros a a' b b' (A1 & A2 & A3 & A4) (B1 & B2 & B3 & B4). unfold box_and.
  assert (X1 : Qmax' (bxmin a') (bxmin b') == Qmax' (bxmin a) (bxmin b) + px v)
    by (rewrite A1, B1; apply Qmax'_shift).
  assert (X2 : Qmin' (bxmax a') (bxmax b') == Qmin' (bxmax a) (bxmax b) + px v)
    by (rewrite A3, B3; apply Qmin'_shift).
  assert (Y1 : Qmax' (bymin a') (bymin b') == Qmax' (bymin a) (bymin b) + py v)
    by (rewrite A2, B2; apply Qmax'_shift).
  assert (Y2 : Qmin' (bymax a') (bymax b') == Qmin' (bymax a) (bymax b) + py v)
    by (rewrite A4, B4; apply Qmin'_shift).
  assert (E1 : Qlt_bool (Qmin' (bxmax a') (bxmax b')) (Qmax' (bxmin a') (bxmin b'))
               = Qlt_bool (Qmin' (bxmax a) (bxmax b)) (Qmax' (bxmin a) (bxmin b)))
    by (rewrite X1, X2; qb).
  assert (E2 : Qlt_bool (Qmin' (bymax a') (bymax b')) (Qmax' (bymin a') (bymin b'))
               = Qlt_bool (Qmin' (bymax a) (bymax b)) (Qmax' (bymin a) (bymin b)))
    by (rewrite Y1, Y2; qb).
  rewrite E1. destruct (Qlt_bool (Qmin' (bxmax a) (bxmax b)) (Qmax' (bxmin a) (bxmin b))); [exact I|].
  rewrite E2. destruct (Qlt_bool (Qmin' (bymax a) (bymax b)) (Qmax' (bymin a) (bymin b))); [exact I|].
  cbn [orel]. unfold brel. cbn [bxmin bymin bxmax bymax fst snd]. repeat split; assumption.
Qed.
Lemma box_and_none_rel : forall a a' b b', brel a a' -> brel b b' ->
  (box_and a' b' = None <-> box_and a b = None).
Proof.
  intros a a' b b' Ha Hb. pose proof (box_and_rel _ _ _ _ Ha Hb) as H.
  destruct (box_and a b), (box_and a' b'); cbn in H; try contradiction; split; intro; congruence.
Qed.

Lemma lrel_srel : forall s s', lrel s s' -> srel s s'.
Proof. intros s s' [a a' b b' Ha Hb]. constructor; [exact Ha|]. constructor; [exact Hb|constructor]. Qed.
Lemma lrel_len_l : forall s s', lrel s s' -> length s = 2%nat.
Proof. intros s s' []. reflexivity. Qed.
Lemma lrel_len_r : forall s s', lrel s s' -> length s' = 2%nat.
Proof. intros s s' []. reflexivity. Qed.
Lemma srel_lrel : forall s s', srel s s' -> length s = 2%nat -> lrel s s'.
Proof. intros s s' F Hl. sline F Hl a b a' b' Ha Hb. constructor; assumption. Qed.
Lemma jrel_lines_l : forall j j', jrel j j' -> all_lines j = true.
Proof.
  intros j j' F. apply forallb_forall. intros s Hs.
  destruct (F2_In _ _ _ _ F Hs) as (s' & _ & L). unfold is_line. rewrite (lrel_len_l _ _ L). reflexivity.
Qed.
Lemma jrel_lines_r : forall j j', jrel j j' -> all_lines j' = true.
Proof.
  intros j j' F. induction F as [|s s' j j' L F IH]; [reflexivity|].
  cbn [all_lines forallb]. unfold is_line at 1. rewrite (lrel_len_r _ _ L). exact IH.
Qed.
Lemma jrel_length : forall j j', jrel j j' -> length j' = length j.
Proof. intros. eapply F2_length; eassumption. Qed.

Lemma lrel_eval : forall s s' t, lrel s s' -> prel (eval s t) (eval s' t).
Proof. intros s s' t []. apply eval_line_rel; assumption. Qed.
Lemma lrel_evalr : forall s s' t, lrel s s' -> prel (evalr s t) (evalr s' t).
Proof. intros. unfold evalr. apply prel_pred, lrel_eval; assumption. Qed.
Lemma lrel_box : forall s s', lrel s s' -> brel (seg_box s) (seg_box s').
Proof. intros s s' L. apply seg_box_rel; [apply lrel_srel, L|apply (lrel_len_l _ _ L)]. Qed.
Lemma lrel_first : forall s s', lrel s s' -> prel (first_pt s) (first_pt s').
Proof. intros s s' []. assumption. Qed.
Lemma lrel_last : forall s s', lrel s s' -> prel (last_pt s) (last_pt s').
Proof. intros s s' []. assumption. Qed.

Lemma jordan_box_rel : forall j j', jrel j j' -> j <> [] -> brel (jordan_box j) (jordan_box j').
Proof.
  intros j j' F Hne. destruct F as [|s s' j j' Hs F]; [congruence|]. clear Hne.
  cbn [jordan_box].
  pose proof (lrel_box _ _ Hs) as Hb. revert Hb. generalize (seg_box s), (seg_box s').
  induction F as [|x x' j j' Hx F IH]; intros b b' Hb; cbn [fold_left]; [exact Hb|].
  apply IH. apply box_or_rel; [exact Hb|]. apply lrel_box; assumption.
Qed.

(* seg_clean does nothing on straight segments *)
Lemma map_seg_clean_jrel : forall j j', jrel j j' -> jrel (map seg_clean j) (map seg_clean j').
Proof.
  intros j j' F. induction F as [|s s' j j' L F IH]; cbn [map]; [constructor|].
  destruct L as [a a' b b' Ha Hb]. rewrite !Construct.seg_clean_line.
  constructor; [constructor|]; assumption.
Qed.

(* ------------------------------------------------------------------ *)
(* 2. intersections and splitting                                      *)
(* ------------------------------------------------------------------ *)
Global Instance out01_P : Proper (Qeq ==> eq) out01.
Proof. intros a b H. unfold out01. rewrite H. reflexivity. Qed.
Global Instance inside01_P : Proper (Qeq ==> eq) inside01.
Proof. intros a b H. unfold inside01. rewrite H. reflexivity. Qed.

Lemma mapM_rel_eq : forall {A B C} (R : A -> B -> Prop) (f : A -> res C) (f' : B -> res C) l l',
  Forall2 R l l' -> (forall a b, R a b -> f' b = f a) -> mapM f' l' = mapM f l.
Proof.
  intros A B C R f f' l l' F Hf. induction F as [|a b l l' Hab F IH]; cbn [mapM]; [reflexivity|].
  rewrite (Hf _ _ Hab), IH. reflexivity.
Qed.
Ltac mapM_eq R :=
  match goal with |- bind (mapM ?f' ?l') _ = bind (mapM ?f ?l) _ =>
    let E := fresh in assert (E : mapM f' l' = mapM f l); [apply (mapM_rel_eq R)|rewrite E; reflexivity] end.

Lemma lines_rel : forall a0 a0' a1 a1' b0 b0' b1 b1',
  prel a0 a0' -> prel a1 a1' -> prel b0 b0' -> prel b1 b1' ->
  lines [a0'; a1'] [b0'; b1'] = lines [a0; a1] [b0; b1].
Proof.
  intros a0 a0' a1 a1' b0 b0' b1 b1' A0 A1 B0 B1. unfold lines.
  pose proof (cross_rel _ _ _ _ _ _ _ _ A1 A0 B1 B0) as Hden.
  pose proof (cross_rel _ _ _ _ _ _ _ _ B0 A0 B1 B0) as Hn0.
  pose proof (cross_rel _ _ _ _ _ _ _ _ B0 A0 A1 A0) as Hn1.
  revert Hden Hn0 Hn1.
  generalize (cross (psub a1' a0') (psub b1' b0')), (cross (psub b0' a0') (psub b1' b0')),
             (cross (psub b0' a0') (psub a1' a0')).
  generalize (cross (psub a1 a0) (psub b1 b0)), (cross (psub b0 a0) (psub b1 b0)),
             (cross (psub b0 a0) (psub a1 a0)).
  intros den n0 n1 den' n0' n1' Hden Hn0 Hn1. cbv zeta.
  assert (E : Qeq_bool den' 0 = Qeq_bool den 0) by (rewrite Hden; reflexivity). rewrite E.
  destruct (Qeq_bool den 0); [reflexivity|].
  assert (P0 : n0' / den' == n0 / den) by (rewrite Hn0, Hden; reflexivity).
  assert (P1 : n1' / den' == n1 / den) by (rewrite Hn1, Hden; reflexivity).
  assert (E0 : out01 (n0' / den') = out01 (n0 / den)) by (rewrite P0; reflexivity).
  assert (E1 : out01 (n1' / den') = out01 (n1 / den)) by (rewrite P1; reflexivity).
  rewrite E0, E1, (Qred_eq _ _ P0), (Qred_eq _ _ P1). reflexivity.
Qed.

Lemma seg_eq_rel : forall a a' b b', srel a a' -> srel b b' -> seg_eq a' b' = seg_eq a b.
Proof.
  intros a a' b b' Fa Fb. unfold seg_eq. rewrite (srel_length _ _ Fa), (srel_length _ _ Fb).
  f_equal. apply (F2_forallb (fun x y => prel (fst x) (fst y) /\ prel (snd x) (snd y))).
  - apply F2_combine; assumption.
  - intros x y [H1 H2]. apply pt_eq_rel; assumption.
Qed.

Lemma seg_and_rel : forall sa sa' sb sb', lrel sa sa' -> lrel sb sb' -> seg_and sa' sb' = seg_and sa sb.
Proof.
  intros sa sa' sb sb' La Lb. unfold seg_and.
  pose proof (box_and_rel _ _ _ _ (lrel_box _ _ La) (lrel_box _ _ Lb)) as Hb.
  destruct (box_and (seg_box sa) (seg_box sb)), (box_and (seg_box sa') (seg_box sb'));
    cbn [orel] in Hb; try contradiction; [|reflexivity].
  rewrite (seg_eq_rel _ _ _ _ (lrel_srel _ _ La) (lrel_srel _ _ Lb)).
  destruct La as [a0 a0' a1 a1' A0 A1], Lb as [c0 c0' c1 c1' B0 B1].
  rewrite (lines_rel _ _ _ _ _ _ _ _ A0 A1 B0 B1). reflexivity.
Qed.

Definition irel {A B} (R : A -> B -> Prop) (x : nat * A) (y : nat * B) : Prop :=
  fst y = fst x /\ R (snd x) (snd y).

Lemma raw_intersection_rel : forall ja ja' jb jb', jrel ja ja' -> jrel jb jb' ->
  raw_intersection ja' jb' = raw_intersection ja jb.
Proof.
  intros ja ja' jb jb' Fa Fb. unfold raw_intersection. mapM_eq (irel lrel).
  - apply F2_combine_seq. exact Fa.
  - intros [a sa] [a' sa'] [E L]. cbn [fst snd] in E, L. subst a'. mapM_eq (irel lrel).
    + apply F2_combine_seq. exact Fb.
    + intros [b sb] [b' sb'] [E' L']. cbn [fst snd] in E', L'. subst b'.
      rewrite (seg_and_rel _ _ _ _ L L'). reflexivity.
Qed.
Lemma intersection_rel : forall ja ja' jb jb' eb ep, jrel ja ja' -> jrel jb jb' ->
  intersection ja' jb' eb ep = intersection ja jb eb ep.
Proof. intros. unfold intersection. rewrite (raw_intersection_rel ja ja' jb jb') by assumption. reflexivity. Qed.

(* ---------- split ---------- *)
Lemma split_many_from_rel : forall ts t0 s s', lrel s s' ->
  Forall2 lrel (split_many_from t0 ts s) (split_many_from t0 ts s').
Proof.
  induction ts as [|t ts IH]; intros t0 s s' L; cbn [split_many_from].
  - constructor; [assumption|constructor].
  - destruct L as [a a' b b' Ha Hb]. rewrite !split_at_line.
    pose proof (lerp_rel ((t - t0) / (1 - t0)) _ _ _ _ Ha Hb) as Hm.
    constructor; [constructor; assumption|]. apply IH. constructor; assumption.
Qed.
Lemma lrel_pred : forall s s', lrel s s' -> lrel (map pred_ s) (map pred_ s').
Proof. intros s s' []. cbn [map]. constructor; apply prel_pred; assumption. Qed.
Lemma split_many_rel : forall ts s s', lrel s s' -> Forall2 lrel (split_many ts s) (split_many ts s').
Proof.
  intros ts s s' L. unfold split_many.
  eapply F2_map; [apply split_many_from_rel, L|]. apply lrel_pred.
Qed.
Lemma split_segment_rel : forall ns s s', lrel s s' ->
  rrel (Forall2 lrel) (split_segment s ns) (split_segment s' ns).
Proof.
  intros ns s s' L. unfold split_segment. destruct (has_dup ns); cbn [rrel]; [reflexivity|].
  apply map_seg_clean_jrel, split_many_rel, L.
Qed.
Lemma split_rel : forall j j' idx nodes, jrel j j' ->
  rrel jrel (Jordan.split j idx nodes) (Jordan.split j' idx nodes).
Proof.
  intros j j' idx nodes F. unfold Jordan.split. rewrite (jrel_length _ _ F).
  destruct (assert_ (forallb _ idx)) as [[]|k|]; cbn [bind rrel]; [|reflexivity|exact I].
  destruct (assert_ (forallb _ nodes)) as [[]|k|]; cbn [bind rrel]; [|reflexivity|exact I].
  destruct (assert_ (Nat.eqb _ _)) as [[]|k|]; cbn [bind rrel]; [|reflexivity|exact I].
  eapply rrel_bind.
  - apply (mapM_rel (irel lrel) (Forall2 lrel)).
    + rewrite <- (jrel_length _ _ F) at 2. apply F2_combine_seq. exact F.
    + intros [i s] [i' s'] [E L]. cbn [fst snd] in E, L. subst i'.
      destruct (map snd (filter _ (split_pairs idx nodes))) as [|n ns].
      * cbn [rrel]. constructor; [exact L|constructor].
      * apply split_segment_rel, L.
  - intros pieces pieces' FP. cbn [rrel]. unfold set_segments.
    apply map_seg_clean_jrel, F2_concat, FP.
Qed.

(* ---------- closed non-empty chains ---------- *)
Definition jok (j : jordan) : Prop := j <> [] /\ closed_chain j = true.
Definition jg (j j' : jordan) : Prop := jrel j j' /\ jok j.

Lemma chain_ok_rel : forall j j' f f', jrel j j' -> prel f f' -> chain_ok f' j' = chain_ok f j.
Proof.
  intros j j' f f' F Hf. induction F as [|s s' j j' L F IH]; [reflexivity|].
  cbn [chain_ok]. destruct F as [|t t' j j' Lt F].
  - apply peqb_rel; [apply lrel_last, L|exact Hf].
  - rewrite IH. f_equal. apply peqb_rel; [apply lrel_last, L|apply lrel_first, Lt].
Qed.
Lemma closed_chain_rel : forall j j', jrel j j' -> closed_chain j' = closed_chain j.
Proof.
  intros j j' F. unfold closed_chain. destruct F as [|s s' j j' L F]; [reflexivity|].
  apply chain_ok_rel; [constructor; assumption|apply lrel_first, L].
Qed.
Lemma jok_rel : forall j j', jrel j j' -> jok j -> jok j'.
Proof.
  intros j j' F [Hne Hc]. split.
  - destruct F; [congruence|discriminate].
  - rewrite (closed_chain_rel _ _ F). exact Hc.
Qed.

Lemma split_jok : forall j idx nodes j', all_lines j = true -> jok j ->
  Jordan.split j idx nodes = Ok j' -> jok j'.
Proof.
  intros j idx nodes j' Hl [Hne Hc] H. split; [|exact (SplitClean.split_closed _ _ _ _ Hl H Hc)].
  destruct (split_spec _ _ _ _ Hl H) as (pieces & -> & F).
  destruct j as [|s j]; [congruence|].
  unfold closed_chain in Hc. apply chain_ok_iff in Hc; [|exact Hne]. destruct Hc as [L C].
  exact (proj1 (concat_linked _ _ F Hne L)).
Qed.

Definition pair_rel {A B C D} (R : A -> B -> Prop) (S : C -> D -> Prop) (x : A * C) (y : B * D) : Prop :=
  R (fst x) (fst y) /\ S (snd x) (snd y).

Lemma split_two_jordans_rel : forall ja ja' jb jb', jg ja ja' -> jg jb jb' ->
  rrel (pair_rel jg jg) (split_two_jordans ja jb) (split_two_jordans ja' jb').
Proof.
  intros ja ja' jb jb' [Fa Oa] [Fb Ob]. unfold split_two_jordans.
  pose proof (box_and_rel _ _ _ _ (jordan_box_rel _ _ Fa (proj1 Oa)) (jordan_box_rel _ _ Fb (proj1 Ob))) as Hb.
  destruct (box_and (jordan_box ja) (jordan_box jb)), (box_and (jordan_box ja') (jordan_box jb'));
    cbn [orel] in Hb; try contradiction.
  - unfold jordan_and. rewrite (intersection_rel _ _ _ _ false false Fa Fb).
    destruct (intersection ja jb false false) as [inters|k|]; cbn [bind rrel]; [|reflexivity|exact I].
    match goal with |- rrel _ (bind (Jordan.split ja ?i ?n) _) _ =>
      pose proof (split_rel _ _ i n Fa) as Ha;
      pose proof (split_jok ja i n) as Ka;
      destruct (Jordan.split ja i n) as [xa|k|], (Jordan.split ja' i n) as [xa'|k'|];
      cbn [rrel] in Ha; try contradiction; cbn [bind rrel]; [|exact Ha|exact I] end.
    match goal with |- rrel _ (bind (Jordan.split jb ?i ?n) _) _ =>
      pose proof (split_rel _ _ i n Fb) as Hb';
      pose proof (split_jok jb i n) as Kb;
      destruct (Jordan.split jb i n) as [xb|k|], (Jordan.split jb' i n) as [xb'|k'|];
      cbn [rrel] in Hb'; try contradiction; cbn [bind rrel]; [|exact Hb'|exact I] end.
    split; cbn [fst snd]; (split; [assumption|]).
    + apply (Ka xa); [apply (jrel_lines_l _ _ Fa)|exact Oa|reflexivity].
    + apply (Kb xb); [apply (jrel_lines_l _ _ Fb)|exact Ob|reflexivity].
  - cbn [rrel]. split; split; assumption.
Qed.

Lemma split_one_against_rel : forall jbs jbs', Forall2 jg jbs jbs' -> forall ja ja', jg ja ja' ->
  rrel (pair_rel jg (Forall2 jg)) (split_one_against ja jbs) (split_one_against ja' jbs').
Proof.
  intros jbs jbs' F. induction F as [|jb jb' jbs jbs' Hb F IH]; intros ja ja' Ha; cbn [split_one_against].
  - cbn [rrel]. split; [exact Ha|constructor].
  - eapply rrel_bind; [apply split_two_jordans_rel; assumption|].
    intros [xa xb] [xa' xb'] [H1 H2]. cbn [fst snd] in H1, H2.
    eapply rrel_bind; [apply IH, H1|].
    intros [ya t] [ya' t'] [H3 H4]. cbn [fst snd] in H3, H4. cbn [rrel].
    split; [exact H3|]. constructor; assumption.
Qed.
Lemma split_all_rel : forall jas jas', Forall2 jg jas jas' -> forall jbs jbs', Forall2 jg jbs jbs' ->
  rrel (pair_rel (Forall2 jg) (Forall2 jg)) (split_all jas jbs) (split_all jas' jbs').
Proof.
  intros jas jas' F. induction F as [|ja ja' jas jas' Ha F IH]; intros jbs jbs' Fb; cbn [split_all].
  - cbn [rrel]. split; [constructor|exact Fb].
  - eapply rrel_bind; [apply split_one_against_rel; assumption|].
    intros [xa xbs] [xa' xbs'] [H1 H2]. cbn [fst snd] in H1, H2.
    eapply rrel_bind; [apply IH, H2|].
    intros [t ybs] [t' ybs'] [H3 H4]. cbn [fst snd] in H3, H4. cbn [rrel].
    split; [|exact H4]. constructor; assumption.
Qed.

(* ------------------------------------------------------------------ *)
(* 3. containment of points                                            *)
(* ------------------------------------------------------------------ *)
Lemma eval_single : forall q u, peq (eval [q] u) q.
Proof.
  intros [x y] u.
  cbv [eval canon horner degree length map map2 seq psum fold_right fold_left
       padd pscale pzero px py fst snd caract comb Nat.sub Nat.add Nat.mul Nat.leb Nat.odd Nat.even negb
       Z.of_nat Pos.of_succ_nat Pos.succ Z.mul Z.div Z.div_eucl Z.pos_div_eucl Z.opp
       Pos.mul Pos.add Z.leb Z.ltb Z.compare Pos.compare Pos.compare_cont Z.add Z.sub Z.pos_sub
       Z.double Z.succ_double Z.pred_double Pos.pred_double inject_Z peq].
  split; ring.
Qed.
Lemma inner_peq : forall a a' b b', peq a a' -> peq b b' -> inner a' b' == inner a b.
Proof. intros a a' b b' [A1 A2] [B1 B2]. unfold inner. rewrite A1, A2, B1, B2. reflexivity. Qed.
Lemma F2_refl : forall {A} (l : list A), Forall2 eq l l.
Proof. induction l; constructor; auto. Qed.
Lemma F2_pairs_of : forall {A B} (R : A -> B -> Prop) l l', Forall2 R l l' ->
  Forall2 (pair_rel R R) (pairs_of l) (pairs_of l').
Proof.
  intros A B R l l' F. induction F as [|a b l l' Hab F IH]; cbn [pairs_of]; [constructor|].
  destruct F as [|c d l l' Hcd F]; [constructor|].
  constructor; [split; assumption|exact IH].
Qed.

Lemma newton_step_rel : forall a a' b b' p p' u, prel a a' -> prel b b' -> prel p p' ->
  newton_step [a'; b'] (derivate [a'; b']) (derivate (derivate [a'; b'])) p' u
  = newton_step [a; b] (derivate [a; b]) (derivate (derivate [a; b])) p u.
Proof.
  intros a a' b b' p p' u Ha Hb Hp. unfold newton_step.
  cbn [derivate pairs_of map fst snd degree length Nat.sub].
  assert (C : peq (psub (eval [a; b] u) p) (psub (eval [a'; b'] u) p')).
  { apply peq_sym, psub_rel; [apply eval_line_rel; assumption|exact Hp]. }
  assert (D : peq (eval [pscale (nQ 1) (psub b a)] u) (eval [pscale (nQ 1) (psub b' a')] u)).
  { eapply peq_trans; [apply eval_single|]. eapply peq_trans; [|apply peq_sym, eval_single].
    pose proof (psub_rel _ _ _ _ Hb Ha) as [E1 E2]. unfold peq, pscale. cbn [px py fst snd].
    rewrite E1, E2. split; reflexivity. }
  pose proof (inner_peq _ _ _ _ D C) as Hf.
  pose proof (inner_peq _ _ _ _ D D) as Hdd.
  pose proof (inner_peq _ _ _ _ (peq_refl (eval [pzero] u)) C) as He.
  revert Hf Hdd He.
  generalize (inner (eval [pscale (nQ 1) (psub b' a')] u) (psub (eval [a'; b'] u) p')).
  generalize (inner (eval [pscale (nQ 1) (psub b' a')] u) (eval [pscale (nQ 1) (psub b' a')] u)).
  generalize (inner (eval [pzero] u) (psub (eval [a'; b'] u) p')).
  generalize (inner (eval [pscale (nQ 1) (psub b a)] u) (psub (eval [a; b] u) p)).
  generalize (inner (eval [pscale (nQ 1) (psub b a)] u) (eval [pscale (nQ 1) (psub b a)] u)).
  generalize (inner (eval [pzero] u) (psub (eval [a; b] u) p)).
  intros e dd f e' dd' f' Hf Hdd He. cbv zeta.
  assert (H0 : e' + dd' == e + dd) by (rewrite He, Hdd; reflexivity).
  assert (E : Qlt_bool tol6 (Qabs' (e' + dd')) = Qlt_bool tol6 (Qabs' (e + dd))) by (rewrite H0; reflexivity).
  rewrite E. unfold nround. cbn [Nat.leb].
  destruct (Qlt_bool tol6 (Qabs' (e + dd))).
  - rewrite (Qred_eq (u - f' / (e' + dd')) (u - f / (e + dd))) by (rewrite Hf, H0; reflexivity). reflexivity.
  - rewrite (Qred_eq (u - f' / tol6) (u - f / tol6)) by (rewrite Hf; reflexivity). reflexivity.
Qed.
Lemma newton_rounds_ext : forall n s ds dds p s' ds' dds' p',
  (forall u, newton_step s' ds' dds' p' u = newton_step s ds dds p u) ->
  forall us, newton_rounds n s' ds' dds' p' us = newton_rounds n s ds dds p us.
Proof.
  induction n as [|n IH]; intros s ds dds p s' ds' dds' p' H us; cbn [newton_rounds]; [reflexivity|].
  rewrite (map_ext _ _ H). destruct (dedup Qeq_bool (map (newton_step s ds dds p) us)) as [|x [|y t]];
    try reflexivity; apply IH, H.
Qed.
Lemma project_rel : forall s s' p p', lrel s s' -> prel p p' -> project s' p' = project s p.
Proof.
  intros s s' p p' [a a' b b' Ha Hb] Hp. unfold project.
  replace (degree [a'; b']) with (degree [a; b]) by reflexivity.
  apply newton_rounds_ext. intro u. apply newton_step_rel; assumption.
Qed.
Lemma dist2_rel : forall s s' p p' u, lrel s s' -> prel p p' -> dist2 s' p' u == dist2 s p u.
Proof.
  intros s s' p p' u L Hp. unfold dist2, norm2.
  pose proof (psub_rel _ _ _ _ (lrel_eval _ _ u L) Hp) as C. apply peq_sym in C.
  apply inner_peq; exact C.
Qed.
Lemma on_seg_rel : forall s s' p p', lrel s s' -> prel p p' -> on_seg s' p' = on_seg s p.
Proof.
  intros s s' p p' L Hp. unfold on_seg.
  rewrite (box_contains_rel _ _ _ _ (lrel_box _ _ L) Hp), (project_rel _ _ _ _ L Hp). f_equal.
  apply (F2_existsb eq); [apply F2_refl|]. intros u u' <-.
  rewrite (dist2_rel _ _ _ _ u L Hp). reflexivity.
Qed.
Lemma jordan_has_rel : forall j j' p p', jrel j j' -> prel p p' -> jordan_has j' p' = jordan_has j p.
Proof.
  intros j j' p p' F Hp. unfold jordan_has.
  assert (E : existsb (fun s => on_seg s p') j' = existsb (fun s => on_seg s p) j).
  { apply (F2_existsb lrel); [exact F|]. intros s s' L. apply on_seg_rel; assumption. }
  rewrite E. destruct j as [|s j].
  - inversion F; subst. cbn [existsb]. rewrite !andb_false_r. reflexivity.
  - rewrite (box_contains_rel _ _ _ _ (jordan_box_rel _ _ F ltac:(discriminate)) Hp). reflexivity.
Qed.
Lemma seg_wn_rel : forall s s' p p', lrel s s' -> prel p p' -> seg_wn s' p' = seg_wn s p.
Proof.
  intros s s' p p' L Hp. unfold seg_wn, chord_pts.
  rewrite (lrel_len_l _ _ L), (lrel_len_r _ _ L). f_equal.
  apply (F2_map_eq (pair_rel prel prel)).
  - apply F2_pairs_of. apply (F2_map eq prel); [apply F2_refl|]. intros t t' <-. apply lrel_eval, L.
  - intros x y [H1 H2]. apply cr_rel; assumption.
Qed.

(* the area: invariant on closed chains only *)
Lemma Qsum_F2 : forall {A B} (R : A -> B -> Prop) (f h : A -> Q) (f' : B -> Q) l l',
  Forall2 R l l' -> (forall a b, R a b -> f' b == f a + h a) ->
  Qsum (map f' l') == Qsum (map f l) + Qsum (map h l).
Proof.
  intros A B R f h f' l l' F H. induction F as [|a b l l' Hab F IH]; cbn [map Qsum]; [ring|].
  rewrite IH, (H _ _ Hab). ring.
Qed.
Lemma shoelace2_rel : forall j j', jrel j j' -> closed_chain j = true -> shoelace2 j' == shoelace2 j.
Proof.
  intros j j' F Hc. unfold shoelace2.
  rewrite (Qsum_F2 lrel (fun s => cross (first_pt s) (last_pt s))
             (fun s => cross v (last_pt s) - cross v (first_pt s)) _ j j' F).
  - rewrite (closed_telescope (fun P => cross v P)); [ring| |exact Hc].
    intros P R H. apply peqb_true in H. destruct H as [H1 H2]. unfold cross. rewrite H1, H2. reflexivity.
  - intros s s' [a a' b b' Ha Hb]. cbn [first_pt last_pt hd last].
    destruct Ha as [A1 A2], Hb as [B1 B2]. unfold cross. rewrite A1, A2, B1, B2. ring.
Qed.
Lemma jordan_area_rel : forall j j', jrel j j' -> closed_chain j = true -> jordan_area j' = jordan_area j.
Proof.
  intros j j' F Hc.
  assert (E : jordan_area j' == jordan_area j).
  { rewrite (area_shoelace j (jrel_lines_l _ _ F) Hc).
    rewrite (area_shoelace j' (jrel_lines_r _ _ F)) by (rewrite (closed_chain_rel _ _ F); exact Hc).
    rewrite (shoelace2_rel _ _ F Hc). reflexivity. }
  unfold jordan_area, jordan_vertical in *. rewrite !Qred_correct in E. apply Qred_complete, E.
Qed.
Lemma jordan_pos_rel : forall j j', jrel j j' -> closed_chain j = true -> jordan_pos j' = jordan_pos j.
Proof. intros. unfold jordan_pos. rewrite (jordan_area_rel j j') by assumption. reflexivity. Qed.

Lemma jordan_wn2_rel : forall j j' p p', jrel j j' -> closed_chain j = true -> prel p p' ->
  jordan_wn2 j' p' = jordan_wn2 j p.
Proof.
  intros j j' p p' F Hc Hp. unfold jordan_wn2.
  change (box_contains (jordan_box j') p' && existsb (fun s => on_seg s p') j') with (jordan_has j' p').
  change (box_contains (jordan_box j) p && existsb (fun s => on_seg s p) j) with (jordan_has j p).
  rewrite (jordan_has_rel _ _ _ _ F Hp), (jordan_pos_rel _ _ F Hc).
  rewrite (F2_map_eq lrel (fun s => seg_wn s p) (fun s => seg_wn s p') j j' F); [reflexivity|].
  intros s s' L. apply seg_wn_rel; assumption.
Qed.
Lemma simple_has_point_rel : forall j j' p p' b, jrel j j' -> closed_chain j = true -> prel p p' ->
  simple_has_point j' p' b = simple_has_point j p b.
Proof.
  intros. unfold simple_has_point.
  rewrite (jordan_wn2_rel j j' p p'), (jordan_pos_rel j j') by assumption. reflexivity.
Qed.

Lemma F2_and_l : forall {A B} (R : A -> B -> Prop) (P : A -> Prop) l l',
  Forall2 R l l' -> Forall P l -> Forall2 (fun a b => R a b /\ P a) l l'.
Proof.
  intros A B R P l l' F. induction F as [|a b l l' Hab F IH]; intros HP; [constructor|].
  inversion HP; subst. constructor; auto.
Qed.
Lemma F2_impl : forall {A B} (R S : A -> B -> Prop) l l',
  (forall a b, R a b -> S a b) -> Forall2 R l l' -> Forall2 S l l'.
Proof. intros A B R S l l' H F. induction F; constructor; auto. Qed.
Lemma F2_Forall_l : forall {A B} (R : A -> B -> Prop) (P : A -> Prop) l l',
  Forall2 (fun a b => R a b /\ P a) l l' -> Forall P l.
Proof. intros A B R P l l' F. induction F as [|a b l l' [_ H] F IH]; constructor; assumption. Qed.
Lemma jg_jsrel : forall l l', Forall2 jg l l' -> jsrel l l'.
Proof. intros l l'. apply F2_impl. intros a b [H _]. exact H. Qed.
Lemma jg_ok : forall l l', Forall2 jg l l' -> Forall jok l.
Proof. intros l l' F. exact (F2_Forall_l _ _ _ _ F). Qed.
Lemma jg_intro : forall l l', jsrel l l' -> Forall jok l -> Forall2 jg l l'.
Proof. intros l l' F H. exact (F2_and_l _ _ _ _ F H). Qed.
Lemma jg_ok_r : forall l l', Forall2 jg l l' -> Forall jok l'.
Proof.
  intros l l' F. induction F as [|a b l l' [H K] F IH]; constructor; [|exact IH].
  exact (jok_rel _ _ H K).
Qed.

Definition cok (c : comp) : Prop := Forall jok (comp_jordans c).
Definition sok (s : shape) : Prop := Forall jok (jordans s).
Definition cg (c c' : comp) : Prop := crel c c' /\ cok c.

Lemma comp_jordans_rel : forall c c', crel c c' -> jsrel (comp_jordans c) (comp_jordans c').
Proof. intros c c' [j j' F|js js' F]; cbn [comp_jordans]; [constructor; [exact F|constructor]|exact F]. Qed.
Lemma jordans_rel : forall s s', shrel s s' -> jsrel (jordans s) (jordans s').
Proof.
  intros s s' [| |c c' Hc|cs cs' F]; cbn [jordans]; try constructor.
  - apply comp_jordans_rel, Hc.
  - apply F2_concat. eapply F2_map; [exact F|]. apply comp_jordans_rel.
Qed.
Lemma sok_rel : forall s s', shrel s s' -> sok s -> sok s'.
Proof. intros s s' H K. exact (jg_ok_r _ _ (jg_intro _ _ (jordans_rel _ _ H) K)). Qed.
Lemma Forall_concat_map : forall {A B} (P : B -> Prop) (f : A -> list B) l,
  Forall P (concat (map f l)) <-> Forall (fun a => Forall P (f a)) l.
Proof.
  intros A B P f l. induction l as [|a l IH]; cbn [map concat].
  - split; constructor.
  - rewrite Forall_app, IH. split.
    + intros [H1 H2]. constructor; assumption.
    + intros H. inversion H; subst. split; assumption.
Qed.
Lemma sok_SD : forall cs, sok (SD cs) <-> Forall cok cs.
Proof. intros cs. unfold sok, cok. cbn [jordans]. apply Forall_concat_map. Qed.
Lemma cg_intro : forall cs cs', Forall2 crel cs cs' -> Forall cok cs -> Forall2 cg cs cs'.
Proof. intros cs cs' F H. exact (F2_and_l _ _ _ _ F H). Qed.

Lemma comp_has_point_rel : forall c c' p p' b, crel c c' -> cok c -> prel p p' ->
  comp_has_point c' p' b = comp_has_point c p b.
Proof.
  intros c c' p p' b [j j' F|js js' F] K Hp; cbn [comp_has_point]; unfold cok in K; cbn [comp_jordans] in K.
  - inversion K as [|? ? [_ Hc] _]; subst. apply simple_has_point_rel; assumption.
  - apply (F2_forallb jg); [apply jg_intro; assumption|].
    intros j j' [Fj [_ Hc]]. apply simple_has_point_rel; assumption.
Qed.
Lemma contains_point_rel : forall s s' p p' b, shrel s s' -> sok s -> prel p p' ->
  contains_point s' p' b = contains_point s p b.
Proof.
  intros s s' p p' b [| |c c' Hc|cs cs' F] K Hp; cbn [contains_point]; try reflexivity.
  - apply comp_has_point_rel; assumption.
  - apply sok_SD in K. apply (F2_existsb cg); [apply cg_intro; assumption|].
    intros c c' [Hc Kc]. apply comp_has_point_rel; assumption.
Qed.

(* ------------------------------------------------------------------ *)
(* 4. selection of the pieces, path following, recombine               *)
(* ------------------------------------------------------------------ *)
Lemma midpoints_one_shape_rel : forall a a' b b' closed inside,
  shrel a a' -> shrel b b' -> sok b ->
  midpoints_one_shape a' b' closed inside = midpoints_one_shape a b closed inside.
Proof.
  intros a a' b b' closed inside Ha Hb Kb. unfold midpoints_one_shape.
  pose proof (jordans_rel _ _ Ha) as F. f_equal.
  apply (F2_map_eq (irel jrel)); [apply F2_combine_seq, F|].
  intros [i j] [i' j'] [E Fj]. cbn [fst snd] in E, Fj. subst i'. f_equal.
  apply (F2_map_eq (irel lrel)); [apply F2_combine_seq, Fj|].
  intros [k s] [k' s'] [E L]. cbn [fst snd] in E, L. subst k'.
  rewrite (contains_point_rel b b' (evalr s Qhalf) (evalr s' Qhalf) closed Hb Kb (lrel_evalr _ _ _ L)).
  reflexivity.
Qed.
Lemma midpoints_shapes_rel : forall a a' b b' closed inside,
  shrel a a' -> shrel b b' -> sok a -> sok b ->
  midpoints_shapes a' b' closed inside = midpoints_shapes a b closed inside.
Proof.
  intros a a' b b' closed inside Ha Hb Ka Kb. unfold midpoints_shapes.
  rewrite (F2_length _ _ _ (jordans_rel _ _ Ha)).
  rewrite (midpoints_one_shape_rel a a' b b') by assumption.
  rewrite (midpoints_one_shape_rel b b' a a') by assumption. reflexivity.
Qed.

Lemma F2_nth_lt : forall {A B} (R : A -> B -> Prop) l l' d d' n,
  Forall2 R l l' -> (n < length l)%nat -> R (nth n l d) (nth n l' d').
Proof.
  intros A B R l l' d d' n F. revert n. induction F as [|a b l l' Hab F IH]; intros [|n] Hn;
    cbn [nth length] in *; try lia; auto.
  apply IH. lia.
Qed.
Lemma total_segments_rel : forall js js', jsrel js js' -> total_segments js' = total_segments js.
Proof.
  intros js js' F. unfold total_segments. induction F as [|j j' js js' Fj F IH]; cbn [fold_right]; [reflexivity|].
  rewrite IH, (jrel_length _ _ Fj). reflexivity.
Qed.
Lemma pursue_path_rel : forall js js', jsrel js js' -> forall fuel ij is_ m,
  pursue_path fuel ij is_ js' m = pursue_path fuel ij is_ js m.
Proof.
  intros js js' F. induction fuel as [|f IH]; intros ij is_ m; [reflexivity|]. cbn [pursue_path].
  pose proof (F2_nth _ js js' [] [] ij F (Forall2_nil _)) as Fs.
  destruct Fs as [|s0 s0' segs segs' L0 Fs]; [reflexivity|].
  assert (Fs' : jrel (s0 :: segs) (s0' :: segs')) by (constructor; assumption).
  rewrite (jrel_length _ _ Fs'). set (is' := (is_ mod length (s0 :: segs))%nat).
  destruct (existsb (nn_eqb (ij, is')) m); [reflexivity|].
  assert (Hlt : (is' < length (s0 :: segs))%nat) by (apply Nat.mod_upper_bound; discriminate).
  pose proof (lrel_last _ _ (F2_nth_lt _ _ _ [] [] is' Fs' Hlt)) as Hlp.
  rewrite (F2_length _ _ _ F).
  rewrite (filter_ext (fun i => negb (Nat.eqb i ij) && jordan_has (nth i js' []) (last_pt (nth is' (s0' :: segs') [])))
             (fun i => negb (Nat.eqb i ij) && jordan_has (nth i js []) (last_pt (nth is' (s0 :: segs) [])))).
  2:{ intros i. f_equal. apply jordan_has_rel; [|exact Hlp]. apply F2_nth; [exact F|constructor]. }
  destruct (filter _ (seq 0 (length js))) as [|ij' rest]; [apply IH|].
  rewrite (F2_index_where lrel (fun s => pt_eq (first_pt s) (last_pt (nth is' (s0 :: segs) [])))
             (fun s => pt_eq (first_pt s) (last_pt (nth is' (s0' :: segs') []))) (nth ij' js []) (nth ij' js' [])).
  - apply IH.
  - apply F2_nth; [exact F|constructor].
  - intros s s' L. apply pt_eq_rel; [apply lrel_first, L|exact Hlp].
Qed.

Lemma F2_map2 : forall {A B C D E G} (R : A -> B -> Prop) (S : C -> D -> Prop) (T : E -> G -> Prop)
  (f : A -> C -> E) (f' : B -> D -> G) l l' m m',
  Forall2 R l l' -> Forall2 S m m' -> (forall a b c d, R a b -> S c d -> T (f a c) (f' b d)) ->
  Forall2 T (map2 f l m) (map2 f' l' m').
Proof.
  intros A B C D E G R S T f f' l l' m m' F. revert m m'.
  induction F as [|a b l l' Hab F IH]; intros m m' FS Hf; cbn [map2]; [constructor|].
  destruct FS; constructor; auto.
Qed.
Lemma from_segments_rel : forall l l', Forall2 lrel l l' -> rrel jrel (from_segments l) (from_segments l').
Proof.
  intros l l' F. unfold from_segments. destruct F as [|s0 s0' t t' L0 F]; [constructor|].
  assert (F' : Forall2 lrel (s0 :: t) (s0' :: t')) by (constructor; assumption).
  assert (Fn : Forall2 prel (map first_pt (tl (s0 :: t) ++ [s0])) (map first_pt (tl (s0' :: t') ++ [s0']))).
  { eapply F2_map; [|apply lrel_first]. apply F2_app; [exact F|]. constructor; [exact L0|constructor]. }
  revert Fn. generalize (map first_pt (tl (s0 :: t) ++ [s0])), (map first_pt (tl (s0' :: t') ++ [s0'])).
  intros nexts nexts' Fn.
  rewrite (F2_forallb (pair_rel lrel prel) (fun sn => pt_eq (last_pt (fst sn)) (snd sn))
             (fun sn => pt_eq (last_pt (fst sn)) (snd sn)) (combine (s0 :: t) nexts) (combine (s0' :: t') nexts')).
  - destruct (forallb _ (combine (s0 :: t) nexts)); cbn [assert_ bind rrel]; [|reflexivity].
    unfold set_segments. apply map_seg_clean_jrel.
    apply (F2_map2 lrel prel lrel); [exact F'|exact Fn|].
    intros a b c d [x x' y y' Hx Hy] Hcd. cbn. constructor; assumption.
  - apply F2_combine; assumption.
  - intros x y [H1 H2]. apply pt_eq_rel; [apply lrel_last, H1|exact H2].
Qed.
Lemma indexs_to_jordan_rel : forall js js' idx, jsrel js js' -> inrange js idx ->
  rrel jrel (indexs_to_jordan js idx) (indexs_to_jordan js' idx).
Proof.
  intros js js' idx F Hr. unfold indexs_to_jordan. apply from_segments_rel.
  induction idx as [|[i k] idx IH]; cbn [map]; [constructor|].
  constructor.
  - cbn [fst snd]. destruct (Hr i k (or_introl eq_refl)) as [Hi Hk].
    apply F2_nth_lt; [|exact Hk]. apply F2_nth_lt; assumption.
  - apply IH. intros i' k' H. apply Hr. right; exact H.
Qed.

Lemma pursue_path_ne : forall js fuel ij is_ m m', pursue_path fuel ij is_ js m = Ok m' -> m' <> [].
Proof.
  intros js. induction fuel as [|f IH]; intros ij is_ m m' H; [discriminate|]. cbn [pursue_path] in H.
  destruct (nth ij js []) as [|s0 segs]; [discriminate|].
  destruct (existsb _ m) eqn:E.
  - inversion H; subst. destruct m'; [discriminate|discriminate].
  - destruct (filter _ _); eapply IH; eassumption.
Qed.
Lemma from_segments_ne : forall l j, from_segments l = Ok j -> l <> [] -> j <> [].
Proof.
  intros [|s0 t] j H Hne; [congruence|]. unfold from_segments in H.
  destruct (forallb _ _); cbn [assert_ bind] in H; [|discriminate]. inversion H; subst.
  destruct t; cbn; discriminate.
Qed.
Lemma lines_seg_ok : forall j, all_lines j = true -> seg_ok j.
Proof. intros j H s Hs. apply all_lines_iff in H. rewrite (H s Hs). lia. Qed.

Lemma follow_path_rel : forall js js' starts, jsrel js js' ->
  rrel (Forall2 jg) (follow_path js starts) (follow_path js' starts).
Proof.
  intros js js' starts F. unfold follow_path. rewrite (total_segments_rel _ _ F).
  rewrite (mapM_rel_eq eq (fun st => pursue_path (S (total_segments js)) (fst st) (snd st) js [])
             (fun st => pursue_path (S (total_segments js)) (fst st) (snd st) js' []) starts starts (F2_refl _)).
  2:{ intros a b <-. apply pursue_path_rel, F. }
  destruct (mapM _ starts) as [paths|k|] eqn:Hp; cbn [bind rrel]; [|reflexivity|exact I].
  assert (Hok : segs_ok js).
  { intros j s Hj Hs. destruct (F2_In _ _ _ _ F Hj) as (j' & _ & Fj).
    apply (lines_seg_ok j (jrel_lines_l _ _ Fj) s Hs). }
  assert (Hin : forall idx, In idx (filter_rotations paths) -> inrange js idx /\ idx <> []).
  { intros idx Hidx. apply filter_rotations_incl in Hidx.
    destruct (mapM_ok_in _ _ _ Hp idx Hidx) as (st & _ & Hpp). split.
    - eapply pursue_path_inrange; [|exact Hpp]. intros i k [].
    - eapply pursue_path_ne; exact Hpp. }
  pose proof (follow_path_closed js starts) as Hcl. unfold follow_path in Hcl. rewrite Hp in Hcl.
  cbn [bind] in Hcl. revert Hin Hcl. generalize (filter_rotations paths). intros idxs Hin Hcl.
  assert (G : rrel (Forall2 jrel) (mapM (indexs_to_jordan js) idxs) (mapM (indexs_to_jordan js') idxs)).
  { clear Hcl. induction idxs as [|idx idxs IH]; cbn [mapM]; [constructor|].
    eapply rrel_bind; [apply indexs_to_jordan_rel; [exact F|apply Hin; left; reflexivity]|].
    intros y y' Hy. eapply rrel_bind; [apply IH; intros i Hi; apply Hin; right; exact Hi|].
    intros ys ys' Hys. cbn [rrel]. constructor; assumption. }
  destruct (mapM (indexs_to_jordan js) idxs) as [new|k|] eqn:Hn,
           (mapM (indexs_to_jordan js') idxs) as [new'|k'|]; cbn [rrel] in G |- *; try contradiction; try assumption.
  apply jg_intro; [exact G|]. specialize (Hcl new Hok eq_refl).
  apply Forall_forall. intros j Hj. split.
  - destruct (mapM_ok_in _ _ _ Hn j Hj) as (idx & Hidx & Hfs). unfold indexs_to_jordan in Hfs.
    eapply from_segments_ne; [exact Hfs|]. destruct (Hin idx Hidx) as [_ Hne].
    destruct idx; [congruence|discriminate].
  - unfold closed_all in Hcl. rewrite Forall_forall in Hcl. apply Hcl, Hj.
Qed.

(* ---------- with_jordans, recombine ---------- *)
Lemma comp_with_rel : forall c c' js js', crel c c' -> jsrel js js' ->
  crel (fst (comp_with c js)) (fst (comp_with c' js')) /\ jsrel (snd (comp_with c js)) (snd (comp_with c' js')).
Proof.
  intros c c' js js' [j j' F|old old' F] G; cbn [comp_with fst snd].
  - split; [constructor; apply F2_hd; [exact G|constructor]|apply F2_tl, G].
  - rewrite (F2_length _ _ _ F). split; [constructor; apply F2_firstn, G|apply F2_skipn, G].
Qed.
Lemma comps_with_rel : forall cs cs', Forall2 crel cs cs' -> forall js js', jsrel js js' ->
  Forall2 crel (comps_with cs js) (comps_with cs' js').
Proof.
  intros cs cs' F. induction F as [|c c' cs cs' Hc F IH]; intros js js' G; cbn [comps_with]; [constructor|].
  destruct (comp_with_rel _ _ _ _ Hc G) as [H1 H2].
  destruct (comp_with c js) as [x r], (comp_with c' js') as [x' r']. cbn [fst snd] in H1, H2.
  constructor; [exact H1|apply IH, H2].
Qed.
Lemma with_jordans_rel : forall a a' js js', shrel a a' -> jsrel js js' ->
  shrel (with_jordans a js) (with_jordans a' js').
Proof.
  intros a a' js js' [| |c c' Hc|cs cs' F] G; cbn [with_jordans]; constructor.
  - apply comp_with_rel; assumption.
  - apply comps_with_rel; assumption.
Qed.

Definition sg (s s' : shape) : Prop := shrel s s' /\ sok s.
Definition rec_rel (x y : shape * shape * list jordan) : Prop :=
  sg (fst (fst x)) (fst (fst y)) /\ sg (snd (fst x)) (snd (fst y)) /\ Forall2 jg (snd x) (snd y).

Lemma jsrel_lines_all : forall l l', jsrel l l' -> Measure.lines_all l.
Proof.
  intros l l' F. unfold Measure.lines_all. induction F as [|j j' l l' Fj F IH]; constructor; [|exact IH].
  apply (jrel_lines_l _ _ Fj).
Qed.

Lemma recombine_rel : forall a a' b b' closed inside, sg a a' -> sg b b' ->
  rrel rec_rel (recombine a b closed inside) (recombine a' b' closed inside).
Proof.
  intros a a' b b' closed inside [Ha Ka] [Hb Kb]. unfold recombine.
  pose proof (jordans_rel _ _ Ha) as Fa. pose proof (jordans_rel _ _ Hb) as Fb.
  pose proof (split_all_rel _ _ (jg_intro _ _ Fa Ka) _ _ (jg_intro _ _ Fb Kb)) as Hs.
  pose proof (Measure.split_all_refines (jordans a) (jordans b)) as Hlen.
  destruct (split_all (jordans a) (jordans b)) as [[jas jbs]|k|],
           (split_all (jordans a') (jordans b')) as [[jas' jbs']|k'|];
    cbn [rrel] in Hs; try contradiction; cbn [bind rrel]; [|exact Hs|exact I].
  destruct Hs as [Gas Gbs]. cbn [fst snd] in Gas, Gbs.
  destruct (Hlen jas jbs (jsrel_lines_all _ _ Fa) (jsrel_lines_all _ _ Fb) eq_refl) as [La Lb].
  apply F2_length in La, Lb.
  assert (Sa : sg (with_jordans a jas) (with_jordans a' jas')).
  { split; [apply with_jordans_rel; [exact Ha|apply jg_jsrel, Gas]|].
    unfold sok. rewrite Measure.jordans_with_jordans by exact La. apply (jg_ok _ _ Gas). }
  assert (Sb : sg (with_jordans b jbs) (with_jordans b' jbs')).
  { split; [apply with_jordans_rel; [exact Hb|apply jg_jsrel, Gbs]|].
    unfold sok. rewrite Measure.jordans_with_jordans by exact Lb. apply (jg_ok _ _ Gbs). }
  rewrite (midpoints_shapes_rel _ _ _ _ closed inside (proj1 Sa) (proj1 Sb) (proj2 Sa) (proj2 Sb)).
  eapply rrel_bind.
  - apply follow_path_rel. apply F2_app; apply jg_jsrel; eassumption.
  - intros new new' Hn. cbn [rrel]. split; [exact Sa|]. split; [exact Sb|exact Hn].
Qed.

(* ------------------------------------------------------------------ *)
(* 5. containment of curves and shapes, regrouping, the operators      *)
(* ------------------------------------------------------------------ *)
Lemma points_rel : forall j j' n, jrel j j' -> Forall2 prel (points j n) (points j' n).
Proof.
  intros j j' n F. unfold points. apply F2_concat. eapply F2_map; [exact F|].
  intros s s' L. apply (F2_map eq prel); [apply F2_refl|]. intros k k' <-. apply lrel_evalr, L.
Qed.
Lemma simple_has_jordan_rel : forall self self' j j' b, jrel self self' -> closed_chain self = true ->
  jrel j j' -> simple_has_jordan self' j' b = simple_has_jordan self j b.
Proof.
  intros self self' j j' b Fs Hc Fj. unfold simple_has_jordan.
  rewrite (F2_forallb prel (fun p => simple_has_point self p b) (fun p => simple_has_point self' p b)
             (points j 0) (points j' 0) (points_rel _ _ 0 Fj)).
  2:{ intros p p' Hp. apply simple_has_point_rel; assumption. }
  destruct (negb _); [reflexivity|].
  rewrite (intersection_rel _ _ _ _ false true Fj Fs).
  destruct (intersection j self false true) as [inters|k|]; cbn [bind]; try reflexivity.
  f_equal. apply (F2_forallb (irel lrel)); [apply F2_combine_seq, Fj|].
  intros [a s] [a' s'] [E L]. cbn [fst snd] in E, L. subst a'.
  apply (F2_forallb eq); [apply F2_refl|]. intros u u' <-.
  apply simple_has_point_rel; [assumption|assumption|]. apply lrel_eval, L.
Qed.

Lemma lrel_rev : forall s s', lrel s s' -> lrel (rev s) (rev s').
Proof. intros s s' [a a' b b' Ha Hb]. cbn. constructor; assumption. Qed.
Lemma invert_rel : forall j j', jrel j j' -> jrel (invert j) (invert j').
Proof.
  intros j j' F. unfold invert, set_segments. apply map_seg_clean_jrel, F2_rev.
  eapply F2_map; [exact F|]. apply lrel_rev.
Qed.
Lemma invert_jg : forall j j', jg j j' -> jg (invert j) (invert j').
Proof.
  intros j j' [F [Hne Hc]]. split; [apply invert_rel, F|]. split.
  - intro E. apply (f_equal (@length seg)) in E. rewrite invert_length in E.
    destruct j; [congruence|discriminate].
  - apply invert_closed, Hc.
Qed.

Lemma simple_has_simple_rel : forall self self' other other', jg self self' -> jg other other' ->
  simple_has_simple self' other' = simple_has_simple self other.
Proof.
  intros self self' other other' [Fs [Ns Cs]] [Fo [No Co]]. unfold simple_has_simple.
  rewrite (jordan_area_rel _ _ Fs Cs), (jordan_area_rel _ _ Fo Co).
  pose proof (box_and_rel _ _ _ _ (jordan_box_rel _ _ Fs Ns) (jordan_box_rel _ _ Fo No)) as Hb.
  destruct (box_and (jordan_box self) (jordan_box other)), (box_and (jordan_box self') (jordan_box other'));
    cbn [orel] in Hb; try contradiction; [|reflexivity].
  rewrite (simple_has_jordan_rel self self' other other' true Fs Cs Fo).
  rewrite (simple_has_jordan_rel other other' self self' true Fo Co Fs).
  destruct (invert_jg _ _ (conj Fo (conj No Co))) as [Fi [_ Ci]].
  rewrite (simple_has_jordan_rel (invert other) (invert other') self self' true Fi Ci Fs).
  reflexivity.
Qed.
Lemma simple_has_connected_rel : forall self self' subs subs', jg self self' -> Forall2 jg subs subs' ->
  simple_has_connected self' subs' = simple_has_connected self subs.
Proof.
  intros self self' subs subs' Hs F. unfold simple_has_connected.
  apply (existsM_rel jg); [exact F|]. intros a b Hab.
  apply simple_has_simple_rel; apply invert_jg; assumption.
Qed.
Lemma cg_inv_S : forall j j', cg (CS j) (CS j') -> jg j j'.
Proof.
  intros j j' [H K]. inversion H; subst. unfold cok in K. cbn [comp_jordans] in K.
  inversion K; subst. split; assumption.
Qed.
Lemma cg_inv_C : forall js js', cg (CC js) (CC js') -> Forall2 jg js js'.
Proof. intros js js' [H K]. inversion H; subst. apply jg_intro; assumption. Qed.
Lemma cg_cases : forall c c', cg c c' ->
  (exists j j', c = CS j /\ c' = CS j' /\ jg j j') \/
  (exists js js', c = CC js /\ c' = CC js' /\ Forall2 jg js js').
Proof.
  intros c c' H. pose proof H as [R _]. destruct R as [j j' F|js js' F].
  - left. exists j, j'. split; [reflexivity|]. split; [reflexivity|]. apply cg_inv_S, H.
  - right. exists js, js'. split; [reflexivity|]. split; [reflexivity|]. apply cg_inv_C, H.
Qed.
Lemma simple_has_comp_rel : forall self self' c c', jg self self' -> cg c c' ->
  simple_has_comp self' c' = simple_has_comp self c.
Proof.
  intros self self' c c' Hs Hc.
  destruct (cg_cases _ _ Hc) as [(j & j' & -> & -> & Hj)|(js & js' & -> & -> & Hj)]; cbn [simple_has_comp].
  - apply simple_has_simple_rel; assumption.
  - apply simple_has_connected_rel; assumption.
Qed.
Lemma comp_has_comp_rel : forall c c' o o', cg c c' -> cg o o' -> comp_has_comp c' o' = comp_has_comp c o.
Proof.
  intros c c' o o' Hc Ho.
  destruct (cg_cases _ _ Hc) as [(j & j' & -> & -> & Hj)|(js & js' & -> & -> & Hj)]; cbn [comp_has_comp].
  - apply simple_has_comp_rel; assumption.
  - apply (forallM_rel jg); [exact Hj|]. intros a b Hab. apply simple_has_comp_rel; assumption.
Qed.
Lemma comp_has_disjoint_rel : forall c c' os os', cg c c' -> Forall2 cg os os' ->
  comp_has_disjoint c' os' = comp_has_disjoint c os.
Proof.
  intros c c' os os' Hc Ho.
  destruct (cg_cases _ _ Hc) as [(j & j' & -> & -> & Hj)|(js & js' & -> & -> & Hj)]; cbn [comp_has_disjoint].
  - apply (forallM_rel cg); [exact Ho|]. intros a b Hab. apply simple_has_comp_rel; assumption.
  - apply (forallM_rel jg); [exact Hj|]. intros a b Hab.
    apply (forallM_rel cg); [exact Ho|]. intros x y Hxy. apply simple_has_comp_rel; assumption.
Qed.
Lemma sg_cases : forall s s', sg s s' ->
  (s = SEmpty /\ s' = SEmpty) \/ (s = SWhole /\ s' = SWhole) \/
  (exists c c', s = SC c /\ s' = SC c' /\ cg c c') \/
  (exists cs cs', s = SD cs /\ s' = SD cs' /\ Forall2 cg cs cs').
Proof.
  intros s s' [R K]. destruct R as [| |c c' Hc|cs cs' F].
  - left. auto.
  - right. left. auto.
  - right. right. left. exists c, c'. split; [reflexivity|]. split; [reflexivity|]. split; assumption.
  - right. right. right. exists cs, cs'. split; [reflexivity|]. split; [reflexivity|].
    apply cg_intro; [exact F|]. apply sok_SD, K.
Qed.
Lemma contains_shape_rel : forall a a' b b', sg a a' -> sg b b' -> contains_shape a' b' = contains_shape a b.
Proof.
  intros a a' b b' Ha Hb.
  destruct (sg_cases _ _ Ha) as [[-> ->]|[[-> ->]|[(c & c' & -> & -> & Hc)|(cs & cs' & -> & -> & Hc)]]];
  destruct (sg_cases _ _ Hb) as [[-> ->]|[[-> ->]|[(o & o' & -> & -> & Ho)|(os & os' & -> & -> & Ho)]]];
  cbn [contains_shape]; try reflexivity.
  - apply comp_has_comp_rel; assumption.
  - apply comp_has_disjoint_rel; assumption.
  - apply (existsM_rel cg); [exact Hc|]. intros x y Hxy. apply comp_has_comp_rel; assumption.
  - apply (forallM_rel cg); [exact Ho|]. intros x y Hxy.
    apply (existsM_rel cg); [exact Hc|]. intros z w Hzw. apply comp_has_comp_rel; assumption.
Qed.

(* ---------- ShapeFromJordans / DivideConnecteds ---------- *)
Lemma areas_rel : forall l l', Forall2 jg l l' -> map jordan_area l' = map jordan_area l.
Proof.
  intros l l' F. apply (F2_map_eq jg); [exact F|]. intros j j' [Fj [_ Hc]]. apply jordan_area_rel; assumption.
Qed.
Lemma area_ge_rel : forall a b c d, jg a b -> jg c d -> area_ge b d = area_ge a c.
Proof.
  intros a b c d [F1 [_ C1]] [F2 [_ C2]]. unfold area_ge.
  rewrite (jordan_area_rel _ _ F1 C1), (jordan_area_rel _ _ F2 C2). reflexivity.
Qed.
Lemma gpart_cons : forall c s t, gpart c (s :: t) =
  do ext <- existsM (fun c0 =>
              do x <- simple_has_jordan c0 s true;
              if negb x then Ok true
              else do y <- simple_has_jordan s c0 true; Ok (negb y)) c;
  do r <- gpart c t;
  let '(ins, exts) := r in
  if ext then Ok (ins, s :: exts) else Ok (s :: ins, exts).
Proof. reflexivity. Qed.
Lemma gpart_rel : forall c c', Forall2 jg c c' -> forall l l', Forall2 jg l l' ->
  rrel (pair_rel (Forall2 jg) (Forall2 jg)) (gpart c l) (gpart c' l').
Proof.
  intros c c' Hc l l' F. induction F as [|s s' l l' Hs F IH].
  - cbn. split; constructor.
  - rewrite !gpart_cons.
    rewrite (existsM_rel jg
      (fun c0 => do x <- simple_has_jordan c0 s true; if negb x then Ok true
                 else do y <- simple_has_jordan s c0 true; Ok (negb y))
      (fun c0 => do x <- simple_has_jordan c0 s' true; if negb x then Ok true
                 else do y <- simple_has_jordan s' c0 true; Ok (negb y)) c c' Hc).
    2:{ intros a b [Fa [_ Ca]]. destruct Hs as [Fs [_ Cs]].
        rewrite (simple_has_jordan_rel a b s s' true Fa Ca Fs).
        rewrite (simple_has_jordan_rel s s' a b true Fs Cs Fa). reflexivity. }
    destruct (existsM _ c) as [ext|k|]; cbn [bind rrel]; [|reflexivity|exact I].
    eapply rrel_bind; [exact IH|]. intros [ins exts] [ins' exts'] [H1 H2]. cbn [fst snd] in H1, H2.
    destruct ext; cbn [rrel]; split; cbn [fst snd]; try assumption; constructor; assumption.
Qed.
Lemma grow_group_rel : forall fuel connected connected' simples simples' externals externals',
  Forall2 jg connected connected' -> Forall2 jg simples simples' -> Forall2 jg externals externals' ->
  rrel (pair_rel (Forall2 jg) (Forall2 jg)) (grow_group fuel connected simples externals)
       (grow_group fuel connected' simples' externals').
Proof.
  induction fuel as [|f IH]; intros connected connected' simples simples' externals externals' Hc Hs He;
    [exact I|].
  rewrite !grow_group_S. destruct Hs as [|s s' t t' Hss Ht].
  - cbn [rrel]. split; assumption.
  - assert (Hs : Forall2 jg (s :: t) (s' :: t')) by (constructor; assumption).
    rewrite (areas_rel _ _ Hs). cbv zeta.
    set (idx := argmax_abs (map jordan_area (s :: t))).
    assert (Hidx : (idx < length (s :: t))%nat).
    { unfold idx. rewrite <- (map_length jordan_area). apply argmax_abs_lt. discriminate. }
    assert (Hc' : Forall2 jg (connected ++ [nth idx (s :: t) []]) (connected' ++ [nth idx (s' :: t') []])).
    { apply F2_app; [exact Hc|]. constructor; [|constructor]. apply F2_nth_lt; assumption. }
    eapply rrel_bind; [apply gpart_rel; [exact Hc'|apply F2_remove_nth, Hs]|].
    intros [internal exts] [internal' exts'] [H1 H2]. cbn [fst snd] in H1, H2.
    apply IH; [exact Hc'|exact H1|]. apply F2_app; assumption.
Qed.
Lemma cg_S_intro : forall j j', jg j j' -> cg (CS j) (CS j').
Proof. intros j j' [F K]. split; [constructor; exact F|]. constructor; [exact K|constructor]. Qed.
Lemma cg_C_intro : forall js js', Forall2 jg js js' -> cg (CC js) (CC js').
Proof. intros js js' F. split; [constructor; apply jg_jsrel, F|]. exact (jg_ok _ _ F). Qed.
Lemma conn_comp_rel : forall l l', Forall2 jg l l' ->
  cg (match l with [j] => CS j | _ => CC (sort_by area_ge l) end)
     (match l' with [j] => CS j | _ => CC (sort_by area_ge l') end).
Proof.
  intros l l' F. pose proof (F2_sort_by jg area_ge area_ge area_ge_rel l l' F) as G.
  destruct F as [|a a' t t' Ha F]; [apply cg_C_intro, G|].
  destruct F as [|b b' t t' Hb F]; [apply cg_S_intro, Ha|]. apply cg_C_intro, G.
Qed.
Lemma divide_connecteds_rel : forall fuel simples simples', Forall2 jg simples simples' ->
  rrel (Forall2 cg) (divide_connecteds fuel simples) (divide_connecteds fuel simples').
Proof.
  induction fuel as [|f IH]; intros simples simples' F; [exact I|]. cbn [divide_connecteds].
  destruct F as [|s s' t t' Hs F]; [constructor|].
  assert (Hs' : Forall2 jg (s :: t) (s' :: t')) by (constructor; assumption).
  rewrite (F2_length _ _ _ Hs').
  eapply rrel_bind; [apply grow_group_rel; [constructor|exact Hs'|constructor]|].
  intros [connected externals] [connected' externals'] [H1 H2]. cbn [fst snd] in H1, H2.
  eapply rrel_bind; [apply IH, H2|]. intros rest rest' Hr. cbn [rrel].
  constructor; [apply conn_comp_rel, H1|exact Hr].
Qed.
Lemma cg_jordans : forall c c', cg c c' -> Forall2 jg (comp_jordans c) (comp_jordans c').
Proof. intros c c' [H K]. apply jg_intro; [apply comp_jordans_rel, H|exact K]. Qed.
Lemma comp_area_rel : forall c c', cg c c' -> comp_area c' = comp_area c.
Proof. intros c c' H. unfold comp_area. rewrite (areas_rel _ _ (cg_jordans _ _ H)). reflexivity. Qed.
Lemma comp_ge_rel : forall a b c d, cg a b -> cg c d -> comp_ge b d = comp_ge a c.
Proof. intros a b c d H1 H2. unfold comp_ge. rewrite (comp_area_rel _ _ H1), (comp_area_rel _ _ H2). reflexivity. Qed.
Lemma sg_C_intro : forall c c', cg c c' -> sg (SC c) (SC c').
Proof. intros c c' [H K]. split; [constructor; exact H|exact K]. Qed.
Lemma sg_D_intro : forall cs cs', Forall2 cg cs cs' -> sg (SD cs) (SD cs').
Proof.
  intros cs cs' F. split.
  - constructor. eapply F2_impl; [|exact F]. intros a b [H _]. exact H.
  - apply sok_SD. exact (F2_Forall_l _ _ _ _ F).
Qed.
Lemma sg_E : sg SEmpty SEmpty.
Proof. split; constructor. Qed.
Lemma sg_W : sg SWhole SWhole.
Proof. split; constructor. Qed.
Lemma disjoint_of_rel : forall cs cs', Forall2 cg cs cs' -> sg (disjoint_of cs) (disjoint_of cs').
Proof.
  intros cs cs' F. pose proof (F2_sort_by cg comp_ge comp_ge comp_ge_rel cs cs' F) as G.
  unfold disjoint_of.
  destruct F as [|a a' t t' Ha F]; [apply sg_E|].
  destruct F as [|b b' t t' Hb F]; [apply sg_C_intro, Ha|]. apply sg_D_intro, G.
Qed.
Lemma shape_from_jordans_rel : forall js js', Forall2 jg js js' ->
  rrel sg (shape_from_jordans js) (shape_from_jordans js').
Proof.
  intros js js' F. unfold shape_from_jordans. pose proof (F2_length _ _ _ F) as Hlen.
  destruct F as [|a a' t t' Ha F]; [reflexivity|].
  destruct F as [|b b' t t' Hb F]; [apply sg_C_intro, cg_S_intro, Ha|].
  rewrite Hlen.
  eapply rrel_bind; [apply divide_connecteds_rel; constructor; [exact Ha|constructor; assumption]|].
  intros cs cs' G. pose proof (disjoint_of_rel _ _ G) as D.
  destruct G as [|c c' r r' Hc G]; [exact D|].
  destruct G as [|d d' r r' Hd G]; [apply sg_C_intro, Hc|exact D].
Qed.
Lemma sg_jordans : forall s s', sg s s' -> Forall2 jg (jordans s) (jordans s').
Proof. intros s s' [H K]. apply jg_intro; [apply jordans_rel, H|exact K]. Qed.
Lemma copy_shape_rel : forall s s', sg s s' -> rrel sg (copy_shape s) (copy_shape s').
Proof.
  intros s s' H. pose proof (shape_from_jordans_rel _ _ (sg_jordans _ _ H)) as G.
  destruct (sg_cases _ _ H) as [[-> ->]|[[-> ->]|[(c & c' & -> & -> & Hc)|(cs & cs' & -> & -> & Hc)]]];
    cbn [copy_shape]; [apply sg_E|apply sg_W|exact G|exact G].
Qed.
Lemma op_not_rel : forall s s', sg s s' -> rrel sg (op_not s) (op_not s').
Proof.
  intros s s' H. pose proof (sg_jordans _ _ H) as J.
  destruct (sg_cases _ _ H) as [[-> ->]|[[-> ->]|[(c & c' & -> & -> & Hc)|(cs & cs' & -> & -> & Hc)]]].
  - apply sg_W.
  - apply sg_E.
  - destruct (cg_cases _ _ Hc) as [(j & j' & -> & -> & Hj)|(js & js' & -> & -> & Hj)]; cbn [op_not rrel].
    + apply sg_C_intro, cg_S_intro, invert_jg, Hj.
    + apply disjoint_of_rel. eapply F2_map; [exact Hj|]. intros a b Hab. apply cg_S_intro, invert_jg, Hab.
  - cbn [op_not]. apply shape_from_jordans_rel. eapply F2_map; [exact J|]. apply invert_jg.
Qed.

(* ---------- the operators ---------- *)
Definition op3_rel (x y : op3) : Prop :=
  sg (fst (fst x)) (fst (fst y)) /\ sg (snd (fst x)) (snd (fst y)) /\ sg (snd x) (snd y).
Lemma op3_intro : forall a a' b b' c c', sg a a' -> sg b b' -> sg c c' -> op3_rel (a, b, c) (a', b', c').
Proof. intros. repeat split; cbn [fst snd]; try apply H; try apply H0; apply H1. Qed.

Lemma gen_branch_rel : forall a a' b b' ca ca' cb cb' closed inside d d',
  sg a a' -> sg b b' -> sg ca ca' -> sg cb cb' -> sg d d' ->
  rrel op3_rel (gen_branch a b ca cb closed inside d) (gen_branch a' b' ca' cb' closed inside d').
Proof.
  intros a a' b b' ca ca' cb cb' closed inside d d' Ha Hb Hca Hcb Hd. unfold gen_branch.
  rewrite (contains_shape_rel a a' b b' Ha Hb), (contains_shape_rel b b' a a' Hb Ha).
  destruct (contains_shape a b) as [x|k|]; cbn [bind rrel]; [|reflexivity|exact I].
  destruct x.
  { eapply rrel_bind; [apply copy_shape_rel, Hca|]. intros c c' Hc. apply op3_intro; assumption. }
  destruct (contains_shape b a) as [y|k|]; cbn [bind rrel]; [|reflexivity|exact I].
  destruct y.
  { eapply rrel_bind; [apply copy_shape_rel, Hcb|]. intros c c' Hc. apply op3_intro; assumption. }
  eapply rrel_bind; [apply recombine_rel; assumption|].
  intros [[xa xb] new] [[xa' xb'] new'] (H1 & H2 & H3). cbn [fst snd] in H1, H2, H3.
  pose proof (shape_from_jordans_rel _ _ H3) as G.
  destruct H3 as [|n n' t t' Hn H3].
  - apply op3_intro; assumption.
  - eapply rrel_bind; [exact G|]. intros s s' Hs. apply op3_intro; assumption.
Qed.

Lemma sg_proper : forall s s', sg s s' ->
  (s = SEmpty /\ s' = SEmpty) \/ (s = SWhole /\ s' = SWhole) \/
  (s <> SEmpty /\ s <> SWhole /\ s' <> SEmpty /\ s' <> SWhole).
Proof.
  intros s s' H.
  destruct (sg_cases _ _ H) as [[-> ->]|[[-> ->]|[(c & c' & -> & -> & Hc)|(cs & cs' & -> & -> & Hc)]]];
    auto; right; right; repeat split; discriminate.
Qed.

Theorem op_or_rel : forall a a' b b', sg a a' -> sg b b' -> rrel op3_rel (op_or a b) (op_or a' b').
Proof.
  intros a a' b b' Ha Hb.
  destruct (sg_proper _ _ Ha) as [[-> ->]|[[-> ->]|(A1 & A2 & A3 & A4)]].
  - cbn [op_or]. eapply rrel_bind; [apply copy_shape_rel, Hb|]. intros c c' Hc. apply op3_intro; assumption.
  - cbn [op_or rrel]. apply op3_intro; [assumption|assumption|apply sg_W].
  - destruct (sg_proper _ _ Hb) as [[-> ->]|[[-> ->]|(B1 & B2 & B3 & B4)]].
    + destruct a as [| |c|cs], a' as [| |c'|cs']; try congruence; cbn [op_or];
        (eapply rrel_bind; [apply copy_shape_rel, Ha|]; intros x x' Hx; apply op3_intro; assumption).
    + destruct a as [| |c|cs], a' as [| |c'|cs']; try congruence; cbn [op_or rrel];
        (apply op3_intro; [assumption|assumption|apply sg_W]).
    + rewrite !op_or_general by assumption. apply gen_branch_rel; try assumption. apply sg_W.
Qed.
Theorem op_and_rel : forall a a' b b', sg a a' -> sg b b' -> rrel op3_rel (op_and a b) (op_and a' b').
Proof.
  intros a a' b b' Ha Hb.
  destruct (sg_proper _ _ Ha) as [[-> ->]|[[-> ->]|(A1 & A2 & A3 & A4)]].
  - cbn [op_and rrel]. apply op3_intro; [assumption|assumption|apply sg_E].
  - cbn [op_and]. eapply rrel_bind; [apply copy_shape_rel, Hb|]. intros c c' Hc. apply op3_intro; assumption.
  - destruct (sg_proper _ _ Hb) as [[-> ->]|[[-> ->]|(B1 & B2 & B3 & B4)]].
    + destruct a as [| |c|cs], a' as [| |c'|cs']; try congruence; cbn [op_and rrel];
        (apply op3_intro; [assumption|assumption|apply sg_E]).
    + destruct a as [| |c|cs], a' as [| |c'|cs']; try congruence; cbn [op_and];
        (eapply rrel_bind; [apply copy_shape_rel, Ha|]; intros x x' Hx; apply op3_intro; assumption).
    + rewrite !op_and_general by assumption. apply gen_branch_rel; try assumption. apply sg_E.
Qed.
Theorem op_sub_rel : forall a a' b b', sg a a' -> sg b b' ->
  rrel (pair_rel sg sg) (op_sub a b) (op_sub a' b').
Proof.
  intros a a' b b' Ha Hb. pose proof (op_not_rel _ _ Hb) as Hn.
  assert (G : rrel (pair_rel sg sg)
            (do nb <- op_not b; do r <- op_and a nb; let '(x, _, s) := r in Ok (x, s))
            (do nb <- op_not b'; do r <- op_and a' nb; let '(x, _, s) := r in Ok (x, s))).
  { eapply rrel_bind; [exact Hn|]. intros nb nb' Hnb.
    eapply rrel_bind; [apply op_and_rel; assumption|].
    intros [[x y] s] [[x' y'] s'] (H1 & H2 & H3). cbn [fst snd] in H1, H2, H3. split; assumption. }
  destruct (sg_cases _ _ Ha) as [[-> ->]|[[-> ->]|[(c & c' & -> & -> & Hc)|(cs & cs' & -> & -> & Hc)]]];
    cbn [op_sub].
  - split; cbn [fst snd]; apply sg_E.
  - eapply rrel_bind; [exact Hn|]. intros nb nb' Hnb. split; cbn [fst snd]; [apply sg_W|exact Hnb].
  - exact G.
  - exact G.
Qed.
Theorem op_xor_rel : forall a a' b b', sg a a' -> sg b b' -> rrel op3_rel (op_xor a b) (op_xor a' b').
Proof.
  intros a a' b b' Ha Hb. unfold op_xor.
  eapply rrel_bind; [apply op_sub_rel; assumption|].
  intros [a1 d1] [a1' d1'] [H1 H2]. cbn [fst snd] in H1, H2.
  eapply rrel_bind; [apply op_sub_rel; assumption|].
  intros [b1 d2] [b1' d2'] [H3 H4]. cbn [fst snd] in H3, H4.
  eapply rrel_bind; [apply op_or_rel; assumption|].
  intros [[x y] s] [[x' y'] s'] (H5 & H6 & H7). cbn [fst snd] in H7. apply op3_intro; assumption.
Qed.

(* ---------- __eq__ ---------- *)
Lemma unite_lines_eq : forall a0 a1 b0 b1, unite [a0; a1] [b0; b1] =
  if negb (pt_eq a1 b0) then URaise EAssert else
  if Qlt_bool tol6 (Qabs' (cross (psub a1 a0) (psub b1 b0))) then UNo else
  let dsum := padd (psub a1 a0) (psub b1 b0) in
  if Qeq_bool (inner dsum dsum) 0 then URaise EZeroDiv else
  let node := inner (psub a1 a0) dsum / inner dsum dsum in
  if Qle_bool node 0 || Qle_bool 1 node then URaise EOther else
  let m := lerp (/ node) a0 a1 in
  if peqb (lerp node a0 m) b0 && (peqb m b1 && true) then UYes [pred_ a0; pred_ b1] else UNo.
Proof. reflexivity. Qed.

Inductive urel : unite_res -> unite_res -> Prop :=
| urel_Y : forall s s', lrel s s' -> urel (UYes s) (UYes s')
| urel_N : urel UNo UNo
| urel_R : forall k, urel (URaise k) (URaise k).

Lemma lerp_rel2 : forall t t' a a' b b', t == t' -> prel a a' -> prel b b' -> prel (lerp t a b) (lerp t' a' b').
Proof.
  intros t t' a a' b b' Ht Ha Hb. eapply prel_peq_r; [apply lerp_rel; eassumption|].
  unfold peq, lerp, padd, pscale. cbn [px py fst snd]. rewrite Ht. split; reflexivity.
Qed.
Lemma padd_peq : forall a a' b b', peq a a' -> peq b b' -> peq (padd a b) (padd a' b').
Proof. intros a a' b b' [A1 A2] [B1 B2]. unfold peq, padd. cbn [px py fst snd]. rewrite A1, A2, B1, B2. split; reflexivity. Qed.

Lemma unite_rel : forall a a' b b', lrel a a' -> lrel b b' -> urel (unite a b) (unite a' b').
Proof.
  intros a a' b b' [a0 a0' a1 a1' A0 A1] [b0 b0' b1 b1' B0 B1]. rewrite !unite_lines_eq.
  rewrite (pt_eq_rel _ _ _ _ A1 B0). destruct (negb (pt_eq a1 b0)); [constructor|].
  assert (E1 : Qlt_bool tol6 (Qabs' (cross (psub a1' a0') (psub b1' b0')))
             = Qlt_bool tol6 (Qabs' (cross (psub a1 a0) (psub b1 b0))))
    by (rewrite (cross_rel _ _ _ _ _ _ _ _ A1 A0 B1 B0); reflexivity).
  rewrite E1. destruct (Qlt_bool tol6 (Qabs' (cross (psub a1 a0) (psub b1 b0)))); [constructor|].
  pose proof (psub_rel _ _ _ _ A1 A0) as Da. pose proof (psub_rel _ _ _ _ B1 B0) as Db.
  pose proof (padd_peq _ _ _ _ Da Db) as Ds. apply peq_sym in Da, Ds.
  pose proof (inner_peq _ _ _ _ Ds Ds) as Hden. pose proof (inner_peq _ _ _ _ Da Ds) as Hnum.
  revert Hden Hnum. cbv zeta.
  generalize (inner (padd (psub a1' a0') (psub b1' b0')) (padd (psub a1' a0') (psub b1' b0'))).
  generalize (inner (psub a1' a0') (padd (psub a1' a0') (psub b1' b0'))).
  generalize (inner (padd (psub a1 a0) (psub b1 b0)) (padd (psub a1 a0) (psub b1 b0))).
  generalize (inner (psub a1 a0) (padd (psub a1 a0) (psub b1 b0))).
  intros num den num' den' Hden Hnum.
  assert (E2 : Qeq_bool den' 0 = Qeq_bool den 0) by (rewrite Hden; reflexivity). rewrite E2.
  destruct (Qeq_bool den 0); [constructor|].
  assert (Hn : num' / den' == num / den) by (rewrite Hnum, Hden; reflexivity).
  assert (E3 : Qle_bool (num' / den') 0 || Qle_bool 1 (num' / den') = Qle_bool (num / den) 0 || Qle_bool 1 (num / den))
    by (rewrite Hn; reflexivity).
  rewrite E3. destruct (Qle_bool (num / den) 0 || Qle_bool 1 (num / den)); [constructor|].
  assert (Hm : prel (lerp (/ (num / den)) a0 a1) (lerp (/ (num' / den')) a0' a1')).
  { apply lerp_rel2; [rewrite Hn; reflexivity|assumption|assumption]. }
  rewrite (peqb_rel _ _ _ _ (lerp_rel2 _ _ _ _ _ _ (Qeq_sym _ _ Hn) A0 Hm) B0), (peqb_rel _ _ _ _ Hm B1).
  destruct (peqb _ b0 && (peqb _ b1 && true)); constructor.
  constructor; apply prel_pred; assumption.
Qed.

Lemma clean_scan_rel : forall n i segs segs', jrel segs segs' -> (i + n <= length segs)%nat ->
  rrel (orel jrel) (clean_scan n i segs) (clean_scan n i segs').
Proof.
  induction n as [|n IH]; intros i segs segs' F Hle; cbn [clean_scan]; [exact I|].
  rewrite (jrel_length _ _ F).
  assert (Hi : (i < length segs)%nat) by lia.
  assert (Hj : ((i + 1) mod length segs < length segs)%nat) by (apply Nat.mod_upper_bound; lia).
  remember (unite (nth i segs []) (nth ((i + 1) mod length segs) segs [])) as u eqn:Eu.
  remember (unite (nth i segs' []) (nth ((i + 1) mod length segs) segs' [])) as u' eqn:Eu'.
  assert (U : urel u u').
  { subst u u'. apply unite_rel; apply F2_nth_lt; assumption. }
  clear Eu Eu'. revert U.
  intros U. destruct U as [m m' Hm| |k]; cbn [rrel orel].
  - apply F2_remove_nth, F2_set_nth; assumption.
  - apply IH; [exact F|lia].
  - reflexivity.
Qed.
Lemma clean_loop_rel : forall f segs segs', jrel segs segs' -> rrel jrel (clean_loop f segs) (clean_loop f segs').
Proof.
  induction f as [|f IH]; intros segs segs' F; cbn [clean_loop]; [exact I|].
  pose proof (clean_scan_rel (length segs) 0 segs segs' F ltac:(lia)) as Hs.
  rewrite (jrel_length _ _ F).
  destruct F as [|s s' t t' L F]; [constructor|].
  eapply rrel_bind; [exact Hs|]. intros [x|] [x'|] Hx; cbn [orel] in Hx; try contradiction.
  - apply IH, Hx.
  - cbn [rrel]. constructor; assumption.
Qed.
Lemma clean_rel : forall j j', jrel j j' -> rrel jrel (clean j) (clean j').
Proof.
  intros j j' F. unfold clean. pose proof (map_seg_clean_jrel _ _ F) as G.
  rewrite (jrel_length _ _ G).
  eapply rrel_bind; [apply clean_loop_rel, G|]. intros x x' Hx. cbn [rrel]. unfold set_segments.
  apply map_seg_clean_jrel, Hx.
Qed.

Definition jeq_go (sc : jordan) (index nsegments : nat) :=
  fix go (i : nat) (l : list seg) : res bool :=
    match l with
    | [] => Ok true
    | s1 :: t =>
        let k := Nat.modulo (i + index) nsegments in
        match nth_error sc k with
        | None => Err EIndex
        | Some s0 => if seg_eq s0 s1 then go (S i) t else Ok false
        end
    end.
Lemma jordan_eq_unfold : forall self other, jordan_eq self other =
  if negb (forallb (jordan_has self) (points other 1)) then Ok false
  else
    do sc <- clean self;
    do oc <- clean other;
    if negb (Nat.eqb (length sc) (length oc)) then Ok false
    else
      match oc with
      | [] => Err EIndex
      | seg1 :: _ =>
          match index_where (fun s0 => seg_eq s0 seg1) sc with
          | None => Ok false
          | Some index => jeq_go sc index (length sc) O oc
          end
      end.
Proof. reflexivity. Qed.
Lemma jeq_go_rel : forall sc sc' index n, jrel sc sc' -> forall l l', jrel l l' -> forall i,
  jeq_go sc' index n i l' = jeq_go sc index n i l.
Proof.
  intros sc sc' index n F l l' G. induction G as [|s s' l l' L G IH]; intros i; cbn [jeq_go]; [reflexivity|].
  pose proof (F2_nth_error _ _ _ ((i + index) mod n)%nat F) as H.
  destruct (nth_error sc ((i + index) mod n)) as [x|], (nth_error sc' ((i + index) mod n)) as [x'|];
    try contradiction; [|reflexivity].
  rewrite (seg_eq_rel _ _ _ _ (lrel_srel _ _ H) (lrel_srel _ _ L)), IH. reflexivity.
Qed.
Lemma jordan_eq_rel : forall a a' b b', jrel a a' -> jrel b b' -> jordan_eq a' b' = jordan_eq a b.
Proof.
  intros a a' b b' Fa Fb. rewrite !jordan_eq_unfold.
  rewrite (F2_forallb prel (jordan_has a) (jordan_has a') (points b 1) (points b' 1) (points_rel _ _ 1 Fb)).
  2:{ intros p p' Hp. apply jordan_has_rel; assumption. }
  destruct (negb _); [reflexivity|].
  pose proof (clean_rel _ _ Fa) as Ca. pose proof (clean_rel _ _ Fb) as Cb.
  destruct (clean a) as [sc|k|], (clean a') as [sc'|k'|]; cbn [rrel] in Ca; try contradiction;
    cbn [bind]; [|congruence|reflexivity].
  destruct (clean b) as [oc|k|], (clean b') as [oc'|k'|]; cbn [rrel] in Cb; try contradiction;
    cbn [bind]; [|congruence|reflexivity].
  rewrite (jrel_length _ _ Ca), (jrel_length _ _ Cb).
  destruct (negb _); [reflexivity|].
  pose proof (jeq_go_rel sc sc') as Hgo.
  destruct Cb as [|s1 s1' t t' L1 Cb]; [reflexivity|].
  rewrite (F2_index_where lrel (fun s0 => seg_eq s0 s1) (fun s0 => seg_eq s0 s1') sc sc' Ca).
  2:{ intros x x' Lx. apply seg_eq_rel; apply lrel_srel; assumption. }
  destruct (index_where _ sc) as [index|]; [|reflexivity].
  apply Hgo; [exact Ca|]. constructor; assumption.
Qed.
Lemma simple_eq_rel : forall a a' b b', jg a a' -> jg b b' -> simple_eq a' b' = simple_eq a b.
Proof.
  intros a a' b b' [Fa [_ Ca]] [Fb [_ Cb]]. unfold simple_eq.
  rewrite (jordan_area_rel _ _ Fa Ca), (jordan_area_rel _ _ Fb Cb), (jordan_eq_rel _ _ _ _ Fa Fb). reflexivity.
Qed.
Lemma find_simple_rel : forall s s' l l', jg s s' -> Forall2 jg l l' -> forall k,
  find_simple s' k l' = find_simple s k l.
Proof.
  intros s s' l l' Hs F. induction F as [|o o' l l' Ho F IH]; intros k; cbn [find_simple]; [reflexivity|].
  rewrite (simple_eq_rel _ _ _ _ Ho Hs), IH. reflexivity.
Qed.
Lemma match_simples_rel : forall ss ss', Forall2 jg ss ss' -> forall os os', Forall2 jg os os' ->
  match_simples ss' os' = match_simples ss os.
Proof.
  intros ss ss' F. induction F as [|s s' ss ss' Hs F IH]; intros os os' G; cbn [match_simples]; [reflexivity|].
  rewrite (find_simple_rel _ _ _ _ Hs G).
  destruct (find_simple s 0 os) as [[k|]|e|]; cbn [bind]; try reflexivity.
  apply IH, F2_remove_nth, G.
Qed.
Lemma comp_eq_rel : forall a a' b b', cg a a' -> cg b b' -> comp_eq a' b' = comp_eq a b.
Proof.
  intros a a' b b' Ha Hb. pose proof (comp_area_rel _ _ Ha) as Ea. pose proof (comp_area_rel _ _ Hb) as Eb.
  destruct (cg_cases _ _ Ha) as [(j & j' & -> & -> & Hj)|(js & js' & -> & -> & Hj)];
  destruct (cg_cases _ _ Hb) as [(o & o' & -> & -> & Ho)|(os & os' & -> & -> & Ho)];
    cbn [comp_eq]; try reflexivity.
  - apply simple_eq_rel; assumption.
  - rewrite Ea, Eb, (F2_length _ _ _ Hj), (F2_length _ _ _ Ho), (match_simples_rel _ _ Hj _ _ Ho). reflexivity.
Qed.
Lemma dfind_rel : forall s0 s0' l l', cg s0 s0' -> Forall2 cg l l' -> forall k,
  dfind s0' k l' = dfind s0 k l.
Proof.
  intros s0 s0' l l' Hs F. induction F as [|o o' l l' Ho F IH]; intros k; cbn [dfind]; [reflexivity|].
  rewrite (comp_eq_rel _ _ _ _ Ho Hs), IH. reflexivity.
Qed.
Lemma disjoint_match_rel : forall fuel ss ss' os os', Forall2 cg ss ss' -> Forall2 cg os os' ->
  disjoint_match fuel ss' os' = disjoint_match fuel ss os.
Proof.
  induction fuel as [|f IH]; intros ss ss' os os' Fs Fo; [reflexivity|].
  destruct Fs as [|s0 s0' st st' Hs Fs].
  - destruct Fo; reflexivity.
  - rewrite !disjoint_match_S. rewrite (dfind_rel _ _ _ _ Hs Fo).
    destruct Fo as [|o o' ot ot' Ho Fo]; [reflexivity|].
    destruct (dfind s0 0 (o :: ot)) as [[k|]|e|]; cbn [bind]; try reflexivity.
    apply IH; [exact Fs|]. apply F2_remove_nth. constructor; assumption.
Qed.
Lemma shape_area_rel : forall s s', sg s s' -> shape_area s' = shape_area s.
Proof. intros s s' H. unfold shape_area. rewrite (areas_rel _ _ (sg_jordans _ _ H)). reflexivity. Qed.
Theorem shape_eq_rel : forall a a' b b', sg a a' -> sg b b' -> shape_eq a' b' = shape_eq a b.
Proof.
  intros a a' b b' Ha Hb. pose proof (shape_area_rel _ _ Ha) as Ea. pose proof (shape_area_rel _ _ Hb) as Eb.
  destruct (sg_cases _ _ Ha) as [[-> ->]|[[-> ->]|[(c & c' & -> & -> & Hc)|(cs & cs' & -> & -> & Hc)]]];
  destruct (sg_cases _ _ Hb) as [[-> ->]|[[-> ->]|[(o & o' & -> & -> & Ho)|(os & os' & -> & -> & Ho)]]];
  cbn [shape_eq]; try reflexivity.
  - apply comp_eq_rel; assumption.
  - rewrite Ea, Eb, (F2_length _ _ _ Hc), (disjoint_match_rel _ _ _ _ _ Hc Ho). reflexivity.
Qed.

End Translate.

(* ================================================================== *)
(* 6. the statements                                                   *)
(* ================================================================== *)
(* the moved shape: v added to every control point *)
Definition move_shape (v : point) (s : shape) : shape := map_points (fun p => padd p v) s.

(* "the right one is the left one moved by v", up to == on coordinates (no shape condition) *)
Definition pt_moved (v p q : point) : Prop := px q == px p + px v /\ py q == py p + py v.
Definition seg_moved (v : point) : seg -> seg -> Prop := Forall2 (pt_moved v).
Definition jordan_moved (v : point) : jordan -> jordan -> Prop := Forall2 (seg_moved v).
Inductive comp_moved (v : point) : comp -> comp -> Prop :=
| cm_S : forall j j', jordan_moved v j j' -> comp_moved v (CS j) (CS j')
| cm_C : forall js js', Forall2 (jordan_moved v) js js' -> comp_moved v (CC js) (CC js').
Inductive shape_moved (v : point) : shape -> shape -> Prop :=
| sm_E : shape_moved v SEmpty SEmpty
| sm_W : shape_moved v SWhole SWhole
| sm_C : forall c c', comp_moved v c c' -> shape_moved v (SC c) (SC c')
| sm_D : forall cs cs', Forall2 (comp_moved v) cs cs' -> shape_moved v (SD cs) (SD cs').
(* results: same error, or both Ok and related *)
Definition res_rel {A} (R : A -> A -> Prop) (r r' : res A) : Prop :=
  match r, r' with
  | Ok a, Ok b => R a b
  | Err k, Err k' => k = k'
  | NoFuel, NoFuel => True
  | _, _ => False
  end.
Definition op3_moved (v : point) (x y : op3) : Prop :=
  shape_moved v (fst (fst x)) (fst (fst y)) /\ shape_moved v (snd (fst x)) (snd (fst y)) /\
  shape_moved v (snd x) (snd y).
Definition op2_moved (v : point) (x y : shape * shape) : Prop :=
  shape_moved v (fst x) (fst y) /\ shape_moved v (snd x) (snd y).

(* the hypotheses, decidable: every curve is a non-empty closed chain (of straight segments:
   shape_lines) *)
Definition chain_b (j : jordan) : bool := match j with [] => false | _ => closed_chain j end.
Definition shape_chains (s : shape) : bool := forallb chain_b (jordans s).

Lemma jrel_jordan_moved : forall v j j', jrel v j j' -> jordan_moved v j j'.
Proof. intros v j j'. apply F2_impl. intros s s' L. exact (lrel_srel v _ _ L). Qed.
Lemma crel_comp_moved : forall v c c', crel v c c' -> comp_moved v c c'.
Proof.
  intros v c c' [j j' F|js js' F]; constructor; [apply jrel_jordan_moved, F|].
  eapply F2_impl; [|exact F]. apply jrel_jordan_moved.
Qed.
Lemma shrel_shape_moved : forall v s s', shrel v s s' -> shape_moved v s s'.
Proof.
  intros v s s' [| |c c' H|cs cs' F]; constructor; [apply crel_comp_moved, H|].
  eapply F2_impl; [|exact F]. apply crel_comp_moved.
Qed.
Lemma sg_shape_moved : forall v s s', sg v s s' -> shape_moved v s s'.
Proof. intros v s s' [H _]. apply shrel_shape_moved, H. Qed.

Lemma sok_of_chains : forall s, shape_chains s = true -> sok s.
Proof.
  intros s H. unfold sok, shape_chains in *. rewrite forallb_forall in H. apply Forall_forall.
  intros j Hj. specialize (H j Hj). destruct j as [|x j]; [discriminate|]. split; [discriminate|exact H].
Qed.

(* any map that moves every point by v (up to ==) relates a polygonal shape to its image *)
Lemma jrel_map : forall v (f : point -> point), (forall p, prel v p (f p)) ->
  forall j, all_lines j = true -> jrel v j (map (map f) j).
Proof.
  intros v f Hf j. induction j as [|s j IH]; intros Hl; cbn [map]; [constructor|].
  cbn [all_lines forallb] in Hl. apply andb_prop in Hl. destruct Hl as [Hs Hl].
  constructor; [|apply IH, Hl].
  destruct s as [|a [|b [|c s]]]; try discriminate Hs. cbn [map]. constructor; apply Hf.
Qed.
Lemma jsrel_map : forall v (f : point -> point), (forall p, prel v p (f p)) ->
  forall js, forallb all_lines js = true -> jsrel v js (map (map (map f)) js).
Proof.
  intros v f Hf js. induction js as [|j js IH]; intros Hl; cbn [map]; [constructor|].
  cbn [forallb] in Hl. apply andb_prop in Hl. destruct Hl as [Hj Hl].
  constructor; [apply jrel_map; assumption|apply IH, Hl].
Qed.
Lemma crel_map : forall v (f : point -> point), (forall p, prel v p (f p)) ->
  forall c, forallb all_lines (comp_jordans c) = true -> crel v c (comp_map (map (map f)) c).
Proof.
  intros v f Hf [j|js] Hl; cbn [comp_map comp_jordans forallb] in *.
  - rewrite andb_true_r in Hl. constructor. apply jrel_map; assumption.
  - constructor. apply jsrel_map; assumption.
Qed.
Lemma shrel_map_points : forall v (f : point -> point), (forall p, prel v p (f p)) ->
  forall s, shape_lines s = true -> shrel v s (map_points f s).
Proof.
  intros v f Hf s Hl. rewrite map_points_shape_map. unfold shape_lines in Hl.
  destruct s as [| |c|cs]; cbn [shape_map jordans] in *; constructor.
  - apply crel_map; assumption.
  - induction cs as [|c cs IH]; cbn [map]; [constructor|].
    cbn [map concat] in Hl. rewrite forallb_app in Hl. apply andb_prop in Hl. destruct Hl as [Hc Hl].
    constructor; [apply crel_map; assumption|apply IH, Hl].
Qed.
Lemma sg_move : forall v s, shape_lines s = true -> shape_chains s = true -> sg v s (move_shape v s).
Proof.
  intros v s Hl Hc. split; [|apply sok_of_chains, Hc].
  apply shrel_map_points; [|exact Hl]. intro p. apply prel_padd.
Qed.
(* the model's own move (coordinates reduced by Qred) is such a map too *)
Lemma sg_move_pt : forall v s, shape_lines s = true -> shape_chains s = true ->
  sg v s (map_points (move_pt v) s).
Proof.
  intros v s Hl Hc. split; [|apply sok_of_chains, Hc].
  apply shrel_map_points; [|exact Hl]. intro p. unfold move_pt.
  eapply prel_peq_r; [apply prel_padd|]. apply peq_sym. apply Equivariance.pred_peq.
Qed.

Lemma rrel_res_rel : forall {A} (R S : A -> A -> Prop) r r',
  (forall a b, R a b -> S a b) -> rrel R r r' -> res_rel S r r'.
Proof. intros A R S [a|k|] [b|k'|] H; cbn; auto. Qed.
Lemma op3_rel_moved : forall v x y, op3_rel v x y -> op3_moved v x y.
Proof. intros v x y (H1 & H2 & H3). repeat split; apply sg_shape_moved; assumption. Qed.

(* ---------- relational form: any two operand pairs related by the translation ---------- *)
(* [sg v a a'] : a is a polygon with non-empty closed curves and a' is a moved by v, up to ==,
   with the same structure and straight segments.  Full strength: op_or_rel, op_and_rel, op_sub_rel,
   op_xor_rel, op_not_rel, copy_shape_rel, contains_point_rel, contains_shape_rel, shape_eq_rel. *)
Theorem op_or_moved : forall v a a' b b', sg v a a' -> sg v b b' ->
  res_rel (op3_moved v) (op_or a b) (op_or a' b').
Proof. intros. eapply rrel_res_rel; [apply op3_rel_moved|apply op_or_rel; assumption]. Qed.
Theorem op_and_moved : forall v a a' b b', sg v a a' -> sg v b b' ->
  res_rel (op3_moved v) (op_and a b) (op_and a' b').
Proof. intros. eapply rrel_res_rel; [apply op3_rel_moved|apply op_and_rel; assumption]. Qed.
Theorem op_sub_moved : forall v a a' b b', sg v a a' -> sg v b b' ->
  res_rel (op2_moved v) (op_sub a b) (op_sub a' b').
Proof.
  intros. eapply rrel_res_rel; [|apply op_sub_rel; eassumption].
  intros x y [H1 H2]. split; apply sg_shape_moved; assumption.
Qed.
Theorem op_xor_moved : forall v a a' b b', sg v a a' -> sg v b b' ->
  res_rel (op3_moved v) (op_xor a b) (op_xor a' b').
Proof. intros. eapply rrel_res_rel; [apply op3_rel_moved|apply op_xor_rel; assumption]. Qed.
Theorem op_not_moved : forall v a a', sg v a a' -> res_rel (shape_moved v) (op_not a) (op_not a').
Proof. intros. eapply rrel_res_rel; [apply sg_shape_moved|apply op_not_rel; assumption]. Qed.

(* ---------- T(A) op T(B) = T(A op B), for any map f that moves every point by v ---------- *)
Section Final.
Variable v : point.
Variables a b : shape.
Hypothesis La : shape_lines a = true.
Hypothesis Ca : shape_chains a = true.
Hypothesis Lb : shape_lines b = true.
Hypothesis Cb : shape_chains b = true.
Variable f : point -> point.
Hypothesis Hf : forall p, pt_moved v p (f p).

Let Ga : sg v a (map_points f a).
Proof. split; [apply shrel_map_points; [exact Hf|exact La]|apply sok_of_chains, Ca]. Qed.
Let Gb : sg v b (map_points f b).
Proof. split; [apply shrel_map_points; [exact Hf|exact Lb]|apply sok_of_chains, Cb]. Qed.

Theorem op_or_translate_gen :
  res_rel (op3_moved v) (op_or a b) (op_or (map_points f a) (map_points f b)).
Proof. apply op_or_moved; assumption. Qed.
Theorem op_and_translate_gen :
  res_rel (op3_moved v) (op_and a b) (op_and (map_points f a) (map_points f b)).
Proof. apply op_and_moved; assumption. Qed.
Theorem op_sub_translate_gen :
  res_rel (op2_moved v) (op_sub a b) (op_sub (map_points f a) (map_points f b)).
Proof. apply op_sub_moved; assumption. Qed.
Theorem op_xor_translate_gen :
  res_rel (op3_moved v) (op_xor a b) (op_xor (map_points f a) (map_points f b)).
Proof. apply op_xor_moved; assumption. Qed.
Theorem op_not_translate_gen :
  res_rel (shape_moved v) (op_not a) (op_not (map_points f a)).
Proof. apply op_not_moved; assumption. Qed.
Theorem copy_shape_translate_gen :
  res_rel (shape_moved v) (copy_shape a) (copy_shape (map_points f a)).
Proof. eapply rrel_res_rel; [apply sg_shape_moved|apply copy_shape_rel; assumption]. Qed.
Theorem contains_point_translate_gen : forall p closed,
  contains_point (map_points f a) (f p) closed = contains_point a p closed.
Proof. intros p closed. apply (contains_point_rel v); [apply Ga|apply Ga|apply Hf]. Qed.
Theorem contains_shape_translate_gen :
  contains_shape (map_points f a) (map_points f b) = contains_shape a b.
Proof. apply (contains_shape_rel v); assumption. Qed.
Theorem shape_eq_translate_gen :
  shape_eq (map_points f a) (map_points f b) = shape_eq a b.
Proof. apply (shape_eq_rel v); assumption. Qed.
End Final.

Lemma padd_moved : forall v p, pt_moved v p (padd p v).
Proof. intros v p. split; reflexivity. Qed.
Lemma move_pt_moved : forall v p, pt_moved v p (move_pt v p).
Proof.
  intros v p. unfold move_pt. eapply prel_peq_r; [apply prel_padd|]. apply peq_sym, Equivariance.pred_peq.
Qed.

(* ---------- the requested form: move_shape v adds v to every control point ---------- *)
Section Moved.
Variable v : point.
Variables a b : shape.
Hypothesis La : shape_lines a = true.
Hypothesis Ca : shape_chains a = true.
Hypothesis Lb : shape_lines b = true.
Hypothesis Cb : shape_chains b = true.

Theorem op_or_translate :
  res_rel (op3_moved v) (op_or a b) (op_or (move_shape v a) (move_shape v b)).
Proof. exact (op_or_translate_gen v a b La Ca Lb Cb _ (padd_moved v)). Qed.
Theorem op_and_translate :
  res_rel (op3_moved v) (op_and a b) (op_and (move_shape v a) (move_shape v b)).
Proof. exact (op_and_translate_gen v a b La Ca Lb Cb _ (padd_moved v)). Qed.
Theorem op_sub_translate :
  res_rel (op2_moved v) (op_sub a b) (op_sub (move_shape v a) (move_shape v b)).
Proof. exact (op_sub_translate_gen v a b La Ca Lb Cb _ (padd_moved v)). Qed.
Theorem op_xor_translate :
  res_rel (op3_moved v) (op_xor a b) (op_xor (move_shape v a) (move_shape v b)).
Proof. exact (op_xor_translate_gen v a b La Ca Lb Cb _ (padd_moved v)). Qed.
Theorem op_not_translate :
  res_rel (shape_moved v) (op_not a) (op_not (move_shape v a)).
Proof. exact (op_not_translate_gen v a La Ca _ (padd_moved v)). Qed.
Theorem copy_shape_translate :
  res_rel (shape_moved v) (copy_shape a) (copy_shape (move_shape v a)).
Proof. exact (copy_shape_translate_gen v a La Ca _ (padd_moved v)). Qed.
Theorem contains_point_translate : forall p closed,
  contains_point (move_shape v a) (padd p v) closed = contains_point a p closed.
Proof. exact (contains_point_translate_gen v a La Ca _ (padd_moved v)). Qed.
Theorem contains_shape_translate :
  contains_shape (move_shape v a) (move_shape v b) = contains_shape a b.
Proof. exact (contains_shape_translate_gen v a b La Ca Lb Cb _ (padd_moved v)). Qed.
Theorem shape_eq_translate :
  shape_eq (move_shape v a) (move_shape v b) = shape_eq a b.
Proof. exact (shape_eq_translate_gen v a b La Ca Lb Cb _ (padd_moved v)). Qed.

(* the same with the model's own move (Shape.move_pt: coordinates reduced by Qred) *)
Theorem op_or_translate_move_pt :
  res_rel (op3_moved v) (op_or a b) (op_or (map_points (move_pt v) a) (map_points (move_pt v) b)).
Proof. exact (op_or_translate_gen v a b La Ca Lb Cb _ (move_pt_moved v)). Qed.
Theorem op_and_translate_move_pt :
  res_rel (op3_moved v) (op_and a b) (op_and (map_points (move_pt v) a) (map_points (move_pt v) b)).
Proof. exact (op_and_translate_gen v a b La Ca Lb Cb _ (move_pt_moved v)). Qed.
Theorem op_sub_translate_move_pt :
  res_rel (op2_moved v) (op_sub a b) (op_sub (map_points (move_pt v) a) (map_points (move_pt v) b)).
Proof. exact (op_sub_translate_gen v a b La Ca Lb Cb _ (move_pt_moved v)). Qed.
Theorem op_xor_translate_move_pt :
  res_rel (op3_moved v) (op_xor a b) (op_xor (map_points (move_pt v) a) (map_points (move_pt v) b)).
Proof. exact (op_xor_translate_gen v a b La Ca Lb Cb _ (move_pt_moved v)). Qed.
Theorem op_not_translate_move_pt :
  res_rel (shape_moved v) (op_not a) (op_not (map_points (move_pt v) a)).
Proof. exact (op_not_translate_gen v a La Ca _ (move_pt_moved v)). Qed.
End Moved.

(* the results stay polygons with non-empty closed curves, so the theorems compose *)
Theorem op_or_translate_strong : forall v a b,
  shape_lines a = true -> shape_chains a = true -> shape_lines b = true -> shape_chains b = true ->
  rrel (op3_rel v) (op_or a b) (op_or (move_shape v a) (move_shape v b)).
Proof. intros. apply op_or_rel; apply sg_move; assumption. Qed.

(* v = 0: the whole pipeline respects == on coordinates *)
Lemma prel_zero : forall p q, prel pzero p q <-> peq q p.
Proof.
  intros p q. unfold prel, peq, pzero. cbn [px py fst snd]. split; intros [H1 H2]; split; lra.
Qed.
Theorem op_or_compat : forall a a' b b', sg pzero a a' -> sg pzero b b' ->
  res_rel (op3_moved pzero) (op_or a b) (op_or a' b').
Proof. intros. apply op_or_moved; assumption. Qed.

(* ---------- the hypotheses are needed ---------- *)
(* an open chain: its "area" int x dy depends on the position, and so does containment *)
Example open_chain_not_translation_invariant :
  let s := SC (CS [[(0, 0); (0, 1)]]) in
  contains_point s (5, 5) true = true /\
  contains_point (move_shape (1, 0) s) (padd (5, 5) (1, 0)) true = false.
Proof. split; vm_compute; reflexivity. Qed.
(* an empty curve has the bounding box (0,0,0,0) wherever the shape is *)
Example empty_curve_not_translation_invariant :
  let sq := SC (CS [[(0, 0); (1, 0)]; [(1, 0); (1, 1)]; [(1, 1); (0, 1)]; [(0, 1); (0, 0)]]) in
  let e := SC (CS []) in
  contains_shape sq e = Ok true /\
  contains_shape (move_shape (5, 5) sq) (move_shape (5, 5) e) = Ok false.
Proof. split; vm_compute; reflexivity. Qed.

(* ---------- non-vacuity: two overlapping squares moved by (7/3, -5/2) ---------- *)
Definition ex_sq (x0 y0 x1 y1 : Q) : shape :=
  SC (CS [[(x0, y0); (x1, y0)]; [(x1, y0); (x1, y1)]; [(x1, y1); (x0, y1)]; [(x0, y1); (x0, y0)]]).
Definition exA : shape := ex_sq 0 0 2 2.
Definition exB : shape := ex_sq 1 1 3 3.
Definition exv : point := (7 # 3, - (5 # 2)).
Definition ex_lhs : res op3 := Eval vm_compute in op_or exA exB.
Definition ex_rhs : res op3 := Eval vm_compute in op_or (move_shape exv exA) (move_shape exv exB).
Print ex_lhs.
Print ex_rhs.
Example op_or_translate_nonvacuous :
  op_or exA exB = ex_lhs /\ op_or (move_shape exv exA) (move_shape exv exB) = ex_rhs /\
  (exists r, ex_lhs = Ok r /\ length (concat (jordans (snd r))) = 8%nat) /\
  res_rel (op3_moved exv) ex_lhs ex_rhs.
Proof.
  assert (E1 : op_or exA exB = ex_lhs) by (vm_compute; reflexivity).
  assert (E2 : op_or (move_shape exv exA) (move_shape exv exB) = ex_rhs) by (vm_compute; reflexivity).
  split; [exact E1|]. split; [exact E2|]. split.
  - eexists. split; [reflexivity|]. reflexivity.
  - rewrite <- E1, <- E2. apply op_or_translate; reflexivity.
Qed.

Print Assumptions op_or_translate.
Print Assumptions op_and_translate.
Print Assumptions op_sub_translate.
Print Assumptions op_xor_translate.
Print Assumptions op_not_translate.
Print Assumptions contains_point_translate.
Print Assumptions contains_shape_translate.
Print Assumptions shape_eq_translate.
Print Assumptions copy_shape_translate.
Print Assumptions op_or_translate_move_pt.
Print Assumptions op_xor_translate_move_pt.
Print Assumptions op_or_moved.
Print Assumptions op_xor_moved.
Print Assumptions op_or_translate_strong.
Print Assumptions op_or_compat.
Print Assumptions open_chain_not_translation_invariant.
Print Assumptions empty_curve_not_translation_invariant.
Print Assumptions op_or_translate_nonvacuous.
