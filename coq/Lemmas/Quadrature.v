(* Quadrature.v -- the open Newton-Cotes rule of IntegratePlanar.vertical is
   exact on straight edges: moments of polygons computed by the model equal the
   formal polynomial integrals of the specification; shoelace area; reversal.
   The bound 19 (number of nodes covered by the finite sweep) is part of the
   statements. *)
From SV Require Import Model.Shape Spec.Spec.
From Coq Require Import Lqa Lia.
Open Scope Q_scope.

(* ------------------------------------------------------------------ *)
(* 1. coefficient-list polynomials                                     *)
(* ------------------------------------------------------------------ *)

Global Instance Qpow_wd : Proper (Qeq ==> eq ==> Qeq) Qpow.
Proof.
  intros x y H n m <-. induction n as [|n IH]; cbn [Qpow]; [reflexivity|].
  rewrite IH. apply Qmult_comp; [exact H|reflexivity].
Qed.

Lemma peval_wd : forall p x y, x == y -> peval p x == peval p y.
Proof.
  induction p as [|c p IH]; intros x y H; simpl; [reflexivity|].
  rewrite (IH x y H), H. reflexivity.
Qed.
Global Instance peval_Proper p : Proper (Qeq ==> Qeq) (peval p).
Proof. intros x y H. apply peval_wd, H. Qed.

(* pointwise == of coefficient lists *)
Definition poly_eq (p q : poly) : Prop := Forall2 Qeq p q.

Lemma peval_ext : forall p q x, poly_eq p q -> peval p x == peval q x.
Proof.
  intros p q x H. induction H as [|a b p q Hab _ IH]; simpl; [reflexivity|].
  rewrite Hab, IH. reflexivity.
Qed.

Lemma pint01_from_ext : forall p q k, poly_eq p q -> pint01_from k p == pint01_from k q.
Proof.
  intros p q k H. revert k. induction H as [|a b p q Hab _ IH]; intro k; simpl; [reflexivity|].
  rewrite Hab, IH. reflexivity.
Qed.
Lemma pint01_ext : forall p q, poly_eq p q -> pint01 p == pint01 q.
Proof. intros. apply pint01_from_ext. assumption. Qed.

Lemma peval_add : forall p q x, peval (poly_add p q) x == peval p x + peval q x.
Proof.
  induction p as [|a p IH]; intros [|b q] x; simpl; try ring.
  rewrite IH. ring.
Qed.

Lemma peval_scale : forall k p x, peval (poly_scale k p) x == k * peval p x.
Proof.
  intros k p x. induction p as [|a p IH]; simpl; [ring|].
  fold (poly_scale k p). rewrite IH. ring.
Qed.

Lemma peval_mul : forall p q x, peval (poly_mul p q) x == peval p x * peval q x.
Proof.
  induction p as [|a p IH]; intros q x; cbn [poly_mul peval]; [ring|].
  rewrite peval_add, peval_scale. cbn [peval]. rewrite IH. ring.
Qed.

Lemma peval_pow : forall p n x, peval (poly_pow p n) x == Qpow (peval p x) n.
Proof.
  intros p n x. induction n as [|n IH]; cbn [poly_pow Qpow].
  - simpl. ring.
  - rewrite peval_mul, IH. reflexivity.
Qed.

Lemma pint01_from_add : forall p q k,
  pint01_from k (poly_add p q) == pint01_from k p + pint01_from k q.
Proof.
  induction p as [|a p IH]; intros [|b q] k; simpl; try ring.
  rewrite IH. unfold Qdiv. ring.
Qed.
Lemma pint01_add : forall p q, pint01 (poly_add p q) == pint01 p + pint01 q.
Proof. intros. apply pint01_from_add. Qed.

Lemma pint01_from_scale : forall c p k,
  pint01_from k (poly_scale c p) == c * pint01_from k p.
Proof.
  intros c p. induction p as [|a p IH]; intro k; simpl; [ring|].
  fold (poly_scale c p). rewrite IH. unfold Qdiv. ring.
Qed.
Lemma pint01_scale : forall c p, pint01 (poly_scale c p) == c * pint01 p.
Proof. intros. apply pint01_from_scale. Qed.

(* lengths *)
Lemma length_poly_add : forall p q, length (poly_add p q) = Nat.max (length p) (length q).
Proof.
  induction p as [|a p IH]; intros [|b q]; simpl; try reflexivity.
  rewrite IH. reflexivity.
Qed.
Lemma length_poly_scale : forall k p, length (poly_scale k p) = length p.
Proof. intros. apply map_length. Qed.
Lemma length_poly_mul : forall p q, (1 <= length q)%nat ->
  (length (poly_mul p q) <= length p + length q - 1)%nat.
Proof.
  induction p as [|a p IH]; intros q Hq; cbn [poly_mul]; [simpl; lia|].
  rewrite length_poly_add, length_poly_scale. cbn [length].
  specialize (IH q Hq). lia.
Qed.
Lemma length_poly_mul_pos : forall p q, (1 <= length p)%nat -> (1 <= length (poly_mul p q))%nat.
Proof.
  intros [|a p] q H; [simpl in H; lia|].
  cbn [poly_mul]. rewrite length_poly_add. cbn [length]. lia.
Qed.
Lemma length_poly_pow_line : forall a b k,
  (1 <= length (poly_pow [a; b] k) <= k + 1)%nat.
Proof.
  intros a b k. induction k as [|k IH]; cbn [poly_pow]; [simpl; lia|].
  split.
  - apply length_poly_mul_pos. simpl. lia.
  - pose proof (length_poly_mul [a; b] (poly_pow [a; b] k) (proj1 IH)) as H.
    cbn [length] in H. lia.
Qed.

(* ------------------------------------------------------------------ *)
(* 2. quadrature rules: linearity, exactness                           *)
(* ------------------------------------------------------------------ *)

(* the weighted sum of the code, as a functional of the integrand *)
Definition quad (ws ts : list Q) (f : Q -> Q) : Q :=
  Qsum (map2 (fun w t => w * f t) ws ts).

Lemma quad_ext : forall ws ts f g, (forall t, f t == g t) -> quad ws ts f == quad ws ts g.
Proof.
  unfold quad. induction ws as [|w ws IH]; intros [|t ts] f g H; simpl; try reflexivity.
  rewrite (H t), (IH ts f g H). reflexivity.
Qed.
Lemma quad_add : forall ws ts f g,
  quad ws ts (fun t => f t + g t) == quad ws ts f + quad ws ts g.
Proof.
  unfold quad. induction ws as [|w ws IH]; intros [|t ts] f g; simpl; try ring.
  rewrite IH. ring.
Qed.
Lemma quad_scale : forall ws ts c f,
  quad ws ts (fun t => c * f t) == c * quad ws ts f.
Proof.
  unfold quad. induction ws as [|w ws IH]; intros [|t ts] c f; simpl; try ring.
  rewrite IH. ring.
Qed.
Lemma quad_zero : forall ws ts, quad ws ts (fun _ => 0) == 0.
Proof.
  unfold quad. induction ws as [|w ws IH]; intros [|t ts]; simpl; try ring.
  rewrite IH. ring.
Qed.

(* a rule exact on the first n powers of u is exact on p(u), length p <= n *)
Lemma quad_poly_from : forall ws ts (u : Q -> Q) n,
  (forall k, (k < n)%nat -> quad ws ts (fun t => Qpow (u t) k) == 1 / nQ (S k)) ->
  forall p k, (k + length p <= n)%nat ->
  quad ws ts (fun t => Qpow (u t) k * peval p (u t)) == pint01_from k p.
Proof.
  intros ws ts u n H. induction p as [|c p IH]; intros k Hk.
  - cbn [pint01_from]. rewrite (quad_ext _ _ _ (fun _ => 0)); [apply quad_zero|].
    intro t. simpl. ring.
  - cbn [pint01_from length] in *.
    rewrite (quad_ext _ _ _ (fun t => c * Qpow (u t) k + Qpow (u t) (S k) * peval p (u t))).
    + rewrite quad_add, quad_scale, (H k), (IH (S k)) by lia. unfold Qdiv. ring.
    + intro t. simpl. ring.
Qed.
Lemma quad_poly : forall ws ts (u : Q -> Q) n,
  (forall k, (k < n)%nat -> quad ws ts (fun t => Qpow (u t) k) == 1 / nQ (S k)) ->
  forall p, (length p <= n)%nat ->
  quad ws ts (fun t => peval p (u t)) == pint01 p.
Proof.
  intros ws ts u n H p Hp. unfold pint01.
  rewrite <- (quad_poly_from ws ts u n H p 0%nat) by lia.
  apply quad_ext. intro t. simpl. ring.
Qed.

(* finite sweeps over the weight table *)
Definition nc_check (u : Q -> Q) (n : nat) : bool :=
  forallb (fun k => Qeq_bool (quad (nc_w n) (open_linspace n) (fun t => Qpow (u t) k))
                             (1 / nQ (S k)))
          (seq 0 n).

Lemma nc_sweep : forallb (nc_check (fun t => t)) (seq 1 19) = true.
Proof. vm_compute. reflexivity. Qed.
Lemma nc_sweep_rev : forallb (nc_check (fun t => 1 - t)) (seq 1 19) = true.
Proof. vm_compute. reflexivity. Qed.

Lemma nc_check_spec : forall u n k, (1 <= n <= 19)%nat -> (k < n)%nat ->
  forallb (nc_check u) (seq 1 19) = true ->
  quad (nc_w n) (open_linspace n) (fun t => Qpow (u t) k) == 1 / nQ (S k).
Proof.
  intros u n k Hn Hk H.
  rewrite forallb_forall in H.
  assert (Hin : In n (seq 1 19)) by (apply in_seq; lia).
  specialize (H n Hin). unfold nc_check in H.
  rewrite forallb_forall in H.
  apply Qeq_bool_iff. apply H. apply in_seq. lia.
Qed.


(* ------------------------------------------------------------------ *)
(* 3. straight segments                                                *)
(* ------------------------------------------------------------------ *)
Ltac unfold_line :=
  cbv [eval canon horner derivate pairs_of degree length map map2 seq psum fold_right fold_left
       padd pscale psub pzero px py fst snd caract comb nQ
       Nat.sub Nat.add Nat.mul Nat.leb Nat.odd Nat.even negb
       Z.of_nat Pos.of_succ_nat Pos.succ Z.mul Z.div Z.div_eucl Z.pos_div_eucl Z.opp
       Pos.mul Pos.add Z.leb Z.ltb Z.compare Pos.compare Pos.compare_cont Z.add Z.sub Z.pos_sub
       Z.double Z.succ_double Z.pred_double Pos.pred_double inject_Z Z.gtb Z.geb Z.eqb Pos.eqb
       Pos.add_carry line_poly peval pderiv pderiv_from].

Lemma eval_line_x : forall xa ya xb yb t,
  px (eval [(xa, ya); (xb, yb)] t) == peval (line_poly xa xb) t.
Proof. intros. unfold_line. ring. Qed.
Lemma eval_line_y : forall xa ya xb yb t,
  py (eval [(xa, ya); (xb, yb)] t) == peval (line_poly ya yb) t.
Proof. intros. unfold_line. ring. Qed.
Lemma eval_line_dy : forall xa ya xb yb t,
  py (eval (derivate [(xa, ya); (xb, yb)]) t) == yb - ya.
Proof. intros. unfold_line. ring. Qed.
Lemma peval_pderiv_line : forall ya yb t,
  peval (pderiv (line_poly ya yb)) t == yb - ya.
Proof. intros. unfold_line. ring. Qed.

Lemma nc_monomial_exact : forall n k, (1 <= n <= 19)%nat -> (k < n)%nat ->
  Qsum (map2 (fun w t => w * Qpow t k) (nc_w n) (open_linspace n)) == 1 / nQ (S k).
Proof. intros n k Hn Hk. exact (nc_check_spec (fun t => t) n k Hn Hk nc_sweep). Qed.

Lemma nc_monomial_exact_rev : forall n k, (1 <= n <= 19)%nat -> (k < n)%nat ->
  Qsum (map2 (fun w t => w * Qpow (1 - t) k) (nc_w n) (open_linspace n)) == 1 / nQ (S k).
Proof. intros n k Hn Hk. exact (nc_check_spec (fun t => 1 - t) n k Hn Hk nc_sweep_rev). Qed.

Lemma nc_poly_exact : forall n p, (1 <= n <= 19)%nat -> (length p <= n)%nat ->
  Qsum (map2 (fun w t => w * peval p t) (nc_w n) (open_linspace n)) == pint01 p.
Proof.
  intros n p Hn Hp.
  apply (quad_poly (nc_w n) (open_linspace n) (fun t => t) n); [|exact Hp].
  intros k Hk. apply nc_check_spec; [exact Hn|exact Hk|exact nc_sweep].
Qed.

Lemma nc_poly_exact_rev : forall n p, (1 <= n <= 19)%nat -> (length p <= n)%nat ->
  Qsum (map2 (fun w t => w * peval p (1 - t)) (nc_w n) (open_linspace n)) == pint01 p.
Proof.
  intros n p Hn Hp.
  apply (quad_poly (nc_w n) (open_linspace n) (fun t => 1 - t) n); [|exact Hp].
  intros k Hk. apply nc_check_spec; [exact Hn|exact Hk|exact nc_sweep_rev].
Qed.

(* the formal integral is determined by the values of the polynomial *)
Lemma pint01_values : forall p q, (length p <= 19)%nat -> (length q <= 19)%nat ->
  (forall t, peval p t == peval q t) -> pint01 p == pint01 q.
Proof.
  intros p q Hp Hq H.
  rewrite <- (nc_poly_exact 19 p), <- (nc_poly_exact 19 q) by lia.
  apply quad_ext. exact H.
Qed.

Definition line_integrand (A B : point) (ex ey : nat) : poly :=
  poly_mul (poly_mul (poly_pow (line_poly (px A) (px B)) ex)
                     (poly_pow (line_poly (py A) (py B)) ey))
           (pderiv (line_poly (py A) (py B))).

Lemma length_line_integrand : forall A B ex ey,
  (length (line_integrand A B ex ey) <= ex + ey + 1)%nat.
Proof.
  intros A B ex ey. unfold line_integrand, line_poly.
  pose proof (length_poly_pow_line (px A) (px B - px A) ex) as HX.
  pose proof (length_poly_pow_line (py A) (py B - py A) ey) as HY.
  set (PX := poly_pow _ ex) in *. set (PY := poly_pow _ ey) in *.
  assert (HD : length (pderiv [py A; py B - py A]) = 1%nat) by reflexivity.
  pose proof (length_poly_mul PX PY (proj1 HY)) as H1.
  pose proof (length_poly_mul (poly_mul PX PY) (pderiv [py A; py B - py A])) as H2.
  rewrite HD in H2. specialize (H2 (le_n 1)). lia.
Qed.

Lemma vertical_line_quad : forall A B ex ey,
  vertical [A; B] ex ey ==
  quad (nc_w (ex + ey + 4)) (open_linspace (ex + ey + 4)) (peval (line_integrand A B ex ey)).
Proof.
  intros [xa ya] [xb yb] ex ey. unfold vertical. rewrite Qred_correct.
  unfold degree. cbn [length Nat.sub].
  replace (vertical_nodes 1 ex ey) with (ex + ey + 4)%nat by (unfold vertical_nodes; lia).
  set (n := (ex + ey + 4)%nat).
  change (quad (nc_w n) (open_linspace n)
            (fun t => Qpow (px (eval [(xa, ya); (xb, yb)] t)) ex *
                      Qpow (py (eval [(xa, ya); (xb, yb)] t)) ey *
                      py (eval (derivate [(xa, ya); (xb, yb)]) t))
          == quad (nc_w n) (open_linspace n) (peval (line_integrand (xa, ya) (xb, yb) ex ey))).
  apply quad_ext. intro t. unfold line_integrand.
  rewrite !peval_mul, !peval_pow, eval_line_x, eval_line_y, eval_line_dy, peval_pderiv_line.
  cbn [px py fst snd]. reflexivity.
Qed.

Lemma vertical_line_exact : forall A B ex ey, (ex + ey + 4 <= 19)%nat ->
  vertical [A; B] ex ey ==
  pint01 (poly_mul (poly_mul (poly_pow (line_poly (px A) (px B)) ex)
                             (poly_pow (line_poly (py A) (py B)) ey))
                   (pderiv (line_poly (py A) (py B)))).
Proof.
  intros A B ex ey H. rewrite vertical_line_quad.
  fold (line_integrand A B ex ey).
  apply nc_poly_exact; [lia|].
  pose proof (length_line_integrand A B ex ey). lia.
Qed.

(* ------------------------------------------------------------------ *)
(* moments of polygons                                                 *)
(* ------------------------------------------------------------------ *)
Lemma Qsum_map_ext : forall {A} (f g : A -> Q) l,
  (forall x, In x l -> f x == g x) -> Qsum (map f l) == Qsum (map g l).
Proof.
  intros A f g l. induction l as [|x l IH]; intro H; simpl; [reflexivity|].
  rewrite (H x (or_introl eq_refl)), IH; [reflexivity|].
  intros y Hy. apply H. right. exact Hy.
Qed.
Lemma Qsum_map_div : forall {A} (f : A -> Q) c l,
  Qsum (map f l) / c == Qsum (map (fun x => f x / c) l).
Proof.
  intros A f c l. induction l as [|x l IH]; simpl; [unfold Qdiv; ring|].
  rewrite <- IH. unfold Qdiv. ring.
Qed.

Lemma is_line_inv : forall s, is_line s = true -> exists A B, s = [A; B].
Proof.
  intros [|A [|B [|C s]]] H; try discriminate H. exists A, B. reflexivity.
Qed.

Lemma edge_moment_line : forall A B a b, (a + b <= 14)%nat ->
  vertical [A; B] (S a) b / nQ (S a) == edge_moment [A; B] a b.
Proof.
  intros A B a b H. unfold edge_moment. cbn [first_pt last_pt hd last].
  rewrite vertical_line_exact by lia. reflexivity.
Qed.

Lemma jordan_moment_exact : forall j a b, all_lines j = true -> (a + b <= 14)%nat ->
  jordan_vertical j (S a) b / nQ (S a) == jordan_moment_spec j a b.
Proof.
  intros j a b Hj Hab. unfold jordan_vertical, jordan_moment_spec.
  rewrite Qred_correct, Qsum_map_div. apply Qsum_map_ext. intros s Hs.
  unfold all_lines in Hj. rewrite forallb_forall in Hj.
  destruct (is_line_inv s (Hj s Hs)) as (A & B & ->).
  apply edge_moment_line. exact Hab.
Qed.

Theorem moment_polygon_exact : forall S a b, shape_lines S = true -> (a + b <= 14)%nat ->
  moment S a b == moment_spec S a b.
Proof.
  intros S a b HS Hab. unfold moment, moment_spec.
  rewrite Qred_correct, Qsum_map_div. apply Qsum_map_ext. intros j Hj.
  unfold shape_lines in HS. rewrite forallb_forall in HS.
  apply jordan_moment_exact; [apply HS; exact Hj|exact Hab].
Qed.

(* ------------------------------------------------------------------ *)
(* shoelace                                                            *)
(* ------------------------------------------------------------------ *)
Lemma vertical_line_area : forall A B,
  vertical [A; B] 1 0 == (px A + px B) / 2 * (py B - py A).
Proof.
  intros [xa ya] [xb yb]. rewrite vertical_line_exact by lia.
  cbv [px py fst snd line_poly poly_pow poly_mul poly_add poly_scale map pderiv pderiv_from
       pint01 pint01_from nQ Z.of_nat Pos.of_succ_nat Pos.succ inject_Z].
  field.
Qed.

Definition hprod (P : point) : Q := px P * py P / 2.

Lemma peqb_hprod : forall P R, peqb P R = true -> hprod P == hprod R.
Proof.
  intros P R H. unfold peqb in H. apply andb_prop in H. destruct H as [H1 H2].
  apply Qeq_bool_iff in H1. apply Qeq_bool_iff in H2.
  unfold hprod. rewrite H1, H2. reflexivity.
Qed.

Lemma edge_area_split : forall A B,
  vertical [A; B] 1 0 == cross A B / 2 + (hprod B - hprod A).
Proof.
  intros A B. rewrite vertical_line_area. unfold cross, hprod. field.
Qed.

Lemma chain_telescope : forall j first, j <> [] -> chain_ok first j = true ->
  Qsum (map (fun s => hprod (last_pt s) - hprod (first_pt s)) j)
  == hprod first - hprod (first_pt (hd [] j)).
Proof.
  induction j as [|s j IH]; intros first Hne H; [contradiction|].
  destruct j as [|s' j'].
  - cbn [chain_ok] in H. apply peqb_hprod in H.
    cbn [map Qsum hd]. rewrite H. ring.
  - cbn [chain_ok] in H. apply andb_prop in H. destruct H as [H1 H2].
    apply peqb_hprod in H1.
    assert (Hne' : s' :: j' <> []) by discriminate.
    specialize (IH first Hne' H2). cbn [hd] in IH.
    cbn [map Qsum hd] in *. rewrite IH, H1. ring.
Qed.

Lemma Qsum_map_add : forall {A} (f g : A -> Q) l,
  Qsum (map (fun x => f x + g x) l) == Qsum (map f l) + Qsum (map g l).
Proof.
  intros A f g l. induction l as [|x l IH]; simpl; [ring|]. rewrite IH. ring.
Qed.

Theorem area_shoelace : forall j, all_lines j = true -> closed_chain j = true ->
  jordan_area j == shoelace2 j / 2.
Proof.
  intros j Hl Hc. unfold jordan_area, jordan_vertical, shoelace2. rewrite Qred_correct.
  rewrite (Qsum_map_ext _
             (fun s => cross (first_pt s) (last_pt s) / 2
                       + (hprod (last_pt s) - hprod (first_pt s)))).
  - rewrite Qsum_map_add, <- Qsum_map_div.
    destruct j as [|s j].
    + simpl. ring.
    + unfold closed_chain in Hc.
      rewrite (chain_telescope (s :: j) (first_pt s)) by (discriminate || exact Hc).
      cbn [hd]. ring.
  - intros s Hs. unfold all_lines in Hl. rewrite forallb_forall in Hl.
    destruct (is_line_inv s (Hl s Hs)) as (A & B & ->).
    cbn [first_pt last_pt hd last]. apply edge_area_split.
Qed.

(* ------------------------------------------------------------------ *)
(* reversal                                                            *)
(* ------------------------------------------------------------------ *)
Lemma peval_line_rev : forall a b t,
  peval (line_poly b a) t == peval (line_poly a b) (1 - t).
Proof. intros. cbv [line_poly peval]. ring. Qed.

Lemma line_integrand_rev : forall A B ex ey t,
  peval (line_integrand B A ex ey) t == (-1) * peval (line_integrand A B ex ey) (1 - t).
Proof.
  intros A B ex ey t. unfold line_integrand.
  rewrite !peval_mul, !peval_pow, !peval_pderiv_line.
  rewrite (peval_line_rev (px A) (px B) t), (peval_line_rev (py A) (py B) t). ring.
Qed.

Theorem vertical_rev : forall A B ex ey, (ex + ey + 4 <= 19)%nat ->
  vertical [B; A] ex ey == - vertical [A; B] ex ey.
Proof.
  intros A B ex ey H.
  rewrite (vertical_line_exact A B ex ey H). fold (line_integrand A B ex ey).
  rewrite vertical_line_quad.
  rewrite (quad_ext _ _ _ _ (line_integrand_rev A B ex ey)), quad_scale.
  pose proof (length_line_integrand A B ex ey) as HL.
  rewrite (nc_poly_exact_rev (ex + ey + 4) (line_integrand A B ex ey)) by lia.
  ring.
Qed.

Corollary edge_moment_rev : forall A B a b, (a + b <= 14)%nat ->
  edge_moment [B; A] a b == - edge_moment [A; B] a b.
Proof.
  intros A B a b H.
  rewrite <- !edge_moment_line by exact H.
  rewrite (vertical_rev A B (S a) b) by lia. unfold Qdiv. ring.
Qed.

(* ------------------------------------------------------------------ *)
(* the weight table is the Lagrange weights                            *)
(* ------------------------------------------------------------------ *)
Lemma nc_table_correct : nc_table = map nc_weights (seq 0 20).
Proof. vm_compute. reflexivity. Qed.

Lemma nc_w_weights : forall n, nc_w n = nc_weights n.
Proof.
  intro n. unfold nc_w. rewrite nc_table_correct.
  destruct (nth_error (map nc_weights (seq 0 20)) n) as [w|] eqn:E; [|reflexivity].
  rewrite nth_error_map in E.
  destruct (nth_error (seq 0 20) n) as [m|] eqn:E2; [|discriminate E].
  cbn [option_map] in E. injection E as <-. f_equal.
  assert (Hn : (n < length (seq 0 20))%nat) by (apply nth_error_Some; congruence).
  rewrite seq_length in Hn.
  apply (nth_error_nth _ _ 0%nat) in E2. rewrite seq_nth in E2 by exact Hn. lia.
Qed.

(* ------------------------------------------------------------------ *)
(* non-vacuity: an L-shaped hexagon                                    *)
(* ------------------------------------------------------------------ *)
Definition Lhex : jordan :=
  [ [(0, 0); (5 # 2, 0)]; [(5 # 2, 0); (5 # 2, 1)]; [(5 # 2, 1); (1, 1)];
    [(1, 1); (1, 2)]; [(1, 2); (0, 2)]; [(0, 2); (0, 0)] ].
Definition Lshape : shape := SC (CS Lhex).
Example Lshape_hyps :
  shape_lines Lshape = true /\ all_lines Lhex = true /\ closed_chain Lhex = true.
Proof. vm_compute. repeat split. Qed.
(* int int_L x^2 y dx dy = 125/48 + 1/2 *)
Example Lshape_moment_21 :
  moment Lshape 2 1 = 149 # 48 /\ Qred (moment_spec Lshape 2 1) = 149 # 48.
Proof. vm_compute. split; reflexivity. Qed.
Example Lshape_area :
  jordan_area Lhex = 7 # 2 /\ Qred (shoelace2 Lhex / 2) = 7 # 2.
Proof. vm_compute. split; reflexivity. Qed.
Example Lshape_rev :
  vertical [(1, 1); (5 # 2, 1)] 2 1 = Qred (- vertical [(5 # 2, 1); (1, 1)] 2 1)
  /\ vertical [(1, 2); (5 # 2, 1)] 2 1 = -71 # 16.
Proof. vm_compute. split; reflexivity. Qed.

Print Assumptions nc_monomial_exact.
Print Assumptions nc_poly_exact.
Print Assumptions vertical_line_exact.
Print Assumptions moment_polygon_exact.
Print Assumptions area_shoelace.
Print Assumptions vertical_rev.
Print Assumptions edge_moment_rev.
Print Assumptions nc_w_weights.
Print Assumptions Lshape_moment_21.
