(* Tolerance.v -- the tolerance test `point in segment` (on_seg) on straight
   segments: the Newton projection lands on the exact orthogonal projection in
   one round when the edge is longer than the derivative clamp; on_seg is then
   complete on the edge and exact away from the 1e-6 zone.  The short-edge
   defect as a computed witness.  Curve level: vertices and midpoints belong to
   the curve.  Equality (C07): kinds, totality, reflexivity on polygons. *)
From Coq Require Import QArith Lqa Lia List Bool.
From SV Require Import Model.Shape Spec.Spec.
From SV Require Lemmas.BezierFacts Lemmas.Winding Lemmas.SplitClean Lemmas.Construct.
Import ListNotations.
Open Scope Q_scope.

(* ---------- boolean comparisons ---------- *)
Lemma Qle_bool_f a b : Qle_bool a b = false -> b < a.
Proof.
  intro H. destruct (Qlt_le_dec b a) as [L|L]; auto.
  apply Qle_bool_iff in L. congruence.
Qed.
Lemma Qle_bool_t a b : a <= b -> Qle_bool a b = true.
Proof. intro; apply Qle_bool_iff; assumption. Qed.
Lemma Qle_bool_f' a b : b < a -> Qle_bool a b = false.
Proof.
  intro H. destruct (Qle_bool a b) eqn:E; auto. apply Qle_bool_iff in E. lra.
Qed.
Lemma Qlt_bool_iff a b : Qlt_bool a b = true <-> a < b.
Proof.
  unfold Qlt_bool. rewrite negb_true_iff. split.
  - apply Qle_bool_f.
  - apply Qle_bool_f'.
Qed.
Lemma Qlt_bool_false_iff a b : Qlt_bool a b = false <-> b <= a.
Proof. unfold Qlt_bool. rewrite negb_false_iff. apply Qle_bool_iff. Qed.

Ltac qb :=
  repeat match goal with
  | H : Qle_bool _ _ = true |- _ => apply Qle_bool_iff in H
  | H : Qle_bool _ _ = false |- _ => apply Qle_bool_f in H
  end.
Ltac dq :=
  repeat match goal with
  | |- context[Qle_bool ?a ?b] => destruct (Qle_bool a b) eqn:?
  end.

Lemma Qclamp01_compat x y : x == y -> Qclamp01 x == Qclamp01 y.
Proof.
  intro E. unfold Qclamp01, Qmin', Qmax'.
  destruct (Qle_bool x 0) eqn:?; destruct (Qle_bool y 0) eqn:?; dq; qb; lra.
Qed.
Lemma Qclamp01_id x : 0 <= x -> x <= 1 -> Qclamp01 x == x.
Proof.
  intros H0 H1. unfold Qclamp01, Qmin', Qmax'.
  destruct (Qle_bool x 0) eqn:?; dq; qb; lra.
Qed.
Lemma Qabs'_pos x : 0 <= x -> Qabs' x = x.
Proof. intro H. unfold Qabs'. rewrite (Qle_bool_t _ _ H). reflexivity. Qed.

(* ---------- points up to == ---------- *)
Lemma inner_peq p p' q q' : peq p p' -> peq q q' -> inner p q == inner p' q'.
Proof. intros [A1 A2] [B1 B2]. unfold inner. rewrite A1, A2, B1, B2. reflexivity. Qed.
Lemma psub_peq p p' q q' : peq p p' -> peq q q' -> peq (psub p q) (psub p' q').
Proof.
  intros [A1 A2] [B1 B2]. unfold psub, peq, px, py in *; cbn [fst snd].
  rewrite A1, A2, B1, B2. split; reflexivity.
Qed.
Lemma norm2_peq p p' : peq p p' -> norm2 p == norm2 p'.
Proof. intro H. unfold norm2. apply inner_peq; assumption. Qed.
Lemma norm2_nonneg p : 0 <= norm2 p.
Proof. unfold norm2, inner. nra. Qed.

(* ---------- evaluation of degree 0 and 1 ---------- *)
Lemma eval_deg0 d u : peq (eval [d] u) d.
Proof.
  destruct d as [x y]. unfold peq.
  cbv -[Qplus Qmult Qminus Qopp Qeq Qdiv Qinv Qle Qlt]. split; ring.
Qed.
Lemma derivate_line a b : derivate [a; b] = [pscale (nQ 1) (psub b a)].
Proof. reflexivity. Qed.
Lemma derivate_pt d : derivate [d] = [pzero].
Proof. reflexivity. Qed.
Lemma pscale1 d : peq (pscale (nQ 1) d) d.
Proof. unfold pscale, peq, px, py; cbn [fst snd]. change (nQ 1) with 1. split; ring. Qed.

Definition line_pt (a b : point) (u : Q) : point :=
  (px a + u * (px b - px a), py a + u * (py b - py a)).
Lemma eval_line a b u : peq (eval [a; b] u) (line_pt a b u).
Proof. exact (Winding.eval_line a b u). Qed.

(* the exact parameter of the orthogonal projection of p on the line a b *)
Definition ustar (a b p : point) : Q :=
  inner (psub b a) (psub p a) / norm2 (psub b a).

Lemma dist2_line a b p u :
  dist2 [a; b] p u == norm2 (psub (line_pt a b u) p).
Proof.
  unfold dist2. apply norm2_peq. apply psub_peq; [apply eval_line | apply BezierFacts.peq_refl].
Qed.
Lemma dist2_compat a b p u v : u == v -> dist2 [a; b] p u == dist2 [a; b] p v.
Proof.
  intro E. rewrite !dist2_line.
  unfold norm2, inner, psub, line_pt, px, py; cbn [fst snd]. rewrite E. reflexivity.
Qed.

(* ---------- T1: one Newton step on a long straight segment ---------- *)
Lemma newton_step_line a b p u : tol6 < norm2 (psub b a) ->
  newton_step [a; b] (derivate [a; b]) (derivate (derivate [a; b])) p u
  == Qclamp01 (ustar a b p).
Proof.
  intro HN. rewrite derivate_line, derivate_pt.
  unfold newton_step.
  change (nround (degree [a; b])) with Qred.
  set (d := psub b a) in *.
  set (c := psub (eval [a; b] u) p).
  set (D := eval [pscale (nQ 1) d] u).
  set (Z0 := eval [pzero] u).
  assert (HD : peq D d).
  { unfold D. eapply BezierFacts.peq_trans; [apply eval_deg0 | apply pscale1]. }
  assert (HZ : peq Z0 pzero) by apply eval_deg0.
  assert (Hc : peq c (psub (line_pt a b u) p)).
  { unfold c. apply psub_peq; [apply eval_line | apply BezierFacts.peq_refl]. }
  assert (Hdf : inner Z0 c + inner D D == norm2 d).
  { rewrite (inner_peq _ _ _ _ HZ (BezierFacts.peq_refl c)),
            (inner_peq _ _ _ _ HD HD).
    unfold norm2, inner, pzero, px, py; cbn [fst snd]. ring. }
  assert (Hif : Qlt_bool tol6 (Qabs' (inner Z0 c + inner D D)) = true).
  { apply Qlt_bool_iff. rewrite Qabs'_pos; [rewrite Hdf; exact HN|].
    rewrite Hdf. apply norm2_nonneg. }
  rewrite Hif. apply Qclamp01_compat. rewrite Qred_correct.
  rewrite Hdf. rewrite (inner_peq _ _ _ _ HD Hc).
  unfold ustar. fold d.
  assert (Hnz : ~ norm2 d == 0) by (pose proof Winding.tol6_pos; lra).
  unfold d in *. clear - Hnz.
  unfold norm2, inner, psub, line_pt, px, py in *; cbn [fst snd] in *.
  field. exact Hnz.
Qed.

Lemma closed_linspace_3 : closed_linspace 3 = [0; 1 # 2; 1].
Proof. reflexivity. Qed.

Lemma dedup3 x y z : x == z -> y == z -> dedup Qeq_bool [x; y; z] = [z].
Proof.
  intros H1 H2. cbn [dedup existsb].
  apply Qeq_bool_iff in H1. apply Qeq_bool_iff in H2.
  rewrite H1, H2. destruct (Qeq_bool x y); reflexivity.
Qed.

Theorem project_line : forall a b p, tol6 < norm2 (psub b a) ->
  exists u, project [a; b] p = [u] /\
            u == Qclamp01 (inner (psub b a) (psub p a) / norm2 (psub b a)).
Proof.
  intros a b p HN.
  exists (newton_step [a; b] (derivate [a; b]) (derivate (derivate [a; b])) p 1).
  split.
  - unfold project. change (closed_linspace (2 + degree [a; b])) with [0; 1 # 2; 1].
    change (newton_rounds 10) with (newton_rounds (S 9)).
    cbn [newton_rounds map].
    rewrite dedup3; [reflexivity| |];
      rewrite !newton_step_line by exact HN; reflexivity.
  - apply (newton_step_line a b p 1 HN).
Qed.

(* ---------- T2: completeness on long straight segments ---------- *)
Lemma on_edge_iff a b p :
  on_edge a b p = true <->
  orient a b p == 0 /\
  ((px a <= px p /\ px p <= px b) \/ (px b <= px p /\ px p <= px a)) /\
  ((py a <= py p /\ py p <= py b) \/ (py b <= py p /\ py p <= py a)).
Proof.
  unfold on_edge. rewrite !andb_true_iff, !Winding.between_iff, Qeq_bool_iff. tauto.
Qed.

Lemma ustar_range a b p : 0 < norm2 (psub b a) -> on_edge a b p = true ->
  0 <= ustar a b p /\ ustar a b p <= 1.
Proof.
  intros HN H. apply on_edge_iff in H. destruct H as (_ & Hx & Hy).
  unfold ustar.
  assert (H0 : 0 <= inner (psub b a) (psub p a)).
  { unfold inner, psub, px, py in *; cbn [fst snd] in *.
    assert (0 <= (fst b - fst a) * (fst p - fst a)) by (destruct Hx; nra).
    assert (0 <= (snd b - snd a) * (snd p - snd a)) by (destruct Hy; nra).
    lra. }
  assert (H1 : inner (psub b a) (psub p a) <= norm2 (psub b a)).
  { unfold norm2, inner, psub, px, py in *; cbn [fst snd] in *.
    assert ((fst b - fst a) * (fst p - fst a) <= (fst b - fst a) * (fst b - fst a))
      by (destruct Hx; nra).
    assert ((snd b - snd a) * (snd p - snd a) <= (snd b - snd a) * (snd b - snd a))
      by (destruct Hy; nra).
    lra. }
  split.
  - apply Qle_shift_div_l; [exact HN | lra].
  - apply Qle_shift_div_r; [exact HN | lra].
Qed.

(* an exact on-edge point is the point of parameter ustar *)
Lemma on_edge_dist0 a b p : 0 < norm2 (psub b a) -> on_edge a b p = true ->
  dist2 [a; b] p (ustar a b p) == 0.
Proof.
  intros HN H. apply on_edge_iff in H. destruct H as (Ho & _ & _).
  rewrite dist2_line.
  rewrite Winding.orient_expand in Ho.
  assert (Hnz : ~ norm2 (psub b a) == 0) by lra.
  unfold ustar.
  set (N := norm2 (psub b a)) in *.
  set (I := inner (psub b a) (psub p a)).
  (* N * (line_pt - p) = I d - N q = -+ cross * perp = 0 *)
  assert (Ex : N * (px a + I / N * (px b - px a) - px p) == 0).
  { transitivity (N * (px a - px p) + I * (px b - px a)); [field; exact Hnz|].
    unfold N, I, norm2, inner, psub, px, py in *; cbn [fst snd] in *.
    transitivity ((snd b - snd a) *
      ((fst b - fst a) * (snd p - snd a) - (snd b - snd a) * (fst p - fst a))); [ring|].
    rewrite Ho. ring. }
  assert (Ey : N * (py a + I / N * (py b - py a) - py p) == 0).
  { transitivity (N * (py a - py p) + I * (py b - py a)); [field; exact Hnz|].
    unfold N, I, norm2, inner, psub, px, py in *; cbn [fst snd] in *.
    transitivity (- (fst b - fst a) *
      ((fst b - fst a) * (snd p - snd a) - (snd b - snd a) * (fst p - fst a))); [ring|].
    rewrite Ho. ring. }
  apply Qmult_integral in Ex. apply Qmult_integral in Ey.
  destruct Ex as [Ex|Ex]; [lra|]. destruct Ey as [Ey|Ey]; [lra|].
  assert (G : forall q, px q == 0 -> py q == 0 -> norm2 q == 0).
  { intros q A B. unfold norm2, inner. rewrite A, B. ring. }
  apply G; unfold psub, line_pt, px, py in *; cbn [fst snd]; [exact Ex | exact Ey].
Qed.

Lemma tol6sq_pos : 0 < tol6sq.
Proof. reflexivity. Qed.

Theorem on_seg_line_complete : forall a b p, tol6 < norm2 (psub b a) ->
  on_edge a b p = true -> on_seg [a; b] p = true.
Proof.
  intros a b p HN He.
  assert (HN0 : 0 < norm2 (psub b a)) by (pose proof Winding.tol6_pos; lra).
  unfold on_seg. rewrite (Winding.on_edge_box a b p He). cbn [andb].
  destruct (project_line a b p HN) as (u & -> & Eu).
  cbn [existsb]. rewrite orb_false_r. apply Qlt_bool_iff.
  fold (ustar a b p) in Eu.
  destruct (ustar_range a b p HN0 He) as [U0 U1].
  rewrite (Qclamp01_id _ U0 U1) in Eu.
  rewrite (dist2_compat a b p u _ Eu), (on_edge_dist0 a b p HN0 He).
  exact tol6sq_pos.
Qed.

(* ---------- T3: exactness away from the tolerance zone ---------- *)
Theorem on_seg_line_far : forall a b p, tol6 < norm2 (psub b a) ->
  (forall u, 0 <= u -> u <= 1 -> tol6sq <= dist2 [a; b] p u) ->
  on_seg [a; b] p = false.
Proof.
  intros a b p _ Hfar. destruct (on_seg [a; b] p) eqn:E; [|reflexivity].
  apply BezierFacts.on_seg_sound in E. destruct E as (u & U0 & U1 & Hd).
  specialize (Hfar u U0 U1). lra.
Qed.

Theorem tol_exact_seg_line : forall a b p, tol6 < norm2 (psub b a) ->
  (on_edge a b p = true \/
   forall u, 0 <= u -> u <= 1 -> tol6sq <= dist2 [a; b] p u) ->
  tol_exact_seg [a; b] p.
Proof.
  intros a b p HN H. unfold tol_exact_seg.
  change (first_pt [a; b]) with a. change (last_pt [a; b]) with b.
  assert (HN0 : 0 < norm2 (psub b a)) by (pose proof Winding.tol6_pos; lra).
  destruct H as [He|Hfar].
  - rewrite He. apply on_seg_line_complete; assumption.
  - rewrite (on_seg_line_far a b p HN Hfar).
    destruct (on_edge a b p) eqn:He; [|reflexivity]. exfalso.
    destruct (ustar_range a b p HN0 He) as [U0 U1].
    pose proof (Hfar _ U0 U1) as Hd.
    rewrite (on_edge_dist0 a b p HN0 He) in Hd.
    pose proof tol6sq_pos. lra.
Qed.

(* ---------- T4: the short-edge defect (derivative clamp) ---------- *)
Definition short_a : point := (1 # 20000, - (1 # 20000)).
Definition short_b : point := (1 # 20000, 1 # 20000).
Definition short_p : point := (1 # 20000, 1 # 80000).
Theorem short_edge_defect :
  on_edge short_a short_b short_p = true /\ on_seg [short_a; short_b] short_p = false.
Proof. split; vm_compute; reflexivity. Qed.
(* the hypothesis of the theorems above fails there: |d|^2 = 1e-8 < 1e-6 *)
Lemma short_edge_is_short : norm2 (psub short_b short_a) < tol6.
Proof. reflexivity. Qed.

(* ---------- T5: vertices and midpoints belong to the curve ---------- *)
Lemma on_edge_param a b p t : 0 <= t -> t <= 1 -> peq p (line_pt a b t) ->
  on_edge a b p = true.
Proof.
  intros T0 T1 [Ex Ey]. apply on_edge_iff. rewrite Winding.orient_expand.
  unfold line_pt in Ex, Ey. unfold px at 2, py at 2 in Ex. unfold px at 2, py at 2 in Ey.
  cbn [fst snd] in Ex, Ey. rewrite Ex, Ey.
  split; [ring|]. split.
  - destruct (Qlt_le_dec (px a) (px b)); [left | right]; split; nra.
  - destruct (Qlt_le_dec (py a) (py b)); [left | right]; split; nra.
Qed.

Lemma pred_peq p : peq (pred_ p) p.
Proof. unfold pred_, peq, px, py; cbn [fst snd]. split; apply Qred_correct. Qed.

Lemma jordan_has_on_edge j a b p : all_lines j = true ->
  (forall s, In s j -> tol6 < norm2 (psub (last_pt s) (first_pt s))) ->
  In [a; b] j -> on_edge a b p = true -> jordan_has j p = true.
Proof.
  intros HL Hlong Hin He. unfold jordan_has. apply andb_true_iff. split.
  - apply Winding.on_boundary_box; [exact HL|].
    unfold on_boundary. apply existsb_exists. exists [a; b]. split; [exact Hin | exact He].
  - apply existsb_exists. exists [a; b]. split; [exact Hin|].
    apply on_seg_line_complete; [exact (Hlong _ Hin) | exact He].
Qed.

Theorem jordan_has_vertices : forall j, all_lines j = true ->
  (forall s, In s j -> tol6 < norm2 (psub (last_pt s) (first_pt s))) ->
  forall s, In s j ->
    jordan_has j (first_pt s) = true /\ jordan_has j (last_pt s) = true /\
    jordan_has j (evalr s (1 # 2)) = true.
Proof.
  intros j HL Hlong s Hs.
  destruct (Winding.all_lines_In j s HL Hs) as (a & b & ->).
  change (first_pt [a; b]) with a. change (last_pt [a; b]) with b.
  repeat split; apply (jordan_has_on_edge j a b _ HL Hlong Hs).
  - apply (on_edge_param a b a 0); [lra | lra |].
    unfold line_pt, peq, px, py; cbn [fst snd]. split; ring.
  - apply (on_edge_param a b b 1); [lra | lra |].
    unfold line_pt, peq, px, py; cbn [fst snd]. split; ring.
  - apply (on_edge_param a b _ (1 # 2)); [lra | lra |].
    unfold evalr. eapply BezierFacts.peq_trans; [apply pred_peq | apply eval_line].
Qed.

Lemma jordan_has_evalr j s t : all_lines j = true ->
  (forall s, In s j -> tol6 < norm2 (psub (last_pt s) (first_pt s))) ->
  In s j -> 0 <= t -> t <= 1 -> jordan_has j (evalr s t) = true.
Proof.
  intros HL Hlong Hs T0 T1.
  destruct (Winding.all_lines_In j s HL Hs) as (a & b & ->).
  apply (jordan_has_on_edge j a b _ HL Hlong Hs).
  apply (on_edge_param a b _ t T0 T1).
  unfold evalr. eapply BezierFacts.peq_trans; [apply pred_peq | apply eval_line].
Qed.

(* ---------- T6 (a): equal shapes have the same kind ---------- *)
Definition same_kind (a b : shape) : Prop :=
  match a, b with
  | SEmpty, SEmpty => True
  | SWhole, SWhole => True
  | SC (CS _), SC (CS _) => True
  | SC (CC _), SC (CC _) => True
  | SD _, SD _ => True
  | _, _ => False
  end.

Theorem shape_eq_same_kind : forall a b, shape_eq a b = Ok true -> same_kind a b.
Proof.
  intros a b.
  destruct a as [| |[ja|ja]|ca], b as [| |[jb|jb]|cb];
    cbn [shape_eq comp_eq same_kind]; intro H; try exact I; discriminate.
Qed.

(* ---------- T6 (b): jordan_eq is total on polygons ---------- *)
(* direction of a straight segment; "s' does not double back on s" (only
   asked of pairs the code treats as parallel: |cross| <= 1e-6) *)
Definition dir (s : seg) : point := psub (last_pt s) (first_pt s).
Definition nb (u v : point) : Prop := Qabs' (cross u v) <= tol6 -> 0 <= inner u v.
Definition no_back (s s' : seg) : Prop := nb (dir s) (dir s').
Definition nonzero (s : seg) : Prop := ~ peq (first_pt s) (last_pt s).
(* no zero-length segment; whenever s ends where s' starts (the 1e-9 test of
   the code), s' does not double back on s *)
Definition wf_pairs (l : list seg) : Prop :=
  (forall s, In s l -> nonzero s) /\
  (forall s s', In s l -> In s' l ->
     pt_eq (last_pt s) (first_pt s') = true -> no_back s s').

Lemma Qabs'_le_iff x e : Qabs' x <= e <-> - e <= x /\ x <= e.
Proof.
  unfold Qabs'. destruct (Qle_bool 0 x) eqn:E; qb;
    (split; [intro H; split; lra | intros [H1 H2]; lra]).
Qed.
Lemma Qabs'_compat x y : x == y -> Qabs' x == Qabs' y.
Proof.
  intro E. unfold Qabs'.
  destruct (Qle_bool 0 x) eqn:?, (Qle_bool 0 y) eqn:?; qb; lra.
Qed.
Lemma cross_peq p p' q q' : peq p p' -> peq q q' -> cross p q == cross p' q'.
Proof. intros [A1 A2] [B1 B2]. unfold cross. rewrite A1, A2, B1, B2. reflexivity. Qed.

Lemma nb_scale_l u v w t : 0 < t -> t <= 1 -> peq u (pscale t w) -> nb u v -> nb w v.
Proof.
  intros T0 T1 [E1 E2] H Hc. apply Qabs'_le_iff in Hc.
  change (px u == t * px w) in E1. change (py u == t * py w) in E2.
  assert (Hcu : cross u v == t * cross w v) by (unfold cross; rewrite E1, E2; ring).
  assert (Hiu : inner u v == t * inner w v) by (unfold inner; rewrite E1, E2; ring).
  pose proof Winding.tol6_pos as TP.
  assert (Hi : 0 <= inner u v).
  { apply H. apply Qabs'_le_iff. rewrite Hcu.
    destruct (Qlt_le_dec (cross w v) 0); split; nra. }
  rewrite Hiu in Hi.
  destruct (Qlt_le_dec (inner w v) 0); [exfalso; nra | assumption].
Qed.
Lemma nb_scale_r u v w t : 0 < t -> t <= 1 -> peq v (pscale t w) -> nb u v -> nb u w.
Proof.
  intros T0 T1 [E1 E2] H Hc. apply Qabs'_le_iff in Hc.
  change (px v == t * px w) in E1. change (py v == t * py w) in E2.
  assert (Hcu : cross u v == t * cross u w) by (unfold cross; rewrite E1, E2; ring).
  assert (Hiu : inner u v == t * inner u w) by (unfold inner; rewrite E1, E2; ring).
  pose proof Winding.tol6_pos as TP.
  assert (Hi : 0 <= inner u v).
  { apply H. apply Qabs'_le_iff. rewrite Hcu.
    destruct (Qlt_le_dec (cross u w) 0); split; nra. }
  rewrite Hiu in Hi.
  destruct (Qlt_le_dec (inner u w) 0); [exfalso; nra | assumption].
Qed.

Lemma norm2_pos_of_neq a m : ~ peq a m -> 0 < norm2 (psub m a).
Proof.
  intro H.
  change (0 < (px m - px a) * (px m - px a) + (py m - py a) * (py m - py a)).
  set (dx := px m - px a). set (dy := py m - py a).
  assert (Sx : 0 <= dx * dx) by nra. assert (Sy : 0 <= dy * dy) by nra.
  destruct (Q_dec dx 0) as [[L|L]|E];
    [assert (0 < dx * dx) by nra; lra | assert (0 < dx * dx) by nra; lra |].
  destruct (Q_dec dy 0) as [[L|L]|E'];
    [assert (0 < dy * dy) by nra; lra | assert (0 < dy * dy) by nra; lra |].
  exfalso. apply H. unfold dx, dy in *. split; lra.
Qed.

Lemma pt_eq_compat p p' q q' : peq p p' -> peq q q' -> pt_eq p q = pt_eq p' q'.
Proof.
  intros [A1 A2] [B1 B2]. unfold pt_eq, Qlt_bool.
  assert (K : forall x y, x == y -> Qle_bool (Qabs' x) tol9 = Qle_bool (Qabs' y) tol9).
  { intros x y E. apply Winding.Qle_bool_ext. rewrite (Qabs'_compat _ _ E). tauto. }
  rewrite (K (px p - px q) (px p' - px q')) by (rewrite A1, B1; reflexivity).
  rewrite (K (py p - py q) (py p' - py q')) by (rewrite A2, B2; reflexivity).
  reflexivity.
Qed.
Lemma peq_pt_eq p q : peq p q -> pt_eq p q = true.
Proof.
  intro H. rewrite (pt_eq_compat p p q p (BezierFacts.peq_refl p) (BezierFacts.peq_sym _ _ H)).
  apply Construct.pt_eq_refl.
Qed.

Lemma inner_padd_sq u v :
  inner (padd u v) (padd u v) == norm2 u + 2 * inner u v + norm2 v.
Proof. destruct u, v. unfold norm2, inner, padd, px, py; cbn [fst snd]. ring. Qed.
Lemma inner_padd_r u v : inner u (padd u v) == norm2 u + inner u v.
Proof. destruct u, v. unfold norm2, inner, padd, px, py; cbn [fst snd]. ring. Qed.

(* unite on two straight segments never raises under the hypotheses *)
Lemma unite_lines_no_raise a m m' b :
  pt_eq m m' = true -> ~ peq a m -> ~ peq m' b -> nb (psub m a) (psub b m') ->
  forall e, unite [a; m] [m'; b] <> URaise e.
Proof.
  intros Hj Hx Hy Hnb e. unfold unite. cbv zeta.
  change (degree [a; m]) with 1%nat. change (degree [m'; b]) with 1%nat.
  cbn [Nat.eqb negb last_pt first_pt removelast last hd nth].
  rewrite Hj. cbn [negb].
  destruct (Qlt_bool tol6 _) eqn:Ec; [discriminate|].
  apply Qlt_bool_false_iff in Ec. specialize (Hnb Ec).
  pose proof (norm2_pos_of_neq _ _ Hx) as Pa.
  pose proof (norm2_pos_of_neq _ _ Hy) as Pb.
  set (da := psub m a) in *. set (db := psub b m') in *.
  pose proof (inner_padd_sq da db) as Eden.
  pose proof (inner_padd_r da db) as Enum.
  destruct (Qeq_bool _ 0) eqn:Ed.
  { exfalso. apply Qeq_bool_iff in Ed. lra. }
  destruct (Qle_bool _ 0 || Qle_bool 1 _) eqn:En.
  { exfalso. apply orb_true_iff in En.
    assert (Hd : 0 < inner (padd da db) (padd da db)) by lra.
    destruct En as [En|En]; apply Qle_bool_iff in En.
    - assert (0 < inner da (padd da db) / inner (padd da db) (padd da db)).
      { apply Qlt_shift_div_l; [exact Hd | lra]. }
      lra.
    - assert (inner da (padd da db) / inner (padd da db) (padd da db) < 1).
      { apply Qlt_shift_div_r; [exact Hd | lra]. }
      lra. }
  destruct (forallb _ _); discriminate.
Qed.

(* junctions of a closed chain, by index *)
Lemma linked_nth l : SplitClean.linked l -> forall k, (S k < length l)%nat ->
  peq (last_pt (nth k l [])) (first_pt (nth (S k) l [])).
Proof.
  induction l as [|s l IH]; intros L k Hk; [cbn in Hk; lia|].
  destruct l as [|s' l']; [cbn in Hk; lia|].
  destruct L as [L1 L2]. destruct k as [|k]; [exact L1|].
  apply (IH L2 k). cbn [length] in *. lia.
Qed.
Lemma nth_last_elt {A} (l : list A) d : nth (length l - 1) l d = last l d.
Proof.
  induction l as [|a l IH]; [reflexivity|].
  destruct l as [|b l']; [reflexivity|].
  replace (length (a :: b :: l') - 1)%nat with (S (length (b :: l') - 1))
    by (cbn [length]; lia).
  change (nth (length (b :: l') - 1) (b :: l') d = last (b :: l') d). exact IH.
Qed.
Lemma closed_junction l k : SplitClean.closedP l -> (k < length l)%nat ->
  peq (last_pt (nth k l [])) (first_pt (nth ((k + 1) mod length l) l [])).
Proof.
  intros [->|[L C]] Hk; [cbn in Hk; lia|].
  destruct (Nat.lt_ge_cases (k + 1) (length l)) as [Hlt|Hge].
  - rewrite Nat.mod_small by lia. rewrite Nat.add_1_r. apply linked_nth; [exact L | lia].
  - replace (k + 1)%nat with (length l) by lia. rewrite Nat.mod_same by lia.
    replace k with (length l - 1)%nat by lia. rewrite nth_last_elt.
    unfold SplitClean.chain_lp, SplitClean.chain_fp in C.
    destruct l; exact C.
Qed.

Lemma nth_line l k : SplitClean.seg_lines l -> (k < length l)%nat ->
  exists a b, nth k l [] = [a; b].
Proof.
  intros Hl Hk. pose proof (Hl _ (nth_In l [] Hk)) as E.
  destruct (nth k l []) as [|a [|b [|c s]]]; try discriminate. eauto.
Qed.


(* chains of a relation on consecutive segments, and the cyclic version *)
Section Chain.
Variable R : seg -> seg -> Prop.
Fixpoint chainR (l : list seg) : Prop :=
  match l with
  | s :: ((s' :: _) as t) => R s s' /\ chainR t
  | _ => True
  end.

Lemma chainR_nth l : chainR l -> forall k, (S k < length l)%nat ->
  R (nth k l []) (nth (S k) l []).
Proof.
  induction l as [|s l IH]; intros L k Hk; [cbn in Hk; lia|].
  destruct l as [|s' l']; [cbn in Hk; lia|].
  destruct L as [L1 L2]. destruct k as [|k]; [exact L1|].
  apply (IH L2 k). cbn [length] in *. lia.
Qed.
Lemma chainR_of_nth l :
  (forall k, (S k < length l)%nat -> R (nth k l []) (nth (S k) l [])) -> chainR l.
Proof.
  induction l as [|s l IH]; intro H; [exact I|].
  destruct l as [|s' l']; [exact I|]. split.
  - apply (H 0%nat). cbn [length]. lia.
  - apply IH. intros k Hk. apply (H (S k)). cbn [length] in *. lia.
Qed.

Variables x y z : seg.
Hypothesis HA : forall p, R p x -> R p z.
Hypothesis HB : forall q, R y q -> R z q.

Lemma chainR_hd T : chainR (y :: T) -> chainR (z :: T).
Proof.
  destruct T as [|h T]; [trivial|]. intros [H1 H2]. split; [apply HB, H1 | exact H2].
Qed.
Lemma chainR_last T : chainR (T ++ [x]) -> chainR (T ++ [z]).
Proof.
  induction T as [|h T IH]; [trivial|]. destruct T as [|h' T'].
  - cbn [app]. intros [H _]. split; [apply HA, H | exact I].
  - change (chainR (h :: h' :: (T' ++ [x])) -> chainR (h :: h' :: (T' ++ [z]))).
    intros [H1 H2]. split; [exact H1 | apply IH, H2].
Qed.
Lemma chainR_mid L1 L2 : chainR (L1 ++ x :: y :: L2) -> chainR (L1 ++ z :: L2).
Proof.
  induction L1 as [|h L1 IH].
  - cbn [app]. intros [_ H]. apply chainR_hd, H.
  - destruct L1 as [|h' L1'].
    + cbn [app]. intros [H1 [_ H2]]. split; [apply HA, H1 | apply chainR_hd, H2].
    + change (chainR (h :: h' :: (L1' ++ x :: y :: L2)) ->
              chainR (h :: h' :: (L1' ++ z :: L2))).
      intros [H1 H2]. split; [exact H1 | apply IH, H2].
Qed.
Lemma chainR_snoc T u v : chainR (T ++ [u]) -> R u v -> chainR (T ++ [u; v]).
Proof.
  induction T as [|h T IH]; intros H Huv.
  - cbn [app]. split; [exact Huv | exact I].
  - destruct T as [|h' T'].
    + cbn [app] in *. destruct H as [H _]. split; [exact H|]. split; [exact Huv | exact I].
    + change (chainR (h :: h' :: (T' ++ [u]))) in H.
      change (chainR (h :: h' :: (T' ++ [u; v]))).
      destruct H as [H1 H2]. split; [exact H1 | apply IH; assumption].
Qed.
End Chain.

Definition cycR (R : seg -> seg -> Prop) (l : list seg) : Prop :=
  chainR R (l ++ firstn 1 l).

Lemma nth_cyc (l : list seg) k : (k < length l)%nat ->
  nth k (l ++ firstn 1 l) [] = nth k l [] /\
  nth (S k) (l ++ firstn 1 l) [] = nth ((k + 1) mod length l) l [].
Proof.
  intro Hk. split; [apply app_nth1; exact Hk|].
  destruct (Nat.lt_ge_cases (k + 1) (length l)) as [Hlt|Hge].
  - rewrite Nat.mod_small by lia. rewrite app_nth1 by lia. f_equal. lia.
  - replace (k + 1)%nat with (length l) by lia. rewrite Nat.mod_same by lia.
    rewrite app_nth2 by lia. replace (S k - length l)%nat with 0%nat by lia.
    destruct l; [cbn in Hk; lia | reflexivity].
Qed.
Lemma cyc_length (l : list seg) : l <> [] -> length (l ++ firstn 1 l) = S (length l).
Proof.
  destruct l; [congruence|]. intros _. rewrite app_length. cbn [firstn length]. lia.
Qed.

Lemma cycR_iff (R : seg -> seg -> Prop) (l : list seg) :
  cycR R l <->
  forall k, (k < length l)%nat -> R (nth k l []) (nth ((k + 1) mod length l) l []).
Proof.
  unfold cycR. destruct l as [|s l'].
  { split; [intros _ k Hk; cbn in Hk; lia | intros _; exact I]. }
  remember (s :: l') as l eqn:El.
  assert (Hne : l <> []) by (rewrite El; discriminate). clear El.
  split.
  - intros H k Hk. destruct (nth_cyc l k Hk) as [E1 E2]. rewrite <- E1, <- E2.
    apply chainR_nth; [exact H|]. rewrite cyc_length by exact Hne. lia.
  - intros H. apply chainR_of_nth. intros k Hk. rewrite cyc_length in Hk by exact Hne.
    assert (Hk' : (k < length l)%nat) by lia.
    destruct (nth_cyc l k Hk') as [E1 E2]. pose proof (H k Hk') as G.
    rewrite <- E1, <- E2 in G. exact G.
Qed.

(* one step of the scan: the pair (i, i+1 mod n) is replaced by z *)
Lemma cycR_step (R : seg -> seg -> Prop) (l : list seg) i (z : seg) : (i < length l)%nat ->
  (forall p, R p (nth i l []) -> R p z) ->
  (forall q, R (nth ((i + 1) mod length l) l []) q -> R z q) ->
  cycR R l -> cycR R (remove_nth ((i + 1) mod length l) (set_nth i z l)).
Proof.
  intros Hi HA HB H.
  destruct (Nat.lt_ge_cases (i + 1) (length l)) as [Hlt|Hge].
  - rewrite (Nat.mod_small _ _ Hlt) in *.
    destruct (SplitClean.split_adjacent [] z l i Hlt) as (l1 & l2 & E1 & E2).
    rewrite E2. unfold cycR in *.
    set (x := nth i l []) in *. set (y := nth (i + 1) l []) in *.
    clearbody x y. subst l. clear E2 Hi Hlt.
    destruct l1 as [|h l1'].
    + cbn [app firstn] in *. destruct H as [_ H].
      apply (chainR_hd R y z HB) in H.
      apply (chainR_last R x z HA (z :: l2)). exact H.
    + cbn [app firstn] in *.
      change (chainR R (((h :: l1') ++ x :: y :: l2) ++ [h])) in H.
      change (chainR R (((h :: l1') ++ z :: l2) ++ [h])).
      rewrite <- app_assoc in *. cbn [app] in *.
      change (chainR R ((h :: l1') ++ x :: y :: (l2 ++ [h]))) in H.
      change (chainR R ((h :: l1') ++ z :: (l2 ++ [h]))).
      apply (chainR_mid R x y z HA HB). exact H.
  - assert (El : (i + 1 = length l)%nat) by lia.
    rewrite El, Nat.mod_same in * by lia.
    destruct (Nat.lt_ge_cases (length l) 2) as [H1|H2].
    { destruct l as [|s [|s' l']]; cbn [length] in *; try lia.
      assert (i = 0)%nat by lia. subst i. exact I. }
    destruct (SplitClean.split_wrap [] z l H2) as (mid & E1 & E2).
    replace (length l - 1)%nat with i in * by lia.
    rewrite E2. unfold cycR in *.
    set (x := nth i l []) in *. set (y := nth 0 l []) in *.
    clearbody x y. subst l. clear E2 Hi Hge El H2.
    destruct mid as [|h mid'].
    + cbn [app firstn] in *. destruct H as [Hyx _].
      split; [apply HA, HB, Hyx | exact I].
    + cbn [app firstn] in *.
      change (chainR R (y :: h :: ((mid' ++ [x]) ++ [y]))) in H.
      destruct H as [Hyh H].
      change (chainR R (((h :: mid') ++ [x]) ++ [y])) in H.
      rewrite <- app_assoc in H. cbn [app] in H.
      change (chainR R ((h :: mid') ++ x :: y :: [])) in H.
      apply (chainR_mid R x y z HA HB) in H.
      change (chainR R (((h :: mid') ++ [z]) ++ [h])).
      rewrite <- app_assoc. cbn [app].
      change (chainR R ((h :: mid') ++ [z; h])).
      apply chainR_snoc; [exact H | apply HB, Hyh].
Qed.

(* no zero-length segment; no segment doubles back on its (cyclic) predecessor *)
Definition wf_cyc (l : list seg) : Prop :=
  (forall s, In s l -> nonzero s) /\
  (forall k, (k < length l)%nat ->
     no_back (nth k l []) (nth ((k + 1) mod length l) l [])).

Lemma wf_pairs_cyc l : SplitClean.closedP l -> wf_pairs l -> wf_cyc l.
Proof.
  intros Hc [Hnz Hnb]. split; [exact Hnz|]. intros k Hk.
  assert (Hj : ((k + 1) mod length l < length l)%nat) by (apply Nat.mod_upper_bound; lia).
  apply Hnb; [apply nth_In; exact Hk | apply nth_In; exact Hj |].
  apply peq_pt_eq, closed_junction; assumption.
Qed.

Definition Inv (l : list seg) : Prop :=
  SplitClean.seg_lines l /\ SplitClean.closedP l /\ wf_cyc l.

Lemma scan_pair_no_raise l i : Inv l -> (i < length l)%nat ->
  forall e, unite (nth i l []) (nth ((i + 1) mod length l) l []) <> URaise e.
Proof.
  intros (Hl & Hc & Hnz & Hnb) Hi e.
  assert (Hj : ((i + 1) mod length l < length l)%nat) by (apply Nat.mod_upper_bound; lia).
  pose proof (closed_junction l i Hc Hi) as J.
  pose proof (nth_In l [] Hi) as Ii. pose proof (nth_In l [] Hj) as Ij.
  pose proof (Hnb i Hi) as NB.
  destruct (nth_line l i Hl Hi) as (a & m & Ei).
  destruct (nth_line l _ Hl Hj) as (m' & b & Ej).
  rewrite Ei in J, Ii, NB |- *. rewrite Ej in J, Ij, NB |- *.
  apply unite_lines_no_raise.
  - apply peq_pt_eq. exact J.
  - exact (Hnz _ Ii).
  - exact (Hnz _ Ij).
  - exact NB.
Qed.

Lemma clean_scan_total : forall n i l, Inv l -> (i + n <= length l)%nat ->
  exists r, clean_scan n i l = Ok r.
Proof.
  induction n as [|n IH]; intros i l HI Hle; cbn [clean_scan]; [eauto|].
  assert (Hi : (i < length l)%nat) by lia.
  pose proof (scan_pair_no_raise l i HI Hi) as NR.
  destruct (unite _ _) as [z| |e]; [eauto | apply IH; [exact HI | lia] |].
  exfalso. exact (NR e eq_refl).
Qed.

(* a successful union keeps the hypotheses *)
Lemma dir_pred_l a m b t : peq m (Lines.pt_at a b t) ->
  peq (dir [a; m]) (pscale t (dir [pred_ a; pred_ b])).
Proof.
  intros [E1 E2]. unfold dir. cbn [first_pt last_pt hd last].
  unfold Lines.pt_at in E1, E2.
  change (px m == px a + t * (px b - px a)) in E1.
  change (py m == py a + t * (py b - py a)) in E2.
  split.
  - change (px m - px a == t * (Qred (px b) - Qred (px a))).
    rewrite !Qred_correct, E1. ring.
  - change (py m - py a == t * (Qred (py b) - Qred (py a))).
    rewrite !Qred_correct, E2. ring.
Qed.
Lemma dir_pred_r a m m' b t : peq m (Lines.pt_at a b t) -> peq m' m ->
  peq (dir [m'; b]) (pscale (1 - t) (dir [pred_ a; pred_ b])).
Proof.
  intros [E1 E2] [F1 F2]. unfold dir. cbn [first_pt last_pt hd last].
  change (px m == px a + t * (px b - px a)) in E1.
  change (py m == py a + t * (py b - py a)) in E2.
  split.
  - change (px b - px m' == (1 - t) * (Qred (px b) - Qred (px a))).
    rewrite !Qred_correct, F1, E1. ring.
  - change (py b - py m' == (1 - t) * (Qred (py b) - Qred (py a))).
    rewrite !Qred_correct, F2, E2. ring.
Qed.

Lemma clean_scan_wf : forall n i l l', Inv l -> (i + n <= length l)%nat ->
  clean_scan n i l = Ok (Some l') -> wf_cyc l'.
Proof.
  induction n as [|n IH]; intros i l l' HI Hle H; cbn [clean_scan] in H; [discriminate|].
  destruct (unite _ _) as [z| |e] eqn:Hu; [| |discriminate].
  2: { eapply IH; [exact HI | | exact H]. lia. }
  inversion H; subst l'; clear H IH.
  destruct HI as (Hl & Hc & Hnz & Hnb).
  assert (Hi : (i < length l)%nat) by lia.
  assert (Hj : ((i + 1) mod length l < length l)%nat) by (apply Nat.mod_upper_bound; lia).
  destruct (nth_line l i Hl Hi) as (a & m & Ei).
  destruct (nth_line l _ Hl Hj) as (m' & b & Ej).
  rewrite Ei, Ej in Hu.
  destruct (SplitClean.unite_line_spec _ _ _ _ _ Hu) as (t & T0 & T1 & Hm & Hm' & Hab & ->).
  pose proof (dir_pred_l a m b t Hm) as Dx.
  pose proof (dir_pred_r a m m' b t Hm Hm') as Dy.
  set (z := [pred_ a; pred_ b]) in *.
  split.
  - intros s Hs. apply SplitClean.remove_nth_In in Hs.
    apply SplitClean.set_nth_In in Hs. destruct Hs as [->|Hs']; [|auto].
    unfold nonzero, z. cbn [first_pt last_pt hd last]. intro P. apply Hab.
    eapply BezierFacts.peq_trans; [apply BezierFacts.peq_sym, pred_peq|].
    eapply BezierFacts.peq_trans; [exact P | apply pred_peq].
  - apply cycR_iff. apply cycR_step; [exact Hi | | | apply cycR_iff; exact Hnb].
    + intros p NB. rewrite Ei in NB. unfold no_back in *.
      apply (nb_scale_r (dir p) (dir [a; m]) (dir z) t); [lra | lra | exact Dx | exact NB].
    + intros q NB. rewrite Ej in NB. unfold no_back in *.
      apply (nb_scale_l (dir [m'; b]) (dir q) (dir z) (1 - t));
        [lra | lra | exact Dy | exact NB].
Qed.

Lemma clean_scan_Inv l l' : Inv l ->
  clean_scan (length l) 0 l = Ok (Some l') -> Inv l'.
Proof.
  intros HI H. pose proof HI as (Hl & Hc & Hw). split; [|split].
  - eapply SplitClean.clean_scan_lines; [exact Hl | | exact H]. lia.
  - eapply (SplitClean.clean_scan_closed (length l) 0%nat); [exact Hl | lia | exact Hc | exact H].
  - eapply clean_scan_wf; [exact HI | | exact H]. lia.
Qed.

Lemma Inv_len l : Inv l -> l <> [] -> (2 <= length l)%nat.
Proof.
  intros (Hl & Hc & Hnz & _) Hne.
  destruct l as [|s [|s' l']]; [congruence | | cbn [length]; lia].
  exfalso. destruct Hc as [E|[_ C]]; [discriminate|].
  apply (Hnz s (or_introl eq_refl)). apply BezierFacts.peq_sym. exact C.
Qed.

Lemma clean_loop_total : forall f l, (length l < f)%nat -> Inv l ->
  exists l', clean_loop f l = Ok l' /\ Inv l' /\ (l <> [] -> l' <> []).
Proof.
  induction f as [|f IH]; intros l Hf HI; [lia|].
  cbn [clean_loop]. destruct l as [|s0 t] eqn:El.
  { exists []. split; [reflexivity|]. split; [exact HI | auto]. }
  rewrite <- El in *.
  assert (Hne : l <> []) by (rewrite El; discriminate).
  destruct (clean_scan_total (length l) 0 l HI) as [r Hr]; [lia|].
  rewrite Hr. cbn [bind]. destruct r as [l1|].
  - pose proof (clean_scan_Inv l l1 HI Hr) as I1.
    pose proof (Fuel.clean_scan_length _ _ _ _ Hne Hr) as Len.
    pose proof (Inv_len l HI Hne) as L2.
    destruct (IH l1) as (l' & E & I' & NE); [lia | exact I1 |].
    exists l'. split; [exact E|]. split; [exact I'|]. intros _. apply NE.
    intro E1. subst l1. cbn [length] in Len. lia.
  - exists l. split; [reflexivity|]. split; [exact HI | auto].
Qed.

Theorem clean_total : forall j, all_lines j = true -> closed_chain j = true -> wf_cyc j ->
  exists j', clean j = Ok j' /\ all_lines j' = true /\ closed_chain j' = true /\
             wf_cyc j' /\ (j <> [] -> j' <> []).
Proof.
  intros j HL HC HW.
  apply SplitClean.all_lines_iff in HL. apply SplitClean.closed_chain_iff in HC.
  unfold clean. rewrite (SplitClean.map_seg_clean_lines j HL).
  destruct (clean_loop_total (S (length j)) j) as (l' & E & (L' & C' & W') & NE);
    [lia | exact (conj HL (conj HC HW)) |].
  rewrite E. cbn [bind]. unfold set_segments.
  rewrite (SplitClean.map_seg_clean_lines l' L'). exists l'.
  split; [reflexivity|]. split; [apply SplitClean.all_lines_iff; exact L'|].
  split; [apply SplitClean.closed_chain_iff; exact C'|]. split; assumption.
Qed.

(* the comparison loop of jordan_eq *)
Definition go_loop (sc : list seg) (index : nat) : nat -> list seg -> res bool :=
  fix go (i : nat) (l : list seg) : res bool :=
    match l with
    | [] => Ok true
    | s1 :: t =>
        match nth_error sc (Nat.modulo (i + index) (length sc)) with
        | None => Err EIndex
        | Some s0 => if seg_eq s0 s1 then go (S i) t else Ok false
        end
    end.
Lemma go_loop_cons sc index i s1 t :
  go_loop sc index i (s1 :: t) =
  match nth_error sc (Nat.modulo (i + index) (length sc)) with
  | None => Err EIndex
  | Some s0 => if seg_eq s0 s1 then go_loop sc index (S i) t else Ok false
  end.
Proof. reflexivity. Qed.

Lemma go_loop_total sc index : (0 < length sc)%nat ->
  forall l i, exists r, go_loop sc index i l = Ok r.
Proof.
  intros Hpos. induction l as [|s1 t IH]; intro i; [exists true; reflexivity|].
  rewrite go_loop_cons.
  destruct (nth_error sc ((i + index) mod length sc)) as [s0|] eqn:En.
  - destruct (seg_eq s0 s1); [apply IH | eauto].
  - exfalso. apply nth_error_None in En.
    pose proof (Nat.mod_upper_bound (i + index) (length sc)). lia.
Qed.

(* the only error sources of jordan_eq are the two calls of clean *)
Theorem jordan_eq_total_of_clean : forall a b sa sb,
  clean a = Ok sa -> clean b = Ok sb -> (sa <> [] \/ sb <> []) ->
  exists r, jordan_eq a b = Ok r.
Proof.
  intros a b sa sb Ha Hb Hne. unfold jordan_eq.
  destruct (negb (forallb _ _)); [eauto|].
  rewrite Ha, Hb. cbn [bind].
  destruct (Nat.eqb (length sa) (length sb)) eqn:El; cbn [negb]; [|eauto].
  apply Nat.eqb_eq in El.
  destruct sb as [|seg1 sb'].
  { exfalso. destruct sa; [destruct Hne; congruence | discriminate]. }
  destruct (index_where _ sa) as [index|]; [|eauto].
  assert (Hpos : (0 < length sa)%nat) by (rewrite El; cbn [length]; lia).
  change (exists r, go_loop sa index 0 (seg1 :: sb') = Ok r).
  apply go_loop_total. exact Hpos.
Qed.

Theorem jordan_eq_total : forall a b,
  all_lines a = true -> all_lines b = true ->
  closed_chain a = true -> closed_chain b = true ->
  wf_cyc a -> wf_cyc b -> (a <> [] \/ b <> []) ->
  exists r, jordan_eq a b = Ok r.
Proof.
  intros a b La Lb Ca Cb Wa Wb Hne.
  destruct (clean_total a La Ca Wa) as (sa & Ea & _ & _ & _ & Na).
  destruct (clean_total b Lb Cb Wb) as (sb & Eb & _ & _ & _ & Nb).
  apply (jordan_eq_total_of_clean a b sa sb Ea Eb). tauto.
Qed.

(* the same under the hypothesis on all junction-connected pairs *)
Corollary jordan_eq_total_pairs : forall a b,
  all_lines a = true -> all_lines b = true ->
  closed_chain a = true -> closed_chain b = true ->
  wf_pairs a -> wf_pairs b -> (a <> [] \/ b <> []) ->
  exists r, jordan_eq a b = Ok r.
Proof.
  intros a b La Lb Ca Cb Wa Wb Hne.
  apply jordan_eq_total; try assumption;
    apply wf_pairs_cyc; try assumption; apply SplitClean.closed_chain_iff; assumption.
Qed.

(* ---------- T6 (c): reflexivity on polygons of the exact fragment ---------- *)
Lemma seg_eq_refl s : seg_eq s s = true.
Proof.
  unfold seg_eq. rewrite Nat.eqb_refl. cbn [andb].
  induction s as [|p s IH]; [reflexivity|].
  cbn [combine forallb fst snd]. rewrite Construct.pt_eq_refl, IH. reflexivity.
Qed.

Lemma skipn_cons_nth {A} : forall i (l : list A) x r,
  skipn i l = x :: r -> nth_error l i = Some x /\ skipn (S i) l = r /\ (i < length l)%nat.
Proof.
  induction i as [|i IH]; intros l x r H.
  - destruct l as [|y l]; [discriminate|]. cbn [skipn] in H. inversion H; subst.
    cbn [nth_error skipn length]. repeat split. lia.
  - destruct l as [|y l]; [discriminate|]. cbn [skipn] in H.
    destruct (IH l x r H) as (H1 & H2 & H3).
    cbn [nth_error length]. repeat split; [exact H1 | exact H2 | lia].
Qed.

Lemma go_loop_refl sc : forall l i, skipn i sc = l -> go_loop sc 0 i l = Ok true.
Proof.
  induction l as [|s1 t IH]; intros i H; [reflexivity|].
  rewrite go_loop_cons.
  destruct (skipn_cons_nth i sc s1 t H) as (H1 & H2 & H3).
  rewrite Nat.add_0_r, Nat.mod_small by exact H3. rewrite H1, seg_eq_refl.
  apply IH. exact H2.
Qed.

Lemma points1_has j : all_lines j = true ->
  (forall s, In s j -> tol6 < norm2 (psub (last_pt s) (first_pt s))) ->
  forallb (jordan_has j) (points j 1) = true.
Proof.
  intros HL Hlong. apply forallb_forall. intros p Hp.
  unfold points in Hp. apply in_concat in Hp. destruct Hp as (l & Hl & Hp).
  apply in_map_iff in Hl. destruct Hl as (s & <- & Hs).
  apply in_map_iff in Hp. destruct Hp as (k & <- & Hk).
  apply in_seq in Hk.
  apply (jordan_has_evalr j s _ HL Hlong Hs).
  - destruct k as [|[|k]]; [vm_compute; discriminate | vm_compute; discriminate | lia].
  - destruct k as [|[|k]]; [vm_compute; discriminate | vm_compute; discriminate | lia].
Qed.

Theorem jordan_eq_refl : forall j, all_lines j = true -> j <> [] ->
  (forall s, In s j -> tol6 < norm2 (psub (last_pt s) (first_pt s))) ->
  clean j = Ok j -> jordan_eq j j = Ok true.
Proof.
  intros j HL Hne Hlong Hc. unfold jordan_eq.
  rewrite (points1_has j HL Hlong). cbn [negb].
  rewrite Hc. cbn [bind]. rewrite Nat.eqb_refl. cbn [negb].
  destruct j as [|seg1 t]; [congruence|].
  cbn [index_where]. rewrite seg_eq_refl.
  change (go_loop (seg1 :: t) 0 0 (seg1 :: t) = Ok true).
  apply go_loop_refl. reflexivity.
Qed.

(* the same at the level of shapes: a simple shape equals itself *)
Theorem simple_eq_refl : forall j, all_lines j = true -> j <> [] ->
  (forall s, In s j -> tol6 < norm2 (psub (last_pt s) (first_pt s))) ->
  clean j = Ok j -> shape_eq (SC (CS j)) (SC (CS j)) = Ok true.
Proof.
  intros j HL Hne Hlong Hc. cbn [shape_eq comp_eq]. unfold simple_eq.
  assert (E : Qeq_bool (jordan_area j) (jordan_area j) = true)
    by (apply Qeq_bool_iff; reflexivity).
  rewrite E. cbn [negb]. apply jordan_eq_refl; assumption.
Qed.

(* the hypothesis [clean j = Ok j] is what clean produces on polygons *)
Corollary jordan_eq_refl_cleaned : forall j j', all_lines j = true -> clean j = Ok j' ->
  j' <> [] ->
  (forall s, In s j' -> tol6 < norm2 (psub (last_pt s) (first_pt s))) ->
  jordan_eq j' j' = Ok true.
Proof.
  intros j j' HL Hc Hne Hlong. apply jordan_eq_refl; try assumption.
  - exact (SplitClean.clean_all_lines j j' Hc HL).
  - exact (SplitClean.clean_idempotent j j' HL Hc).
Qed.

(* comparing two polygons always returns a bool (C07, totality) *)
Theorem shape_eq_total_simple : forall a b,
  all_lines a = true -> all_lines b = true ->
  closed_chain a = true -> closed_chain b = true ->
  wf_cyc a -> wf_cyc b -> (a <> [] \/ b <> []) ->
  exists r, shape_eq (SC (CS a)) (SC (CS b)) = Ok r.
Proof.
  intros a b La Lb Ca Cb Wa Wb Hne. cbn [shape_eq comp_eq]. unfold simple_eq.
  destruct (negb _); [eauto|]. apply jordan_eq_total; assumption.
Qed.

(* ---------- non-vacuity: the unit-4 square ---------- *)
Lemma wf_pairs_sq : wf_pairs Winding.sq.
Proof.
  split.
  - intros s Hs. unfold Winding.sq in Hs. cbn [In] in Hs.
    repeat match goal with H : _ \/ _ |- _ => destruct H as [H|H] end;
      try contradiction; subst s; intros [E1 E2]; vm_compute in E1, E2;
      try discriminate E1; discriminate E2.
  - intros s s' Hs Hs' J. unfold Winding.sq in Hs, Hs'. cbn [In] in Hs, Hs'.
    repeat match goal with H : _ \/ _ |- _ => destruct H as [H|H] end;
      try contradiction; subst s s'; try (vm_compute in J; discriminate J);
      intro Hc; vm_compute in Hc; exfalso; apply Hc; reflexivity.
Qed.

Example sq_clean : clean Winding.sq = Ok Winding.sq.
Proof. vm_compute. reflexivity. Qed.

Example sq_eq_refl : jordan_eq Winding.sq Winding.sq = Ok true.
Proof.
  apply jordan_eq_refl.
  - reflexivity.
  - discriminate.
  - intros s Hs. unfold Winding.sq in Hs. cbn [In] in Hs.
    repeat match goal with H : _ \/ _ |- _ => destruct H as [H|H] end;
      try contradiction; subst s; reflexivity.
  - exact sq_clean.
Qed.

Lemma wf_cyc_sq : wf_cyc Winding.sq.
Proof.
  apply wf_pairs_cyc; [|exact wf_pairs_sq].
  apply SplitClean.closed_chain_iff. reflexivity.
Qed.

Example sq_eq_total : exists r, jordan_eq Winding.sq Winding.sq = Ok r.
Proof.
  apply jordan_eq_total; try reflexivity; try exact wf_cyc_sq.
  left. discriminate.
Qed.

(* ---------- C07 totality for polygonal shapes of every kind ---------- *)
Definition jordan_ok (j : jordan) : Prop :=
  all_lines j = true /\ closed_chain j = true /\ wf_cyc j /\ j <> [].
Definition comp_ok (c : comp) : Prop :=
  match c with CS j => jordan_ok j | CC js => forall j, In j js -> jordan_ok j end.
Definition shape_ok (s : shape) : Prop :=
  match s with
  | SEmpty | SWhole => True
  | SC c => comp_ok c
  | SD cs => forall c, In c cs -> comp_ok c
  end.

Lemma simple_eq_total a b : jordan_ok a -> jordan_ok b -> exists r, simple_eq a b = Ok r.
Proof.
  intros (La & Ca & Wa & Na) (Lb & Cb & Wb & Nb).
  unfold simple_eq. destruct (negb _); [eauto|]. apply jordan_eq_total; auto.
Qed.
Lemma find_simple_total s : jordan_ok s -> forall l k,
  (forall o, In o l -> jordan_ok o) -> exists r, find_simple s k l = Ok r.
Proof.
  intros Hs. induction l as [|o t IH]; intros k Hl; [exists None; reflexivity|].
  cbn [find_simple].
  destruct (simple_eq_total o s (Hl o (or_introl eq_refl)) Hs) as [e ->]. cbn [bind].
  destruct e; [eauto|]. apply IH. intros o' Ho'. apply Hl. right. exact Ho'.
Qed.
Lemma match_simples_total : forall ss os,
  (forall j, In j ss -> jordan_ok j) -> (forall j, In j os -> jordan_ok j) ->
  exists r, match_simples ss os = Ok r.
Proof.
  induction ss as [|s t IH]; intros os Hs Ho; cbn [match_simples]; [eauto|].
  destruct (find_simple_total s (Hs s (or_introl eq_refl)) os 0%nat Ho) as [r ->]. cbn [bind].
  destruct r as [k|]; [|eauto]. apply IH.
  - intros j Hj. apply Hs. right. exact Hj.
  - intros j Hj. apply Ho. eapply SplitClean.remove_nth_In. exact Hj.
Qed.
Lemma comp_eq_total a b : comp_ok a -> comp_ok b -> exists r, comp_eq a b = Ok r.
Proof.
  destruct a as [ja|ja], b as [jb|jb]; cbn [comp_eq comp_ok]; intros Ha Hb; eauto.
  - apply simple_eq_total; assumption.
  - destruct (negb (Qle_bool _ _)); [eauto|]. destruct (negb (Nat.eqb _ _)); [eauto|].
    apply match_simples_total; assumption.
Qed.

Definition find_loop (s0 : comp) : nat -> list comp -> res (option nat) :=
  fix find (k : nat) (l : list comp) : res (option nat) :=
    match l with
    | [] => Ok None
    | o :: t => do e <- comp_eq o s0; if e then Ok (Some k) else find (S k) t
    end.
Lemma disjoint_match_S f s0 st o ot :
  disjoint_match (S f) (s0 :: st) (o :: ot) =
  (do r <- find_loop s0 0 (o :: ot);
   match r with
   | None => Ok false
   | Some k => disjoint_match f st (remove_nth k (o :: ot))
   end).
Proof. reflexivity. Qed.

Lemma find_loop_total s0 : comp_ok s0 -> forall l k,
  (forall o, In o l -> comp_ok o) -> exists r, find_loop s0 k l = Ok r.
Proof.
  intros H0. induction l as [|o t IH]; intros k Hl; [exists None; reflexivity|].
  change (find_loop s0 k (o :: t))
    with (do e <- comp_eq o s0; if e then Ok (Some k) else find_loop s0 (S k) t).
  destruct (comp_eq_total o s0 (Hl o (or_introl eq_refl)) H0) as [e ->]. cbn [bind].
  destruct e; [eauto|]. apply IH. intros o' Ho'. apply Hl. right. exact Ho'.
Qed.

Lemma disjoint_match_total : forall f ss os, (length ss < f)%nat ->
  (forall c, In c ss -> comp_ok c) -> (forall c, In c os -> comp_ok c) ->
  exists r, disjoint_match f ss os = Ok r.
Proof.
  induction f as [|f IH]; intros ss os Hf Hs Ho; [lia|].
  destruct ss as [|s0 st].
  { destruct os; cbn [disjoint_match]; eauto. }
  destruct os as [|o ot]; [cbn [disjoint_match]; eauto|].
  rewrite disjoint_match_S.
  destruct (find_loop_total s0 (Hs s0 (or_introl eq_refl)) (o :: ot) 0%nat Ho) as [r ->].
  cbn [bind]. destruct r as [k|]; [|eauto].
  apply IH.
  - cbn [length] in Hf. lia.
  - intros c Hc. apply Hs. right. exact Hc.
  - intros c Hc. apply Ho. eapply SplitClean.remove_nth_In. exact Hc.
Qed.

(* comparing two polygonal shapes always returns a bool *)
Theorem shape_eq_total : forall a b, shape_ok a -> shape_ok b ->
  exists r, shape_eq a b = Ok r.
Proof.
  intros a b Ha Hb.
  destruct a as [| |ca|ca], b as [| |cb|cb]; cbn [shape_eq]; eauto.
  - apply comp_eq_total; assumption.
  - destruct (negb _); [eauto|]. apply disjoint_match_total; [lia | exact Ha | exact Hb].
Qed.

(* the hypotheses of the totality theorems are needed: a spike (the second edge
   doubles back on the first) and a zero-length edge make clean, hence ==, raise *)
Definition spike : jordan :=
  [[(0, 0); (2, 0)]; [(2, 0); (1, 0)]; [(1, 0); (1, 1)]; [(1, 1); (0, 0)]].
Example spike_raises :
  all_lines spike = true /\ closed_chain spike = true /\
  clean spike = Err EOther /\ jordan_eq spike spike = Err EOther.
Proof. repeat split; vm_compute; reflexivity. Qed.
Definition zerolen : jordan :=
  [[(0, 0); (0, 0)]; [(0, 0); (1, 0)]; [(1, 0); (1, 1)]; [(1, 1); (0, 0)]].
Example zerolen_raises :
  all_lines zerolen = true /\ closed_chain zerolen = true /\
  (exists e, clean zerolen = Err e).
Proof. repeat split; try (vm_compute; reflexivity). eexists. vm_compute. reflexivity. Qed.

Print Assumptions project_line.
Print Assumptions on_seg_line_complete.
Print Assumptions on_seg_line_far.
Print Assumptions tol_exact_seg_line.
Print Assumptions short_edge_defect.
Print Assumptions jordan_has_vertices.
Print Assumptions jordan_has_evalr.
Print Assumptions shape_eq_same_kind.
Print Assumptions clean_total.
Print Assumptions jordan_eq_total_of_clean.
Print Assumptions jordan_eq_total.
Print Assumptions jordan_eq_total_pairs.
Print Assumptions jordan_eq_refl.
Print Assumptions simple_eq_refl.
Print Assumptions jordan_eq_refl_cleaned.
Print Assumptions shape_eq_total_simple.
Print Assumptions sq_eq_refl.
Print Assumptions sq_eq_total.
Print Assumptions shape_eq_total.
Print Assumptions spike_raises.
