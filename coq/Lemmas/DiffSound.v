(* DiffSound.v -- one-step soundness of [-] for two simple counter-clockwise
   polygons A = SC (CS ja), B = SC (CS jb) in the general (recombination)
   branch: the total winding number of the curves that A - B assembles is the
   indicator of "in A and not in B".

   The model computes A - B as A & ~B, and ~B = SC (CS (invert jb)) is the
   clockwise curve (region = complement of B).  The recombination therefore
   runs on the pair (ja, invert jb): it keeps the pieces of dA whose midpoint
   is inside ~B (outside B) and the pieces of the REVERSED dB whose midpoint is
   inside A.
   D1  winding number / boundary of the reversed curve
   D2  the midpoint test against a clockwise curve = winding number test
   D3  the selection sum of the recombination on (counter-clockwise, clockwise)
   D4  sums over a reversed chain; hypotheses of the ray sum for the reversed
       second operand
   D5  the ray-sum identity of the difference with the midpoint selection
   FINAL  recombine_diff_sound, op_and_diff_sound, op_sub_diff_sound, the
          decidable form recombine_diff_checked and an instance. *)
From Coq Require Import QArith Lqa Lia ZArith List Bool Permutation.
From SV Require Import Model.Shape Spec.Spec.
From SV Require Import Lemmas.BezierFacts Lemmas.Lines Lemmas.SplitClean Lemmas.Construct
                       Lemmas.Logic Lemmas.Measure Lemmas.Winding Lemmas.Constancy Lemmas.RaySum
                       Lemmas.UnionSound.
From SV Require Lemmas.Cells Lemmas.CellsAll Lemmas.Subset Lemmas.Affine.
Import ListNotations.
Open Scope Q_scope.

(* ================================================================== *)
(* D1. the reversed curve                                              *)
(* ================================================================== *)
Lemma invert_reverse : forall j, all_lines j = true -> invert j = Affine.reverse j.
Proof. intros j H. exact (invert_lines j H). Qed.

Lemma wn_lines_invert : forall j q, all_lines j = true ->
  wn_lines (invert j) q = (- wn_lines j q)%Z.
Proof. intros j q H. rewrite (invert_reverse j H). apply Affine.wn_lines_reverse. Qed.

Lemma jordan_pos_invert_false : forall j, all_lines j = true -> jordan_pos j = true ->
  jordan_pos (invert j) = false.
Proof.
  intros j HL HP. rewrite (jordan_pos_invert j HL), HP; [reflexivity|].
  unfold jordan_pos in HP. apply Lines.Qlt_bool_true in HP. lra.
Qed.

(* a clockwise simple polygon: winding number 0 (in its region) or -1 *)
Definition simple0m1 (j : jordan) : Prop :=
  forall q, on_boundary j q = false -> (wn_lines j q = 0 \/ wn_lines j q = -1)%Z.

Lemma simple0m1_invert : forall j, all_lines j = true -> simple01 j -> simple0m1 (invert j).
Proof.
  intros j HL H q Hq. rewrite (CellsAll.on_boundary_invert j q HL) in Hq.
  rewrite (wn_lines_invert j q HL). destruct (H q Hq) as [E|E]; rewrite E; [left|right]; reflexivity.
Qed.

Lemma simple0m1_same : forall j j', same_curve j j' -> simple0m1 j -> simple0m1 j'.
Proof.
  intros j j' (_ & _ & W & B & _) H q Hq. rewrite W. apply H. rewrite <- B. exact Hq.
Qed.

(* ================================================================== *)
(* D2. the midpoint test against a clockwise curve                      *)
(* ================================================================== *)
(* for a clockwise curve the region is the complement: off the boundary, where
   the tolerance test is exact and the winding number is 0 or -1, both
   membership tests say "inside" exactly when the winding number is 0 *)
Theorem simple_has_point_wn_neg : forall j m closed,
  all_lines j = true -> jordan_pos j = false -> tol_exact j m ->
  on_boundary j m = false -> (wn_lines j m = 0 \/ wn_lines j m = -1)%Z ->
  simple_has_point j m closed = (wn_lines j m =? 0)%Z.
Proof.
  intros j m closed HL HP HT HB HW. unfold simple_has_point.
  rewrite (jordan_wn2_lines j m HL HT), HB, HP.
  destruct HW as [-> | ->]; destruct closed; reflexivity.
Qed.

(* in terms of the counter-clockwise curve whose complement it bounds *)
Corollary simple_has_point_invert : forall jb m closed,
  all_lines jb = true -> jordan_pos jb = true -> tol_exact (invert jb) m ->
  on_boundary jb m = false -> (wn_lines jb m = 0 \/ wn_lines jb m = 1)%Z ->
  simple_has_point (invert jb) m closed = (wn_lines jb m =? 0)%Z.
Proof.
  intros jb m closed HL HP HT HB HW.
  rewrite (simple_has_point_wn_neg (invert jb) m closed (invert_all_lines jb HL)
             (jordan_pos_invert_false jb HL HP) HT).
  - rewrite (wn_lines_invert jb m HL). destruct HW as [-> | ->]; reflexivity.
  - rewrite (CellsAll.on_boundary_invert jb m HL). exact HB.
  - rewrite (wn_lines_invert jb m HL). destruct HW as [-> | ->]; [left|right]; reflexivity.
Qed.

Lemma inter_weight_neg : forall j m closed (z : Z),
  all_lines j = true -> jordan_pos j = false -> tol_exact j m ->
  on_boundary j m = false -> (wn_lines j m = 0 \/ wn_lines j m = -1)%Z ->
  (if Bool.eqb (simple_has_point j m closed) true then z else 0%Z)
  = (z * b2z (wn_lines j m =? 0))%Z.
Proof.
  intros j m closed z HL HP HT HB HW.
  rewrite (simple_has_point_wn_neg j m closed HL HP HT HB HW).
  destruct HW as [E | E]; rewrite E; unfold b2z; cbn; lia.
Qed.

(* the share of the pieces of j selected "inside" the region of a clockwise j2 *)
Lemma share_sum_neg : forall j j2 closed p,
  all_lines j = true -> all_lines j2 = true -> jordan_pos j2 = false -> simple0m1 j2 ->
  (forall s, In s j -> tol_exact j2 (evalr s Qhalf)) ->
  (forall s, In s j -> open_off j2 (first_pt s) (last_pt s)) ->
  Zsum (map (fun s => if Bool.eqb (simple_has_point j2 (evalr s Qhalf) closed) true
                      then crs p s else 0%Z) j)
  = Zsum (map (fun s => (cr (first_pt s) (last_pt s) p
                         * b2z (wn_lines j2 (emid s) =? 0))%Z) j).
Proof.
  intros j j2 closed p HL HL2 HP H01 HT HO. apply Zsum_map_ext. intros s Hs.
  destruct (all_lines_In j s HL Hs) as (a & b & ->).
  pose proof (open_off_mid j2 a b (HO _ Hs)) as HB.
  rewrite (inter_weight_neg j2 _ closed (crs p [a; b]) HL2 HP (HT _ Hs) HB (H01 _ HB)).
  rewrite wn_lines_mid. reflexivity.
Qed.

(* ================================================================== *)
(* D3. the selection sum on (counter-clockwise, clockwise)              *)
(* ================================================================== *)
Theorem recombine_selected_sum_diff : forall ja nb closed a' b' new p,
  all_lines ja = true -> all_lines nb = true ->
  jordan_pos ja = true -> jordan_pos nb = false ->
  simple01 ja -> simple0m1 nb ->
  recombine (SC (CS ja)) (SC (CS nb)) closed true = Ok (a', b', new) ->
  mids_tol_exact a' b' -> mids_tol_exact b' a' ->
  pieces_open_off a' b' -> pieces_open_off b' a' ->
  faithful_follow (jordans a' ++ jordans b') (midpoints_shapes a' b' closed true) ->
  exists ja' nb', a' = SC (CS ja') /\ b' = SC (CS nb') /\
    same_curve ja ja' /\ same_curve nb nb' /\
    Zsum (map (fun j => wn_lines j p) new)
    = (Zsum (map (fun s => (cr (first_pt s) (last_pt s) p
                 * b2z (wn_lines nb' (emid s) =? 0))%Z) ja')
       + Zsum (map (fun t => (cr (first_pt t) (last_pt t) p
                 * b2z (wn_lines ja' (emid t) =? 1))%Z) nb'))%Z.
Proof.
  intros ja nb closed a' b' new p La Lb Pa Pb Sa Sb H MTa MTb OOa OOb FF.
  destruct (recombine_simple_inv _ _ _ _ _ _ _ H) as (ja' & nb' & E2 & -> & -> & Ef).
  destruct (split_two_same_curve _ _ _ _ La Lb E2) as [Ca Cb].
  exists ja', nb'. split; [reflexivity|]. split; [reflexivity|].
  split; [exact Ca|]. split; [exact Cb|].
  pose proof Ca as (La' & _). pose proof Cb as (Lb' & _).
  cbn [jordans comp_jordans] in FF.
  assert (Hl : forallb all_lines ([ja'] ++ [nb']) = true)
    by (cbn [app forallb]; rewrite La', Lb'; reflexivity).
  rewrite (follow_path_wn_sum ([ja'] ++ [nb']) _ new p Hl
             (midpoints_shapes_valid (SC (CS ja')) (SC (CS nb')) closed true) FF Ef).
  pose proof (selection_Zsum (SC (CS ja')) (SC (CS nb')) closed true (crs p)) as SZ.
  cbn [jordans comp_jordans] in SZ. rewrite SZ. clear SZ.
  cbn [map Zsum contains_point comp_has_point]. rewrite !Z.add_0_r.
  f_equal.
  - apply share_sum_neg; try assumption.
    + rewrite (same_curve_pos _ _ Cb). exact Pb.
    + exact (simple0m1_same _ _ Cb Sb).
    + intros s Hs. apply (MTa ja' s nb'); [left; reflexivity|exact Hs|left; reflexivity].
    + intros s Hs. apply (OOa ja' s nb'); [left; reflexivity|exact Hs|left; reflexivity].
  - apply (share_sum nb' ja' closed true p); try assumption.
    + rewrite (same_curve_pos _ _ Ca). exact Pa.
    + exact (simple01_same _ _ Ca Sa).
    + intros s Hs. apply (MTb nb' s ja'); [left; reflexivity|exact Hs|left; reflexivity].
    + intros s Hs. apply (OOb nb' s ja'); [left; reflexivity|exact Hs|left; reflexivity].
Qed.

(* ================================================================== *)
(* D4. sums and hypotheses over a reversed chain                        *)
(* ================================================================== *)
Lemma In_reverse : forall j t, In t (Affine.reverse j) -> exists t0, In t0 j /\ t = rev t0.
Proof.
  intros j t H. unfold Affine.reverse in H. apply in_rev in H. apply in_map_iff in H.
  destruct H as (t0 & <- & H0). exists t0. split; [exact H0|reflexivity].
Qed.

Lemma Zsum_reverse : forall (f : seg -> Z) j, (forall s, In s j -> f (rev s) = (- f s)%Z) ->
  Zsum (map f (Affine.reverse j)) = (- Zsum (map f j))%Z.
Proof.
  intros f j H. unfold Affine.reverse. rewrite map_rev, Zsum_rev, map_map.
  induction j as [|s j IH]; [reflexivity|]. cbn [map Zsum].
  rewrite (H s) by (left; reflexivity). rewrite IH; [lia|].
  intros s' Hs'. apply H. right. exact Hs'.
Qed.

Lemma emid_rev : forall s, peq (emid (rev s)) (emid s).
Proof.
  intro s. unfold emid. rewrite Affine.first_pt_rev, Affine.last_pt_rev.
  unfold lerp_pt, peq; cbn [px py fst snd]. split; ring.
Qed.

(* a weighted crossing sum over the reversed chain *)
Lemma cr_sum_reverse : forall (w : Z -> Z) j j' p,
  Zsum (map (fun t => (cr (first_pt t) (last_pt t) p * w (wn_lines j' (emid t)))%Z)
            (Affine.reverse j))
  = (- Zsum (map (fun t => (cr (first_pt t) (last_pt t) p * w (wn_lines j' (emid t)))%Z) j))%Z.
Proof.
  intros w j j' p. apply Zsum_reverse. intros s _.
  rewrite Affine.first_pt_rev, Affine.last_pt_rev.
  rewrite (cr_antisym (first_pt s) (last_pt s) p).
  rewrite (wn_lines_peq j' _ _ (emid_rev s)). lia.
Qed.

Lemma open_off_swap : forall j a b, open_off j a b -> open_off j b a.
Proof.
  intros j a b H t T0 T1.
  rewrite (on_boundary_peq j _ (lerp_pt a b (1 - t))).
  - apply H; lra.
  - unfold lerp_pt, peq; cbn [px py fst snd]. split; ring.
Qed.

Lemma no_vertex_on_reverse : forall j x, no_vertex_on j x -> no_vertex_on (Affine.reverse j) x.
Proof.
  intros j x H t Ht. destruct (In_reverse j t Ht) as (t0 & H0 & ->).
  rewrite Affine.first_pt_rev, Affine.last_pt_rev. destruct (H t0 H0). split; assumption.
Qed.

(* local form of RaySum.hit_to_mid *)
Lemma hit_to_mid' : forall (w : Z -> Z) j j' p, closed_chain j' = true ->
  no_vertex_on j (px p) ->
  (forall s, In s j -> open_off j' (first_pt s) (last_pt s)) ->
  Zsum (map (fun s => (cr (first_pt s) (last_pt s) p * w (wn_lines j' (emid s)))%Z) j)
  = Zsum (map (fun s => (cr (first_pt s) (last_pt s) p
                         * w (wn_lines j' (hit (px p) s)))%Z) j).
Proof.
  intros w j j' p C NV O. apply Zsum_map_ext. intros s Hs.
  destruct p as [x y]. cbn [px fst] in *. rewrite cr_height.
  destruct (spans (first_pt s) (last_pt s) x) eqn:S; [|reflexivity].
  unfold hit, emid.
  rewrite (wn_hit_mid j' _ _ x C (proj1 (NV s Hs)) (proj2 (NV s Hs)) S (O s Hs)). reflexivity.
Qed.

(* ================================================================== *)
(* D5. the ray sum of the difference, midpoint selection                *)
(* ================================================================== *)
(* two counter-clockwise chains: pieces of dA whose midpoint is outside B,
   minus the pieces of dB whose midpoint is inside A *)
Theorem ray_sum_mid_diff : forall ja jb p,
  closed_chain ja = true -> closed_chain jb = true ->
  no_vertex_on ja (px p) -> no_vertex_on jb (px p) -> no_common ja jb (px p) ->
  wn01_off ja (px p) -> wn01_off jb (px p) ->
  (forall s, In s ja -> open_off jb (first_pt s) (last_pt s)) ->
  (forall t, In t jb -> open_off ja (first_pt t) (last_pt t)) ->
  (Zsum (map (fun s => (cr (first_pt s) (last_pt s) p
                        * b2z (wn_lines jb (emid s) =? 0))%Z) ja)
   + Zsum (map (fun t => (cr (first_pt t) (last_pt t) p
                          * - b2z (wn_lines ja (emid t) =? 1))%Z) jb))%Z
  = (if (wn_lines ja p =? 1)%Z && (wn_lines jb p =? 0)%Z then 1 else 0)%Z.
Proof.
  intros ja jb p Ca Cb NVa NVb NC HA HB OA OB.
  rewrite (hit_to_mid' (fun w => b2z (w =? 0)%Z) ja jb p Cb NVa OA).
  rewrite (hit_to_mid' (fun w => (- b2z (w =? 1))%Z) jb ja p Ca NVb OB).
  apply ray_sum_lines_diff; assumption.
Qed.

(* the same with the second chain travelled clockwise (nb = the reversed dB):
   this is the selection sum the recombination on (ja, nb) produces *)
Theorem ray_sum_mid_diff_rev : forall ja nb p,
  all_lines nb = true ->
  closed_chain ja = true -> closed_chain nb = true ->
  no_vertex_on ja (px p) -> no_vertex_on nb (px p) -> no_common ja nb (px p) ->
  wn01_off ja (px p) ->
  (forall y, on_boundary nb (px p, y) = false ->
     (wn_lines nb (px p, y) = 0 \/ wn_lines nb (px p, y) = -1)%Z) ->
  (forall s, In s ja -> open_off nb (first_pt s) (last_pt s)) ->
  (forall t, In t nb -> open_off ja (first_pt t) (last_pt t)) ->
  (Zsum (map (fun s => (cr (first_pt s) (last_pt s) p
                        * b2z (wn_lines nb (emid s) =? 0))%Z) ja)
   + Zsum (map (fun t => (cr (first_pt t) (last_pt t) p
                          * b2z (wn_lines ja (emid t) =? 1))%Z) nb))%Z
  = (if (wn_lines ja p =? 1)%Z && (wn_lines nb p =? 0)%Z then 1 else 0)%Z.
Proof.
  intros ja nb p Lb Ca Cb NVa NVb NC HA HB OA OB.
  set (R := Affine.reverse nb).
  assert (WR : forall q, wn_lines R q = (- wn_lines nb q)%Z)
    by (intro q; apply Affine.wn_lines_reverse).
  assert (BR : forall q, on_boundary R q = on_boundary nb q)
    by (intro q; apply Affine.on_boundary_reverse).
  assert (Z0 : forall z, ((- z =? 0) = (z =? 0))%Z).
  { intro z. destruct (Z.eqb_spec z 0) as [->|N]; [reflexivity|]. apply Z.eqb_neq. lia. }
  assert (CR : closed_chain R = true).
  { unfold R. rewrite <- (invert_reverse nb Lb). apply invert_closed. exact Cb. }
  pose proof (ray_sum_mid_diff ja R p Ca CR NVa (no_vertex_on_reverse nb (px p) NVb)) as T.
  rewrite WR, Z0 in T.
  assert (E1 : Zsum (map (fun s => (cr (first_pt s) (last_pt s) p
                        * b2z (wn_lines R (emid s) =? 0))%Z) ja)
             = Zsum (map (fun s => (cr (first_pt s) (last_pt s) p
                        * b2z (wn_lines nb (emid s) =? 0))%Z) ja)).
  { apply Zsum_map_ext. intros s _. rewrite WR, Z0. reflexivity. }
  assert (E2 : Zsum (map (fun t => (cr (first_pt t) (last_pt t) p
                          * - b2z (wn_lines ja (emid t) =? 1))%Z) R)
             = Zsum (map (fun t => (cr (first_pt t) (last_pt t) p
                          * b2z (wn_lines ja (emid t) =? 1))%Z) nb)).
  { unfold R. rewrite (cr_sum_reverse (fun w => (- b2z (w =? 1))%Z) nb ja p).
    clear. induction nb as [|t l IH]; [reflexivity|]. cbn [map Zsum]. rewrite <- IH. lia. }
  rewrite E1, E2 in T. apply T; clear T E1 E2.
  - intros y Ha Hb. rewrite BR in Hb. exact (NC y Ha Hb).
  - exact HA.
  - intros y Hy. rewrite BR in Hy. rewrite WR. destruct (HB y Hy) as [E|E]; rewrite E; [left|right]; reflexivity.
  - intros s Hs. apply (open_off_same nb R _ _ BR). exact (OA s Hs).
  - intros t Ht. destruct (In_reverse nb t Ht) as (t0 & H0 & ->).
    rewrite Affine.first_pt_rev, Affine.last_pt_rev. apply open_off_swap. exact (OB t0 H0).
Qed.

(* ================================================================== *)
(* CORE: soundness with the open_off property as a hypothesis           *)
(* ================================================================== *)
Section DiffCore.
  Variables (ja jb : jordan) (a' b' : shape) (new : list jordan) (p : point).
  Hypothesis La : all_lines ja = true.
  Hypothesis Lb : all_lines jb = true.
  Hypothesis Ca : closed_chain ja = true.
  Hypothesis Cb : closed_chain jb = true.
  Hypothesis Pa : jordan_pos ja = true.
  Hypothesis Pb : jordan_pos jb = true.
  Hypothesis Sa : simple01 ja.
  Hypothesis Sb : simple01 jb.
  Hypothesis NV : line_avoids_vertices a' b' (px p).
  Hypothesis NC : no_common ja jb (px p).
  Hypothesis MTa : mids_tol_exact a' b'.
  Hypothesis MTb : mids_tol_exact b' a'.
  Hypothesis OOa : pieces_open_off a' b'.
  Hypothesis OOb : pieces_open_off b' a'.

  Theorem recombine_diff_core :
    recombine (SC (CS ja)) (SC (CS (invert jb))) false true = Ok (a', b', new) ->
    faithful_follow (jordans a' ++ jordans b') (midpoints_shapes a' b' false true) ->
    Zsum (map (fun j => wn_lines j p) new)
    = (if (wn_lines ja p =? 1)%Z && (wn_lines jb p =? 0)%Z then 1 else 0)%Z.
  Proof.
    intros H FF.
    pose proof (invert_all_lines jb Lb) as Ln.
    pose proof (jordan_pos_invert_false jb Lb Pb) as Pn.
    pose proof (simple0m1_invert jb Lb Sb) as Sn.
    destruct (recombine_selected_sum_diff ja (invert jb) false a' b' new p La Ln Pa Pn Sa Sn H
                MTa MTb OOa OOb FF) as (ja' & nb' & Ea & Eb & Sca & Scb & ->).
    subst a' b'.
    pose proof Sca as (_ & Cca & Wa & Ba & _). pose proof Scb as (Ln' & Ccb & Wb & Bb & _).
    rewrite (ray_sum_mid_diff_rev ja' nb' p Ln').
    - rewrite Wa, Wb, (wn_lines_invert jb p Lb).
      destruct (wn_lines jb p =? 0)%Z eqn:E0.
      + apply Z.eqb_eq in E0. rewrite E0. reflexivity.
      + apply Z.eqb_neq in E0. replace (- wn_lines jb p =? 0)%Z with false; [reflexivity|].
        symmetry. apply Z.eqb_neq. lia.
    - exact (Cca Ca).
    - apply Ccb. apply invert_closed. exact Cb.
    - apply NV. left. reflexivity.
    - apply NV. right. left. reflexivity.
    - intros y Ha Hb. rewrite Ba in Ha. rewrite Bb, (CellsAll.on_boundary_invert jb _ Lb) in Hb.
      exact (NC y Ha Hb).
    - intros y Hy. exact (simple01_same _ _ Sca Sa _ Hy).
    - intros y Hy. exact (simple0m1_same _ _ Scb Sn _ Hy).
    - intros s Hs. apply (OOa ja' s nb'); [left; reflexivity|exact Hs|left; reflexivity].
    - intros s Hs. apply (OOb nb' s ja'); [left; reflexivity|exact Hs|left; reflexivity].
  Qed.
End DiffCore.

(* ================================================================== *)
(* FINAL: one-step soundness of the difference                          *)
(* ================================================================== *)
(* the complement operand after the mutual splitting (A - B only returns the
   operand A after the splitting; the other one is a fresh object) *)
Definition sub_operand_b (ja jb : jordan) : shape :=
  match op_and (SC (CS ja)) (SC (CS (invert jb))) with
  | Ok (_, b', _) => b'
  | _ => SEmpty
  end.

(* what A - B computes on two simple shapes *)
Lemma op_sub_simple_inv : forall ja jb a' s,
  op_sub (SC (CS ja)) (SC (CS jb)) = Ok (a', s) ->
  op_and (SC (CS ja)) (SC (CS (invert jb))) = Ok (a', sub_operand_b ja jb, s).
Proof.
  intros ja jb a' s H. unfold sub_operand_b. cbn [op_sub op_not bind] in H.
  destruct (op_and (SC (CS ja)) (SC (CS (invert jb)))) as [[[xa xb] r]| |];
    cbn [bind] in H; try discriminate.
  inversion H; subst. reflexivity.
Qed.

Section DiffFinal.
  Variables (ja jb : jordan) (a' b' : shape) (p : point).
  (* the operands: closed counter-clockwise polygons, winding number 0/1 off the boundary *)
  Hypothesis La : all_lines ja = true.
  Hypothesis Lb : all_lines jb = true.
  Hypothesis Ca : closed_chain ja = true.
  Hypothesis Cb : closed_chain jb = true.
  Hypothesis Pa : jordan_pos ja = true.
  Hypothesis Pb : jordan_pos jb = true.
  Hypothesis Sa : simple01 ja.
  Hypothesis Sb : simple01 jb.
  (* general position and no tolerance effect, for the pair the recombination runs on *)
  Hypothesis GP : Subset.general_position ja (invert jb).
  Hypothesis TF : tolerance_free ja (invert jb).
  Hypothesis MTa : mids_tol_exact a' b'.
  Hypothesis MTb : mids_tol_exact b' a'.
  (* the point: its vertical line avoids the vertices and the common boundary points *)
  Hypothesis NV : line_avoids_vertices a' b' (px p).
  Hypothesis NC : no_common ja jb (px p).

  Theorem recombine_diff_sound : forall new,
    recombine (SC (CS ja)) (SC (CS (invert jb))) false true = Ok (a', b', new) ->
    faithful_follow (jordans a' ++ jordans b') (midpoints_shapes a' b' false true) ->
    Zsum (map (fun j => wn_lines j p) new)
    = (if (wn_lines ja p =? 1)%Z && (wn_lines jb p =? 0)%Z then 1 else 0)%Z.
  Proof.
    intros new H FF.
    destruct (recombine_pieces_open_off ja (invert jb) false true a' b' new La
                (invert_all_lines jb Lb) GP TF H) as [OOa OOb].
    exact (recombine_diff_core ja jb a' b' new p La Lb Ca Cb Pa Pb Sa Sb NV NC MTa MTb OOa OOb H FF).
  Qed.

  (* A & ~B, when neither operand contains the other *)
  Theorem op_and_diff_sound : forall s,
    op_and (SC (CS ja)) (SC (CS (invert jb))) = Ok (a', b', s) ->
    contains_shape (SC (CS ja)) (SC (CS (invert jb))) = Ok false ->
    contains_shape (SC (CS (invert jb))) (SC (CS ja)) = Ok false ->
    faithful_follow (jordans a' ++ jordans b') (midpoints_shapes a' b' false true) ->
    Zsum (map (fun j => wn_lines j p) (jordans s))
    = (if (wn_lines ja p =? 1)%Z && (wn_lines jb p =? 0)%Z then 1 else 0)%Z.
  Proof.
    intros s H Hab Hba FF. unfold op_and in H. rewrite Hab in H. cbn [bind] in H.
    rewrite Hba in H. cbn [bind] in H.
    destruct (general_branch_result ja (invert jb) a' b' false true SEmpty s eq_refl H)
      as (new1 & Er & HP).
    rewrite (Zsum_map_perm _ _ _ HP).
    exact (recombine_diff_sound new1 Er FF).
  Qed.
End DiffFinal.

(* A - B itself; b' is the complement operand after the splitting *)
Theorem op_sub_diff_sound : forall ja jb a' p,
  all_lines ja = true -> all_lines jb = true ->
  closed_chain ja = true -> closed_chain jb = true ->
  jordan_pos ja = true -> jordan_pos jb = true ->
  simple01 ja -> simple01 jb ->
  Subset.general_position ja (invert jb) -> tolerance_free ja (invert jb) ->
  let b' := sub_operand_b ja jb in
  mids_tol_exact a' b' -> mids_tol_exact b' a' ->
  line_avoids_vertices a' b' (px p) -> no_common ja jb (px p) ->
  forall s, op_sub (SC (CS ja)) (SC (CS jb)) = Ok (a', s) ->
  contains_shape (SC (CS ja)) (SC (CS (invert jb))) = Ok false ->
  contains_shape (SC (CS (invert jb))) (SC (CS ja)) = Ok false ->
  faithful_follow (jordans a' ++ jordans b') (midpoints_shapes a' b' false true) ->
  Zsum (map (fun j => wn_lines j p) (jordans s))
  = (if (wn_lines ja p =? 1)%Z && (wn_lines jb p =? 0)%Z then 1 else 0)%Z.
Proof.
  intros ja jb a' p La Lb Ca Cb Pa Pb Sa Sb GP TF b' MTa MTb NV NC s H Hab Hba FF.
  apply (op_and_diff_sound ja jb a' b' p La Lb Ca Cb Pa Pb Sa Sb GP TF MTa MTb NV NC s);
    try assumption.
  exact (op_sub_simple_inv ja jb a' s H).
Qed.

(* in terms of [region], when the result is a single counter-clockwise curve *)
Corollary op_sub_diff_region : forall ja jb a' p,
  all_lines ja = true -> all_lines jb = true ->
  closed_chain ja = true -> closed_chain jb = true ->
  jordan_pos ja = true -> jordan_pos jb = true ->
  simple01 ja -> simple01 jb ->
  Subset.general_position ja (invert jb) -> tolerance_free ja (invert jb) ->
  let b' := sub_operand_b ja jb in
  mids_tol_exact a' b' -> mids_tol_exact b' a' ->
  line_avoids_vertices a' b' (px p) -> no_common ja jb (px p) ->
  forall s j, op_sub (SC (CS ja)) (SC (CS jb)) = Ok (a', s) ->
  contains_shape (SC (CS ja)) (SC (CS (invert jb))) = Ok false ->
  contains_shape (SC (CS (invert jb))) (SC (CS ja)) = Ok false ->
  faithful_follow (jordans a' ++ jordans b') (midpoints_shapes a' b' false true) ->
  s = SC (CS j) -> on_boundary j p = false -> Qlt_bool 0 (shoelace2 j) = true ->
  region s p = if (wn_lines ja p =? 1)%Z && (wn_lines jb p =? 0)%Z then RIn else ROut.
Proof.
  intros ja jb a' p La Lb Ca Cb Pa Pb Sa Sb GP TF b' MTa MTb NV NC s j H Hab Hba FF Es HB HS.
  pose proof (op_sub_diff_sound ja jb a' p La Lb Ca Cb Pa Pb Sa Sb GP TF MTa MTb NV NC s
                H Hab Hba FF) as W.
  subst s. cbn [jordans comp_jordans map Zsum] in W. rewrite Z.add_0_r in W.
  cbn [region region_comp]. unfold region_simple. rewrite HB, HS, W.
  destruct ((wn_lines ja p =? 1)%Z && (wn_lines jb p =? 0)%Z); reflexivity.
Qed.

(* ================================================================== *)
(* all the decidable hypotheses, checked by evaluation                  *)
(* ================================================================== *)
Definition diff_hyps_b (ja jb : jordan) (p : point) : bool :=
  all_lines ja && all_lines jb && closed_chain ja && closed_chain jb &&
  jordan_pos ja && jordan_pos jb && Subset.gp_b ja (invert jb) && tolerance_free_b ja (invert jb) &&
  no_vertex_on_b ja (px p) && no_vertex_on_b jb (px p) && no_common_b ja jb (px p) &&
  match recombine (SC (CS ja)) (SC (CS (invert jb))) false true with
  | Ok (a', b', _) =>
      mids_tol_exact_b a' b' && mids_tol_exact_b b' a' && line_avoids_b a' b' (px p) &&
      faithful_follow_b (jordans a' ++ jordans b') (midpoints_shapes a' b' false true)
  | _ => true
  end.

Theorem recombine_diff_checked : forall ja jb a' b' new p,
  simple01 ja -> simple01 jb -> diff_hyps_b ja jb p = true ->
  recombine (SC (CS ja)) (SC (CS (invert jb))) false true = Ok (a', b', new) ->
  Zsum (map (fun j => wn_lines j p) new)
  = (if (wn_lines ja p =? 1)%Z && (wn_lines jb p =? 0)%Z then 1 else 0)%Z.
Proof.
  intros ja jb a' b' new p Sa Sb H Er. unfold diff_hyps_b in H. rewrite Er in H.
  apply andb_true_iff in H. destruct H as [H R]. split_andb H. split_andb R.
  apply (recombine_diff_sound ja jb a' b' p); try assumption.
  - apply Subset.gp_b_ok; assumption.
  - apply tolerance_free_b_ok; assumption.
  - apply mids_tol_exact_b_ok; assumption.
  - apply mids_tol_exact_b_ok; assumption.
  - apply line_avoids_b_ok; assumption.
  - apply no_common_b_ok; [apply no_vertex_on_b_ok|apply no_vertex_on_b_ok|]; assumption.
  - apply faithful_follow_b_sound; assumption.
Qed.

(* ================================================================== *)
(* non-vacuity: the two overlapping squares of UnionSound.v, one point  *)
(* ================================================================== *)
(* every decidable hypothesis holds for exja - exjb at p_A (in A only), and the
   theorem gives: the curves of A - B wind once around p_A *)
Example ex_diff_hyps :
  diff_hyps_b exja exjb p_A &&
  (match recombine exA (SC (CS (invert exjb))) false true with Ok _ => true | _ => false end)
  = true.
Proof. vm_compute. reflexivity. Qed.

Example ex_diff_sound :
  exists a' b' new, recombine exA (SC (CS (invert exjb))) false true = Ok (a', b', new) /\
    Zsum (map (fun j => wn_lines j p_A) new) = 1%Z.
Proof.
  pose proof ex_diff_hyps as K. apply andb_true_iff in K. destruct K as [K1 K2].
  destruct (recombine exA (SC (CS (invert exjb))) false true) as [[[a' b'] new]| |] eqn:E;
    try discriminate K2.
  exists a', b', new. split; [reflexivity|].
  rewrite (recombine_diff_checked exja exjb a' b' new p_A exja_simple01 exjb_simple01 K1 E).
  reflexivity.
Qed.

(* ================================================================== *)
(* STATUS                                                              *)
(* ================================================================== *)
(* proved here: the reversal facts (wn_lines_invert, jordan_pos_invert_false,
   simple0m1_invert), the clockwise membership test (simple_has_point_wn_neg,
   simple_has_point_invert), the selection sum of the recombination on a
   counter-clockwise and a clockwise curve (recombine_selected_sum_diff), the
   ray sum of the difference with the midpoint selection (ray_sum_mid_diff and,
   for the clockwise second chain, ray_sum_mid_diff_rev) and the assembled
   theorems recombine_diff_sound, op_and_diff_sound, op_sub_diff_sound,
   op_sub_diff_region, recombine_diff_checked.
   what remains a HYPOTHESIS of the final theorems (same list as in
   UnionSound.v, for the pair (ja, invert jb) the recombination runs on):
   - simple01 ja, simple01 jb
   - all_lines, closed_chain, jordan_pos of ja, jb (decidable)
   - Subset.general_position ja (invert jb)   (check Subset.gp_b)
   - tolerance_free ja (invert jb)            (check tolerance_free_b)
   - mids_tol_exact a' b' / b' a'             (check mids_tol_exact_b)
   - faithful_follow                          (check Measure.faithful_follow_b)
   - line_avoids_vertices a' b', no_common ja jb   (the choice of p)
   - the two containment tests of the inner A & ~B answer Ok false *)

Print Assumptions simple_has_point_wn_neg.
Print Assumptions simple_has_point_invert.
Print Assumptions recombine_selected_sum_diff.
Print Assumptions ray_sum_mid_diff.
Print Assumptions ray_sum_mid_diff_rev.
Print Assumptions recombine_diff_core.
Print Assumptions recombine_diff_sound.
Print Assumptions op_and_diff_sound.
Print Assumptions op_sub_simple_inv.
Print Assumptions op_sub_diff_sound.
Print Assumptions op_sub_diff_region.
Print Assumptions recombine_diff_checked.
Print Assumptions ex_diff_sound.
