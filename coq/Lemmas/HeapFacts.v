(* HeapFacts.v -- C08 / C09 / C10: the object model MH.
     H1  allocation: fresh locations, old curves keep their geometry, the new curve denotes
         the re-pointed value, the identity invariant holds for it
     H2  frame lemmas for point updates
     H3  every distinct point object is transformed exactly once
     H4  in-place move / scale / rotate / invert of a shape: geometry of its curves, frame
         for every separated curve, invariant preserved
     H5  cache coherence is preserved by every operation; the cached orientation is the live
         one; refutation witness for the unrepaired scale
     H6  histories: invariant of every reachable state, C08 frame theorems           *)
From Coq Require Import List Arith Lia Bool QArith Permutation.
From SV Require Import Model.Heap Spec.Spec.
From SV Require Import Lemmas.Fuel Lemmas.Logic Lemmas.Construct Lemmas.Equivariance.
Import ListNotations.
Open Scope nat_scope.

(* ------------------------------------------------------------------ *)
(* 0. generic list facts                                               *)
(* ------------------------------------------------------------------ *)
Lemma existsb_eqb_In : forall x l, existsb (Nat.eqb x) l = true <-> In x l.
Proof.
  intros x l. rewrite existsb_exists. split.
  - intros (y & Hy & E). apply Nat.eqb_eq in E. subst. exact Hy.
  - intros H. exists x. split; [exact H | apply Nat.eqb_refl].
Qed.
Lemma existsb_eqb_notIn : forall x l, existsb (Nat.eqb x) l = false <-> ~ In x l.
Proof.
  intros x l. rewrite <- existsb_eqb_In. destruct (existsb (Nat.eqb x) l); split; congruence.
Qed.

Definition nd_step (acc : list nat) (x : nat) : list nat :=
  if existsb (Nat.eqb x) acc then acc else x :: acc.
Lemma nodup_nat_unfold : forall l, nodup_nat l = rev (fold_left nd_step l []).
Proof. reflexivity. Qed.

Lemma nd_fold_spec : forall l acc, NoDup acc ->
  NoDup (fold_left nd_step l acc) /\
  (forall x, In x (fold_left nd_step l acc) <-> In x acc \/ In x l).
Proof.
  induction l as [|a l IH]; intros acc Hacc; cbn [fold_left].
  - split; [exact Hacc | intros x; cbn [In]; tauto].
  - unfold nd_step at 2 4. destruct (existsb (Nat.eqb a) acc) eqn:E.
    + apply existsb_eqb_In in E. destruct (IH acc Hacc) as [H1 H2]. split; [exact H1|].
      intros x. rewrite H2. cbn [In]. split; [tauto|]. intros [H|[<-|H]]; auto.
    + apply existsb_eqb_notIn in E.
      destruct (IH (a :: acc)) as [H1 H2]; [constructor; assumption|]. split; [exact H1|].
      intros x. rewrite H2. cbn [In]. tauto.
Qed.

(* H3 (list part): nodup_nat has no duplicates and the same elements *)
Lemma nodup_nat_NoDup : forall l, NoDup (nodup_nat l).
Proof.
  intros l. rewrite nodup_nat_unfold. apply NoDup_rev. apply nd_fold_spec. constructor.
Qed.
Lemma nodup_nat_In : forall l x, In x (nodup_nat l) <-> In x l.
Proof.
  intros l x. rewrite nodup_nat_unfold, <- in_rev.
  destruct (nd_fold_spec l [] (NoDup_nil _)) as [_ H]. rewrite H. cbn [In]. tauto.
Qed.

Lemma nd_fold_length_le : forall l acc, length (fold_left nd_step l acc) <= length acc + length l.
Proof.
  induction l as [|a l IH]; intros acc; cbn [fold_left length]; [lia|].
  unfold nd_step at 2. destruct (existsb (Nat.eqb a) acc).
  - specialize (IH acc). lia.
  - specialize (IH (a :: acc)). cbn [length] in IH. lia.
Qed.
Lemma nd_fold_length_eq : forall l acc,
  length (fold_left nd_step l acc) = length acc + length l ->
  NoDup l /\ (forall x, In x l -> ~ In x acc).
Proof.
  induction l as [|a l IH]; intros acc H; cbn [fold_left length] in H.
  - split; [constructor | intros x []].
  - unfold nd_step at 2 in H. destruct (existsb (Nat.eqb a) acc) eqn:E.
    + pose proof (nd_fold_length_le l acc). lia.
    + apply existsb_eqb_notIn in E.
      destruct (IH (a :: acc)) as [H1 H2]; [cbn [length]; lia|]. split.
      * constructor; [|exact H1]. intros Hin. apply (H2 a Hin). left; reflexivity.
      * intros x [<-|Hx]; [exact E|]. intros Hin. apply (H2 x Hx). right; exact Hin.
Qed.
Lemma nodup_nat_length_NoDup : forall l, length (nodup_nat l) = length l -> NoDup l.
Proof.
  intros l H. rewrite nodup_nat_unfold, rev_length in H.
  apply (nd_fold_length_eq l []). cbn [length]. exact H.
Qed.
Lemma nd_fold_NoDup_id : forall l acc, NoDup l -> (forall x, In x l -> ~ In x acc) ->
  fold_left nd_step l acc = rev l ++ acc.
Proof.
  induction l as [|a l IH]; intros acc Hl Hd; cbn [fold_left rev]; [reflexivity|].
  inversion Hl; subst. unfold nd_step at 2.
  destruct (existsb (Nat.eqb a) acc) eqn:E.
  - apply existsb_eqb_In in E. exfalso. apply (Hd a); [left; reflexivity | exact E].
  - rewrite IH; [rewrite <- app_assoc; reflexivity | assumption |].
    intros x Hx [<-|Hin]; [contradiction|]. apply (Hd x); [right; exact Hx | exact Hin].
Qed.
Lemma nodup_nat_id : forall l, NoDup l -> nodup_nat l = l.
Proof.
  intros l H. rewrite nodup_nat_unfold, nd_fold_NoDup_id; [|exact H|intros x _ []].
  rewrite app_nil_r. apply rev_involutive.
Qed.
Lemma NoDup_nodup_nat_length : forall l, NoDup l -> length (nodup_nat l) = length l.
Proof. intros l H. rewrite nodup_nat_id by exact H. reflexivity. Qed.

(* fold_left invariants *)
Lemma fold_left_inv : forall {A B} (P : A -> Prop) (f : A -> B -> A) (l : list B) (a : A),
  P a -> (forall a b, In b l -> P a -> P (f a b)) -> P (fold_left f l a).
Proof.
  intros A B P f l. induction l as [|b l IH]; intros a Ha Hs; cbn [fold_left]; [exact Ha|].
  apply IH; [apply Hs; [left; reflexivity | exact Ha]|].
  intros a' b' Hb'. apply Hs. right; exact Hb'.
Qed.

Lemma map_map_ext_in : forall {A B} (f g : A -> B) (L : list (list A)),
  (forall x, In x (concat L) -> f x = g x) -> map (map f) L = map (map g) L.
Proof.
  intros A B f g L H. apply map_ext_in. intros s Hs. apply map_ext_in. intros x Hx.
  apply H. apply in_concat. exists s. split; assumption.
Qed.

(* ------------------------------------------------------------------ *)
(* 1. accessors; H2: frame lemmas for point updates                    *)
(* ------------------------------------------------------------------ *)
Definition segsof (h : heap) (c : nat) : list (list ploc) := hsegs (curve_at h c).
Definition cacheof (h : heap) (c : nat) : option jordan := hcache (curve_at h c).
Lemma geom_segsof : forall h c, geom h c = map (map (pval h)) (segsof h c).
Proof. reflexivity. Qed.
Lemma locs_segsof : forall h c, locs_of_curve h c = concat (segsof h c).
Proof. reflexivity. Qed.

Lemma geom_ext : forall h h' c, segsof h' c = segsof h c ->
  (forall l, In l (locs_of_curve h c) -> pval h' l = pval h l) -> geom h' c = geom h c.
Proof.
  intros h h' c Hs Hp. rewrite !geom_segsof, Hs. apply map_map_ext_in. exact Hp.
Qed.

Lemma segsof_oob : forall h c, length (hcurves h) <= c -> segsof h c = [].
Proof. intros h c H. unfold segsof, curve_at. rewrite nth_overflow by exact H. reflexivity. Qed.
Lemma cacheof_oob : forall h c, length (hcurves h) <= c -> cacheof h c = None.
Proof. intros h c H. unfold cacheof, curve_at. rewrite nth_overflow by exact H. reflexivity. Qed.

Lemma hcurves_set_pt : forall h l p, hcurves (set_pt h l p) = hcurves h.
Proof. reflexivity. Qed.
Lemma length_set_pt : forall h l p, length (hpts (set_pt h l p)) = length (hpts h).
Proof. intros. cbn [set_pt hpts]. apply set_nth_length. Qed.
Lemma pval_set_pt_same : forall h l p, l < length (hpts h) -> pval (set_pt h l p) l = p.
Proof. intros h l p H. unfold pval. cbn [set_pt hpts]. apply set_nth_nth_same. exact H. Qed.
Lemma pval_set_pt_other : forall h l p l', l <> l' -> pval (set_pt h l p) l' = pval h l'.
Proof. intros h l p l' H. unfold pval. cbn [set_pt hpts]. apply set_nth_nth_other. exact H. Qed.

(* H2: a write to a location that does not occur in curve c' leaves its geometry unchanged *)
Theorem set_pt_frame : forall h l p c', ~ In l (locs_of_curve h c') ->
  geom (set_pt h l p) c' = geom h c'.
Proof.
  intros h l p c' H. apply geom_ext; [reflexivity|].
  intros l' Hl'. apply pval_set_pt_other. intros ->. contradiction.
Qed.

Definition upd_all (f : point -> point) (ls : list ploc) (h : heap) : heap :=
  fold_left (fun h' l => set_pt h' l (f (pval h' l))) ls h.
Lemma upd_all_cons : forall f a ls h,
  upd_all f (a :: ls) h = upd_all f ls (set_pt h a (f (pval h a))).
Proof. reflexivity. Qed.
Lemma upd_all_curves : forall f ls h, hcurves (upd_all f ls h) = hcurves h.
Proof. intros f ls. induction ls as [|a ls IH]; intros h; [reflexivity|]. rewrite upd_all_cons, IH. reflexivity. Qed.
Lemma upd_all_length : forall f ls h, length (hpts (upd_all f ls h)) = length (hpts h).
Proof.
  intros f ls. induction ls as [|a ls IH]; intros h; [reflexivity|].
  rewrite upd_all_cons, IH. apply length_set_pt.
Qed.
Lemma upd_all_pval_notin : forall f ls h l, ~ In l ls -> pval (upd_all f ls h) l = pval h l.
Proof.
  intros f ls. induction ls as [|a ls IH]; intros h l H; [reflexivity|].
  rewrite upd_all_cons, IH by (intros Hin; apply H; right; exact Hin).
  apply pval_set_pt_other. intros ->. apply H. left; reflexivity.
Qed.
(* H3 (heap part): folding set_pt over a duplicate-free list updates each location once *)
Lemma upd_all_pval_in : forall f ls h l, NoDup ls -> In l ls -> l < length (hpts h) ->
  pval (upd_all f ls h) l = f (pval h l).
Proof.
  intros f ls. induction ls as [|a ls IH]; intros h l Hnd Hin Hlt; [destruct Hin|].
  inversion Hnd as [|? ? Hna Hnd']; subst. rewrite upd_all_cons.
  destruct (Nat.eq_dec a l) as [->|Hne].
  - rewrite upd_all_pval_notin by exact Hna. apply pval_set_pt_same. exact Hlt.
  - destruct Hin as [E|Hin]; [contradiction|].
    rewrite IH; [|exact Hnd'|exact Hin|rewrite length_set_pt; exact Hlt].
    f_equal. apply pval_set_pt_other. exact Hne.
Qed.

Lemma map_curve_pts_unfold : forall f h c,
  map_curve_pts f h c = upd_all f (nodup_nat (locs_of_curve h c)) h.
Proof. reflexivity. Qed.
Lemma map_curve_pts_curves : forall f h c, hcurves (map_curve_pts f h c) = hcurves h.
Proof. intros. rewrite map_curve_pts_unfold. apply upd_all_curves. Qed.
Lemma map_curve_pts_length : forall f h c, length (hpts (map_curve_pts f h c)) = length (hpts h).
Proof. intros. rewrite map_curve_pts_unfold. apply upd_all_length. Qed.
Lemma map_curve_pts_curve_at : forall f h c c', curve_at (map_curve_pts f h c) c' = curve_at h c'.
Proof. intros. unfold curve_at. rewrite map_curve_pts_curves. reflexivity. Qed.
Lemma map_curve_pts_segsof : forall f h c c', segsof (map_curve_pts f h c) c' = segsof h c'.
Proof. intros. unfold segsof. rewrite map_curve_pts_curve_at. reflexivity. Qed.
Lemma map_curve_pts_cacheof : forall f h c c', cacheof (map_curve_pts f h c) c' = cacheof h c'.
Proof. intros. unfold cacheof. rewrite map_curve_pts_curve_at. reflexivity. Qed.
Lemma map_curve_pts_locs : forall f h c c',
  locs_of_curve (map_curve_pts f h c) c' = locs_of_curve h c'.
Proof. intros. rewrite !locs_segsof, map_curve_pts_segsof. reflexivity. Qed.
Lemma map_curve_pts_pval_in : forall f h c l, In l (locs_of_curve h c) -> l < length (hpts h) ->
  pval (map_curve_pts f h c) l = f (pval h l).
Proof.
  intros f h c l Hin Hlt. rewrite map_curve_pts_unfold.
  apply upd_all_pval_in; [apply nodup_nat_NoDup | apply nodup_nat_In; exact Hin | exact Hlt].
Qed.
Lemma map_curve_pts_pval_notin : forall f h c l, ~ In l (locs_of_curve h c) ->
  pval (map_curve_pts f h c) l = pval h l.
Proof.
  intros f h c l H. rewrite map_curve_pts_unfold. apply upd_all_pval_notin.
  rewrite nodup_nat_In. exact H.
Qed.

Definition locs_lt (h : heap) (c : nat) : Prop :=
  forall l, In l (locs_of_curve h c) -> l < length (hpts h).
Definition curves_disjoint (h : heap) (c c' : nat) : Prop :=
  forall l, In l (locs_of_curve h c) -> ~ In l (locs_of_curve h c').

(* H3 / C09: each distinct point object of the curve is transformed exactly once *)
Theorem map_curve_pts_geom_self : forall f h c, locs_lt h c ->
  geom (map_curve_pts f h c) c = map (map f) (geom h c).
Proof.
  intros f h c Hlt. rewrite !geom_segsof, map_curve_pts_segsof, map_map.
  rewrite (map_ext (fun s => map f (map (pval h) s)) (map (fun l => f (pval h l))))
    by (intros s; apply map_map).
  apply map_map_ext_in. intros l Hl. apply map_curve_pts_pval_in; [exact Hl | apply Hlt; exact Hl].
Qed.
(* H2 / C08: ... and every curve over other point objects is left exactly as it was *)
Theorem map_curve_pts_geom_other : forall f h c c', curves_disjoint h c c' ->
  geom (map_curve_pts f h c) c' = geom h c'.
Proof.
  intros f h c c' Hd. apply geom_ext; [apply map_curve_pts_segsof|].
  intros l Hl. apply map_curve_pts_pval_notin. intros Hin. exact (Hd l Hin Hl).
Qed.

(* ------------------------------------------------------------------ *)
(* 2. the identity invariant                                           *)
(* ------------------------------------------------------------------ *)
(* a chain of location lists leading from object a to object b: consecutive segments share
   their junction object *)
Fixpoint lpath (a b : ploc) (L : list (list ploc)) : Prop :=
  match L with
  | [] => a = b
  | s :: t => hd 0 s = a /\ lpath (last s 0) b t
  end.
Definition closedL (L : list (list ploc)) : Prop :=
  match L with [] => True | s :: _ => lpath (hd 0 s) (hd 0 s) L end.

Lemma lpath_app : forall L1 L2 a b,
  lpath a b (L1 ++ L2) <-> exists m, lpath a m L1 /\ lpath m b L2.
Proof.
  induction L1 as [|s L1 IH]; intros L2 a b; cbn [app lpath].
  - split; [intros H; exists a; split; [reflexivity|exact H] | intros (m & -> & H); exact H].
  - rewrite IH. split.
    + intros (H1 & m & H2 & H3). exists m. tauto.
    + intros (m & (H1 & H2) & H3). split; [exact H1|]. exists m. tauto.
Qed.

Lemma junctions_ok_lpath : forall first L s,
  junctions_ok first (s :: L) = true <-> lpath (hd 0 s) first (s :: L).
Proof.
  intros first L. induction L as [|s' L IH]; intros s.
  - cbn [junctions_ok lpath]. rewrite Nat.eqb_eq. tauto.
  - change (junctions_ok first (s :: s' :: L)) with
      (Nat.eqb (last s 0) (hd 0 s') && junctions_ok first (s' :: L)).
    rewrite andb_true_iff, Nat.eqb_eq, IH. cbn [lpath]. intuition congruence.
Qed.

Record curve_ok (n : nat) (L : list (list ploc)) : Prop := mk_curve_ok {
  ck_lt : forall l, In l (concat L) -> l < n;                  (* (i)   locations allocated *)
  ck_len : forall s, In s L -> 2 <= length s;                  (* (ii)  at least two objects *)
  ck_closed : closedL L;                                       (* (iii) junction sharing *)
  ck_nodup : NoDup (concat (map (@removelast ploc) L)) }.      (* (iv)  no other sharing *)

Lemma curve_ok_nil : forall n, curve_ok n [].
Proof. intros n. split; cbn; try constructor; intros ? []. Qed.
Lemma curve_ok_mono : forall n m L, n <= m -> curve_ok n L -> curve_ok m L.
Proof.
  intros n m L H [H1 H2 H3 H4]. split; try assumption.
  intros l Hl. specialize (H1 l Hl). lia.
Qed.

(* (i)-(iv) for every curve, (v) different curves own disjoint sets of point objects *)
Definition Inv (h : heap) : Prop :=
  (forall c, curve_ok (length (hpts h)) (segsof h c)) /\
  (forall c c', c <> c' -> curves_disjoint h c c').

Lemma Inv_locs_lt : forall h c, Inv h -> locs_lt h c.
Proof. intros h c [H _] l Hl. apply (ck_lt _ _ (H c)). exact Hl. Qed.

Lemma Inv_empty : Inv hempty.
Proof.
  split.
  - intros c. unfold segsof, curve_at. cbn. destruct c; apply curve_ok_nil.
  - intros c c' _ l Hl. unfold locs_of_curve, curve_at in Hl. cbn in Hl. destruct c; destruct Hl.
Qed.

(* the structure does not depend on the point values nor on the caches *)
Lemma Inv_same : forall h h', (forall c, segsof h' c = segsof h c) ->
  length (hpts h') = length (hpts h) -> Inv h -> Inv h'.
Proof.
  intros h h' Hs Hl [H1 H2]. split.
  - intros c. rewrite Hs, Hl. apply H1.
  - intros c c' Hne l. rewrite !locs_segsof, !Hs. apply (H2 c c' Hne).
Qed.

(* one curve c0 is replaced (or created) over old objects of c0 and fresh objects *)
Lemma Inv_step : forall h h' c0, Inv h ->
  length (hpts h) <= length (hpts h') ->
  (forall c, c <> c0 -> segsof h' c = segsof h c) ->
  curve_ok (length (hpts h')) (segsof h' c0) ->
  (forall l, In l (concat (segsof h' c0)) -> In l (concat (segsof h c0)) \/ length (hpts h) <= l) ->
  Inv h'.
Proof.
  intros h h' c0 [H1 H2] Hlen Hs Hok Hnew. split.
  - intros c. destruct (Nat.eq_dec c c0) as [->|Hne]; [exact Hok|].
    rewrite Hs by exact Hne. eapply curve_ok_mono; [exact Hlen | apply H1].
  - assert (forall c l, c <> c0 -> In l (concat (segsof h c0)) \/ length (hpts h) <= l ->
                        ~ In l (concat (segsof h c))) as Hfresh.
    { intros c l Hne [Hl|Hl] Hin.
      - apply (H2 c0 c (not_eq_sym Hne) l Hl). exact Hin.
      - pose proof (ck_lt _ _ (H1 c) l Hin). lia. }
    intros c c' Hne l. rewrite !locs_segsof. intros Hl Hl'.
    destruct (Nat.eq_dec c c0) as [->|Hc]; destruct (Nat.eq_dec c' c0) as [->|Hc'].
    + congruence.
    + rewrite Hs in Hl' by exact Hc'. apply (Hfresh c' l Hc'); [apply Hnew; exact Hl | exact Hl'].
    + rewrite Hs in Hl by exact Hc. apply (Hfresh c l Hc); [apply Hnew; exact Hl' | exact Hl].
    + rewrite Hs in Hl by exact Hc. rewrite Hs in Hl' by exact Hc'.
      apply (H2 c c' Hne l); assumption.
Qed.

(* ----- the geometry of a well-formed curve is a closed chain of segments ----- *)
Lemma hd_map_ne : forall {A B} (f : A -> B) (l : list A) d d', l <> [] -> hd d' (map f l) = f (hd d l).
Proof. intros A B f [|a l] d d' H; [congruence | reflexivity]. Qed.
Lemma last_map_ne : forall {A B} (f : A -> B) (l : list A) d d', l <> [] ->
  last (map f l) d' = f (last l d).
Proof.
  intros A B f l d d'. induction l as [|a l IH]; intros H; [congruence|].
  destruct l as [|b l]; [reflexivity|].
  change (last (map f (b :: l)) d' = f (last (b :: l) d)). apply IH. discriminate.
Qed.
Lemma peqb_refl : forall p, peqb p p = true.
Proof. intros p. apply peqb_peq. split; reflexivity. Qed.
Lemma len2_ne : forall {A} (s : list A), 2 <= length s -> s <> [].
Proof. intros A [|a s] H; [cbn in H; lia | discriminate]. Qed.

Lemma lpath_chain_ok : forall (pv : ploc -> point) L s b,
  (forall x, In x (s :: L) -> x <> []) -> lpath (last s 0) b L ->
  chain_ok (pv b) (map (map pv) (s :: L)) = true.
Proof.
  intros pv L. induction L as [|s' L IH]; intros s b Hne Hp.
  - cbn [lpath] in Hp. subst b. cbn [map chain_ok]. unfold last_pt.
    rewrite (last_map_ne pv s 0) by (apply Hne; left; reflexivity). apply peqb_refl.
  - destruct Hp as [Hj Hp].
    change (chain_ok (pv b) (map pv s :: map pv s' :: map (map pv) L) = true).
    cbn [chain_ok]. apply andb_true_intro. split.
    + unfold last_pt, first_pt.
      rewrite (last_map_ne pv s 0) by (apply Hne; left; reflexivity).
      rewrite (hd_map_ne pv s' 0) by (apply Hne; right; left; reflexivity).
      unfold ploc in *. rewrite Hj. apply peqb_refl.
    + apply (IH s' b); [|exact Hp]. intros x Hx. apply Hne. right; exact Hx.
Qed.

Lemma curve_ok_closed_chain : forall n L (pv : ploc -> point), curve_ok n L ->
  closed_chain (map (map pv) L) = true.
Proof.
  intros n L pv [_ H2 H3 _]. destruct L as [|s L]; [reflexivity|].
  unfold closed_chain. cbn [map]. unfold first_pt at 1.
  rewrite (hd_map_ne pv s 0) by (apply len2_ne, H2; left; reflexivity).
  destruct H3 as [_ H3]. apply (lpath_chain_ok pv L s (hd 0 s)); [|exact H3].
  intros x Hx. apply len2_ne, H2, Hx.
Qed.
Lemma curve_ok_seg_ok : forall n L (pv : ploc -> point), curve_ok n L -> seg_ok (map (map pv) L).
Proof.
  intros n L pv [_ H2 _ _] s Hs. apply in_map_iff in Hs. destruct Hs as (x & <- & Hx).
  rewrite map_length. apply H2, Hx.
Qed.
Theorem Inv_geom_jgood : forall h c, Inv h -> jgood (geom h c).
Proof.
  intros h c [H _]. rewrite geom_segsof. split.
  - eapply curve_ok_seg_ok. apply H.
  - eapply curve_ok_closed_chain. apply H.
Qed.

(* ------------------------------------------------------------------ *)
(* 3. H1: allocation                                                   *)
(* ------------------------------------------------------------------ *)
(* alloc_segs, by recursion: `close` is the object the last segment ends on *)
Fixpoint asegs (base close : nat) (j : jordan) : list (list ploc) :=
  match j with
  | [] => []
  | s :: t =>
      match t with
      | [] => [seq base (length s - 1) ++ [close]]
      | _ => (seq base (length s - 1) ++ [base + (length s - 1)])
               :: asegs (base + (length s - 1)) close t
      end
  end.
Definition gsegs (base close : nat) (j : jordan) : list (list ploc) :=
  map2 (fun (s : seg) (sn : nat * nat) => seq (fst sn) (length s - 1) ++ [snd sn]) j
       (combine (alloc_starts base j) (tl (alloc_starts base j) ++ [close])).
Lemma gsegs_asegs : forall j base close, gsegs base close j = asegs base close j.
Proof.
  induction j as [|s t IH]; intros base close; [reflexivity|].
  destruct t as [|s' t'].
  - reflexivity.
  - specialize (IH (base + (length s - 1)) close).
    unfold gsegs in *. cbn [alloc_starts tl combine map2 app fst snd] in *.
    cbn [asegs]. f_equal. exact IH.
Qed.
Lemma alloc_segs_asegs : forall base j, alloc_segs base j = asegs base base j.
Proof. intros base j. rewrite <- gsegs_asegs. reflexivity. Qed.

Definition npts (j : jordan) : nat := length (alloc_pts j).
Lemma alloc_pts_cons : forall s t, alloc_pts (s :: t) = removelast s ++ alloc_pts t.
Proof. reflexivity. Qed.
Lemma removelast_length : forall {A} (l : list A), length (removelast l) = length l - 1.
Proof.
  intros A l. induction l as [|a l IH]; [reflexivity|].
  destruct l as [|b l]; [reflexivity|].
  change (length (a :: removelast (b :: l)) = length (a :: b :: l) - 1).
  cbn [length] in *. lia.
Qed.
Lemma npts_cons : forall s t, npts (s :: t) = (length s - 1) + npts t.
Proof. intros. unfold npts. rewrite alloc_pts_cons, app_length, removelast_length. reflexivity. Qed.

Lemma asegs_cons2 : forall base close s s' t,
  asegs base close (s :: s' :: t) =
  (seq base (length s - 1) ++ [base + (length s - 1)]) :: asegs (base + (length s - 1)) close (s' :: t).
Proof. reflexivity. Qed.

Lemma asegs_length : forall j base close, length (asegs base close j) = length j.
Proof.
  induction j as [|s t IH]; intros base close; [reflexivity|].
  destruct t as [|s' t']; [reflexivity|]. rewrite asegs_cons2. cbn [length]. rewrite IH. reflexivity.
Qed.

(* every location of the new curve is fresh (or the closing object) *)
Lemma asegs_locs : forall j base close l, seg_ok j -> In l (concat (asegs base close j)) ->
  (base <= l < base + npts j) \/ l = close.
Proof.
  induction j as [|s t IH]; intros base close l Hok Hin; [destruct Hin|].
  assert (2 <= length s) as Hs by (apply Hok; left; reflexivity).
  assert (seg_ok t) as Hok' by (intros x Hx; apply Hok; right; exact Hx).
  rewrite npts_cons. destruct t as [|s' t'].
  - cbn [asegs concat] in Hin. rewrite app_nil_r in Hin. apply in_app_or in Hin.
    destruct Hin as [Hin|[<-|[]]]; [|right; reflexivity].
    apply in_seq in Hin. left. lia.
  - rewrite asegs_cons2 in Hin. cbn [concat] in Hin. apply in_app_or in Hin.
    assert (1 <= npts (s' :: t')) as Hn.
    { rewrite npts_cons. assert (2 <= length s') by (apply Hok'; left; reflexivity). lia. }
    destruct Hin as [Hin|Hin].
    + apply in_app_or in Hin. destruct Hin as [Hin|[<-|[]]]; [apply in_seq in Hin|]; left; lia.
    + apply IH in Hin; [|exact Hok']. destruct Hin as [Hin| ->]; [left; lia | right; reflexivity].
Qed.

Lemma asegs_len : forall j base close x, seg_ok j -> In x (asegs base close j) -> 2 <= length x.
Proof.
  induction j as [|s t IH]; intros base close x Hok Hin; [destruct Hin|].
  assert (2 <= length s) as Hs by (apply Hok; left; reflexivity).
  assert (seg_ok t) as Hok' by (intros y Hy; apply Hok; right; exact Hy).
  destruct t as [|s' t'].
  - destruct Hin as [<-|[]]. rewrite app_length, seq_length. cbn [length]. lia.
  - rewrite asegs_cons2 in Hin. destruct Hin as [<-|Hin].
    + rewrite app_length, seq_length. cbn [length]. lia.
    + eapply IH; eassumption.
Qed.

Lemma hd_seq_app : forall base n (r : list nat), 1 <= n -> hd 0 (seq base n ++ r) = base.
Proof. intros base [|n] r H; [lia | reflexivity]. Qed.
Lemma last_snoc : forall {A} (l : list A) x d, last (l ++ [x]) d = x.
Proof. intros. apply last_last. Qed.

Lemma asegs_path : forall j base close, seg_ok j -> j <> [] -> lpath base close (asegs base close j).
Proof.
  induction j as [|s t IH]; intros base close Hok Hne; [congruence|].
  assert (2 <= length s) as Hs by (apply Hok; left; reflexivity).
  assert (seg_ok t) as Hok' by (intros y Hy; apply Hok; right; exact Hy).
  destruct t as [|s' t'].
  - cbn [asegs lpath]. rewrite hd_seq_app by lia. rewrite last_snoc. split; reflexivity.
  - rewrite asegs_cons2. cbn [lpath]. rewrite hd_seq_app by lia. rewrite last_snoc.
    split; [reflexivity|]. apply IH; [exact Hok' | discriminate].
Qed.

Lemma asegs_removelast : forall j base close,
  concat (map (@removelast ploc) (asegs base close j)) = seq base (npts j).
Proof.
  induction j as [|s t IH]; intros base close; [reflexivity|].
  rewrite npts_cons. destruct t as [|s' t'].
  - cbn [asegs map concat]. rewrite removelast_last, app_nil_r.
    change (npts []) with 0. rewrite Nat.add_0_r. reflexivity.
  - rewrite asegs_cons2. cbn [map concat]. rewrite removelast_last, IH, seq_app. reflexivity.
Qed.

Lemma asegs_curve_ok : forall j base, seg_ok j ->
  curve_ok (base + npts j) (asegs base base j).
Proof.
  intros j base Hok. split.
  - intros l Hl. destruct j as [|s t]; [destruct Hl|].
    apply asegs_locs in Hl; [|exact Hok]. destruct Hl as [Hl| ->]; [lia|].
    rewrite npts_cons. assert (2 <= length s) by (apply Hok; left; reflexivity). lia.
  - intros s Hs. eapply asegs_len; eassumption.
  - destruct j as [|s t]; [exact I|].
    pose proof (asegs_path (s :: t) base base Hok) as Hp.
    destruct (asegs base base (s :: t)) as [|x L] eqn:E; [exact I|].
    cbn [closedL]. specialize (Hp ltac:(discriminate)).
    pose proof Hp as Hp'. destruct Hp' as [Hh _]. unfold ploc in *. rewrite Hh. exact Hp.
  - rewrite asegs_removelast. apply seq_NoDup.
Qed.

(* ----- the value the new curve denotes ----- *)
(* every segment's last control point is replaced by the first control point of the next
   segment (cyclically): the junction is one object *)
Fixpoint rp (cp : point) (j : jordan) : jordan :=
  match j with
  | [] => []
  | s :: t =>
      match t with
      | [] => [removelast s ++ [cp]]
      | s' :: _ => (removelast s ++ [first_pt s']) :: rp cp t
      end
  end.
Definition repoint (j : jordan) : jordan := rp (first_pt (hd [] j)) j.

Lemma map_nth_seq : forall (pre m post : list point),
  map (fun l => nth l (pre ++ m ++ post) pzero) (seq (length pre) (length m)) = m.
Proof.
  intros pre m post. revert pre. induction m as [|a m IH]; intros pre; [reflexivity|].
  cbn [length seq map]. f_equal.
  - rewrite app_nth2 by lia. rewrite Nat.sub_diag. reflexivity.
  - specialize (IH (pre ++ [a])). rewrite app_length in IH. cbn [length] in IH.
    rewrite Nat.add_1_r in IH. rewrite <- app_assoc in IH. exact IH.
Qed.

Lemma asegs_geom : forall j pre post close P, seg_ok j ->
  P = pre ++ alloc_pts j ++ post ->
  map (map (fun l => nth l P pzero)) (asegs (length pre) close j) = rp (nth close P pzero) j.
Proof.
  induction j as [|s t IH]; intros pre post close P Hok HP; [reflexivity|].
  assert (2 <= length s) as Hs by (apply Hok; left; reflexivity).
  assert (seg_ok t) as Hok' by (intros y Hy; apply Hok; right; exact Hy).
  assert (map (fun l => nth l P pzero) (seq (length pre) (length s - 1)) = removelast s) as Hseq.
  { rewrite HP, alloc_pts_cons, <- app_assoc, <- removelast_length. apply map_nth_seq. }
  destruct t as [|s' t'].
  - cbn [asegs map rp]. rewrite map_app, Hseq. reflexivity.
  - rewrite asegs_cons2. cbn [map rp]. rewrite map_app, Hseq. cbn [map]. f_equal.
    + f_equal. f_equal.
      assert (2 <= length s') as Hs' by (apply Hok'; left; reflexivity).
      rewrite HP, !alloc_pts_cons, <- !app_assoc. rewrite app_nth2 by lia.
      rewrite app_nth2 by (rewrite removelast_length; lia).
      rewrite removelast_length.
      replace (length pre + (length s - 1) - length pre - (length s - 1)) with 0 by lia.
      destruct s' as [|a [|b r]]; cbn [length] in Hs'; try lia. reflexivity.
    + specialize (IH (pre ++ removelast s) post close P Hok').
      rewrite app_length, removelast_length in IH. apply IH.
      rewrite HP, alloc_pts_cons, <- !app_assoc. reflexivity.
Qed.

(* a chain whose junctions are Leibniz-equal is its own re-pointing *)
Fixpoint epath (a b : point) (j : jordan) : Prop :=
  match j with
  | [] => a = b
  | s :: t => first_pt s = a /\ epath (last_pt s) b t
  end.
Definition exact_closed (j : jordan) : Prop :=
  match j with [] => True | s :: _ => epath (first_pt s) (first_pt s) j end.
Lemma rp_exact : forall j cp a, (forall s, In s j -> s <> []) -> epath a cp j -> rp cp j = j.
Proof.
  induction j as [|s t IH]; intros cp a Hne Hp; [reflexivity|].
  destruct Hp as [_ Hp].
  assert (s <> []) as Hs by (apply Hne; left; reflexivity).
  destruct t as [|s' t'].
  - cbn [epath] in Hp. cbn [rp]. subst cp. unfold last_pt.
    rewrite <- app_removelast_last by exact Hs. reflexivity.
  - cbn [rp]. pose proof Hp as [Hj _]. rewrite Hj. unfold last_pt.
    rewrite <- app_removelast_last by exact Hs. f_equal.
    apply (IH cp (last_pt s)); [|exact Hp]. intros x Hx. apply Hne. right; exact Hx.
Qed.
Theorem repoint_exact : forall j, (forall s, In s j -> s <> []) -> exact_closed j -> repoint j = j.
Proof.
  intros [|s t] Hne Hc; [reflexivity|]. unfold repoint. cbn [hd].
  apply (rp_exact _ _ (first_pt s)); assumption.
Qed.

(* ----- heap extension: more objects, more curves (without cache), nothing else ----- *)
Definition hext (h h' : heap) : Prop :=
  (exists ps, hpts h' = hpts h ++ ps) /\
  (exists cs, hcurves h' = hcurves h ++ cs /\ Forall (fun cv => hcache cv = None) cs).
Lemma hext_refl : forall h, hext h h.
Proof. intros h. split; [exists [] | exists []; split; [|constructor]]; symmetry; apply app_nil_r. Qed.
Lemma hext_trans : forall h1 h2 h3, hext h1 h2 -> hext h2 h3 -> hext h1 h3.
Proof.
  intros h1 h2 h3 [(p1 & E1) (c1 & F1 & G1)] [(p2 & E2) (c2 & F2 & G2)]. split.
  - exists (p1 ++ p2). rewrite E2, E1, app_assoc. reflexivity.
  - exists (c1 ++ c2). split; [rewrite F2, F1, app_assoc; reflexivity|].
    apply Forall_app. split; assumption.
Qed.
Lemma hext_pts_le : forall h h', hext h h' -> length (hpts h) <= length (hpts h').
Proof. intros h h' [(p & E) _]. rewrite E, app_length. lia. Qed.
Lemma hext_curves_le : forall h h', hext h h' -> length (hcurves h) <= length (hcurves h').
Proof. intros h h' [_ (c & E & _)]. rewrite E, app_length. lia. Qed.
Lemma hext_firstn : forall h h', hext h h' -> firstn (length (hpts h)) (hpts h') = hpts h.
Proof. intros h h' [(p & E) _]. rewrite E. apply firstn_length_app. Qed.
Lemma hext_pval : forall h h' l, hext h h' -> l < length (hpts h) -> pval h' l = pval h l.
Proof. intros h h' l [(p & E) _] H. unfold pval. rewrite E. apply app_nth1. exact H. Qed.
Lemma hext_curve_at : forall h h' c, hext h h' -> c < length (hcurves h) -> curve_at h' c = curve_at h c.
Proof. intros h h' c [_ (cs & E & _)] H. unfold curve_at. rewrite E. apply app_nth1. exact H. Qed.
Lemma hext_segsof : forall h h' c, hext h h' -> c < length (hcurves h) -> segsof h' c = segsof h c.
Proof. intros. unfold segsof. rewrite (hext_curve_at h h') by assumption. reflexivity. Qed.
Lemma hext_cacheof : forall h h' c, hext h h' -> c < length (hcurves h) -> cacheof h' c = cacheof h c.
Proof. intros. unfold cacheof. rewrite (hext_curve_at h h') by assumption. reflexivity. Qed.
Lemma hext_new_cache : forall h h' c, hext h h' -> length (hcurves h) <= c -> cacheof h' c = None.
Proof.
  intros h h' c [_ (cs & E & F)] H. unfold cacheof, curve_at. rewrite E, app_nth2 by exact H.
  destruct (Nat.lt_ge_cases (c - length (hcurves h)) (length cs)) as [Hlt|Hge].
  - rewrite Forall_forall in F. apply F. apply nth_In. exact Hlt.
  - rewrite nth_overflow by exact Hge. reflexivity.
Qed.
Lemma hext_geom : forall h h' c, hext h h' -> locs_lt h c -> c < length (hcurves h) ->
  geom h' c = geom h c.
Proof.
  intros h h' c He Hlt Hc. apply geom_ext; [apply hext_segsof; assumption|].
  intros l Hl. apply hext_pval; [exact He | apply Hlt, Hl].
Qed.

(* ----- one curve ----- *)
Lemma alloc_curve_eq : forall h j, alloc_curve h j =
  (mkH (hpts h ++ alloc_pts j)
       (hcurves h ++ [mkC (asegs (length (hpts h)) (length (hpts h)) j) None]),
   length (hcurves h)).
Proof. intros. unfold alloc_curve. rewrite alloc_segs_asegs. reflexivity. Qed.

Section AllocCurve.
Variables (h h' : heap) (j : jordan) (c : nat).
Hypothesis Halloc : alloc_curve h j = (h', c).

Lemma alloc_curve_id : c = length (hcurves h).
Proof. rewrite alloc_curve_eq in Halloc. inversion Halloc. reflexivity. Qed.
Lemma alloc_curve_pts : hpts h' = hpts h ++ alloc_pts j.
Proof. rewrite alloc_curve_eq in Halloc. inversion Halloc. reflexivity. Qed.
Lemma alloc_curve_curves :
  hcurves h' = hcurves h ++ [mkC (asegs (length (hpts h)) (length (hpts h)) j) None].
Proof. rewrite alloc_curve_eq in Halloc. inversion Halloc. reflexivity. Qed.
Lemma alloc_curve_hext : hext h h'.
Proof.
  split; [exists (alloc_pts j); apply alloc_curve_pts|].
  eexists. split; [apply alloc_curve_curves|]. constructor; [reflexivity|constructor].
Qed.
Lemma alloc_curve_ncurves : length (hcurves h') = S (length (hcurves h)).
Proof. rewrite alloc_curve_curves, app_length. cbn [length]. lia. Qed.
Lemma alloc_curve_npts : length (hpts h') = length (hpts h) + npts j.
Proof. rewrite alloc_curve_pts, app_length. reflexivity. Qed.
Lemma alloc_curve_at_new : curve_at h' c = mkC (asegs (length (hpts h)) (length (hpts h)) j) None.
Proof.
  unfold curve_at. rewrite alloc_curve_curves, alloc_curve_id, app_nth2 by lia.
  rewrite Nat.sub_diag. reflexivity.
Qed.
Lemma alloc_curve_segsof_new : segsof h' c = asegs (length (hpts h)) (length (hpts h)) j.
Proof. unfold segsof. rewrite alloc_curve_at_new. reflexivity. Qed.
Lemma alloc_curve_segsof_other : forall c', c' <> c -> segsof h' c' = segsof h c'.
Proof.
  intros c' Hne. destruct (Nat.lt_ge_cases c' (length (hcurves h))) as [Hlt|Hge].
  - apply hext_segsof; [apply alloc_curve_hext | exact Hlt].
  - rewrite alloc_curve_id in Hne.
    rewrite !segsof_oob; [reflexivity | exact Hge | rewrite alloc_curve_ncurves; lia].
Qed.
(* every location of the new curve is fresh *)
Lemma alloc_curve_fresh : seg_ok j -> forall l, In l (locs_of_curve h' c) ->
  length (hpts h) <= l < length (hpts h').
Proof.
  intros Hok l Hl. rewrite locs_segsof, alloc_curve_segsof_new in Hl.
  pose proof (ck_lt _ _ (asegs_curve_ok j (length (hpts h)) Hok) l Hl) as Hlt.
  rewrite alloc_curve_npts. split; [|exact Hlt].
  apply asegs_locs in Hl; [|exact Hok]. destruct Hl as [Hl| ->]; lia.
Qed.
Lemma alloc_curve_new_ok : seg_ok j -> curve_ok (length (hpts h')) (segsof h' c).
Proof. intros Hok. rewrite alloc_curve_segsof_new, alloc_curve_npts. apply asegs_curve_ok, Hok. Qed.
Lemma alloc_curve_Inv : Inv h -> seg_ok j -> Inv h'.
Proof.
  intros HI Hok. apply (Inv_step h h' c HI).
  - apply hext_pts_le, alloc_curve_hext.
  - apply alloc_curve_segsof_other.
  - apply alloc_curve_new_ok, Hok.
  - intros l Hl. right. apply (alloc_curve_fresh Hok l). rewrite locs_segsof. exact Hl.
Qed.
(* the new curve denotes the re-pointed value *)
Lemma alloc_curve_geom_new : seg_ok j -> geom h' c = repoint j.
Proof.
  intros Hok. rewrite geom_segsof, alloc_curve_segsof_new.
  pose proof alloc_curve_pts as HP.
  assert (hpts h' = hpts h ++ alloc_pts j ++ []) as HP' by (rewrite app_nil_r; exact HP).
  etransitivity;
    [exact (asegs_geom j (hpts h) [] (length (hpts h)) (hpts h') Hok HP')|].
  destruct j as [|s t]; [reflexivity|]. unfold repoint. f_equal.
  rewrite HP, app_nth2, Nat.sub_diag by lia. cbn [hd]. rewrite alloc_pts_cons.
  assert (2 <= length s) as Hs by (apply Hok; left; reflexivity).
  destruct s as [|a [|b r]]; cbn [length] in Hs; try lia. reflexivity.
Qed.
(* old curves keep their geometry *)
Lemma alloc_curve_geom_old : forall c', c' < length (hcurves h) -> locs_lt h c' ->
  geom h' c' = geom h c'.
Proof. intros c' Hc Hl. apply hext_geom; [apply alloc_curve_hext | exact Hl | exact Hc]. Qed.
End AllocCurve.

(* ----- lists of curves, components, shapes ----- *)
Definition alloc_post (h h' : heap) (ids : list nat) (js : list jordan) : Prop :=
  Inv h' /\ hext h h' /\ ids = seq (length (hcurves h)) (length js) /\
  length (hcurves h') = length (hcurves h) + length js /\
  map (geom h') ids = map repoint js.

Lemma alloc_post_nil : forall h, Inv h -> alloc_post h h [] [].
Proof.
  intros h HI. split; [exact HI|]. split; [apply hext_refl|]. split; [reflexivity|].
  split; [cbn [length]; lia | reflexivity].
Qed.
Lemma alloc_post_app : forall h h1 h2 i1 i2 j1 j2,
  alloc_post h h1 i1 j1 -> alloc_post h1 h2 i2 j2 -> alloc_post h h2 (i1 ++ i2) (j1 ++ j2).
Proof.
  intros h h1 h2 i1 i2 j1 j2 (I1 & E1 & S1 & L1 & G1) (I2 & E2 & S2 & L2 & G2).
  split; [exact I2|]. split; [eapply hext_trans; eassumption|]. split; [|split].
  - rewrite app_length, seq_app, <- S1, <- L1, <- S2. reflexivity.
  - rewrite L2, L1, app_length. lia.
  - rewrite !map_app, G2, <- G1. f_equal. apply map_ext_in. intros c Hc.
    apply hext_geom; [exact E2 | apply Inv_locs_lt, I1|].
    rewrite S1 in Hc. apply in_seq in Hc. lia.
Qed.
Lemma alloc_curve_post : forall h h' j c, Inv h -> seg_ok j -> alloc_curve h j = (h', c) ->
  alloc_post h h' [c] [j].
Proof.
  intros h h' j c HI Hok H. split; [eapply alloc_curve_Inv; eassumption|].
  split; [eapply alloc_curve_hext; eassumption|]. split; [|split].
  - cbn [length seq]. rewrite (alloc_curve_id _ _ _ _ H). reflexivity.
  - rewrite (alloc_curve_ncurves _ _ _ _ H). cbn [length]. lia.
  - cbn [map]. rewrite (alloc_curve_geom_new _ _ _ _ H Hok). reflexivity.
Qed.
Lemma segs_ok_cons : forall j js, segs_ok (j :: js) -> seg_ok j /\ segs_ok js.
Proof.
  intros j js H. split.
  - intros s Hs. apply (H j s); [left; reflexivity | exact Hs].
  - intros j' s Hj Hs. apply (H j' s); [right; exact Hj | exact Hs].
Qed.
Lemma segs_ok_app : forall a b, segs_ok (a ++ b) -> segs_ok a /\ segs_ok b.
Proof.
  intros a b H. split; intros j s Hj Hs; apply (H j s); try exact Hs; apply in_or_app; auto.
Qed.
Lemma alloc_curves_post : forall js h h' cs, Inv h -> segs_ok js ->
  alloc_curves h js = (h', cs) -> alloc_post h h' cs js.
Proof.
  induction js as [|j js IH]; intros h h' cs HI Hok H; cbn [alloc_curves] in H.
  - inversion H; subst. apply alloc_post_nil, HI.
  - destruct (alloc_curve h j) as [h1 c] eqn:E1. destruct (alloc_curves h1 js) as [h2 cs'] eqn:E2.
    inversion H; subst. apply segs_ok_cons in Hok. destruct Hok as [Hj Hjs].
    pose proof (alloc_curve_post _ _ _ _ HI Hj E1) as P1.
    change (alloc_post h h' ([c] ++ cs') ([j] ++ js)).
    eapply alloc_post_app; [exact P1|]. apply IH; [apply P1 | exact Hjs | exact E2].
Qed.

Definition repoint_comp : comp -> comp := comp_map repoint.
Definition repoint_shape : shape -> shape := shape_map repoint.

Lemma alloc_comp_post : forall c h h' c', Inv h -> segs_ok (comp_jordans c) ->
  alloc_comp h c = (h', c') ->
  alloc_post h h' (hcomp_curves c') (comp_jordans c) /\ denot_comp h' c' = repoint_comp c.
Proof.
  intros [j|js] h h' c' HI Hok H; cbn [alloc_comp] in H.
  - destruct (alloc_curve h j) as [h1 c] eqn:E1. inversion H; subst.
    apply segs_ok_cons in Hok. destruct Hok as [Hj _].
    pose proof (alloc_curve_post _ _ _ _ HI Hj E1) as P. split; [exact P|].
    destruct P as (_ & _ & _ & _ & G). cbn [map] in G. inversion G as [G'].
    cbn [denot_comp repoint_comp comp_map]. rewrite G'. reflexivity.
  - destruct (alloc_curves h js) as [h1 cs] eqn:E1. inversion H; subst.
    pose proof (alloc_curves_post _ _ _ _ HI Hok E1) as P. split; [exact P|].
    destruct P as (_ & _ & _ & _ & G). cbn [denot_comp repoint_comp comp_map]. rewrite G. reflexivity.
Qed.

Lemma denot_comp_ext : forall h h' c, (forall k, In k (hcomp_curves c) -> geom h' k = geom h k) ->
  denot_comp h' c = denot_comp h c.
Proof.
  intros h h' [k|ks] H; cbn [denot_comp].
  - rewrite H by (left; reflexivity). reflexivity.
  - f_equal. apply map_ext_in. exact H.
Qed.
Lemma denot_ext : forall h h' x, (forall k, In k (hcurves_of x) -> geom h' k = geom h k) ->
  denot h' x = denot h x.
Proof.
  intros h h' [| |c|cs] H; cbn [denot]; try reflexivity.
  - f_equal. apply denot_comp_ext. exact H.
  - f_equal. apply map_ext_in. intros c Hc. apply denot_comp_ext. intros k Hk. apply H.
    cbn [hcurves_of]. apply in_concat. exists (hcomp_curves c). split; [|exact Hk].
    apply in_map. exact Hc.
Qed.

Lemma alloc_comps_post : forall cs h h' cs', Inv h -> segs_ok (concat (map comp_jordans cs)) ->
  alloc_comps h cs = (h', cs') ->
  alloc_post h h' (concat (map hcomp_curves cs')) (concat (map comp_jordans cs)) /\
  map (denot_comp h') cs' = map repoint_comp cs.
Proof.
  induction cs as [|c cs IH]; intros h h' cs' HI Hok H; cbn [alloc_comps] in H.
  - inversion H; subst. split; [apply alloc_post_nil, HI | reflexivity].
  - destruct (alloc_comp h c) as [h1 c1] eqn:E1. destruct (alloc_comps h1 cs) as [h2 t'] eqn:E2.
    inversion H; subst. cbn [map concat] in Hok |- *. apply segs_ok_app in Hok.
    destruct Hok as [Hc Hcs].
    destruct (alloc_comp_post _ _ _ _ HI Hc E1) as [P1 D1].
    destruct (IH _ _ _ ltac:(apply P1) Hcs E2) as [P2 D2].
    split; [eapply alloc_post_app; eassumption|]. f_equal; [|exact D2].
    rewrite <- D1. apply denot_comp_ext. intros k Hk.
    apply hext_geom; [apply P2 | apply Inv_locs_lt, P1|].
    destruct P1 as (_ & _ & S1 & L1 & _). rewrite S1 in Hk. apply in_seq in Hk. lia.
Qed.

(* H1, for shapes *)
Theorem alloc_shape_post : forall s h h' x, Inv h -> segs_ok (jordans s) ->
  alloc_shape h s = (h', x) ->
  alloc_post h h' (hcurves_of x) (jordans s) /\ denot h' x = repoint_shape s.
Proof.
  intros [| |c|cs] h h' x HI Hok H; cbn [alloc_shape] in H.
  - inversion H; subst. split; [apply alloc_post_nil, HI | reflexivity].
  - inversion H; subst. split; [apply alloc_post_nil, HI | reflexivity].
  - destruct (alloc_comp h c) as [h1 c1] eqn:E1. inversion H; subst.
    destruct (alloc_comp_post _ _ _ _ HI Hok E1) as [P D]. split; [exact P|].
    cbn [denot repoint_shape shape_map]. f_equal. exact D.
  - destruct (alloc_comps h cs) as [h1 cs1] eqn:E1. inversion H; subst.
    destruct (alloc_comps_post _ _ _ _ HI Hok E1) as [P D]. split; [exact P|].
    cbn [denot repoint_shape shape_map]. f_equal. exact D.
Qed.

(* the consequences in the form used later *)
Theorem alloc_shape_spec : forall s h h' x, Inv h -> segs_ok (jordans s) ->
  alloc_shape h s = (h', x) ->
  Inv h' /\ hext h h' /\
  hcurves_of x = seq (length (hcurves h)) (length (jordans s)) /\
  length (hcurves h') = length (hcurves h) + length (jordans s) /\
  (forall c', In c' (hcurves_of x) -> length (hcurves h) <= c' < length (hcurves h')) /\
  NoDup (hcurves_of x) /\
  (forall c', c' < length (hcurves h) ->
     geom h' c' = geom h c' /\ segsof h' c' = segsof h c' /\ cacheof h' c' = cacheof h c') /\
  (forall c', length (hcurves h) <= c' -> cacheof h' c' = None) /\
  denot h' x = repoint_shape s.
Proof.
  intros s h h' x HI Hok H. destruct (alloc_shape_post _ _ _ _ HI Hok H) as [(I & E & S & L & G) D].
  split; [exact I|]. split; [exact E|]. split; [exact S|]. split; [exact L|].
  split; [|split; [|split; [|split; [|exact D]]]].
  - intros c' Hc'. rewrite S in Hc'. apply in_seq in Hc'. lia.
  - rewrite S. apply seq_NoDup.
  - intros c' Hc'. split; [|split].
    + apply hext_geom; [exact E | apply Inv_locs_lt, HI | exact Hc'].
    + apply hext_segsof; assumption.
    + apply hext_cacheof; assumption.
  - intros c' Hc'. eapply hext_new_cache; eassumption.
Qed.

(* ------------------------------------------------------------------ *)
(* 4. H4: in-place transformation of shapes                            *)
(* ------------------------------------------------------------------ *)
Lemma heap_eta : forall h, mkH (hpts h) (hcurves h) = h.
Proof. intros [p c]. reflexivity. Qed.
Lemma set_curve_oob : forall h c x, length (hcurves h) <= c -> set_curve h c x = h.
Proof. intros h c x H. unfold set_curve. rewrite set_nth_oob by exact H. apply heap_eta. Qed.
Lemma curve_at_set_curve_same : forall h c x, c < length (hcurves h) -> curve_at (set_curve h c x) c = x.
Proof. intros h c x H. unfold curve_at. cbn [set_curve hcurves]. apply set_nth_nth_same. exact H. Qed.
Lemma curve_at_set_curve_other : forall h c x c', c <> c' ->
  curve_at (set_curve h c x) c' = curve_at h c'.
Proof. intros h c x c' H. unfold curve_at. cbn [set_curve hcurves]. apply set_nth_nth_other. exact H. Qed.
Lemma hpts_set_curve : forall h c x, hpts (set_curve h c x) = hpts h.
Proof. reflexivity. Qed.
Lemma pval_set_curve : forall h c x l, pval (set_curve h c x) l = pval h l.
Proof. reflexivity. Qed.
Lemma ncurves_set_curve : forall h c x, length (hcurves (set_curve h c x)) = length (hcurves h).
Proof. intros. cbn [set_curve hcurves]. apply set_nth_length. Qed.

(* replacing the cache of a curve changes neither structure nor geometry *)
Lemma segsof_set_cache : forall h c o c', segsof (set_curve h c (mkC (segsof h c) o)) c' = segsof h c'.
Proof.
  intros h c o c'. destruct (Nat.lt_ge_cases c (length (hcurves h))) as [Hlt|Hge].
  - unfold segsof at 1. destruct (Nat.eq_dec c c') as [<-|Hne].
    + rewrite curve_at_set_curve_same by exact Hlt. reflexivity.
    + rewrite curve_at_set_curve_other by exact Hne. reflexivity.
  - rewrite set_curve_oob by exact Hge. reflexivity.
Qed.
Lemma geom_set_cache : forall h c o c', geom (set_curve h c (mkC (segsof h c) o)) c' = geom h c'.
Proof. intros. rewrite !geom_segsof, segsof_set_cache. reflexivity. Qed.
Lemma cacheof_set_cache_other : forall h c o c', c <> c' ->
  cacheof (set_curve h c (mkC (segsof h c) o)) c' = cacheof h c'.
Proof. intros. unfold cacheof. rewrite curve_at_set_curve_other by assumption. reflexivity. Qed.
Lemma cacheof_set_cache_same : forall h c o, c < length (hcurves h) ->
  cacheof (set_curve h c (mkC (segsof h c) o)) c = o.
Proof. intros. unfold cacheof. rewrite curve_at_set_curve_same by assumption. reflexivity. Qed.
Lemma Inv_set_cache : forall h c o, Inv h -> Inv (set_curve h c (mkC (segsof h c) o)).
Proof. intros h c o. apply Inv_same; [intros c'; apply segsof_set_cache | reflexivity]. Qed.

Lemma reset_cache_eq : forall h c, reset_cache h c = set_curve h c (mkC (segsof h c) None).
Proof. reflexivity. Qed.
Lemma reset_cache_cacheof_same : forall h c, cacheof (reset_cache h c) c = None.
Proof.
  intros h c. rewrite reset_cache_eq. destruct (Nat.lt_ge_cases c (length (hcurves h))) as [Hlt|Hge].
  - apply cacheof_set_cache_same. exact Hlt.
  - rewrite set_curve_oob by exact Hge. apply cacheof_oob. exact Hge.
Qed.

(* one step of move (reset = false) or scale / rotate (reset = true) *)
Definition tstep (f : point -> point) (reset : bool) (h : heap) (c : nat) : heap :=
  if reset then reset_cache (map_curve_pts f h c) c else map_curve_pts f h c.

Section TStep.
Variables (f : point -> point) (r : bool).
Lemma tstep_segsof : forall h c c', segsof (tstep f r h c) c' = segsof h c'.
Proof.
  intros h c c'. unfold tstep. destruct r.
  - rewrite reset_cache_eq, segsof_set_cache. apply map_curve_pts_segsof.
  - apply map_curve_pts_segsof.
Qed.
Lemma tstep_length : forall h c, length (hpts (tstep f r h c)) = length (hpts h).
Proof.
  intros h c. unfold tstep. destruct r; [rewrite reset_cache_eq, hpts_set_curve|];
    apply map_curve_pts_length.
Qed.
Lemma tstep_ncurves : forall h c, length (hcurves (tstep f r h c)) = length (hcurves h).
Proof.
  intros h c. unfold tstep. destruct r; [rewrite reset_cache_eq, ncurves_set_curve|];
    rewrite map_curve_pts_curves; reflexivity.
Qed.
Lemma tstep_Inv : forall h c, Inv h -> Inv (tstep f r h c).
Proof. intros h c. apply Inv_same; [intros c'; apply tstep_segsof | apply tstep_length]. Qed.
Lemma tstep_geom_self : forall h c, locs_lt h c -> geom (tstep f r h c) c = map (map f) (geom h c).
Proof.
  intros h c H. unfold tstep. destruct r; [rewrite reset_cache_eq, geom_set_cache|];
    apply map_curve_pts_geom_self; exact H.
Qed.
Lemma tstep_geom_other : forall h c c', curves_disjoint h c c' -> geom (tstep f r h c) c' = geom h c'.
Proof.
  intros h c c' H. unfold tstep. destruct r; [rewrite reset_cache_eq, geom_set_cache|];
    apply map_curve_pts_geom_other; exact H.
Qed.
Lemma tstep_cacheof_other : forall h c c', c <> c' -> cacheof (tstep f r h c) c' = cacheof h c'.
Proof.
  intros h c c' H. unfold tstep. destruct r.
  - rewrite reset_cache_eq, cacheof_set_cache_other by exact H. apply map_curve_pts_cacheof.
  - apply map_curve_pts_cacheof.
Qed.
Lemma tstep_cacheof_self : forall h c,
  cacheof (tstep f r h c) c = if r then None else cacheof h c.
Proof.
  intros h c. unfold tstep. destruct r; [apply reset_cache_cacheof_same | apply map_curve_pts_cacheof].
Qed.

Definition tfold (cs : list nat) (h : heap) : heap := fold_left (tstep f r) cs h.
Lemma tfold_segsof : forall cs h c', segsof (tfold cs h) c' = segsof h c'.
Proof.
  induction cs as [|a cs IH]; intros h c'; [reflexivity|].
  unfold tfold in *. cbn [fold_left]. rewrite IH. apply tstep_segsof.
Qed.
Lemma tfold_length : forall cs h, length (hpts (tfold cs h)) = length (hpts h).
Proof.
  induction cs as [|a cs IH]; intros h; [reflexivity|].
  unfold tfold in *. cbn [fold_left]. rewrite IH. apply tstep_length.
Qed.
Lemma tfold_ncurves : forall cs h, length (hcurves (tfold cs h)) = length (hcurves h).
Proof.
  induction cs as [|a cs IH]; intros h; [reflexivity|].
  unfold tfold in *. cbn [fold_left]. rewrite IH. apply tstep_ncurves.
Qed.
Lemma tfold_Inv : forall cs h, Inv h -> Inv (tfold cs h).
Proof. intros cs h. apply Inv_same; [intros c'; apply tfold_segsof | apply tfold_length]. Qed.
(* C08 frame: a curve that is not transformed is left exactly as it was *)
Lemma tfold_geom_other : forall cs h c', Inv h -> ~ In c' cs -> geom (tfold cs h) c' = geom h c'.
Proof.
  induction cs as [|a cs IH]; intros h c' HI Hn; [reflexivity|].
  unfold tfold in *. cbn [fold_left].
  rewrite IH; [|apply tstep_Inv, HI|intros H; apply Hn; right; exact H].
  apply tstep_geom_other. destruct HI as [_ HD]. apply HD. intros ->. apply Hn. left; reflexivity.
Qed.
(* C09: every curve of the list is transformed exactly once *)
Lemma tfold_geom_in : forall cs h c, Inv h -> NoDup cs -> In c cs ->
  geom (tfold cs h) c = map (map f) (geom h c).
Proof.
  induction cs as [|a cs IH]; intros h c HI Hnd Hin; [destruct Hin|].
  inversion Hnd as [|? ? Hna Hnd']; subst. unfold tfold in *. cbn [fold_left].
  destruct (Nat.eq_dec a c) as [->|Hne].
  - rewrite (tfold_geom_other cs) by (try apply tstep_Inv; assumption).
    apply tstep_geom_self, Inv_locs_lt, HI.
  - destruct Hin as [E|Hin]; [contradiction|].
    rewrite IH; [|apply tstep_Inv, HI|exact Hnd'|exact Hin]. f_equal.
    apply tstep_geom_other. destruct HI as [_ HD]. apply HD. exact Hne.
Qed.
Lemma tfold_cacheof_other : forall cs h c', ~ In c' cs -> cacheof (tfold cs h) c' = cacheof h c'.
Proof.
  induction cs as [|a cs IH]; intros h c' Hn; [reflexivity|].
  unfold tfold in *. cbn [fold_left]. rewrite IH by (intros H; apply Hn; right; exact H).
  apply tstep_cacheof_other. intros ->. apply Hn. left; reflexivity.
Qed.
End TStep.

Lemma h_move_tfold : forall v h x, h_move v h x = tfold (move_pt v) false (hcurves_of x) h.
Proof. reflexivity. Qed.
Lemma h_scale_tfold : forall sx sy h x, h_scale sx sy h x = tfold (scale_pt sx sy) true (hcurves_of x) h.
Proof. reflexivity. Qed.
Lemma h_rotate_tfold : forall c s h x, h_rotate c s h x = tfold (rot_pt c s) true (hcurves_of x) h.
Proof. reflexivity. Qed.

(* the shape-level statement, through map_points *)
Lemma denot_comp_map : forall h h' (f : point -> point) c,
  (forall k, In k (hcomp_curves c) -> geom h' k = map (map f) (geom h k)) ->
  denot_comp h' c = comp_map (map (map f)) (denot_comp h c).
Proof.
  intros h h' f [k|ks] H; cbn [denot_comp comp_map].
  - rewrite H by (left; reflexivity). reflexivity.
  - f_equal. rewrite map_map. apply map_ext_in. exact H.
Qed.
Lemma denot_map_points : forall h h' (f : point -> point) x,
  (forall k, In k (hcurves_of x) -> geom h' k = map (map f) (geom h k)) ->
  denot h' x = map_points f (denot h x).
Proof.
  intros h h' f x H. rewrite map_points_shape_map.
  destruct x as [| |c|cs]; cbn [denot shape_map]; try reflexivity.
  - f_equal. apply denot_comp_map. exact H.
  - f_equal. rewrite map_map. apply map_ext_in. intros c Hc. apply denot_comp_map.
    intros k Hk. apply H. cbn [hcurves_of]. apply in_concat. exists (hcomp_curves c).
    split; [apply in_map; exact Hc | exact Hk].
Qed.

Section H4.
Variables (h : heap) (x : hshape).
Hypothesis HI : Inv h.
Hypothesis Hnd : NoDup (hcurves_of x).

Theorem h_move_Inv : forall v, Inv (h_move v h x).
Proof. intros. rewrite h_move_tfold. apply tfold_Inv, HI. Qed.
Theorem h_move_geom : forall v c, In c (hcurves_of x) ->
  geom (h_move v h x) c = map (map (move_pt v)) (geom h c).
Proof. intros. rewrite h_move_tfold. apply tfold_geom_in; assumption. Qed.
Theorem h_move_frame : forall v c', ~ In c' (hcurves_of x) -> geom (h_move v h x) c' = geom h c'.
Proof. intros. rewrite h_move_tfold. apply tfold_geom_other; assumption. Qed.
Theorem h_move_denot : forall v, denot (h_move v h x) x = map_points (move_pt v) (denot h x).
Proof. intros v. apply denot_map_points. intros k Hk. apply h_move_geom, Hk. Qed.

Theorem h_scale_Inv : forall sx sy, Inv (h_scale sx sy h x).
Proof. intros. rewrite h_scale_tfold. apply tfold_Inv, HI. Qed.
Theorem h_scale_geom : forall sx sy c, In c (hcurves_of x) ->
  geom (h_scale sx sy h x) c = map (map (scale_pt sx sy)) (geom h c).
Proof. intros. rewrite h_scale_tfold. apply tfold_geom_in; assumption. Qed.
Theorem h_scale_frame : forall sx sy c', ~ In c' (hcurves_of x) ->
  geom (h_scale sx sy h x) c' = geom h c'.
Proof. intros. rewrite h_scale_tfold. apply tfold_geom_other; assumption. Qed.
Theorem h_scale_denot : forall sx sy,
  denot (h_scale sx sy h x) x = map_points (scale_pt sx sy) (denot h x).
Proof. intros sx sy. apply denot_map_points. intros k Hk. apply h_scale_geom, Hk. Qed.

Theorem h_rotate_Inv : forall c s, Inv (h_rotate c s h x).
Proof. intros. rewrite h_rotate_tfold. apply tfold_Inv, HI. Qed.
Theorem h_rotate_geom : forall c s k, In k (hcurves_of x) ->
  geom (h_rotate c s h x) k = map (map (rot_pt c s)) (geom h k).
Proof. intros. rewrite h_rotate_tfold. apply tfold_geom_in; assumption. Qed.
Theorem h_rotate_frame : forall c s c', ~ In c' (hcurves_of x) ->
  geom (h_rotate c s h x) c' = geom h c'.
Proof. intros. rewrite h_rotate_tfold. apply tfold_geom_other; assumption. Qed.
Theorem h_rotate_denot : forall c s,
  denot (h_rotate c s h x) x = map_points (rot_pt c s) (denot h x).
Proof. intros c s. apply denot_map_points. intros k Hk. apply h_rotate_geom, Hk. Qed.
End H4.

(* C08, shape level: a shape over other curves denotes exactly what it denoted *)
Theorem tfold_denot_frame : forall f r h x y, Inv h ->
  (forall c, In c (hcurves_of y) -> ~ In c (hcurves_of x)) ->
  denot (tfold f r (hcurves_of x) h) y = denot h y.
Proof.
  intros f r h x y HI Hd. apply denot_ext. intros k Hk. apply tfold_geom_other; [exact HI|].
  apply Hd, Hk.
Qed.

(* ------------------------------------------------------------------ *)
(* 5. H5: cache coherence                                              *)
(* ------------------------------------------------------------------ *)
Definition coh (h : heap) : Prop :=
  forall c, match cacheof h c with None => True | Some g => translate_of g (geom h c) end.
Lemma coh_iff : forall h, cache_coherent h <-> coh h.
Proof.
  intros h. split; intros H c.
  - destruct (Nat.lt_ge_cases c (length (hcurves h))) as [Hlt|Hge]; [apply (H c Hlt)|].
    rewrite cacheof_oob by exact Hge. exact I.
  - intros _. apply (H c).
Qed.

Lemma Forall2_refl : forall {A} (R : A -> A -> Prop) l, (forall x, R x x) -> Forall2 R l l.
Proof. intros A R l H. induction l; constructor; auto. Qed.
Lemma Forall2_map_r : forall {A B C} (R : A -> C -> Prop) (f : B -> C) l m,
  Forall2 (fun a b => R a (f b)) l m -> Forall2 R l (map f m).
Proof. intros A B C R f l m H. induction H; cbn [map]; constructor; auto. Qed.
Lemma Forall2_impl : forall {A B} (R R' : A -> B -> Prop) l m,
  (forall a b, R a b -> R' a b) -> Forall2 R l m -> Forall2 R' l m.
Proof. intros A B R R' l m H F. induction F; constructor; auto. Qed.

Lemma peq_padd_zero : forall p, peq p (padd p (0, 0)%Q).
Proof. intros [x y]. split; cbn; ring. Qed.
Lemma translate_of_refl : forall g, translate_of g g.
Proof.
  intros g. exists (0, 0)%Q. apply Forall2_refl. intros s. apply Forall2_refl. apply peq_padd_zero.
Qed.
Lemma peq_move_compose : forall v v0 p q, peq q (padd p v0) -> peq (move_pt v q) (padd p (padd v0 v)).
Proof.
  intros [vx vy] [ax ay] [px0 py0] [qx qy] [H1 H2]. destruct (move_pt_exact (vx, vy) (qx, qy)) as [E1 E2].
  split; [rewrite E1 | rewrite E2]; cbn in *; [rewrite H1 | rewrite H2]; ring.
Qed.
(* translation composes: the snapshot stays a translate when the live curve is moved *)
Lemma translate_of_move : forall v g j, translate_of g j -> translate_of g (map (map (move_pt v)) j).
Proof.
  intros v g j [v0 H]. exists (padd v0 v). apply Forall2_map_r.
  eapply Forall2_impl; [|exact H]. intros s s' Hs. cbn beta in Hs |- *. apply Forall2_map_r.
  eapply Forall2_impl; [|exact Hs]. intros p q Hpq. apply peq_move_compose. exact Hpq.
Qed.

(* allocation: new curves have no cache, old curves keep cache and geometry *)
Lemma coh_hext : forall h h', hext h h' -> Inv h -> coh h -> coh h'.
Proof.
  intros h h' He HI Hc c. destruct (Nat.lt_ge_cases c (length (hcurves h))) as [Hlt|Hge].
  - rewrite (hext_cacheof h h') by assumption.
    rewrite (hext_geom h h') by (try apply Inv_locs_lt; assumption). apply Hc.
  - rewrite (hext_new_cache h h') by assumption. exact I.
Qed.
Theorem alloc_shape_coh : forall s h h' x, Inv h -> segs_ok (jordans s) -> alloc_shape h s = (h', x) ->
  cache_coherent h -> cache_coherent h'.
Proof.
  intros s h h' x HI Hok H Hc. apply coh_iff. apply coh_iff in Hc.
  eapply coh_hext; [|exact HI|exact Hc]. eapply alloc_shape_spec; eassumption.
Qed.

(* fills *)
Lemma h_fill_eq : forall h c, h_fill h c =
  match cacheof h c with
  | Some _ => h
  | None => set_curve h c (mkC (segsof h c) (Some (geom h c)))
  end.
Proof. reflexivity. Qed.
Lemma h_fill_segsof : forall h c c', segsof (h_fill h c) c' = segsof h c'.
Proof. intros. rewrite h_fill_eq. destruct (cacheof h c); [reflexivity | apply segsof_set_cache]. Qed.
Lemma h_fill_pts : forall h c, hpts (h_fill h c) = hpts h.
Proof. intros. rewrite h_fill_eq. destruct (cacheof h c); reflexivity. Qed.
Lemma h_fill_ncurves : forall h c, length (hcurves (h_fill h c)) = length (hcurves h).
Proof. intros. rewrite h_fill_eq. destruct (cacheof h c); [reflexivity | apply ncurves_set_curve]. Qed.
Lemma h_fill_geom : forall h c c', geom (h_fill h c) c' = geom h c'.
Proof. intros. rewrite h_fill_eq. destruct (cacheof h c); [reflexivity | apply geom_set_cache]. Qed.
Lemma h_fill_Inv : forall h c, Inv h -> Inv (h_fill h c).
Proof. intros h c. apply Inv_same; [intros c'; apply h_fill_segsof | rewrite h_fill_pts; reflexivity]. Qed.
Lemma h_fill_coh : forall h c, coh h -> coh (h_fill h c).
Proof.
  intros h c Hc c'. rewrite h_fill_geom. rewrite h_fill_eq.
  destruct (cacheof h c) as [g|] eqn:E; [apply Hc|].
  destruct (Nat.eq_dec c c') as [<-|Hne].
  - destruct (Nat.lt_ge_cases c (length (hcurves h))) as [Hlt|Hge].
    + rewrite cacheof_set_cache_same by exact Hlt. apply translate_of_refl.
    + rewrite set_curve_oob by exact Hge. apply Hc.
  - rewrite cacheof_set_cache_other by exact Hne. apply Hc.
Qed.
Lemma h_fill_all_segsof : forall cs h c', segsof (h_fill_all h cs) c' = segsof h c'.
Proof.
  induction cs as [|a cs IH]; intros h c'; [reflexivity|].
  unfold h_fill_all in *. cbn [fold_left]. rewrite IH. apply h_fill_segsof.
Qed.
Lemma h_fill_all_pts : forall cs h, hpts (h_fill_all h cs) = hpts h.
Proof.
  induction cs as [|a cs IH]; intros h; [reflexivity|].
  unfold h_fill_all in *. cbn [fold_left]. rewrite IH. apply h_fill_pts.
Qed.
Lemma h_fill_all_ncurves : forall cs h, length (hcurves (h_fill_all h cs)) = length (hcurves h).
Proof.
  induction cs as [|a cs IH]; intros h; [reflexivity|].
  unfold h_fill_all in *. cbn [fold_left]. rewrite IH. apply h_fill_ncurves.
Qed.
Lemma h_fill_all_geom : forall cs h c', geom (h_fill_all h cs) c' = geom h c'.
Proof.
  induction cs as [|a cs IH]; intros h c'; [reflexivity|].
  unfold h_fill_all in *. cbn [fold_left]. rewrite IH. apply h_fill_geom.
Qed.
Lemma h_fill_all_Inv : forall cs h, Inv h -> Inv (h_fill_all h cs).
Proof.
  intros cs h. apply Inv_same; [intros c'; apply h_fill_all_segsof | rewrite h_fill_all_pts; reflexivity].
Qed.
Lemma h_fill_all_coh : forall cs h, coh h -> coh (h_fill_all h cs).
Proof.
  induction cs as [|a cs IH]; intros h Hc; [exact Hc|].
  unfold h_fill_all in *. cbn [fold_left]. apply IH. apply h_fill_coh. exact Hc.
Qed.
Theorem h_fill_coherent : forall h c, cache_coherent h -> cache_coherent (h_fill h c).
Proof. intros h c H. apply coh_iff, h_fill_coh, coh_iff, H. Qed.
Theorem h_fill_all_coherent : forall h cs, cache_coherent h -> cache_coherent (h_fill_all h cs).
Proof. intros h cs H. apply coh_iff, h_fill_all_coh, coh_iff, H. Qed.
Theorem h_float_coherent : forall h c, cache_coherent h -> cache_coherent (fst (h_float h c)).
Proof. intros h c H. apply h_fill_coherent, H. Qed.
Theorem h_contains_point_coherent : forall h x p b, cache_coherent h ->
  cache_coherent (fst (h_contains_point h x p b)).
Proof. intros h x p b H. apply h_fill_all_coherent, H. Qed.
Lemma denot_fill_all : forall h cs x, denot (h_fill_all h cs) x = denot h x.
Proof. intros. apply denot_ext. intros k _. apply h_fill_all_geom. Qed.

(* transformations *)
Lemma tstep_coh_move : forall v h c, Inv h -> coh h -> coh (tstep (move_pt v) false h c).
Proof.
  intros v h c HI Hc c'. destruct (Nat.eq_dec c c') as [<-|Hne].
  - rewrite tstep_cacheof_self, tstep_geom_self by (apply Inv_locs_lt, HI).
    specialize (Hc c). destruct (cacheof h c); [|exact I]. apply translate_of_move, Hc.
  - rewrite tstep_cacheof_other by exact Hne.
    rewrite tstep_geom_other by (destruct HI as [_ HD]; apply HD; exact Hne). apply Hc.
Qed.
Lemma tstep_coh_reset : forall f h c, Inv h -> coh h -> coh (tstep f true h c).
Proof.
  intros f h c HI Hc c'. destruct (Nat.eq_dec c c') as [<-|Hne].
  - rewrite tstep_cacheof_self. exact I.
  - rewrite tstep_cacheof_other by exact Hne.
    rewrite tstep_geom_other by (destruct HI as [_ HD]; apply HD; exact Hne). apply Hc.
Qed.
Lemma tfold_coh : forall f r, (forall h c, Inv h -> coh h -> coh (tstep f r h c)) ->
  forall cs h, Inv h -> coh h -> coh (tfold f r cs h).
Proof.
  intros f r Hstep. induction cs as [|a cs IH]; intros h HI Hc; [exact Hc|].
  unfold tfold in *. cbn [fold_left]. apply IH; [apply tstep_Inv, HI | apply Hstep; assumption].
Qed.
Theorem h_move_coherent : forall v h x, Inv h -> cache_coherent h -> cache_coherent (h_move v h x).
Proof.
  intros v h x HI H. apply coh_iff. rewrite h_move_tfold.
  apply tfold_coh; [intros; apply tstep_coh_move; assumption | exact HI | apply coh_iff, H].
Qed.
Theorem h_scale_coherent : forall sx sy h x, Inv h -> cache_coherent h ->
  cache_coherent (h_scale sx sy h x).
Proof.
  intros sx sy h x HI H. apply coh_iff. rewrite h_scale_tfold.
  apply tfold_coh; [intros; apply tstep_coh_reset; assumption | exact HI | apply coh_iff, H].
Qed.
Theorem h_rotate_coherent : forall c s h x, Inv h -> cache_coherent h ->
  cache_coherent (h_rotate c s h x).
Proof.
  intros c s h x HI H. apply coh_iff. rewrite h_rotate_tfold.
  apply tfold_coh; [intros; apply tstep_coh_reset; assumption | exact HI | apply coh_iff, H].
Qed.

(* ----- the cached orientation is the live orientation (straight closed curves) ----- *)
Lemma Forall2_nth : forall {A B} (R : A -> B -> Prop) l m i d d',
  Forall2 R l m -> i < length l -> R (nth i l d) (nth i m d').
Proof.
  intros A B R l m i d d' H. revert i. induction H as [|a b l m Hab H IH]; intros i Hi.
  - cbn in Hi. lia.
  - destruct i as [|i]; [exact Hab|]. cbn [nth]. apply IH. cbn [length] in Hi. lia.
Qed.
Lemma Forall2_hd : forall (R : point -> point -> Prop) s s', Forall2 R s s' -> s <> [] ->
  R (first_pt s) (first_pt s').
Proof. intros R s s' H Hne. destruct H; [congruence | exact H]. Qed.
Lemma Forall2_last : forall (R : point -> point -> Prop) s s', Forall2 R s s' -> s <> [] ->
  R (last_pt s) (last_pt s').
Proof.
  intros R s s' H. induction H as [|a b l m Hab H IH]; intros Hne; [congruence|].
  destruct H as [|a' b' l m Hab' H]; [exact Hab|].
  change (R (last_pt (a' :: l)) (last_pt (b' :: m))). apply IH. discriminate.
Qed.

Definition trel (v : point) (p q : point) : Prop := peq q (padd p v).
Lemma translate_of_trel : forall g j, translate_of g j <-> exists v, Forall2 (Forall2 (trel v)) g j.
Proof. reflexivity. Qed.

Lemma cross_peq : forall a a' b b', peq a a' -> peq b b' -> (cross a b == cross a' b')%Q.
Proof. intros a a' b b' [H1 H2] [H3 H4]. unfold cross. rewrite H1, H2, H3, H4. reflexivity. Qed.

Lemma shoelace2_trel : forall v g j, Forall2 (Forall2 (trel v)) g j -> nonempty_segs g ->
  (shoelace2 j == shoelace2 (map (map (fun p => padd p v)) g))%Q.
Proof.
  intros v g j H. induction H as [|s s' g j Hs H IH]; intros Hne; [reflexivity|].
  apply nonempty_cons in Hne. destruct Hne as [Hs0 Hne].
  unfold shoelace2 in *. cbn [map Qsum]. rewrite IH by exact Hne.
  apply Qplus_comp; [|reflexivity].
  rewrite first_pt_map, last_pt_map by exact Hs0.
  apply cross_peq; [apply (Forall2_hd _ _ _ Hs Hs0) | apply (Forall2_last _ _ _ Hs Hs0)].
Qed.

Lemma Forall2_length : forall {A B} (R : A -> B -> Prop) l m, Forall2 R l m -> length l = length m.
Proof. intros A B R l m H. induction H; cbn [length]; congruence. Qed.
Lemma all_lines_F2 : forall {R : point -> point -> Prop} g j, Forall2 (Forall2 R) g j ->
  all_lines g = all_lines j.
Proof.
  intros R g j H. induction H as [|s s' g j Hs H IH]; [reflexivity|].
  unfold all_lines in *. cbn [forallb]. rewrite IH. f_equal. unfold is_line.
  rewrite (Forall2_length _ _ _ Hs). reflexivity.
Qed.

Lemma peq_padd_cancel : forall a b v, peq (padd a v) (padd b v) -> peq a b.
Proof.
  intros [ax ay] [bx b_y] [vx vy] [H1 H2]. cbn in *. split; cbn.
  - apply (Qplus_inj_r _ _ vx). exact H1.
  - apply (Qplus_inj_r _ _ vy). exact H2.
Qed.
Lemma peq_trans' : forall a b c, peq a b -> peq b c -> peq a c.
Proof. intros a b c [H1 H2] [H3 H4]. split; [rewrite H1 | rewrite H2]; assumption. Qed.
Lemma peq_sym' : forall a b, peq a b -> peq b a.
Proof. intros a b [H1 H2]. split; symmetry; assumption. Qed.

Lemma closed_chain_trel_back : forall v g j, Forall2 (Forall2 (trel v)) g j -> nonempty_segs g ->
  closed_chain j = true -> closed_chain g = true.
Proof.
  intros v g j H Hne Hc. rewrite closed_chain_iff in Hc |- *. unfold seg in *.
  pose proof (Forall2_length _ _ _ H) as Hlen. intros i Hi.
  assert (forall k, k < length g -> Forall2 (trel v) (nth k g []) (nth k j []) /\ nth k g [] <> []) as Hk.
  { intros k Hk. split; [apply Forall2_nth; assumption | apply Hne, nth_In, Hk]. }
  destruct (Hk i Hi) as [F1 N1].
  assert ((i + 1) mod length g < length g) as Hi' by (apply Nat.mod_upper_bound; lia).
  destruct (Hk _ Hi') as [F2 N2].
  specialize (Hc i ltac:(lia)). rewrite <- Hlen in Hc.
  pose proof (Forall2_last _ _ _ F1 N1) as L. pose proof (Forall2_hd _ _ _ F2 N2) as F.
  unfold trel in L, F. apply (peq_padd_cancel _ _ v).
  eapply peq_trans'; [apply peq_sym', L|]. eapply peq_trans'; [exact Hc | exact F].
Qed.

Theorem jordan_pos_translate : forall g j, translate_of g j ->
  all_lines j = true -> closed_chain j = true -> jordan_pos g = jordan_pos j.
Proof.
  intros g j [v H] Hl Hc.
  assert (all_lines g = true) as Hlg by (rewrite (all_lines_F2 _ _ H); exact Hl).
  pose proof (all_lines_nonempty g Hlg) as Hne.
  assert (closed_chain g = true) as Hcg by (eapply closed_chain_trel_back; eassumption).
  rewrite (jordan_pos_shoelace g Hlg Hcg), (jordan_pos_shoelace j Hl Hc).
  apply Qlt_bool_comp; [reflexivity|].
  rewrite (shoelace2_trel v g j H Hne).
  rewrite (shoelace2_aff_map _ _ _ _ _ _ (diag_padd v) g Hne Hcg), adet_translate. ring.
Qed.

Lemma simple_has_point_pos_self : forall j p b,
  simple_has_point_pos (jordan_pos j) j p b = simple_has_point j p b.
Proof. reflexivity. Qed.

(* C10: the answer depends only on the current geometry *)
Theorem h_curve_has_point_live : forall h c p b, Inv h -> cache_coherent h ->
  all_lines (geom h c) = true ->
  h_curve_has_point h c p b = simple_has_point (geom h c) p b.
Proof.
  intros h c p b HI Hc Hl. apply coh_iff in Hc. specialize (Hc c).
  rewrite <- simple_has_point_pos_self. unfold h_curve_has_point, h_float.
  rewrite h_fill_eq. fold (cacheof h c) in *.
  destruct (Inv_geom_jgood h c HI) as [_ Hcl].
  destruct (cacheof h c) as [g|] eqn:E.
  - fold (cacheof h c). rewrite E. rewrite (jordan_pos_translate g (geom h c)); auto.
  - destruct (Nat.lt_ge_cases c (length (hcurves h))) as [Hlt|Hge].
    + fold (cacheof (set_curve h c (mkC (segsof h c) (Some (geom h c)))) c).
      rewrite cacheof_set_cache_same by exact Hlt. reflexivity.
    + rewrite set_curve_oob by exact Hge. fold (cacheof h c). rewrite E. reflexivity.
Qed.
Theorem h_float_live_orientation : forall h c, Inv h -> cache_coherent h ->
  all_lines (geom h c) = true -> jordan_pos (snd (h_float h c)) = jordan_pos (geom h c).
Proof.
  intros h c HI Hc Hl. apply coh_iff in Hc. specialize (Hc c). unfold h_float. cbn [snd].
  rewrite h_fill_eq. destruct (Inv_geom_jgood h c HI) as [_ Hcl].
  destruct (cacheof h c) as [g|] eqn:E.
  - fold (cacheof h c). rewrite E. apply jordan_pos_translate; auto.
  - destruct (Nat.lt_ge_cases c (length (hcurves h))) as [Hlt|Hge].
    + fold (cacheof (set_curve h c (mkC (segsof h c) (Some (geom h c)))) c).
      rewrite cacheof_set_cache_same by exact Hlt. reflexivity.
    + rewrite set_curve_oob by exact Hge. fold (cacheof h c). rewrite E. reflexivity.
Qed.

(* ----- refutation witness for the unrepaired scale ----- *)
Definition unit_sq : jordan :=
  [[(0, 0); (1, 0)]; [(1, 0); (1, 1)]; [(1, 1); (0, 1)]; [(0, 1); (0, 0)]]%Q.
Definition stale_heap : heap :=
  let '(h1, x) := h_new hempty (SC (CS unit_sq)) in
  let h2 := h_fill_all h1 (hcurves_of x) in        (* float(curve): the cache is filled *)
  h_scale_stale (-1) 1 h2 x.                        (* reflection, cache kept *)
(* the reflected square is negatively oriented: it bounds the unbounded region.  A point
   outside the square belongs to it; the stale (positive) orientation answers "no".  (For a
   point inside the square both orientations answer "no": w = -2 is neither 2 nor 0.) *)
Example stale_scale_refuted :
  let h := stale_heap in
  let p := (5, 5)%Q in
  heap_wf h = true /\
  geom h 0 = [[(0, 0); (-1, 0)]; [(-1, 0); (-1, 1)]; [(-1, 1); (0, 1)]; [(0, 1); (0, 0)]]%Q /\
  option_map jordan_pos (cacheof h 0) = Some true /\
  jordan_pos (geom h 0) = false /\
  h_curve_has_point h 0 p false = false /\
  simple_has_point (geom h 0) p false = true.
Proof. vm_compute. repeat split. Qed.
Example stale_scale_incoherent : ~ cache_coherent stale_heap.
Proof.
  intros H. apply coh_iff in H. specialize (H 0).
  assert (cacheof stale_heap 0 = Some unit_sq) as E by (vm_compute; reflexivity).
  rewrite E in H.
  assert (jordan_pos unit_sq = jordan_pos (geom stale_heap 0)) as HP.
  { apply jordan_pos_translate; [exact H | vm_compute; reflexivity | vm_compute; reflexivity]. }
  vm_compute in HP. discriminate.
Qed.
(* the repaired scale on the same history *)
Example repaired_scale_ok :
  let '(h1, x) := h_new hempty (SC (CS unit_sq)) in
  let h := h_scale (-1) 1 (h_fill_all h1 (hcurves_of x)) x in
  let p := (5, 5)%Q in
  cacheof h 0 = None /\ h_curve_has_point h 0 p false = simple_has_point (geom h 0) p false.
Proof. vm_compute. split; reflexivity. Qed.

(* ------------------------------------------------------------------ *)
(* 6. splitting a curve in place                                       *)
(* ------------------------------------------------------------------ *)
Lemma NoDup_app_iff : forall {A} (l m : list A),
  NoDup (l ++ m) <-> NoDup l /\ NoDup m /\ (forall x, In x l -> ~ In x m).
Proof.
  intros A l m. induction l as [|a l IH]; cbn [app].
  - split; [intros H; repeat split; [constructor | exact H | intros x []] | intros (_ & H & _); exact H].
  - split.
    + intros H. inversion H as [|? ? Hn Hd]; subst. apply IH in Hd. destruct Hd as (H1 & H2 & H3).
      split; [constructor; [intros Hin; apply Hn, in_or_app; left; exact Hin | exact H1]|].
      split; [exact H2|]. intros x [<-|Hx]; [intros Hin; apply Hn, in_or_app; right; exact Hin | apply H3, Hx].
    + intros (H1 & H2 & H3). inversion H1 as [|? ? Hn Hd]; subst. constructor.
      * intros Hin. apply in_app_or in Hin. destruct Hin as [Hin|Hin]; [contradiction|].
        apply (H3 a); [left; reflexivity | exact Hin].
      * apply IH. split; [exact Hd|]. split; [exact H2|]. intros x Hx. apply H3. right; exact Hx.
Qed.

Lemma glue_cons2 : forall base first last s s' t,
  glue_pieces base first last (s :: s' :: t) =
  (let n := length s - 1 in
   let '(rest, pts) := glue_pieces (base + n) (base + n - 1) last (s' :: t) in
   ((first :: seq base n) :: rest, tl s ++ pts)).
Proof. reflexivity. Qed.

Definition pieces_ok (pieces : list seg) : Prop := forall s, In s pieces -> 2 <= length s.

Lemma removelast_cons_ne : forall {A} (a : A) l, l <> [] -> removelast (a :: l) = a :: removelast l.
Proof. intros A a [|b l] H; [congruence | reflexivity]. Qed.
Lemma tl_length : forall {A} (l : list A), length (tl l) = length l - 1.
Proof. intros A [|a l]; cbn; lia. Qed.

Lemma glue_spec : forall pieces base first last news pts,
  pieces_ok pieces -> pieces <> [] ->
  glue_pieces base first last pieces = (news, pts) ->
  length news = length pieces /\
  (forall x, In x news -> 2 <= length x) /\
  lpath first last news /\
  concat (map (@removelast ploc) news) = first :: seq base (length pts) /\
  (forall l, In l (concat news) -> l = first \/ l = last \/ base <= l < base + length pts).
Proof.
  induction pieces as [|s t IH]; intros base first last news pts Hok Hne H; [congruence|].
  assert (2 <= length s) as Hs by (apply Hok; left; reflexivity).
  destruct t as [|s' t'].
  - cbn [glue_pieces] in H. inversion H; subst. clear H.
    rewrite removelast_length, tl_length.
    split; [reflexivity|]. split; [|split; [|split]].
    + intros x [<-|[]]. cbn [length]. rewrite app_length, seq_length. cbn [length]. lia.
    + cbn [lpath hd]. split; [reflexivity|].
      change (first :: seq base (length s - 2) ++ [last])
        with ((first :: seq base (length s - 2)) ++ [last]). rewrite last_snoc. reflexivity.
    + cbn [map concat]. rewrite app_nil_r.
      change (first :: seq base (length s - 2) ++ [last])
        with ((first :: seq base (length s - 2)) ++ [last]). rewrite removelast_last.
      replace (length s - 1 - 1) with (length s - 2) by lia. reflexivity.
    + intros l Hl. cbn [concat] in Hl. rewrite app_nil_r in Hl. destruct Hl as [<-|Hl]; [left; reflexivity|].
      apply in_app_or in Hl. destruct Hl as [Hl|[<-|[]]]; [|right; left; reflexivity].
      apply in_seq in Hl. right; right. lia.
  - rewrite glue_cons2 in H. cbv zeta in H.
    destruct (glue_pieces (base + (length s - 1)) (base + (length s - 1) - 1) last (s' :: t'))
      as [rest pts'] eqn:E.
    inversion H; subst. clear H.
    assert (pieces_ok (s' :: t')) as Hok' by (intros y Hy; apply Hok; right; exact Hy).
    destruct (IH _ _ _ _ _ Hok' ltac:(discriminate) E) as (L & G2 & G3 & G4 & G5).
    rewrite app_length, tl_length.
    split; [cbn [length]; rewrite L; reflexivity|]. split; [|split; [|split]].
    + intros x [<-|Hx]; [|apply G2, Hx]. cbn [length]. rewrite seq_length. lia.
    + cbn [lpath hd]. split; [reflexivity|].
      replace (List.last (first :: seq base (length s - 1)) 0) with (base + (length s - 1) - 1); [exact G3|].
      replace (length s - 1) with (S (length s - 2)) by lia.
      rewrite seq_S. change (first :: seq base (length s - 2) ++ [base + (length s - 2)])
        with ((first :: seq base (length s - 2)) ++ [base + (length s - 2)]).
      rewrite last_snoc. lia.
    + cbn [map concat]. rewrite G4.
      rewrite removelast_cons_ne by (destruct (length s - 1) eqn:En; [lia | discriminate]).
      replace (length s - 1) with (S (length s - 2)) at 1 by lia.
      rewrite seq_S, removelast_last. cbn [app]. f_equal.
      replace (base + (length s - 1) - 1) with (base + (length s - 2)) by lia.
      replace (length s - 1 + length pts') with ((length s - 2) + S (length pts')) by lia.
      rewrite seq_app. f_equal. cbn [seq]. f_equal. f_equal. lia.
    + intros l Hl. cbn [concat] in Hl. apply in_app_or in Hl. destruct Hl as [[<-|Hl]|Hl].
      * left; reflexivity.
      * apply in_seq in Hl. right; right. lia.
      * apply G5 in Hl. destruct Hl as [->|[->|Hl]]; [right; right; lia | right; left; reflexivity | right; right; lia].
Qed.

Lemma in_concat_removelast : forall (L : list (list ploc)) l,
  In l (concat (map (@removelast ploc) L)) -> In l (concat L).
Proof.
  intros L l H. apply in_concat in H. destruct H as (x & Hx & Hl).
  apply in_map_iff in Hx. destruct Hx as (s & <- & Hs).
  apply in_concat. exists s. split; [exact Hs | apply in_removelast, Hl].
Qed.
Lemma hd_In : forall (s : list nat), s <> [] -> In (hd 0 s) s.
Proof. intros [|a s] H; [congruence | left; reflexivity]. Qed.
Lemma last_In : forall (s : list nat), s <> [] -> In (last s 0) s.
Proof.
  intros s H. rewrite (app_removelast_last 0 H) at 2. apply in_or_app. right. left. reflexivity.
Qed.
Lemma closedL_intro : forall L a, L <> [] -> lpath a a L -> closedL L.
Proof. intros [|s t] a Hne H; [congruence|]. cbn [closedL]. pose proof H as [E _]. rewrite E. exact H. Qed.
Lemma closedL_elim : forall L, L <> [] -> closedL L -> exists a, lpath a a L.
Proof. intros [|s t] Hne H; [congruence|]. exists (hd 0 s). exact H. Qed.
Lemma lpath_nonempty_hd : forall L a b, L <> [] -> lpath a b L -> hd 0 (hd [] L) = a.
Proof. intros [|s t] a b Hne H; [congruence|]. destruct H as [E _]. exact E. Qed.

Lemma curve_ok_replace : forall n k A old B news,
  curve_ok n (A ++ old :: B) ->
  news <> [] -> (forall x, In x news -> 2 <= length x) ->
  lpath (hd 0 old) (last old 0) news ->
  concat (map (@removelast ploc) news) = hd 0 old :: seq n k ->
  (forall l, In l (concat news) -> l = hd 0 old \/ l = last old 0 \/ n <= l < n + k) ->
  curve_ok (n + k) (A ++ news ++ B).
Proof.
  intros n k A old B news [H1 H2 H3 H4] Hne G2 G3 G4 G5. unfold ploc in *.
  assert (2 <= length old) as Hold by (apply H2, in_or_app; right; left; reflexivity).
  assert (old <> []) as Hold' by (apply len2_ne, Hold).
  assert (forall l, In l old -> l < n) as Hin_old.
  { intros l Hl. apply H1. rewrite concat_app. apply in_or_app. right. cbn [concat].
    apply in_or_app. left. exact Hl. }
  split.
  - intros l Hl. rewrite !concat_app in Hl. apply in_app_or in Hl. destruct Hl as [Hl|Hl].
    + assert (l < n); [|lia]. apply H1. rewrite concat_app. apply in_or_app. left. exact Hl.
    + apply in_app_or in Hl. destruct Hl as [Hl|Hl].
      * apply G5 in Hl. destruct Hl as [->|[->|Hl]]; [| |lia].
        -- pose proof (Hin_old _ (hd_In old Hold')). lia.
        -- pose proof (Hin_old _ (last_In old Hold')). lia.
      * assert (l < n); [|lia]. apply H1. rewrite concat_app. apply in_or_app. right.
        cbn [concat]. apply in_or_app. right. exact Hl.
  - intros s Hs. apply in_app_or in Hs. destruct Hs as [Hs|Hs].
    + apply H2, in_or_app. left. exact Hs.
    + apply in_app_or in Hs. destruct Hs as [Hs|Hs]; [apply G2, Hs|].
      apply H2, in_or_app. right. right. exact Hs.
  - assert (A ++ old :: B <> []) as Hn by (destruct A; discriminate).
    destruct (closedL_elim _ Hn H3) as (a & Hp).
    apply lpath_app in Hp. destruct Hp as (m & Hp1 & Hp2). destruct Hp2 as [E Hp2].
    apply (closedL_intro _ a); [destruct A; [destruct news; [congruence|discriminate]|discriminate]|].
    apply lpath_app. exists m. split; [exact Hp1|]. apply lpath_app. exists (last old 0).
    split; [rewrite <- E; exact G3 | exact Hp2].
  - unfold ploc. rewrite !map_app, !concat_app, G4. rewrite !map_app, !concat_app in H4. cbn [map concat] in H4.
    assert (removelast old = hd 0 old :: tl (removelast old)) as Erl.
    { destruct old as [|a [|b r]]; cbn [length] in Hold; try lia. reflexivity. }
    rewrite Erl in H4.
    apply NoDup_app_iff in H4. destruct H4 as (NA & NR & DA).
    change ((hd 0 old :: tl (removelast old)) ++ concat (map (@removelast ploc) B))
      with (hd 0 old :: (tl (removelast old) ++ concat (map (@removelast ploc) B))) in NR, DA.
    inversion NR as [|? ? Nh NR']; subst.
    apply NoDup_app_iff in NR'. destruct NR' as (_ & NB & _).
    assert (forall l, In l (concat (map (@removelast ploc) A)) -> l < n) as LA.
    { intros l Hl. apply H1. rewrite concat_app. apply in_or_app. left.
      apply in_concat_removelast, Hl. }
    assert (forall l, In l (concat (map (@removelast ploc) B)) -> l < n) as LB.
    { intros l Hl. apply H1. rewrite concat_app. apply in_or_app. right. cbn [concat].
      apply in_or_app. right. apply in_concat_removelast, Hl. }
    apply NoDup_app_iff. split; [exact NA|]. split.
    + change ((hd 0 old :: seq n k) ++ concat (map (@removelast ploc) B))
        with (hd 0 old :: (seq n k ++ concat (map (@removelast ploc) B))).
      constructor.
      * intros Hin. apply in_app_or in Hin. destruct Hin as [Hin|Hin].
        -- apply in_seq in Hin. pose proof (Hin_old _ (hd_In old Hold')). lia.
        -- apply Nh. apply in_or_app. right. exact Hin.
      * apply NoDup_app_iff. split; [apply seq_NoDup|]. split; [exact NB|].
        intros x Hx Hx'. apply in_seq in Hx. apply LB in Hx'. lia.
    + intros x Hx Hin.
      change ((hd 0 old :: seq n k) ++ concat (map (@removelast ploc) B))
        with (hd 0 old :: (seq n k ++ concat (map (@removelast ploc) B))) in Hin.
      destruct Hin as [<-|Hin]; [apply (DA _ Hx); left; reflexivity|].
      apply in_app_or in Hin. destruct Hin as [Hin|Hin].
      * apply in_seq in Hin. apply LA in Hx. lia.
      * apply (DA _ Hx). right. apply in_or_app. right. exact Hin.
Qed.

(* h' differs from h only by new objects, new curves, and the curves in C *)
Definition modifies (C : nat -> Prop) (h h' : heap) : Prop :=
  (exists ps, hpts h' = hpts h ++ ps) /\
  length (hcurves h) <= length (hcurves h') /\
  (forall c', ~ C c' -> c' < length (hcurves h) -> segsof h' c' = segsof h c') /\
  (forall c', length (segsof h c') <= length (segsof h' c')).
Lemma modifies_refl : forall C h, modifies C h h.
Proof.
  intros C h. split; [exists []; symmetry; apply app_nil_r|]. split; [lia|]. split; [reflexivity|].
  intros; lia.
Qed.
Lemma modifies_trans : forall C h1 h2 h3, modifies C h1 h2 -> modifies C h2 h3 -> modifies C h1 h3.
Proof.
  intros C h1 h2 h3 ((p1 & E1) & L1 & S1 & G1) ((p2 & E2) & L2 & S2 & G2).
  split; [exists (p1 ++ p2); rewrite E2, E1, app_assoc; reflexivity|]. split; [lia|]. split.
  - intros c' Hc Hlt. rewrite S2 by (try assumption; lia). apply S1; assumption.
  - intros c'. specialize (G1 c'). specialize (G2 c'). lia.
Qed.
Lemma modifies_mono : forall (C D : nat -> Prop) h h', (forall c, C c -> D c) ->
  modifies C h h' -> modifies D h h'.
Proof.
  intros C D h h' H (P & L & S & G). split; [exact P|]. split; [exact L|]. split; [|exact G].
  intros c' Hc. apply S. intros HC. apply Hc, H, HC.
Qed.
Lemma hext_modifies : forall C h h', hext h h' -> modifies C h h'.
Proof.
  intros C h h' He. pose proof He as [P _]. split; [exact P|]. split; [apply hext_curves_le, He|]. split.
  - intros c' _ Hlt. apply hext_segsof; assumption.
  - intros c'. destruct (Nat.lt_ge_cases c' (length (hcurves h))) as [Hlt|Hge].
    + rewrite (hext_segsof h h') by assumption. lia.
    + rewrite (segsof_oob h) by exact Hge. cbn [length]. lia.
Qed.
Lemma modifies_pts_le : forall C h h', modifies C h h' -> length (hpts h) <= length (hpts h').
Proof. intros C h h' ((p & E) & _). rewrite E, app_length. lia. Qed.
Lemma modifies_pval : forall C h h' l, modifies C h h' -> l < length (hpts h) -> pval h' l = pval h l.
Proof. intros C h h' l ((p & E) & _) H. unfold pval. rewrite E. apply app_nth1, H. Qed.
Lemma modifies_geom : forall C h h' c', modifies C h h' -> Inv h -> ~ C c' ->
  c' < length (hcurves h) -> geom h' c' = geom h c'.
Proof.
  intros C h h' c' M HI Hc Hlt. pose proof M as (_ & _ & S & _).
  apply geom_ext; [apply S; assumption|].
  intros l Hl. eapply modifies_pval; [exact M | apply (Inv_locs_lt h c' HI), Hl].
Qed.

Lemma nth_split_list : forall {A} (L : list A) i d, i < length L ->
  L = firstn i L ++ nth i L d :: skipn (S i) L.
Proof.
  intros A L. induction L as [|a L IH]; intros i d H; [cbn in H; lia|].
  destruct i as [|i]; [reflexivity|]. cbn [firstn nth skipn app]. f_equal. apply IH.
  cbn [length] in H. lia.
Qed.

Lemma h_split_segment_short : forall h c i pieces, length pieces <= 1 ->
  h_split_segment h c i pieces = h.
Proof. intros h c i [|p1 [|p2 ps]] H; try reflexivity. cbn [length] in H. lia. Qed.
Lemma h_split_segment_eq : forall h c i p1 p2 ps news pts,
  glue_pieces (length (hpts h)) (hd 0 (nth i (segsof h c) [])) (last (nth i (segsof h c) []) 0)
              (p1 :: p2 :: ps) = (news, pts) ->
  h_split_segment h c i (p1 :: p2 :: ps) =
  mkH (hpts h ++ pts)
      (set_nth c (mkC (firstn i (segsof h c) ++ news ++ skipn (S i) (segsof h c)) None) (hcurves h)).
Proof.
  intros h c i p1 p2 ps news pts H. unfold h_split_segment.
  fold (segsof h c). unfold ploc in *. rewrite H. reflexivity.
Qed.

Theorem h_split_segment_spec : forall h c i pieces,
  Inv h -> c < length (hcurves h) -> i < length (segsof h c) -> pieces_ok pieces ->
  let h' := h_split_segment h c i pieces in
  Inv h' /\ modifies (eq c) h h' /\ length (hcurves h') = length (hcurves h) /\
  (forall c', c' <> c -> cacheof h' c' = cacheof h c') /\
  (2 <= length pieces -> cacheof h' c = None /\
     length (segsof h' c) = length (segsof h c) + length pieces - 1).
Proof.
  intros h c i pieces HI Hc Hi Hok h'.
  destruct (Nat.le_gt_cases (length pieces) 1) as [Hshort|Hlong].
  { subst h'. rewrite h_split_segment_short by exact Hshort.
    split; [exact HI|]. split; [apply modifies_refl|]. split; [reflexivity|]. split; [reflexivity|].
    intros; lia. }
  destruct pieces as [|p1 [|p2 ps]]; cbn [length] in Hlong; try lia.
  set (L := segsof h c) in *. set (old := nth i L []).
  destruct (glue_pieces (length (hpts h)) (hd 0 old) (last old 0) (p1 :: p2 :: ps)) as [news pts] eqn:E.
  assert (h' = mkH (hpts h ++ pts)
                   (set_nth c (mkC (firstn i L ++ news ++ skipn (S i) L) None) (hcurves h))) as Eh
    by (apply h_split_segment_eq; exact E).
  clearbody h'. subst h'.
  destruct (glue_spec _ _ _ _ _ _ Hok ltac:(discriminate) E) as (GL & G2 & G3 & G4 & G5).
  set (h' := mkH (hpts h ++ pts) (set_nth c (mkC (firstn i L ++ news ++ skipn (S i) L) None) (hcurves h))).
  assert (curve_at h' c = mkC (firstn i L ++ news ++ skipn (S i) L) None) as Hat.
  { unfold curve_at, h'. cbn [hcurves]. apply set_nth_nth_same. exact Hc. }
  assert (forall c', c' <> c -> curve_at h' c' = curve_at h c') as Hother.
  { intros c' Hne. unfold curve_at, h'. cbn [hcurves]. apply set_nth_nth_other. auto. }
  assert (segsof h' c = firstn i L ++ news ++ skipn (S i) L) as Hseg
    by (unfold segsof; rewrite Hat; reflexivity).
  assert (length (hpts h') = length (hpts h) + length pts) as Hpts
    by (unfold h'; cbn [hpts]; apply app_length).
  assert (news <> []) as Hnews by (destruct news; [cbn [length] in GL; lia | discriminate]).
  pose proof (nth_split_list L i [] Hi) as HL. fold old in HL.
  assert (curve_ok (length (hpts h')) (segsof h' c)) as Hok'.
  { rewrite Hseg, Hpts. apply (curve_ok_replace _ _ _ old); try assumption.
    rewrite <- HL. destruct HI as [H1 _]. apply H1. }
  assert (length (firstn i L ++ news ++ skipn (S i) L) = length L + length (p1 :: p2 :: ps) - 1) as Hlen.
  { rewrite HL at 3. rewrite !app_length, GL. cbn [length]. lia. }
  split; [|split; [|split; [|split]]].
  - apply (Inv_step h h' c HI).
    + lia.
    + intros c' Hne. unfold segsof. rewrite Hother by exact Hne. reflexivity.
    + exact Hok'.
    + intros l Hl. rewrite Hseg in Hl. fold L. rewrite HL at 1.
      rewrite !concat_app in Hl. rewrite !concat_app. cbn [concat].
      apply in_app_or in Hl. destruct Hl as [Hl|Hl]; [left; apply in_or_app; left; exact Hl|].
      apply in_app_or in Hl. destruct Hl as [Hl|Hl].
      * assert (old <> []) as Hold.
        { apply len2_ne. destruct HI as [H1 _]. apply (ck_len _ _ (H1 c)). fold L. rewrite HL.
          apply in_or_app. right. left. reflexivity. }
        apply G5 in Hl. destruct Hl as [->|[->|Hl]]; [| |right; lia].
        -- left. apply in_or_app. right. apply in_or_app. left. apply hd_In, Hold.
        -- left. apply in_or_app. right. apply in_or_app. left. apply last_In, Hold.
      * left. apply in_or_app. right. apply in_or_app. right. exact Hl.
  - split; [exists pts; reflexivity|]. split; [unfold h'; cbn [hcurves]; rewrite set_nth_length; lia|].
    split.
    + intros c' Hne _. unfold segsof. rewrite Hother by auto. reflexivity.
    + intros c'. destruct (Nat.eq_dec c' c) as [->|Hne].
      * rewrite Hseg. fold L. rewrite Hlen. cbn [length]. lia.
      * unfold segsof. rewrite Hother by exact Hne. lia.
  - unfold h'. cbn [hcurves]. apply set_nth_length.
  - intros c' Hne. unfold cacheof. rewrite Hother by exact Hne. reflexivity.
  - intros _. split; [unfold cacheof; rewrite Hat; reflexivity|]. rewrite Hseg. exact Hlen.
Qed.

Lemma coh_modifies_one : forall h h' c, Inv h -> coh h -> modifies (eq c) h h' ->
  (forall c', c' <> c -> cacheof h' c' = cacheof h c') -> cacheof h' c = None -> coh h'.
Proof.
  intros h h' c HI Hc M Hother Hnone c'. destruct (Nat.eq_dec c' c) as [->|Hne].
  - rewrite Hnone. exact I.
  - rewrite Hother by exact Hne. destruct (Nat.lt_ge_cases c' (length (hcurves h))) as [Hlt|Hge].
    + rewrite (modifies_geom (eq c) h h') by (try assumption; intros E; apply Hne; symmetry; exact E).
      apply Hc.
    + rewrite cacheof_oob by exact Hge. exact I.
Qed.

(* H5/H6: one in-place split keeps the invariant and coherence, and touches only curve c *)
Definition SplitPost (C : nat -> Prop) (h h' : heap) : Prop :=
  Inv h' /\ coh h' /\ modifies C h h' /\ length (hcurves h') = length (hcurves h).
Lemma SplitPost_refl : forall C h, Inv h -> coh h -> SplitPost C h h.
Proof. intros C h HI Hc. split; [exact HI|]. split; [exact Hc|]. split; [apply modifies_refl | reflexivity]. Qed.
Lemma SplitPost_trans : forall C h1 h2 h3, SplitPost C h1 h2 -> SplitPost C h2 h3 -> SplitPost C h1 h3.
Proof.
  intros C h1 h2 h3 (_ & _ & M1 & L1) (I2 & C2 & M2 & L2).
  split; [exact I2|]. split; [exact C2|]. split; [eapply modifies_trans; eassumption | congruence].
Qed.
Lemma SplitPost_mono : forall (C D : nat -> Prop) h h', (forall c, C c -> D c) ->
  SplitPost C h h' -> SplitPost D h h'.
Proof.
  intros C D h h' H (I1 & C1 & M1 & L1). split; [exact I1|]. split; [exact C1|].
  split; [eapply modifies_mono; eassumption | exact L1].
Qed.

Theorem h_split_segment_post : forall h c i pieces,
  Inv h -> coh h -> c < length (hcurves h) -> i < length (segsof h c) -> pieces_ok pieces ->
  SplitPost (eq c) h (h_split_segment h c i pieces).
Proof.
  intros h c i pieces HI Hc Hlt Hi Hok.
  destruct (Nat.le_gt_cases (length pieces) 1) as [Hshort|Hlong].
  - rewrite h_split_segment_short by exact Hshort. apply SplitPost_refl; assumption.
  - destruct (h_split_segment_spec h c i pieces HI Hlt Hi Hok) as (I1 & M1 & L1 & O1 & N1).
    destruct (N1 ltac:(lia)) as [N _].
    split; [exact I1|]. split; [|split; assumption].
    exact (coh_modifies_one h _ c HI Hc M1 O1 N).
Qed.

Lemma run_steps_cons : forall f l h, run_steps (f :: l) h = run_steps l (f h).
Proof. reflexivity. Qed.
Lemma run_steps_app : forall l1 l2 h, run_steps (l1 ++ l2) h = run_steps l2 (run_steps l1 h).
Proof. intros. unfold run_steps. apply fold_left_app. Qed.

Lemma split_steps_spec : forall c groups i shift h,
  Inv h -> coh h -> c < length (hcurves h) -> (forall g, In g groups -> pieces_ok g) ->
  i + shift + length groups <= length (segsof h c) ->
  SplitPost (eq c) h (run_steps (split_steps c i shift groups) h).
Proof.
  intros c groups. induction groups as [|g t IH]; intros i shift h HI Hc Hlt Hok Hb.
  - apply SplitPost_refl; assumption.
  - assert (forall g', In g' t -> pieces_ok g') as Hok' by (intros g' Hg'; apply Hok; right; exact Hg').
    cbn [length] in Hb.
    destruct (Nat.le_gt_cases (length g) 1) as [Hshort|Hlong].
    + assert (split_steps c i shift (g :: t) = split_steps c (S i) shift t) as ->
        by (destruct g as [|p1 [|p2 ps]]; cbn [length] in Hshort; try lia; reflexivity).
      apply IH; try assumption. lia.
    + assert (split_steps c i shift (g :: t) =
              (fun h => h_split_segment h c (i + shift) g)
                :: split_steps c (S i) (shift + (length g - 1)) t) as ->
        by (destruct g as [|p1 [|p2 ps]]; cbn [length] in Hlong; try lia; reflexivity).
      rewrite run_steps_cons.
      assert (pieces_ok g) as Hg by (apply Hok; left; reflexivity).
      pose proof (h_split_segment_post h c (i + shift) g HI Hc Hlt ltac:(lia) Hg) as P1.
      destruct (h_split_segment_spec h c (i + shift) g HI Hlt ltac:(lia) Hg) as (_ & _ & _ & _ & N1).
      destruct (N1 ltac:(lia)) as [_ N].
      eapply SplitPost_trans; [exact P1|].
      destruct P1 as (I1 & C1 & _ & L1).
      apply IH; try assumption; [rewrite L1; exact Hlt | rewrite N; lia].
Qed.

Lemma split_groups_spec : forall j idx nodes gs, split_groups j idx nodes = Ok gs ->
  length gs = length j /\ (seg_ok j -> forall g, In g gs -> pieces_ok g).
Proof.
  intros j idx nodes gs H. unfold split_groups in H.
  inv_bind H. inv_bind H. inv_bind H. split.
  - apply mapM_Forall2 in H. apply Forall2_length in H. rewrite <- H, combine_length, seq_length.
    apply Nat.min_id.
  - intros Hj g Hg. destruct (mapM_ok_in _ _ _ H g Hg) as ([k s] & Hin & Hf).
    apply in_combine_r in Hin.
    destruct (map snd (filter (fun iu : nat * Q => Nat.eqb (fst iu) k) (split_pairs idx nodes)))
      as [|n ns] eqn:En.
    + inversion Hf; subst. intros x [<-|[]]. apply Hj, Hin.
    + intros x Hx. eapply split_segment_ok; [apply Hj, Hin | exact Hf | exact Hx].
Qed.

Lemma geom_length : forall h c, length (geom h c) = length (segsof h c).
Proof. intros. rewrite geom_segsof. apply map_length. Qed.

Theorem split_two_steps_spec : forall h ca cb st, Inv h -> coh h ->
  ca < length (hcurves h) -> cb < length (hcurves h) ->
  split_two_steps h ca cb = Ok st ->
  SplitPost (fun c => c = ca \/ c = cb) h (run_steps st h).
Proof.
  intros h ca cb st HI Hc Ha Hb H. unfold split_two_steps in H.
  destruct (box_and (jordan_box (geom h ca)) (jordan_box (geom h cb))) as [bx|].
  2:{ inversion H; subst. apply SplitPost_refl; assumption. }
  inv_bind H. inv_bind H. inv_bind H. inversion H; subst. clear H.
  destruct (split_groups_spec _ _ _ _ Hv0) as [La Oa].
  destruct (split_groups_spec _ _ _ _ Hv1) as [Lb Ob].
  destruct (Inv_geom_jgood h ca HI) as [Sa _]. destruct (Inv_geom_jgood h cb HI) as [Sb _].
  rewrite run_steps_app.
  assert (SplitPost (eq ca) h (run_steps (split_steps ca 0 0 v0) h)) as P1.
  { apply split_steps_spec; try assumption; [apply Oa, Sa|]. rewrite La, geom_length. lia. }
  eapply SplitPost_trans.
  - eapply SplitPost_mono; [|exact P1]. intros c <-. left; reflexivity.
  - destruct P1 as (I1 & C1 & M1 & L1).
    eapply SplitPost_mono; [|apply split_steps_spec; try assumption].
    + intros c <-. right; reflexivity.
    + rewrite L1. exact Hb.
    + apply Ob, Sb.
    + destruct M1 as (_ & _ & _ & G). specialize (G cb). rewrite Lb, geom_length. lia.
Qed.

Theorem h_split_all_pairs_spec : forall pairs h h', Inv h -> coh h ->
  (forall p, In p pairs -> fst p < length (hcurves h) /\ snd p < length (hcurves h)) ->
  h_split_all_pairs h pairs = Ok h' ->
  SplitPost (fun c => exists p, In p pairs /\ (c = fst p \/ c = snd p)) h h'.
Proof.
  induction pairs as [|[ca cb] t IH]; intros h h' HI Hc Hr H; cbn [h_split_all_pairs] in H.
  - inversion H; subst. apply SplitPost_refl; assumption.
  - inv_bind H. destruct (Hr (ca, cb) ltac:(left; reflexivity)) as [Ha Hb]. cbn [fst snd] in Ha, Hb.
    pose proof (split_two_steps_spec h ca cb v HI Hc Ha Hb Hv) as P1.
    eapply SplitPost_trans.
    + eapply SplitPost_mono; [|exact P1]. intros c Hcc. exists (ca, cb). split; [left; reflexivity | exact Hcc].
    + destruct P1 as (I1 & C1 & M1 & L1).
      eapply SplitPost_mono; [|apply (IH _ _ I1 C1); [|exact H]].
      * intros c (p & Hp & Hcp). exists p. split; [right; exact Hp | exact Hcp].
      * intros p Hp. rewrite L1. apply Hr. right; exact Hp.
Qed.

Lemma in_all_pairs : forall xs ys p, In p (all_pairs xs ys) -> In (fst p) xs /\ In (snd p) ys.
Proof.
  intros xs ys p H. unfold all_pairs in H. apply in_concat in H. destruct H as (l & Hl & Hp).
  apply in_map_iff in Hl. destruct Hl as (x & <- & Hx).
  apply in_map_iff in Hp. destruct Hp as (y & <- & Hy). split; assumption.
Qed.

(* ------------------------------------------------------------------ *)
(* 7. operators                                                        *)
(* ------------------------------------------------------------------ *)
Lemma comp_jordans_denot : forall h c, comp_jordans (denot_comp h c) = map (geom h) (hcomp_curves c).
Proof. intros h [k|ks]; reflexivity. Qed.
Lemma jordans_denot : forall h x, jordans (denot h x) = map (geom h) (hcurves_of x).
Proof.
  intros h [| |c|cs]; cbn [denot jordans hcurves_of]; try reflexivity.
  - apply comp_jordans_denot.
  - rewrite map_map, concat_map, map_map. f_equal. apply map_ext. intros c. apply comp_jordans_denot.
Qed.
Lemma denot_good : forall h x, Inv h -> good (jordans (denot h x)).
Proof.
  intros h x HI. apply good_Forall. rewrite jordans_denot. apply Forall_forall.
  intros j Hj. apply in_map_iff in Hj. destruct Hj as (c & <- & _). apply Inv_geom_jgood, HI.
Qed.
Lemma mv_op_good : forall o a b r, mv_op o a b = Ok r -> good (jordans a) -> good (jordans b) ->
  good (jordans r).
Proof.
  intros o a b r H Ha Hb. destruct o; cbn [mv_op] in H; inv_bind H.
  - destruct v as [[a' b'] s]. inversion H; subst. eapply op_or_good; eassumption.
  - destruct v as [[a' b'] s]. inversion H; subst. eapply op_and_good; eassumption.
  - destruct v as [a' s]. inversion H; subst. eapply op_sub_good; eassumption.
  - destruct v as [[a' b'] s]. inversion H; subst.
    destruct (op_xor_good _ _ _ _ _ Hv Ha Hb) as (_ & G & _). exact G.
Qed.

Definition MidPost (C : nat -> Prop) (h h' : heap) : Prop := Inv h' /\ coh h' /\ modifies C h h'.
Lemma MidPost_refl : forall C h, Inv h -> coh h -> MidPost C h h.
Proof. intros C h HI Hc. split; [exact HI|]. split; [exact Hc | apply modifies_refl]. Qed.
Lemma MidPost_trans : forall C h1 h2 h3, MidPost C h1 h2 -> MidPost C h2 h3 -> MidPost C h1 h3.
Proof.
  intros C h1 h2 h3 (_ & _ & M1) (I2 & C2 & M2).
  split; [exact I2|]. split; [exact C2 | eapply modifies_trans; eassumption].
Qed.
Lemma MidPost_mono : forall (C D : nat -> Prop) h h', (forall c, C c -> D c) ->
  MidPost C h h' -> MidPost D h h'.
Proof.
  intros C D h h' H (I1 & C1 & M1). split; [exact I1|]. split; [exact C1|].
  eapply modifies_mono; eassumption.
Qed.
Lemma SplitPost_MidPost : forall C h h', SplitPost C h h' -> MidPost C h h'.
Proof. intros C h h' (I1 & C1 & M1 & _). split; [exact I1|]. split; assumption. Qed.
Lemma alloc_MidPost : forall C s h h' x, Inv h -> coh h -> segs_ok (jordans s) ->
  alloc_shape h s = (h', x) -> MidPost C h h'.
Proof.
  intros C s h h' x HI Hc Hok H. destruct (alloc_shape_spec _ _ _ _ HI Hok H) as (I1 & E & _).
  split; [exact I1|]. split; [eapply coh_hext; eassumption | apply hext_modifies, E].
Qed.
Lemma fill_all_MidPost : forall C h cs, Inv h -> coh h -> MidPost C h (h_fill_all h cs).
Proof.
  intros C h cs HI Hc. split; [apply h_fill_all_Inv, HI|]. split; [apply h_fill_all_coh, Hc|].
  split; [exists []; rewrite h_fill_all_pts, app_nil_r; reflexivity|].
  split; [rewrite h_fill_all_ncurves; lia|]. split.
  - intros c' _ _. apply h_fill_all_segsof.
  - intros c'. rewrite h_fill_all_segsof. lia.
Qed.

(* a & ~b : ~b is allocated fresh, a is split against it *)
Lemma sub_stage : forall h cx nb ha nbx (s2 : bool) h1, Inv h -> coh h -> good (jordans nb) ->
  (forall c, In c cx -> c < length (hcurves h)) ->
  alloc_shape h nb = (ha, nbx) ->
  (if s2 then Ok ha else h_split_all_pairs ha (all_pairs cx (hcurves_of nbx))) = Ok h1 ->
  MidPost (fun c => In c cx \/ length (hcurves h) <= c) h h1.
Proof.
  intros h cx nb ha nbx s2 h1 HI Hc [Hok _] Hr Ea H.
  destruct (alloc_shape_spec _ _ _ _ HI Hok Ea) as (Ia & Ea' & _ & La & Ra & _).
  pose proof (alloc_MidPost (fun c => In c cx \/ length (hcurves h) <= c) _ _ _ _ HI Hc Hok Ea) as P1.
  destruct s2.
  - inversion H; subst. exact P1.
  - eapply MidPost_trans; [exact P1|]. destruct P1 as (_ & Ca & _).
    eapply MidPost_mono;
      [|apply SplitPost_MidPost; eapply h_split_all_pairs_spec; [exact Ia|exact Ca| |exact H]].
    + intros c (p & Hp & Hcp). apply in_all_pairs in Hp. destruct Hp as [Hp1 Hp2].
      destruct Hcp as [->| ->]; [left; exact Hp1 | right; apply Ra, Hp2].
    + intros p Hp. apply in_all_pairs in Hp. destruct Hp as [Hp1 Hp2]. split.
      * apply Hr in Hp1. lia.
      * apply Ra, Hp2.
Qed.

(* the curves an operator may split in place: those of the first operand, those of the second
   operand (not for `-`, whose second operand is only read), and curves allocated meanwhile *)
Definition binC (o : bop) (h : heap) (x y : hshape) (c : nat) : Prop :=
  In c (hcurves_of x) \/ (match o with BSub => False | _ => In c (hcurves_of y) end) \/
  length (hcurves h) <= c.

Theorem h_binop_spec : forall o h x y h' z, Inv h -> coh h ->
  (forall c, In c (hcurves_of x) -> c < length (hcurves h)) ->
  (forall c, In c (hcurves_of y) -> c < length (hcurves h)) ->
  h_binop o h x y = Ok (h', z) ->
  exists h2 r,
    MidPost (binC o h x y) h h2 /\
    segs_ok (jordans r) /\ alloc_shape h2 r = (h', z).
Proof.
  intros o h x y h' z HI Hc Hx Hy H. unfold h_binop in H.
  inv_bind H. inv_bind H. inv_bind H. inversion H as [Halloc]. clear H.
  assert (MidPost (binC o h x y) h v1) as P1.
  { destruct v0; [inversion Hv1; subst; apply MidPost_refl; assumption|].
    destruct o.
    - eapply MidPost_mono;
        [|apply SplitPost_MidPost; eapply h_split_all_pairs_spec; [exact HI|exact Hc| |exact Hv1]].
      + intros c (p & Hp & Hcp). apply in_all_pairs in Hp. destruct Hp as [Hp1 Hp2]. unfold binC.
        destruct Hcp as [->| ->]; auto.
      + intros p Hp. apply in_all_pairs in Hp. destruct Hp as [Hp1 Hp2]. auto.
    - eapply MidPost_mono;
        [|apply SplitPost_MidPost; eapply h_split_all_pairs_spec; [exact HI|exact Hc| |exact Hv1]].
      + intros c (p & Hp & Hcp). apply in_all_pairs in Hp. destruct Hp as [Hp1 Hp2]. unfold binC.
        destruct Hcp as [->| ->]; auto.
      + intros p Hp. apply in_all_pairs in Hp. destruct Hp as [Hp1 Hp2]. auto.
    - inv_bind Hv1. destruct (alloc_shape h v0) as [ha nbx] eqn:Ea. inv_bind Hv1.
      assert (good (jordans v0)) as Gnb by (eapply op_not_good; [exact Hv2 | apply denot_good, HI]).
      eapply MidPost_mono; [|exact (sub_stage _ _ _ _ _ _ _ HI Hc Gnb Hx Ea Hv1)].
      intros c [Hin|Hge]; unfold binC; auto.
    - inv_bind Hv1. destruct (alloc_shape h v0) as [ha nbx] eqn:Ea. inv_bind Hv1. inv_bind Hv1.
      inv_bind Hv1. destruct (alloc_shape v3 v4) as [h3 nax] eqn:Ea2. inv_bind Hv1.
      assert (good (jordans v0)) as Gnb by (eapply op_not_good; [exact Hv2 | apply denot_good, HI]).
      pose proof (sub_stage _ _ _ _ _ _ _ HI Hc Gnb Hx Ea Hv4) as S1.
      pose proof S1 as (I3 & C3 & M3).
      assert (good (jordans v4)) as Gna by (eapply op_not_good; [exact Hv5 | apply denot_good, I3]).
      assert (forall c, In c (hcurves_of y) -> c < length (hcurves v3)) as Hy'.
      { intros c Hin. apply Hy in Hin. destruct M3 as (_ & L & _). lia. }
      pose proof (sub_stage _ _ _ _ _ _ _ I3 C3 Gna Hy' Ea2 Hv1) as S2.
      eapply MidPost_trans.
      + eapply MidPost_mono; [|exact S1]. intros c [Hin|Hge]; unfold binC; auto.
      + eapply MidPost_mono; [|exact S2]. intros c [Hin|Hge]; unfold binC; auto.
        destruct M3 as (_ & L & _). right; right. lia. }
  exists (h_fill_all v1 (hcurves_of x ++ hcurves_of y)), v. split; [|split].
  - eapply MidPost_trans; [exact P1|]. destruct P1 as (I1 & C1 & _). apply fill_all_MidPost; assumption.
  - destruct (mv_op_good _ _ _ _ Hv (denot_good h x HI) (denot_good h y HI)) as [G _]. exact G.
  - first [exact Halloc | reflexivity].
Qed.

(* ------------------------------------------------------------------ *)
(* 8. H6: histories                                                    *)
(* ------------------------------------------------------------------ *)
(* the shapes handed to the constructors have segments of at least two control points *)
Definition op_ok (o : hop) : Prop :=
  match o with ONew s => segs_ok (jordans s) | _ => True end.
Definition ops_ok (ops : list hop) : Prop := Forall op_ok ops.
Definition reachable (st : hstate) : Prop :=
  exists ops, ops_ok ops /\ run_history (hempty, []) ops = Ok st.

Definition vars_in_range (st : hstate) : Prop :=
  forall x c, In c (hcurves_of (var st x)) -> c < length (hcurves (fst st)).
Definition vars_nodup (st : hstate) : Prop := forall x, NoDup (hcurves_of (var st x)).
(* different variables own disjoint sets of curves *)
Definition vars_separated (st : hstate) : Prop :=
  forall x y, x <> y -> forall c, In c (hcurves_of (var st x)) -> ~ In c (hcurves_of (var st y)).
Record HInv (st : hstate) : Prop := mk_HInv {
  hi_inv : Inv (fst st);
  hi_coh : cache_coherent (fst st);
  hi_range : vars_in_range st;
  hi_nodup : vars_nodup st;
  hi_sep : vars_separated st }.

Lemma var_eq : forall h env x, var (h, env) x = nth x env HEmpty.
Proof. reflexivity. Qed.
Lemma var_snoc_old : forall h h' env z x, x < length env -> var (h', env ++ [z]) x = var (h, env) x.
Proof. intros. rewrite !var_eq. apply app_nth1. assumption. Qed.
Lemma var_snoc_new : forall h' env z, var (h', env ++ [z]) (length env) = z.
Proof. intros. rewrite var_eq, app_nth2, Nat.sub_diag by lia. reflexivity. Qed.
Lemma var_oob : forall h env x, length env <= x -> var (h, env) x = HEmpty.
Proof. intros. rewrite var_eq. apply nth_overflow. assumption. Qed.
Lemma var_heap_irrel : forall h h' env x, var (h', env) x = var (h, env) x.
Proof. reflexivity. Qed.

Lemma HInv_init : HInv (hempty, []).
Proof.
  split; cbn [fst].
  - apply Inv_empty.
  - intros c Hc. cbn in Hc. lia.
  - intros x c Hc. rewrite var_oob in Hc by (cbn; lia). destruct Hc.
  - intros x. rewrite var_oob by (cbn; lia). constructor.
  - intros x y _ c Hc. rewrite var_oob in Hc by (cbn; lia). destruct Hc.
Qed.

Lemma HInv_same_env : forall h h' env, HInv (h, env) -> Inv h' -> cache_coherent h' ->
  length (hcurves h) <= length (hcurves h') -> HInv (h', env).
Proof.
  intros h h' env [H1 H2 H3 H4 H5] HI Hc Hl. split; cbn [fst] in *; try assumption.
  intros x c Hin. specialize (H3 x c Hin). cbn [fst] in H3 |- *. lia.
Qed.

Lemma HInv_alloc : forall h env h2 r h' z, HInv (h, env) -> Inv h2 -> coh h2 ->
  length (hcurves h) <= length (hcurves h2) -> segs_ok (jordans r) ->
  alloc_shape h2 r = (h', z) -> HInv (h', env ++ [z]).
Proof.
  intros h env h2 r h' z [H1 H2 H3 H4 H5] HI Hc Hl Hok Ha. cbn [fst] in *.
  destruct (alloc_shape_spec _ _ _ _ HI Hok Ha) as (I' & E & S & L & R & ND & _).
  assert (forall x, var (h', env ++ [z]) x = var (h, env) x \/
                    (x = length env /\ var (h', env ++ [z]) x = z) \/
                    var (h', env ++ [z]) x = HEmpty) as Hcase.
  { intros x. destruct (Nat.lt_trichotomy x (length env)) as [Hlt|[->|Hgt]].
    - left. apply var_snoc_old. exact Hlt.
    - right. left. split; [reflexivity | apply var_snoc_new].
    - right. right. apply var_oob. rewrite app_length. cbn [length]. lia. }
  assert (forall x c, In c (hcurves_of (var (h, env) x)) -> c < length (hcurves h2)) as Hold.
  { intros x c Hin. specialize (H3 x c Hin). cbn [fst] in H3. lia. }
  split; cbn [fst].
  - exact I'.
  - apply coh_iff. eapply coh_hext; eassumption.
  - intros x c Hin. cbn [fst]. destruct (Hcase x) as [Ex|[[_ Ex]|Ex]]; rewrite Ex in Hin.
    + apply Hold in Hin. lia.
    + apply R in Hin. lia.
    + destruct Hin.
  - intros x. destruct (Hcase x) as [Ex|[[_ Ex]|Ex]]; rewrite Ex; [apply H4 | exact ND | constructor].
  - intros x y Hne c Hx Hy.
    destruct (Hcase x) as [Ex|[[Nx Ex]|Ex]]; rewrite Ex in Hx;
      destruct (Hcase y) as [Ey|[[Ny Ey]|Ey]]; rewrite Ey in Hy; try (destruct Hx; fail); try (destruct Hy; fail).
    + exact (H5 x y Hne c Hx Hy).
    + apply Hold in Hx. apply R in Hy. lia.
    + apply Hold in Hy. apply R in Hx. lia.
    + congruence.
Qed.

(* every step keeps the invariant *)
Theorem step_HInv : forall st o st', HInv st -> op_ok o -> step st o = Ok st' -> HInv st'.
Proof.
  intros [h env] o st' HH Hop H. pose proof HH as [H1 H2 H3 H4 H5]. cbn [fst] in *.
  pose proof (proj1 (coh_iff h) H2) as Hc.
  destruct o; cbn [step] in H.
  - unfold h_new in H. destruct (alloc_shape h s) as [h' x] eqn:E. inversion H; subst.
    exact (HInv_alloc h env h s h' x HH H1 Hc (le_n _) Hop E).
  - inv_bind H. destruct v as [h' y]. inversion H; subst. unfold h_copy in Hv. inv_bind Hv.
    assert (alloc_shape h v = (h', y)) as E by congruence.
    destruct (copy_shape_good _ _ Hv0 (denot_good h _ H1)) as [_ [G _]].
    exact (HInv_alloc h env h v h' y HH H1 Hc (le_n _) G E).
  - inv_bind H. destruct v as [h' y]. inversion H; subst. unfold h_not in Hv. inv_bind Hv.
    assert (alloc_shape h v = (h', y)) as E by congruence.
    destruct (op_not_good _ _ Hv0 (denot_good h _ H1)) as [_ [G _]].
    exact (HInv_alloc h env h v h' y HH H1 Hc (le_n _) G E).
  - inv_bind H. destruct v as [h' z]. inversion H; subst.
    destruct (h_binop_spec _ _ _ _ _ _ H1 Hc (H3 x) (H3 y) Hv) as (h2 & r & (I2 & C2 & M2) & G & E).
    destruct M2 as (_ & L & _). exact (HInv_alloc h env h2 r h' z HH I2 C2 L G E).
  - inversion H; subst. apply (HInv_same_env h); [exact HH | | |].
    + rewrite h_move_tfold. apply tfold_Inv, H1.
    + apply h_move_coherent; assumption.
    + rewrite h_move_tfold, tfold_ncurves. lia.
  - inversion H; subst. apply (HInv_same_env h); [exact HH | | |].
    + rewrite h_scale_tfold. apply tfold_Inv, H1.
    + apply h_scale_coherent; assumption.
    + rewrite h_scale_tfold, tfold_ncurves. lia.
  - inversion H; subst. apply (HInv_same_env h); [exact HH | | |].
    + rewrite h_rotate_tfold. apply tfold_Inv, H1.
    + apply h_rotate_coherent; assumption.
    + rewrite h_rotate_tfold, tfold_ncurves. lia.
  - inversion H; subst. cbn [h_contains_point fst]. apply (HInv_same_env h); [exact HH | | |].
    + apply h_fill_all_Inv, H1.
    + apply h_fill_all_coherent, H2.
    + rewrite h_fill_all_ncurves. lia.
  - inversion H; subst. apply (HInv_same_env h); [exact HH | | |].
    + apply h_fill_all_Inv, H1.
    + apply h_fill_all_coherent, H2.
    + rewrite h_fill_all_ncurves. lia.
Qed.

Theorem run_history_HInv : forall ops st st', HInv st -> ops_ok ops ->
  run_history st ops = Ok st' -> HInv st'.
Proof.
  induction ops as [|o ops IH]; intros st st' HH Hok H; cbn [run_history] in H.
  - inversion H; subst. exact HH.
  - inv_bind H. inversion Hok; subst. eapply IH; [|eassumption|exact H].
    eapply step_HInv; eassumption.
Qed.
Theorem reachable_HInv : forall st, reachable st -> HInv st.
Proof. intros st (ops & Hok & H). eapply run_history_HInv; [apply HInv_init | exact Hok | exact H]. Qed.

(* ----- C08: what a step leaves exactly as it was ----- *)
Lemma tfold_step_frame : forall f r h env x, HInv (h, env) ->
  let h' := tfold f r (hcurves_of (var (h, env) x)) h in
  (forall y, y <> x -> denot h' (var (h, env) y) = denot h (var (h, env) y)) /\
  denot h' (var (h, env) x) = map_points f (denot h (var (h, env) x)).
Proof.
  intros f r h env x [H1 H2 H3 H4 H5] h'. cbn [fst] in *. split.
  - intros y Hne. apply tfold_denot_frame; [exact H1|]. intros c Hc. exact (H5 y x Hne c Hc).
  - apply denot_map_points. intros k Hk. apply tfold_geom_in; [exact H1 | apply H4 | exact Hk].
Qed.

(* moving / scaling / rotating x in place: every other variable denotes exactly what it
   denoted; x denotes the transformed value (every point object transformed once) *)
Theorem move_frame : forall st x v st', HInv st -> step st (OMove x v) = Ok st' ->
  snd st' = snd st /\
  (forall y, y <> x -> denot (fst st') (var st' y) = denot (fst st) (var st y)) /\
  denot (fst st') (var st' x) = map_points (move_pt v) (denot (fst st) (var st x)).
Proof.
  intros [h env] x v st' HH H. cbn [step] in H. inversion H; subst. cbn [fst snd].
  split; [reflexivity|]. rewrite h_move_tfold. apply (tfold_step_frame _ _ h env x HH).
Qed.
Theorem scale_frame : forall st x sx sy st', HInv st -> step st (OScale x sx sy) = Ok st' ->
  snd st' = snd st /\
  (forall y, y <> x -> denot (fst st') (var st' y) = denot (fst st) (var st y)) /\
  denot (fst st') (var st' x) = map_points (scale_pt sx sy) (denot (fst st) (var st x)).
Proof.
  intros [h env] x sx sy st' HH H. cbn [step] in H. inversion H; subst. cbn [fst snd].
  split; [reflexivity|]. rewrite h_scale_tfold. apply (tfold_step_frame _ _ h env x HH).
Qed.
Theorem rotate_frame : forall st x c s st', HInv st -> step st (ORotate x c s) = Ok st' ->
  snd st' = snd st /\
  (forall y, y <> x -> denot (fst st') (var st' y) = denot (fst st) (var st y)) /\
  denot (fst st') (var st' x) = map_points (rot_pt c s) (denot (fst st) (var st x)).
Proof.
  intros [h env] x c s st' HH H. cbn [step] in H. inversion H; subst. cbn [fst snd].
  split; [reflexivity|]. rewrite h_rotate_tfold. apply (tfold_step_frame _ _ h env x HH).
Qed.

(* the variables a value-producing step may split in place *)
Definition touched (o : hop) (w : nat) : Prop :=
  match o with
  | OBin b x y => w = x \/ (b <> BSub /\ w = y)
  | _ => False
  end.
Definition value_op (o : hop) : Prop :=
  match o with OMove _ _ | OScale _ _ _ | ORotate _ _ _ => False | _ => True end.

Lemma alloc_denot_old : forall h env h2 r h' z w, HInv (h, env) -> Inv h2 ->
  length (hcurves h) <= length (hcurves h2) -> segs_ok (jordans r) ->
  alloc_shape h2 r = (h', z) ->
  denot h' (var (h, env) w) = denot h2 (var (h, env) w).
Proof.
  intros h env h2 r h' z w HH I2 L G E.
  destruct (alloc_shape_spec _ _ _ _ I2 G E) as (_ & _ & _ & _ & _ & _ & Old & _).
  apply denot_ext. intros k Hk. apply Old. pose proof (hi_range _ HH w k Hk) as R. cbn [fst] in R. lia.
Qed.

(* operators, copies, constructors and queries: all pre-existing variables other than the
   operands of a binary operator (for `-`: other than its first operand) keep their value
   exactly; the environment is extended by the result only *)
Theorem value_step_frame : forall st o st', HInv st -> op_ok o -> value_op o ->
  step st o = Ok st' ->
  (forall w, w < length (snd st) -> var st' w = var st w) /\
  (forall w, w < length (snd st) -> ~ touched o w ->
     denot (fst st') (var st' w) = denot (fst st) (var st w)).
Proof.
  intros [h env] o st' HH Hop Hval H. pose proof HH as [H1 H2 H3 H4 H5]. cbn [fst snd] in *.
  pose proof (proj1 (coh_iff h) H2) as Hc.
  assert (forall h2 r h' z, Inv h2 -> length (hcurves h) <= length (hcurves h2) ->
            segs_ok (jordans r) -> alloc_shape h2 r = (h', z) ->
            (forall w, w < length env -> denot h2 (var (h, env) w) = denot h (var (h, env) w)) ->
            (forall w, w < length env -> var (h', env ++ [z]) w = var (h, env) w) /\
            (forall w, w < length env ->
               denot h' (var (h', env ++ [z]) w) = denot h (var (h, env) w))) as Halloc.
  { intros h2 r h' z I2 L G E Hd. split; intros w Hw; [apply var_snoc_old, Hw|].
    rewrite (var_snoc_old h h') by exact Hw.
    rewrite (alloc_denot_old h env h2 r h' z w HH I2 L G E). apply Hd, Hw. }
  destruct o; cbn [step] in H; try (destruct Hval; fail).
  - unfold h_new in H. destruct (alloc_shape h s) as [h' x] eqn:E. inversion H; subst. cbn [fst snd].
    destruct (Halloc h s h' x H1 (le_n _) Hop E ltac:(reflexivity)) as [A B]. split; [exact A|].
    intros w Hw _. apply B, Hw.
  - inv_bind H. destruct v as [h' y]. inversion H; subst. unfold h_copy in Hv. inv_bind Hv.
    assert (alloc_shape h v = (h', y)) as E by congruence.
    destruct (copy_shape_good _ _ Hv0 (denot_good h _ H1)) as [_ [G _]]. cbn [fst snd].
    destruct (Halloc h v h' y H1 (le_n _) G E ltac:(reflexivity)) as [A B]. split; [exact A|].
    intros w Hw _. apply B, Hw.
  - inv_bind H. destruct v as [h' y]. inversion H; subst. unfold h_not in Hv. inv_bind Hv.
    assert (alloc_shape h v = (h', y)) as E by congruence.
    destruct (op_not_good _ _ Hv0 (denot_good h _ H1)) as [_ [G _]]. cbn [fst snd].
    destruct (Halloc h v h' y H1 (le_n _) G E ltac:(reflexivity)) as [A B]. split; [exact A|].
    intros w Hw _. apply B, Hw.
  - inv_bind H. destruct v as [h' z]. inversion H; subst. cbn [fst snd].
    destruct (h_binop_spec _ _ _ _ _ _ H1 Hc (H3 x) (H3 y) Hv) as (h2 & r & (I2 & C2 & M2) & G & E).
    pose proof M2 as (_ & L & _). split; [intros w Hw; apply var_snoc_old, Hw|].
    intros w Hw Ht. rewrite (var_snoc_old h h') by exact Hw.
    rewrite (alloc_denot_old h env h2 r h' z w HH I2 L G E).
    apply denot_ext. intros k Hk. pose proof (H3 w k Hk) as Rk. cbn [fst] in Rk.
    apply (modifies_geom _ h h2 k M2 H1); [|exact Rk].
    unfold binC. cbn [touched] in Ht. intros [Hx|[Hy|Hf]].
    + destruct (Nat.eq_dec w x) as [->|Hne]; [apply Ht; left; reflexivity|].
      exact (H5 w x Hne k Hk Hx).
    + destruct o; try contradiction;
        (destruct (Nat.eq_dec w y) as [->|Hne];
          [apply Ht; right; split; [discriminate | reflexivity] | exact (H5 w y Hne k Hk Hy)]).
    + lia.
  - inversion H; subst. cbn [h_contains_point fst snd]. split; [reflexivity|].
    intros w _ _. exact (denot_fill_all h _ (var (h, env) w)).
  - inversion H; subst. cbn [fst snd]. split; [reflexivity|].
    intros w _ _. exact (denot_fill_all h _ (var (h, env) w)).
Qed.

(* the operands of a binary operator keep their curve identities; their curves are only
   refined: same objects, at least as many segments, and still closed chains *)
Theorem bin_operands : forall st b x y st', HInv st -> step st (OBin b x y) = Ok st' ->
  HInv st' /\
  (forall w, w < length (snd st) -> var st' w = var st w) /\
  (forall c, length (segsof (fst st) c) <= length (segsof (fst st') c)) /\
  (forall w, good (jordans (denot (fst st') (var st' w)))).
Proof.
  intros [h env] b x y st' HH H. pose proof (step_HInv (h, env) (OBin b x y) st' HH I H) as HH'.
  split; [exact HH'|]. pose proof HH as [H1 H2 H3 H4 H5]. cbn [fst snd] in *.
  pose proof (proj1 (coh_iff h) H2) as Hc. cbn [step] in H.
  inv_bind H. destruct v as [h' z]. inversion H; subst. cbn [fst snd].
  destruct (h_binop_spec _ _ _ _ _ _ H1 Hc (H3 x) (H3 y) Hv) as (h2 & r & (I2 & C2 & M2) & G & E).
  split; [|split].
  - intros w Hw. apply var_snoc_old, Hw.
  - intros c. destruct (alloc_shape_spec _ _ _ _ I2 G E) as (_ & Ex & _).
    pose proof (hext_modifies (fun _ => False) _ _ Ex) as (_ & _ & _ & G2).
    destruct M2 as (_ & _ & _ & G1). specialize (G1 c). specialize (G2 c). lia.
  - intros w. apply denot_good. apply HH'.
Qed.

(* ------------------------------------------------------------------ *)
(* 9. the executable check heap_wf is the invariant                    *)
(* ------------------------------------------------------------------ *)
Lemma curve_wf_iff : forall h c,
  curve_wf h c = true <-> curve_ok (length (hpts h)) (segsof h c).
Proof.
  intros h c. unfold curve_wf. fold (segsof h c). set (L := segsof h c). set (N := length (hpts h)).
  rewrite !andb_true_iff, forallb_forall, Nat.eqb_eq.
  assert ((forall s, In s L ->
             (2 <=? length s) && forallb (fun l => l <? N) s = true) <->
          (forall l, In l (concat L) -> l < N) /\ (forall s, In s L -> 2 <= length s)) as HA.
  { split.
    - intros H. split.
      + intros l Hl. apply in_concat in Hl. destruct Hl as (s & Hs & Hl).
        specialize (H s Hs). apply andb_true_iff in H. destruct H as [_ H].
        rewrite forallb_forall in H. apply Nat.ltb_lt, H, Hl.
      + intros s Hs. specialize (H s Hs). apply andb_true_iff in H. destruct H as [H _].
        apply Nat.leb_le, H.
    - intros [H1 H2] s Hs. apply andb_true_iff. split; [apply Nat.leb_le, H2, Hs|].
      apply forallb_forall. intros l Hl. apply Nat.ltb_lt, H1. apply in_concat. exists s. split; assumption. }
  assert (match L with [] => true | s :: _ => junctions_ok (hd 0 s) L end = true <-> closedL L) as HB.
  { destruct L as [|s t]; [cbn; tauto|]. cbn [closedL]. apply junctions_ok_lpath. }
  assert (length (nodup_nat (concat (map (@removelast ploc) L))) = length (concat (map (@removelast ploc) L))
          <-> NoDup (concat (map (@removelast ploc) L))) as HC.
  { split; [apply nodup_nat_length_NoDup | apply NoDup_nodup_nat_length]. }
  rewrite HA, HB, HC. split.
  - intros [[[H1 H2] H3] H4]. constructor; assumption.
  - intros [H1 H2 H3 H4]. tauto.
Qed.

Lemma disjoint_nat_iff : forall a b, disjoint_nat a b = true <-> (forall x, In x a -> ~ In x b).
Proof.
  induction a as [|x a IH]; intros b; cbn [disjoint_nat].
  - split; [intros _ x [] | reflexivity].
  - rewrite andb_true_iff, negb_true_iff, existsb_eqb_notIn, IH. split.
    + intros [H1 H2] y [<-|Hy]; [exact H1 | apply H2, Hy].
    + intros H. split; [apply H; left; reflexivity | intros y Hy; apply H; right; exact Hy].
Qed.
Lemma pairwise_disjoint_iff : forall ls, pairwise_disjoint ls = true <->
  (forall i j, i < j -> j < length ls -> forall x, In x (nth i ls []) -> ~ In x (nth j ls [])).
Proof.
  induction ls as [|l t IH]; cbn [pairwise_disjoint].
  - split; [intros _ i j _ Hj; cbn in Hj; lia | reflexivity].
  - rewrite andb_true_iff, forallb_forall, IH. split.
    + intros [H1 H2] i j Hij Hj x. destruct j as [|j]; [lia|]. cbn [length] in Hj.
      destruct i as [|i]; cbn [nth].
      * apply disjoint_nat_iff, H1. apply nth_In. lia.
      * apply H2; lia.
    + intros H. split.
      * intros m Hm. apply disjoint_nat_iff. destruct (In_nth _ _ [] Hm) as (j & Hj & <-).
        intros x. apply (H 0 (S j)); cbn [length]; lia.
      * intros i j Hij Hj x. apply (H (S i) (S j)); cbn [length]; lia.
Qed.

Theorem heap_wf_iff : forall h, heap_wf h = true <-> Inv h.
Proof.
  intros h. unfold heap_wf. set (n := length (hcurves h)).
  rewrite andb_true_iff, forallb_forall, pairwise_disjoint_iff, map_length, seq_length.
  assert (forall i, i < n -> nth i (map (locs_of_curve h) (seq 0 n)) [] = locs_of_curve h i) as Hnth.
  { intros i Hi. rewrite (nth_indep _ [] (locs_of_curve h 0)) by (rewrite map_length, seq_length; exact Hi).
    rewrite map_nth, seq_nth by exact Hi. reflexivity. }
  split.
  - intros [H1 H2]. split.
    + intros c. destruct (Nat.lt_ge_cases c n) as [Hlt|Hge].
      * apply curve_wf_iff, H1, in_seq. lia.
      * rewrite segsof_oob by exact Hge. apply curve_ok_nil.
    + intros c c' Hne l Hl Hl'.
      assert (c < n) as Hc.
      { destruct (Nat.lt_ge_cases c n) as [Hlt|Hge]; [exact Hlt|].
        rewrite locs_segsof, segsof_oob in Hl by exact Hge. destruct Hl. }
      assert (c' < n) as Hc'.
      { destruct (Nat.lt_ge_cases c' n) as [Hlt|Hge]; [exact Hlt|].
        rewrite locs_segsof, segsof_oob in Hl' by exact Hge. destruct Hl'. }
      destruct (Nat.lt_trichotomy c c') as [Hlt|[E|Hgt]]; [|contradiction|].
      * apply (H2 c c' Hlt Hc' l); rewrite Hnth by assumption; assumption.
      * apply (H2 c' c Hgt Hc l); rewrite Hnth by assumption; assumption.
  - intros [H1 H2]. split.
    + intros c _. apply curve_wf_iff, H1.
    + intros i j Hij Hj x. rewrite !Hnth by lia. apply H2. lia.
Qed.
Corollary heap_wf_Inv : forall h, heap_wf h = true -> Inv h.
Proof. intros h. apply heap_wf_iff. Qed.
(* the executable check succeeds in every reachable state *)
Corollary reachable_heap_wf : forall st, reachable st -> heap_wf (fst st) = true.
Proof. intros st H. apply heap_wf_iff. apply reachable_HInv, H. Qed.

(* ------------------------------------------------------------------ *)
(* 10. JordanCurve.invert in place                                     *)
(* ------------------------------------------------------------------ *)
Lemma lpath_rev : forall L a b, (forall s, In s L -> s <> []) -> lpath a b L ->
  lpath b a (rev (map (@rev ploc) L)).
Proof.
  induction L as [|s t IH]; intros a b Hne H.
  - cbn in *. congruence.
  - destruct H as [Hh Ht]. cbn [map rev]. apply lpath_app. exists (last s 0). split.
    + apply IH; [intros x Hx; apply Hne; right; exact Hx | exact Ht].
    + cbn [lpath]. unfold ploc. rewrite hd_rev, last_rev. split; [reflexivity | exact Hh].
Qed.
Lemma removelast_rev : forall {A} (s : list A), removelast (rev s) = rev (tl s).
Proof. intros A [|a s]; [reflexivity|]. cbn [rev tl]. apply removelast_last. Qed.
Lemma Permutation_concat_pointwise : forall {A B} (f g : A -> list B) L,
  (forall s, In s L -> Permutation (f s) (g s)) ->
  Permutation (concat (map f L)) (concat (map g L)).
Proof.
  intros A B f g L. induction L as [|s t IH]; intros H; [constructor|]. cbn [map concat].
  apply Permutation_app; [apply H; left; reflexivity | apply IH; intros x Hx; apply H; right; exact Hx].
Qed.
Lemma Permutation_concat_rev : forall {A} (M : list (list A)), Permutation (concat (rev M)) (concat M).
Proof.
  intros A M. induction M as [|m M IH]; [constructor|]. cbn [rev concat].
  rewrite concat_app. cbn [concat]. rewrite app_nil_r.
  eapply Permutation_trans; [apply Permutation_app_comm|]. apply Permutation_app_head, IH.
Qed.
Lemma tl_removelast_perm : forall L a b, (forall s, In s L -> 2 <= length s) -> lpath a b L ->
  Permutation (a :: concat (map (@tl ploc) L)) (concat (map (@removelast ploc) L) ++ [b]).
Proof.
  induction L as [|s t IH]; intros a b Hlen H.
  - cbn in *. subst. apply Permutation_refl.
  - destruct H as [Hh Ht]. assert (2 <= length s) as Hs by (apply Hlen; left; reflexivity).
    destruct s as [|x [|y r]]; cbn [length] in Hs; try lia. cbn [hd] in Hh. subst x.
    change (last (a :: y :: r) 0) with (last (y :: r) 0) in Ht.
    assert (y :: r = removelast (y :: r) ++ [last (y :: r) 0]) as E
      by (apply app_removelast_last; discriminate).
    cbn [map concat tl]. rewrite removelast_cons_ne by discriminate.
    remember (removelast (y :: r)) as R eqn:ER. remember (last (y :: r) 0) as z eqn:Ez.
    rewrite E. rewrite <- !app_assoc. cbn [app]. apply perm_skip. apply Permutation_app_head.
    apply IH; [intros x Hx; apply Hlen; right; exact Hx | exact Ht].
Qed.

Lemma curve_ok_rev : forall n L, curve_ok n L -> curve_ok n (rev (map (@rev ploc) L)).
Proof.
  intros n L [H1 H2 H3 H4]. split.
  - intros l Hl. apply in_concat in Hl. destruct Hl as (s' & Hs' & Hl).
    apply in_rev in Hs'. apply in_map_iff in Hs'. destruct Hs' as (s & <- & Hs).
    apply in_rev in Hl. apply H1. apply in_concat. exists s. split; assumption.
  - intros s' Hs'. apply in_rev in Hs'. apply in_map_iff in Hs'. destruct Hs' as (s & <- & Hs).
    rewrite rev_length. apply H2, Hs.
  - destruct L as [|s t]; [exact I|].
    assert (forall x, In x (s :: t) -> x <> []) as Hne by (intros x Hx; apply len2_ne, H2, Hx).
    apply (closedL_intro _ (hd 0 s)).
    + intros E. apply (f_equal (@length _)) in E. rewrite rev_length, map_length in E. discriminate.
    + apply lpath_rev; assumption.
  - rewrite map_rev, map_map.
    eapply Permutation_NoDup; [apply Permutation_sym, Permutation_concat_rev|].
    eapply Permutation_NoDup;
      [apply Permutation_sym, (Permutation_concat_pointwise _ (@tl ploc)); intros s _;
       rewrite removelast_rev; apply Permutation_sym, Permutation_rev|].
    destruct L as [|s t]; [constructor|].
    pose proof (tl_removelast_perm (s :: t) (hd 0 s) (hd 0 s) H2 H3) as P.
    eapply Permutation_trans in P; [|apply Permutation_refl].
    assert (Permutation (concat (map (@tl ploc) (s :: t))) (concat (map (@removelast ploc) (s :: t)))) as P'.
    { apply (Permutation_cons_inv (a := hd 0 s)). eapply Permutation_trans; [exact P|].
      apply Permutation_sym, Permutation_cons_append. }
    eapply Permutation_NoDup; [apply Permutation_sym, P' | exact H4].
Qed.

Theorem h_invert_curve_spec : forall h c, Inv h ->
  let h' := h_invert_curve h c in
  Inv h' /\
  geom h' c = rev (map (@rev point) (geom h c)) /\
  (forall c', c' <> c -> geom h' c' = geom h c' /\ cacheof h' c' = cacheof h c') /\
  cacheof h' c = None /\
  hpts h' = hpts h.
Proof.
  intros h c HI h'. destruct (Nat.lt_ge_cases c (length (hcurves h))) as [Hlt|Hge].
  - assert (segsof h' c = rev (map (@rev ploc) (segsof h c))) as Hseg.
    { unfold segsof, h', h_invert_curve. rewrite curve_at_set_curve_same by exact Hlt. reflexivity. }
    assert (forall c', c' <> c -> curve_at h' c' = curve_at h c') as Hother.
    { intros c' Hne. apply curve_at_set_curve_other. auto. }
    split; [|split; [|split; [|split]]].
    + apply (Inv_step h h' c HI).
      * unfold h', h_invert_curve. rewrite hpts_set_curve. lia.
      * intros c' Hne. unfold segsof. rewrite Hother by exact Hne. reflexivity.
      * rewrite Hseg. unfold h', h_invert_curve. rewrite hpts_set_curve.
        apply curve_ok_rev. destruct HI as [H1 _]. apply H1.
      * intros l Hl. left. rewrite Hseg in Hl. apply in_concat in Hl. destruct Hl as (s' & Hs' & Hl).
        apply in_rev in Hs'. apply in_map_iff in Hs'. destruct Hs' as (s & <- & Hs).
        apply in_rev in Hl. apply in_concat. exists s. split; assumption.
    + rewrite !geom_segsof, Hseg. change (pval h') with (pval h).
      rewrite map_rev, !map_map. f_equal. apply map_ext. intros s. apply map_rev.
    + intros c' Hne. split.
      * apply geom_ext; [unfold segsof; rewrite Hother by exact Hne; reflexivity | reflexivity].
      * unfold cacheof. rewrite Hother by exact Hne. reflexivity.
    + unfold cacheof, h', h_invert_curve. rewrite curve_at_set_curve_same by exact Hlt. reflexivity.
    + reflexivity.
  - assert (h' = h) as -> by (apply set_curve_oob; exact Hge).
    split; [exact HI|]. split; [|split; [|split]].
    + rewrite !geom_segsof, segsof_oob by exact Hge. reflexivity.
    + intros; split; reflexivity.
    + apply cacheof_oob, Hge.
    + reflexivity.
Qed.
Theorem h_invert_curve_coherent : forall h c, Inv h -> cache_coherent h ->
  cache_coherent (h_invert_curve h c).
Proof.
  intros h c HI Hc. apply coh_iff. apply coh_iff in Hc.
  destruct (h_invert_curve_spec h c HI) as (_ & _ & Ho & Hn & _). intros c'.
  destruct (Nat.eq_dec c' c) as [->|Hne]; [rewrite Hn; exact I|].
  destruct (Ho c' Hne) as [G E]. rewrite E, G. apply Hc.
Qed.
Theorem h_split_segment_coherent : forall h c i pieces, Inv h -> cache_coherent h ->
  c < length (hcurves h) -> i < length (segsof h c) -> pieces_ok pieces ->
  Inv (h_split_segment h c i pieces) /\ cache_coherent (h_split_segment h c i pieces) /\
  (forall c', c' <> c -> c' < length (hcurves h) ->
     geom (h_split_segment h c i pieces) c' = geom h c').
Proof.
  intros h c i pieces HI Hc Hlt Hi Hok. apply coh_iff in Hc.
  destruct (h_split_segment_post h c i pieces HI Hc Hlt Hi Hok) as (I1 & C1 & M1 & _).
  split; [exact I1|]. split; [apply coh_iff, C1|].
  intros c' Hne Hc'. apply (modifies_geom (eq c) h _ c' M1 HI); [congruence | exact Hc'].
Qed.

(* ------------------------------------------------------------------ *)
(* 11. the geometry of an in-place split                               *)
(* ------------------------------------------------------------------ *)
(* the pieces as the curve holds them afterwards: the first keeps the value of the old start
   object, the last that of the old end object, each piece starts on the object the previous
   one ends on *)
Fixpoint gluev (fv lv : point) (pieces : list seg) : list seg :=
  match pieces with
  | [] => []
  | s :: t =>
      match t with
      | [] => [fv :: removelast (tl s) ++ [lv]]
      | _ => (fv :: tl s) :: gluev (last_pt s) lv t
      end
  end.

Lemma nth_pred_last : forall {A} (l : list A) d, l <> [] -> nth (length l - 1) l d = last l d.
Proof.
  intros A l d. induction l as [|a l IH]; intros H; [congruence|].
  destruct l as [|b l]; [reflexivity|].
  change (last (a :: b :: l) d) with (last (b :: l) d). rewrite <- IH by discriminate.
  cbn [length]. replace (S (S (length l)) - 1) with (S (S (length l) - 1)) by lia. reflexivity.
Qed.
Lemma nth_last_tl : forall (s : seg), 2 <= length s -> nth (length (tl s) - 1) (tl s) pzero = last_pt s.
Proof.
  intros [|a [|b r]] H; cbn [length] in H; try lia. cbn [tl]. unfold last_pt.
  change (last (a :: b :: r) pzero) with (last (b :: r) pzero). apply nth_pred_last. discriminate.
Qed.
Lemma glue_geom : forall pieces pre post first last news pts P,
  pieces_ok pieces -> pieces <> [] ->
  glue_pieces (length pre) first last pieces = (news, pts) ->
  P = pre ++ pts ++ post ->
  map (map (fun l => nth l P pzero)) news = gluev (nth first P pzero) (nth last P pzero) pieces.
Proof.
  induction pieces as [|s t IH]; intros pre post first last news pts P Hok Hne H HP; [congruence|].
  assert (2 <= length s) as Hs by (apply Hok; left; reflexivity).
  destruct t as [|s' t'].
  - cbn [glue_pieces] in H. inversion H; subst news pts. clear H. cbn [gluev map]. f_equal. f_equal.
    rewrite map_app. cbn [map]. f_equal.
    replace (length s - 2) with (length (removelast (tl s))) by (rewrite removelast_length, tl_length; lia).
    rewrite HP. apply map_nth_seq.
  - rewrite glue_cons2 in H. cbv zeta in H.
    destruct (glue_pieces (length pre + (length s - 1)) (length pre + (length s - 1) - 1) last (s' :: t'))
      as [rest pts'] eqn:E.
    inversion H; subst news pts. clear H.
    assert (pieces_ok (s' :: t')) as Hok' by (intros y Hy; apply Hok; right; exact Hy).
    change (gluev (nth first P pzero) (nth last P pzero) (s :: s' :: t'))
      with ((nth first P pzero :: tl s) :: gluev (last_pt s) (nth last P pzero) (s' :: t')).
    cbn [map]. f_equal.
    + f_equal. rewrite <- (tl_length s). rewrite HP, <- app_assoc. apply map_nth_seq.
    + assert (length (pre ++ tl s) = length pre + (length s - 1)) as Hl
        by (rewrite app_length, tl_length; reflexivity).
      assert (glue_pieces (length (pre ++ tl s)) (length pre + (length s - 1) - 1) last (s' :: t')
              = (rest, pts')) as E' by (rewrite Hl; exact E).
      rewrite (IH (pre ++ tl s) post _ last rest pts' P Hok' ltac:(discriminate) E')
        by (rewrite HP, <- !app_assoc; reflexivity).
      f_equal. rewrite HP, <- !app_assoc. rewrite app_nth2 by lia.
      rewrite app_nth1 by (rewrite tl_length; lia).
      replace (length pre + (length s - 1) - 1 - length pre) with (length (tl s) - 1)
        by (rewrite tl_length; lia).
      apply nth_last_tl, Hs.
Qed.

Lemma gluev_exact : forall pieces fv lv, pieces_ok pieces -> epath fv lv pieces ->
  gluev fv lv pieces = pieces.
Proof.
  induction pieces as [|s t IH]; intros fv lv Hok Hp; [reflexivity|].
  assert (2 <= length s) as Hs by (apply Hok; left; reflexivity).
  destruct Hp as [Hf Hp]. destruct t as [|s' t'].
  - cbn [epath] in Hp. cbn [gluev]. destruct s as [|a [|b r]]; cbn [length] in Hs; try lia.
    cbn [first_pt hd] in Hf. subst a. cbn [tl]. f_equal. f_equal.
    unfold last_pt in Hp. change (last (fv :: b :: r) pzero) with (last (b :: r) pzero) in Hp.
    subst lv. symmetry. apply app_removelast_last. discriminate.
  - change (gluev fv lv (s :: s' :: t')) with ((fv :: tl s) :: gluev (last_pt s) lv (s' :: t')).
    f_equal.
    + destruct s as [|a r]; [cbn in Hs; lia|]. cbn in Hf. subst a. reflexivity.
    + apply IH; [intros y Hy; apply Hok; right; exact Hy | exact Hp].
Qed.

Lemma in_firstn' : forall {A} (l : list A) n x, In x (firstn n l) -> In x l.
Proof. intros A l n x H. rewrite <- (firstn_skipn n l). apply in_or_app. left; exact H. Qed.
Lemma in_skipn' : forall {A} (l : list A) n x, In x (skipn n l) -> In x l.
Proof. intros A l n x H. rewrite <- (firstn_skipn n l). apply in_or_app. right; exact H. Qed.
Lemma map_firstn_skipn_ext : forall {A B} (f g : A -> B) (L : list (list A)) i,
  (forall x, In x (concat L) -> f x = g x) ->
  map (map f) (firstn i L) = firstn i (map (map g) L) /\
  map (map f) (skipn (S i) L) = skipn (S i) (map (map g) L).
Proof.
  intros A B f g L i H. rewrite firstn_map, skipn_map. split; apply map_map_ext_in; intros x Hx; apply H.
  - apply in_concat in Hx. destruct Hx as (s & Hs & Hx). apply in_concat. exists s.
    split; [eapply in_firstn'; exact Hs | exact Hx].
  - apply in_concat in Hx. destruct Hx as (s & Hs & Hx). apply in_concat. exists s.
    split; [eapply in_skipn'; exact Hs | exact Hx].
Qed.

(* what one in-place split does to the geometry of the curve *)
Theorem h_split_segment_geom : forall h c i pieces,
  Inv h -> c < length (hcurves h) -> i < length (segsof h c) -> pieces_ok pieces ->
  2 <= length pieces ->
  let old := nth i (geom h c) [] in
  geom (h_split_segment h c i pieces) c =
  firstn i (geom h c) ++ gluev (first_pt old) (last_pt old) pieces ++ skipn (S i) (geom h c).
Proof.
  intros h c i pieces HI Hc Hi Hok Hlen old.
  destruct pieces as [|p1 [|p2 ps]]; cbn [length] in Hlen; try lia.
  set (L := segsof h c) in *. set (olds := nth i L []).
  destruct (glue_pieces (length (hpts h)) (hd 0 olds) (last olds 0) (p1 :: p2 :: ps)) as [news pts] eqn:E.
  rewrite (h_split_segment_eq h c i p1 p2 ps news pts E). fold L.
  set (h' := mkH (hpts h ++ pts) (set_nth c (mkC (firstn i L ++ news ++ skipn (S i) L) None) (hcurves h))).
  assert (segsof h' c = firstn i L ++ news ++ skipn (S i) L) as Hseg.
  { unfold segsof, curve_at, h'. cbn [hcurves]. rewrite set_nth_nth_same by exact Hc. reflexivity. }
  assert (forall l, l < length (hpts h) -> pval h' l = pval h l) as Hpv.
  { intros l Hl. unfold pval, h'. cbn [hpts]. apply app_nth1, Hl. }
  assert (forall l, In l (concat L) -> pval h' l = pval h l) as HpvL.
  { intros l Hl. apply Hpv. apply (Inv_locs_lt h c HI). exact Hl. }
  destruct (map_firstn_skipn_ext (pval h') (pval h) L i HpvL) as [HF HS].
  rewrite geom_segsof, Hseg, !map_app, HF, HS. fold (geom h c).
  f_equal. f_equal.
  assert (olds <> []) as Hne.
  { apply len2_ne. destruct HI as [H1 _]. apply (ck_len _ _ (H1 c)). apply nth_In. exact Hi. }
  assert (hpts h' = hpts h ++ pts ++ []) as HP by (unfold h'; cbn [hpts]; rewrite app_nil_r; reflexivity).
  etransitivity;
    [exact (glue_geom _ (hpts h) [] _ _ news pts (hpts h') Hok ltac:(discriminate) E HP)|].
  assert (old = map (pval h) olds) as Eold.
  { unfold old. rewrite geom_segsof. fold L. rewrite (nth_indep _ [] (map (pval h) [])) by (rewrite map_length; exact Hi).
    apply map_nth. }
  assert (forall l, In l olds -> nth l (hpts h') pzero = pval h l) as Hin.
  { intros l Hl. apply HpvL. apply in_concat. exists olds. split; [apply nth_In, Hi | exact Hl]. }
  unfold ploc in *. f_equal.
  - rewrite (Hin _ (hd_In olds Hne)), Eold. unfold first_pt. symmetry. apply hd_map_ne, Hne.
  - rewrite (Hin _ (last_In olds Hne)), Eold. unfold last_pt. symmetry. apply last_map_ne, Hne.
Qed.
(* when the pieces are an exact chain from the old start to the old end value (what
   de Casteljau subdivision produces before normalisation), the segment is replaced by them *)
Corollary h_split_segment_geom_exact : forall h c i pieces,
  Inv h -> c < length (hcurves h) -> i < length (segsof h c) -> pieces_ok pieces ->
  2 <= length pieces ->
  epath (first_pt (nth i (geom h c) [])) (last_pt (nth i (geom h c) [])) pieces ->
  geom (h_split_segment h c i pieces) c =
  firstn i (geom h c) ++ pieces ++ skipn (S i) (geom h c).
Proof.
  intros h c i pieces HI Hc Hi Hok Hlen Hp.
  rewrite h_split_segment_geom by assumption. rewrite gluev_exact by assumption. reflexivity.
Qed.

(* ------------------------------------------------------------------ *)
(* 12. C10 at shape level; the theorems for every reachable state      *)
(* ------------------------------------------------------------------ *)
Lemma forallb_map_ext_in : forall {A B} (f : A -> bool) (g : B -> bool) (k : A -> B) l,
  (forall x, In x l -> f x = g (k x)) -> forallb f l = forallb g (map k l).
Proof.
  intros A B f g k l. induction l as [|a l IH]; intros H; [reflexivity|]. cbn [map forallb].
  rewrite H by (left; reflexivity). rewrite IH by (intros x Hx; apply H; right; exact Hx). reflexivity.
Qed.
Lemma existsb_map_ext_in : forall {A B} (f : A -> bool) (g : B -> bool) (k : A -> B) l,
  (forall x, In x l -> f x = g (k x)) -> existsb f l = existsb g (map k l).
Proof.
  intros A B f g k l. induction l as [|a l IH]; intros H; [reflexivity|]. cbn [map existsb].
  rewrite H by (left; reflexivity). rewrite IH by (intros x Hx; apply H; right; exact Hx). reflexivity.
Qed.

Lemma h_comp_has_point_live : forall h c p b, Inv h -> cache_coherent h ->
  (forall k, In k (hcomp_curves c) -> all_lines (geom h k) = true) ->
  h_comp_has_point h c p b = comp_has_point (denot_comp h c) p b.
Proof.
  intros h [k|ks] p b HI Hc Hl; cbn [h_comp_has_point denot_comp comp_has_point].
  - apply h_curve_has_point_live; [exact HI | exact Hc | apply Hl; left; reflexivity].
  - apply forallb_map_ext_in. intros k Hk. apply h_curve_has_point_live; [exact HI | exact Hc | apply Hl, Hk].
Qed.
(* the answer of `point in shape` is the answer on the current geometry (polygons) *)
Theorem h_contains_point_live : forall h x p b, Inv h -> cache_coherent h ->
  shape_lines (denot h x) = true ->
  snd (h_contains_point h x p b) = contains_point (denot h x) p b.
Proof.
  intros h x p b HI Hc Hl. unfold shape_lines in Hl. rewrite jordans_denot, forallb_forall in Hl.
  assert (forall k, In k (hcurves_of x) -> all_lines (geom h k) = true) as Hk
    by (intros k Hk; apply Hl, in_map, Hk).
  destruct x as [| |c|cs]; cbn [h_contains_point snd denot contains_point]; try reflexivity.
  - apply h_comp_has_point_live; assumption.
  - apply existsb_map_ext_in. intros c Hcs. apply h_comp_has_point_live; [exact HI | exact Hc|].
    intros k Hkc. apply Hk. cbn [hcurves_of]. apply in_concat. exists (hcomp_curves c).
    split; [apply in_map, Hcs | exact Hkc].
Qed.

Section Reachable.
Variable st : hstate.
Hypothesis Hr : reachable st.

Theorem reachable_Inv : Inv (fst st).
Proof. apply reachable_HInv, Hr. Qed.
Theorem reachable_coherent : cache_coherent (fst st).
Proof. apply reachable_HInv, Hr. Qed.
Theorem reachable_separated : vars_separated st.
Proof. apply reachable_HInv, Hr. Qed.
(* C10: answers depend only on the current geometry, whatever the earlier calls were *)
Theorem reachable_contains_live : forall x p b, shape_lines (denot (fst st) (var st x)) = true ->
  snd (h_contains_point (fst st) (var st x) p b) = contains_point (denot (fst st) (var st x)) p b.
Proof. intros. apply h_contains_point_live; [apply reachable_Inv | apply reachable_coherent | assumption]. Qed.
(* C08: in-place transformation of one object leaves every other object exactly as it was *)
Theorem reachable_move_frame : forall x v st', step st (OMove x v) = Ok st' ->
  forall y, y <> x -> denot (fst st') (var st' y) = denot (fst st) (var st y).
Proof. intros x v st' H. apply (move_frame st x v st' (reachable_HInv st Hr) H). Qed.
Theorem reachable_scale_frame : forall x sx sy st', step st (OScale x sx sy) = Ok st' ->
  forall y, y <> x -> denot (fst st') (var st' y) = denot (fst st) (var st y).
Proof. intros x sx sy st' H. apply (scale_frame st x sx sy st' (reachable_HInv st Hr) H). Qed.
Theorem reachable_rotate_frame : forall x c s st', step st (ORotate x c s) = Ok st' ->
  forall y, y <> x -> denot (fst st') (var st' y) = denot (fst st) (var st y).
Proof. intros x c s st' H. apply (rotate_frame st x c s st' (reachable_HInv st Hr) H). Qed.
(* C08: operators and queries leave their operands' identities and all other values unchanged *)
Theorem reachable_value_frame : forall o st', op_ok o -> value_op o -> step st o = Ok st' ->
  forall w, w < length (snd st) -> ~ touched o w ->
  var st' w = var st w /\ denot (fst st') (var st' w) = denot (fst st) (var st w).
Proof.
  intros o st' Hop Hv H w Hw Ht.
  destruct (value_step_frame st o st' (reachable_HInv st Hr) Hop Hv H) as [A B].
  split; [apply A, Hw | apply B; assumption].
Qed.
End Reachable.

(* ------------------------------------------------------------------ *)
(* 13. non-vacuity                                                     *)
(* ------------------------------------------------------------------ *)
Definition ex_ops1 : list hop := [ONew sqA; ONew sqB; OBin BOr 0 1].
Definition ex_ops2 : list hop := [OMove 2 (5, 5)%Q; OScale 0 2 2].

Example history_nonvacuous :
  match run_history (hempty, []) ex_ops1 with
  | Ok st3 =>
      match run_history st3 ex_ops2 with
      | Ok st5 =>
          heap_wf (fst st3) = true /\ heap_wf (fst st5) = true /\
          snd st5 = [HC (HCS 0); HC (HCS 1); HC (HCS 2)] /\
          (* the operands of | were split in place (4 -> 6 segments), the union is fresh *)
          map (fun c => length (segsof (fst st3) c)) [0; 1; 2] = [6; 6; 8] /\
          denot (fst st3) (var st3 2) =
            SC (CS [[(0, 0); (2, 0)]; [(2, 0); (2, 1)]; [(2, 1); (3, 1)]; [(3, 1); (3, 3)];
                    [(3, 3); (1, 3)]; [(1, 3); (1, 2)]; [(1, 2); (0, 2)]; [(0, 2); (0, 0)]])%Q /\
          (* variable 1 is untouched by the move of 2 and the scaling of 0 *)
          denot (fst st5) (var st5 1) = denot (fst st3) (var st3 1) /\
          denot (fst st5) (var st5 2) = map_points (move_pt (5, 5)%Q) (denot (fst st3) (var st3 2)) /\
          denot (fst st5) (var st5 0) = map_points (scale_pt 2 2) (denot (fst st3) (var st3 0)) /\
          (* the moved curve keeps its cache (None here), the scaled one lost it, 1 keeps it *)
          map (fun c => match cacheof (fst st5) c with Some _ => true | None => false end) [0; 1; 2]
            = [false; true; false]
      | _ => False
      end
  | _ => False
  end.
Proof. vm_compute. repeat split. Qed.

Lemma sq_segs_ok : segs_ok (jordans sqA) /\ segs_ok (jordans sqB).
Proof.
  split; intros j s [<-|[]] Hs; cbn in Hs;
    repeat (destruct Hs as [<-|Hs]; [cbn; lia|]); destruct Hs.
Qed.
Example reachable_nonvacuous : exists st, reachable st /\ length (snd st) = 3 /\
  length (hcurves (fst st)) = 3.
Proof.
  destruct (run_history (hempty, []) (ex_ops1 ++ ex_ops2)) as [st| |] eqn:E.
  - exists st. split.
    + exists (ex_ops1 ++ ex_ops2). split; [|exact E].
      repeat constructor; cbn [op_ok]; apply sq_segs_ok.
    + revert E. vm_compute. intros E. inversion E; subst. split; reflexivity.
  - vm_compute in E. discriminate.
  - vm_compute in E. discriminate.
Qed.

(* ------------------------------------------------------------------ *)
(* 14. summaries                                                       *)
(* ------------------------------------------------------------------ *)
(* H1 in one statement *)
Theorem alloc_curve_spec : forall h j h' c, alloc_curve h j = (h', c) ->
  c = length (hcurves h) /\
  firstn (length (hpts h)) (hpts h') = hpts h /\
  (exists cv, hcurves h' = hcurves h ++ [cv] /\ hcache cv = None) /\
  (forall c', c' < length (hcurves h) -> locs_lt h c' -> geom h' c' = geom h c') /\
  (seg_ok j ->
     (forall l, In l (locs_of_curve h' c) -> length (hpts h) <= l < length (hpts h')) /\
     curve_ok (length (hpts h')) (segsof h' c) /\
     geom h' c = repoint j /\
     (Inv h -> Inv h')).
Proof.
  intros h j h' c H. split; [eapply alloc_curve_id; eassumption|].
  split; [apply hext_firstn; eapply alloc_curve_hext; eassumption|].
  split; [eexists; split; [eapply alloc_curve_curves; eassumption | reflexivity]|].
  split; [intros c' Hc Hl; eapply alloc_curve_geom_old; eassumption|].
  intros Hok. split; [eapply alloc_curve_fresh; eassumption|].
  split; [eapply alloc_curve_new_ok; eassumption|].
  split; [eapply alloc_curve_geom_new; eassumption|].
  intros HI. eapply alloc_curve_Inv; eassumption.
Qed.

(* C08, "results share no state": after any value-producing step, moving / scaling / rotating
   any one variable (operand or result) leaves every other variable exactly as it was *)
Theorem results_share_no_state : forall st o st1, HInv st -> op_ok o -> step st o = Ok st1 ->
  forall x t st2,
    (exists v, t = OMove x v) \/ (exists sx sy, t = OScale x sx sy) \/ (exists c s, t = ORotate x c s) ->
    step st1 t = Ok st2 ->
    forall y, y <> x -> denot (fst st2) (var st2 y) = denot (fst st1) (var st1 y).
Proof.
  intros st o st1 HH Hop H x t st2 Ht H2.
  pose proof (step_HInv st o st1 HH Hop H) as HH1.
  destruct Ht as [(v & ->)|[(sx & sy & ->)|(c & s & ->)]].
  - apply (move_frame st1 x v st2 HH1 H2).
  - apply (scale_frame st1 x sx sy st2 HH1 H2).
  - apply (rotate_frame st1 x c s st2 HH1 H2).
Qed.

(* why histories are restricted to ops_ok: a constructor argument with a one-point segment
   yields a heap that fails the identity check *)
Example degenerate_new_breaks_wf :
  heap_wf (fst (h_new hempty (SC (CS [[(0, 0)%Q]; [(0, 0); (1, 0)]%Q; [(1, 0); (0, 0)]%Q])))) = false.
Proof. vm_compute. reflexivity. Qed.

(* ------------------------------------------------------------------ *)
Print Assumptions alloc_shape_spec.
Print Assumptions alloc_curve_spec.
Print Assumptions results_share_no_state.
Print Assumptions repoint_exact.
Print Assumptions map_curve_pts_geom_self.
Print Assumptions map_curve_pts_geom_other.
Print Assumptions h_move_denot.
Print Assumptions h_scale_frame.
Print Assumptions h_rotate_geom.
Print Assumptions h_invert_curve_spec.
Print Assumptions h_invert_curve_coherent.
Print Assumptions h_split_segment_coherent.
Print Assumptions h_split_segment_geom_exact.
Print Assumptions alloc_shape_coh.
Print Assumptions h_move_coherent.
Print Assumptions h_scale_coherent.
Print Assumptions h_rotate_coherent.
Print Assumptions h_contains_point_coherent.
Print Assumptions h_curve_has_point_live.
Print Assumptions h_contains_point_live.
Print Assumptions stale_scale_refuted.
Print Assumptions stale_scale_incoherent.
Print Assumptions heap_wf_iff.
Print Assumptions h_binop_spec.
Print Assumptions step_HInv.
Print Assumptions reachable_HInv.
Print Assumptions reachable_heap_wf.
Print Assumptions move_frame.
Print Assumptions scale_frame.
Print Assumptions rotate_frame.
Print Assumptions value_step_frame.
Print Assumptions bin_operands.
Print Assumptions reachable_contains_live.
Print Assumptions reachable_value_frame.
Print Assumptions history_nonvacuous.
Print Assumptions reachable_nonvacuous.
