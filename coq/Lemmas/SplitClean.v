(* SplitClean.v -- "splitting and cleaning a curve never change the curve",
   straight segments, exact rational data.
   S1  split_many on a 2-point segment: complete description of the pieces
   S2  no zero-length piece
   S3  every piece retraces its part of the original segment
   S4  area is preserved (segment level and curve level)
   S5  all_lines / closed_chain are preserved by split
   S6  crossing numbers (winding number of the chain) are preserved by split
   S7  clean on straight-segment curves: lines stay lines, idempotence *)
From SV Require Import Model.Jordan Spec.Spec.
From SV Require Import Lemmas.BezierFacts Lemmas.Quadrature Lemmas.Fuel Lemmas.Lines.
From Coq Require Import QArith Lqa Lia List Sorted Permutation.
Import ListNotations.
Open Scope Q_scope.

(* ------------------------------------------------------------------ *)
(* 0. points on a line                                                 *)
(* ------------------------------------------------------------------ *)
(* pt_at a b t = (px a + t (px b - px a), py a + t (py b - py a)) comes from Lines.v *)

Lemma pt_at_0 : forall a b, peq (pt_at a b 0) a.
Proof. intros [ax ay] [bx by_]. cbv [pt_at peq px py fst snd]. split; ring. Qed.
Lemma pt_at_1 : forall a b, peq (pt_at a b 1) b.
Proof. intros [ax ay] [bx by_]. cbv [pt_at peq px py fst snd]. split; ring. Qed.

Lemma pt_at_peq : forall a b a' b' t t',
  peq a a' -> peq b b' -> t == t' -> peq (pt_at a b t) (pt_at a' b' t').
Proof.
  intros [ax ay] [bx by_] [ax' ay'] [bx' by'] t t' [H1 H2] [H3 H4] Ht.
  cbv [pt_at peq px py fst snd] in *. rewrite H1, H2, H3, H4, Ht. split; reflexivity.
Qed.

Lemma lerp_pt_at : forall u p q, peq (lerp u p q) (pt_at p q u).
Proof.
  intros u [p1 p2] [q1 q2]. cbv [lerp padd pscale pt_at peq px py fst snd]. split; ring.
Qed.

Lemma pt_at_pt_at : forall a b u v x,
  peq (pt_at (pt_at a b u) (pt_at a b v) x) (pt_at a b (u + x * (v - u))).
Proof.
  intros [ax ay] [bx by_] u v x. cbv [pt_at peq px py fst snd]. split; ring.
Qed.

(* renormalised parameter of split_many_from *)
Lemma pt_at_renorm : forall a b t0 t, ~ t0 == 1 ->
  peq (pt_at (pt_at a b t0) b ((t - t0) / (1 - t0))) (pt_at a b t).
Proof.
  intros [ax ay] [bx by_] t0 t H. cbv [pt_at peq px py fst snd].
  split; field; intro E; apply H; lra.
Qed.

Lemma pred_peq : forall p, peq (pred_ p) p.
Proof. intros [x y]. cbv [pred_ peq px py fst snd]. split; apply Qred_correct. Qed.

Lemma peqb_peq : forall p q, peqb p q = true <-> peq p q.
Proof.
  intros p q. unfold peqb, peq. rewrite andb_true_iff, !Qeq_bool_iff. tauto.
Qed.

(* ------------------------------------------------------------------ *)
(* S1. split_many on a straight segment                                *)
(* ------------------------------------------------------------------ *)
Lemma split_at_line : forall u p q,
  split_at u [p; q] = ([p; lerp u p q], [lerp u p q; q]).
Proof. reflexivity. Qed.

(* piece s goes from parameter u to parameter v of the segment a-b *)
Definition piece_par (a b : point) (s : seg) (u v : Q) : Prop :=
  length s = 2%nat /\ peq (first_pt s) (pt_at a b u) /\ peq (last_pt s) (pt_at a b v).

(* ps subdivides a-b from parameter u on, at the parameters l, up to 1 *)
Inductive subdiv_from (a b : point) : Q -> list Q -> list seg -> Prop :=
| sd_last : forall u s, piece_par a b s u 1 -> subdiv_from a b u [] [s]
| sd_cons : forall u v l s ps, piece_par a b s u v -> subdiv_from a b v l ps ->
    subdiv_from a b u (v :: l) (s :: ps).

Lemma split_many_from_subdiv : forall a b ts t0 p q,
  peq p (pt_at a b t0) -> peq q b -> ~ t0 == 1 -> (forall t, In t ts -> ~ t == 1) ->
  subdiv_from a b t0 ts (split_many_from t0 ts [p; q]).
Proof.
  intros a b ts. induction ts as [|t ts IH]; intros t0 p q Hp Hq H0 Hts.
  - cbn [split_many_from]. constructor. split; [reflexivity|]. cbn [first_pt last_pt hd last].
    split; [exact Hp|]. eapply peq_trans; [exact Hq|]. apply peq_sym, pt_at_1.
  - cbn [split_many_from]. rewrite split_at_line.
    assert (Hm : peq (lerp ((t - t0) / (1 - t0)) p q) (pt_at a b t)).
    { eapply peq_trans; [apply lerp_pt_at|].
      eapply peq_trans; [|apply (pt_at_renorm a b t0 t H0)].
      apply pt_at_peq; [exact Hp|exact Hq|reflexivity]. }
    constructor.
    + split; [reflexivity|]. cbn [first_pt last_pt hd last]. split; assumption.
    + apply IH; [exact Hm|exact Hq| |].
      * apply Hts. left. reflexivity.
      * intros t' Ht'. apply Hts. right. exact Ht'.
Qed.

Lemma piece_par_pred : forall a b s u v,
  piece_par a b s u v -> piece_par a b (map pred_ s) u v.
Proof.
  intros a b s u v (Hl & Hf & Hg).
  destruct s as [|x [|y [|z s]]]; try discriminate Hl.
  cbn [map first_pt last_pt hd last] in *. split; [reflexivity|].
  split; (eapply peq_trans; [apply pred_peq|assumption]).
Qed.

Lemma subdiv_from_pred : forall a b u l ps,
  subdiv_from a b u l ps -> subdiv_from a b u l (map (map pred_) ps).
Proof.
  intros a b u l ps H. induction H; cbn [map]; constructor;
    try apply piece_par_pred; assumption.
Qed.

Theorem split_many_subdiv : forall a b ts,
  (forall t, In t ts -> ~ t == 1) ->
  subdiv_from a b 0 ts (split_many ts [a; b]).
Proof.
  intros a b ts H. unfold split_many. apply subdiv_from_pred.
  apply split_many_from_subdiv; [apply peq_sym, pt_at_0|apply peq_refl|lra|exact H].
Qed.

(* the parameters are strictly increasing from u and stay below 1 *)
Fixpoint incr (u : Q) (l : list Q) : Prop :=
  match l with
  | [] => u < 1
  | v :: l' => u < v /\ incr v l'
  end.

Lemma incr_lt1 : forall l u, incr u l -> u < 1.
Proof.
  induction l as [|v l IH]; intros u H; cbn [incr] in H; [exact H|].
  destruct H as [H1 H2]. apply IH in H2. lra.
Qed.

Lemma incr_In : forall l u t, incr u l -> In t l -> u < t /\ t < 1.
Proof.
  induction l as [|v l IH]; intros u t H Hin; [contradiction|].
  cbn [incr] in H. destruct H as [H1 H2]. destruct Hin as [<-|Hin].
  - split; [exact H1|]. eapply incr_lt1; eassumption.
  - destruct (IH v t H2 Hin). split; lra.
Qed.

Lemma sorted_incr : forall ts u,
  StronglySorted Qlt ts -> (forall t, In t ts -> u < t /\ t < 1) -> u < 1 -> incr u ts.
Proof.
  induction ts as [|t ts IH]; intros u Hs Hin Hu; cbn [incr]; [exact Hu|].
  apply StronglySorted_inv in Hs. destruct Hs as [Hs Hall].
  split; [apply Hin; left; reflexivity|].
  apply IH; [exact Hs| |apply Hin; left; reflexivity].
  intros t' Ht'. split.
  - rewrite Forall_forall in Hall. apply Hall. exact Ht'.
  - apply Hin. right. exact Ht'.
Qed.

(* ---- the formulation with the list of expected end points ---- *)
Definition piece_ends (s : seg) (e : point * point) : Prop :=
  length s = 2%nat /\ peq (first_pt s) (fst e) /\ peq (last_pt s) (snd e).

Lemma subdiv_from_Forall2 : forall a b u l ps, subdiv_from a b u l ps ->
  Forall2 piece_ends ps (pairs_of (map (pt_at a b) (u :: l ++ [1]))).
Proof.
  intros a b u l ps H. induction H.
  - cbn [app map pairs_of]. constructor; [exact H|constructor].
  - cbn [app map pairs_of] in *. constructor; [exact H|exact IHsubdiv_from].
Qed.

Lemma subdiv_from_length : forall a b u l ps, subdiv_from a b u l ps ->
  length ps = S (length l).
Proof. intros a b u l ps H. induction H; cbn [length]; congruence. Qed.

Theorem split_many_line : forall a b ts,
  StronglySorted Qlt ts -> (forall t, In t ts -> 0 < t /\ t < 1) ->
  Forall2 (fun s e => length s = 2%nat /\ peq (first_pt s) (fst e) /\ peq (last_pt s) (snd e))
          (split_many ts [a; b]) (pairs_of (map (pt_at a b) (0 :: ts ++ [1]))).
Proof.
  intros a b ts _ H. apply (subdiv_from_Forall2 a b 0 ts).
  apply split_many_subdiv. intros t Ht. specialize (H t Ht). lra.
Qed.

Theorem split_many_line_length : forall a b ts,
  (forall t, In t ts -> ~ t == 1) ->
  length (split_many ts [a; b]) = S (length ts).
Proof.
  intros a b ts H. eapply subdiv_from_length. apply split_many_subdiv. exact H.
Qed.

(* ------------------------------------------------------------------ *)
(* S2. no zero-length piece                                            *)
(* ------------------------------------------------------------------ *)
Lemma pt_at_inj : forall a b u v, ~ peq a b -> peq (pt_at a b u) (pt_at a b v) -> u == v.
Proof.
  intros [ax ay] [bx by_] u v Hab [H1 H2]. cbv [pt_at peq px py fst snd] in *.
  destruct (Qeq_dec u v) as [E|N]; [exact E|]. exfalso. apply Hab.
  assert (K1 : (u - v) * (bx - ax) == 0) by lra.
  assert (K2 : (u - v) * (by_ - ay) == 0) by lra.
  apply Qmult_integral in K1. apply Qmult_integral in K2.
  destruct K1 as [K1|K1]; [exfalso; apply N; lra|].
  destruct K2 as [K2|K2]; [exfalso; apply N; lra|].
  split; lra.
Qed.

Lemma subdiv_from_nondegenerate : forall a b u l ps, ~ peq a b ->
  subdiv_from a b u l ps -> incr u l ->
  forall s, In s ps -> ~ peq (first_pt s) (last_pt s).
Proof.
  intros a b u l ps Hab H. induction H; intros Hi s' Hin.
  - destruct Hin as [<-|[]]. destruct H as (_ & Hf & Hg). cbn [incr] in Hi.
    intro E. assert (K : u == 1); [|lra].
    apply (pt_at_inj a b); [exact Hab|].
    eapply peq_trans; [apply peq_sym; exact Hf|]. eapply peq_trans; eassumption.
  - cbn [incr] in Hi. destruct Hi as [Hi1 Hi2]. destruct Hin as [<-|Hin].
    + destruct H as (_ & Hf & Hg).
      intro E. assert (K : u == v); [|lra].
      apply (pt_at_inj a b); [exact Hab|].
      eapply peq_trans; [apply peq_sym; exact Hf|]. eapply peq_trans; eassumption.
    + apply IHsubdiv_from; assumption.
Qed.

Theorem split_many_nondegenerate : forall a b ts,
  StronglySorted Qlt ts -> (forall t, In t ts -> 0 < t /\ t < 1) -> ~ peq a b ->
  forall s, In s (split_many ts [a; b]) -> ~ peq (first_pt s) (last_pt s).
Proof.
  intros a b ts Hs Hin Hab.
  apply (subdiv_from_nondegenerate a b 0 ts); [exact Hab| |].
  - apply split_many_subdiv. intros t Ht. specialize (Hin t Ht). lra.
  - apply sorted_incr; [exact Hs|exact Hin|lra].
Qed.

(* ------------------------------------------------------------------ *)
(* S3. every piece retraces its part of the segment                    *)
(* ------------------------------------------------------------------ *)
Lemma piece_par_eval : forall a b s u v x, piece_par a b s u v ->
  peq (eval s x) (eval [a; b] (u + x * (v - u))).
Proof.
  intros a b s u v x (Hl & Hf & Hg).
  destruct s as [|p [|q [|z s]]]; try discriminate Hl.
  cbn [first_pt last_pt hd last] in *.
  eapply peq_trans; [apply eval_deg1|].
  eapply peq_trans; [|apply peq_sym, eval_deg1].
  eapply peq_trans; [|apply pt_at_pt_at].
  apply pt_at_peq; [exact Hf|exact Hg|reflexivity].
Qed.

(* parametric formulation of S1: pieces against consecutive parameter pairs *)
Lemma subdiv_from_Forall2_par : forall a b u l ps, subdiv_from a b u l ps ->
  Forall2 (fun s uv => piece_par a b s (fst uv) (snd uv)) ps (pairs_of (u :: l ++ [1])).
Proof.
  intros a b u l ps H. induction H.
  - cbn [app pairs_of]. constructor; [exact H|constructor].
  - cbn [app pairs_of] in *. constructor; [exact H|exact IHsubdiv_from].
Qed.

Theorem split_many_retrace : forall a b ts,
  (forall t, In t ts -> ~ t == 1) ->
  Forall2 (fun s uv => forall x,
             peq (eval s x) (eval [a; b] (fst uv + x * (snd uv - fst uv))))
          (split_many ts [a; b]) (pairs_of (0 :: ts ++ [1])).
Proof.
  intros a b ts H.
  pose proof (subdiv_from_Forall2_par a b 0 ts _ (split_many_subdiv a b ts H)) as F.
  induction F; constructor; [|assumption].
  intros x0. apply piece_par_eval. assumption.
Qed.

(* ------------------------------------------------------------------ *)
(* S4 (segment level). area                                            *)
(* ------------------------------------------------------------------ *)
Lemma vertical_peq : forall s a b, length s = 2%nat ->
  peq (first_pt s) a -> peq (last_pt s) b -> vertical s 1 0 == vertical [a; b] 1 0.
Proof.
  intros s a b Hl Hf Hg. destruct s as [|p [|q [|z s]]]; try discriminate Hl.
  cbn [first_pt last_pt hd last] in *. rewrite !vertical_line_area.
  destruct Hf as [H1 H2], Hg as [H3 H4]. rewrite H1, H2, H3, H4. reflexivity.
Qed.

Lemma vertical_split_par : forall a b u v w,
  vertical [pt_at a b u; pt_at a b v] 1 0 + vertical [pt_at a b v; pt_at a b w] 1 0
  == vertical [pt_at a b u; pt_at a b w] 1 0.
Proof.
  intros [ax ay] [bx by_] u v w. rewrite !vertical_line_area.
  cbv [pt_at px py fst snd]. field.
Qed.

Lemma vertical_split : forall a b t m, peq m (pt_at a b t) ->
  vertical [a; m] 1 0 + vertical [m; b] 1 0 == vertical [a; b] 1 0.
Proof.
  intros a b t m Hm.
  rewrite (vertical_peq [a; m] (pt_at a b 0) (pt_at a b t)); cbn [first_pt last_pt hd last];
    [|reflexivity|apply peq_sym, pt_at_0|exact Hm].
  rewrite (vertical_peq [m; b] (pt_at a b t) (pt_at a b 1)); cbn [first_pt last_pt hd last];
    [|reflexivity|exact Hm|apply peq_sym, pt_at_1].
  rewrite vertical_split_par.
  apply vertical_peq; cbn [first_pt last_pt hd last];
    [reflexivity|apply pt_at_0|apply pt_at_1].
Qed.

Lemma subdiv_from_area : forall a b u l ps, subdiv_from a b u l ps ->
  Qsum (map (fun s => vertical s 1 0) ps) == vertical [pt_at a b u; pt_at a b 1] 1 0.
Proof.
  intros a b u l ps H. induction H.
  - cbn [map Qsum]. destruct H as (Hl & Hf & Hg).
    rewrite (vertical_peq s _ _ Hl Hf Hg). ring.
  - cbn [map Qsum]. rewrite IHsubdiv_from. destruct H as (Hl & Hf & Hg).
    rewrite (vertical_peq s _ _ Hl Hf Hg). apply vertical_split_par.
Qed.

Theorem split_many_area : forall a b ts,
  (forall t, In t ts -> ~ t == 1) ->
  Qsum (map (fun s => vertical s 1 0) (split_many ts [a; b])) == vertical [a; b] 1 0.
Proof.
  intros a b ts H. rewrite (subdiv_from_area a b 0 ts _ (split_many_subdiv a b ts H)).
  apply vertical_peq; cbn [first_pt last_pt hd last];
    [reflexivity|apply pt_at_0|apply pt_at_1].
Qed.

(* ------------------------------------------------------------------ *)
(* S6 (segment level). crossing numbers                                *)
(* ------------------------------------------------------------------ *)
Lemma orient_peq : forall a b p a' b', peq a a' -> peq b b' -> orient a b p == orient a' b' p.
Proof.
  intros [ax ay] [bx by_] [p1 p2] [ax' ay'] [bx' by'] [H1 H2] [H3 H4].
  cbv [orient cross psub px py fst snd] in *. rewrite H1, H2, H3, H4. reflexivity.
Qed.

Lemma cr_peq : forall a b p a' b', peq a a' -> peq b b' -> cr a b p = cr a' b' p.
Proof.
  intros a b p a' b' Ha Hb. pose proof (orient_peq a b p a' b' Ha Hb) as Ho.
  destruct Ha as [Ha _], Hb as [Hb _]. unfold cr, Qlt_bool.
  rewrite (Qleb_comp _ _ Ha (px p) (px p) (Qeq_refl _)).
  rewrite (Qleb_comp _ _ Hb (px p) (px p) (Qeq_refl _)).
  rewrite (Qleb_comp 0 0 (Qeq_refl _) _ _ Ho).
  rewrite (Qleb_comp _ _ Ho 0 0 (Qeq_refl _)).
  reflexivity.
Qed.

Lemma sign_tests_scale : forall k x y, 0 < k -> x == k * y ->
  Qle_bool 0 x = Qle_bool 0 y /\ Qle_bool x 0 = Qle_bool y 0.
Proof.
  intros k x y Hk E. split.
  - destruct (Qle_bool 0 x) eqn:E1, (Qle_bool 0 y) eqn:E2; try reflexivity; exfalso.
    + apply Qle_bool_iff in E1. apply Qle_bool_false in E2. nra.
    + apply Qle_bool_iff in E2. apply Qle_bool_false in E1. nra.
  - destruct (Qle_bool x 0) eqn:E1, (Qle_bool y 0) eqn:E2; try reflexivity; exfalso.
    + apply Qle_bool_iff in E1. apply Qle_bool_false in E2. nra.
    + apply Qle_bool_iff in E2. apply Qle_bool_false in E1. nra.
Qed.

Ltac qb x y H :=
  destruct (Qle_bool x y) eqn:H; [apply Qle_bool_iff in H | apply Qle_bool_false in H].

Lemma cr_split_gen : forall a m b p t, 0 < t -> t < 1 ->
  px m == px a + t * (px b - px a) ->
  orient a m p == t * orient a b p ->
  orient m b p == (1 - t) * orient a b p ->
  cr a b p = (cr a m p + cr m b p)%Z.
Proof.
  intros a m b p t H0 H1 Hm Ho1 Ho2.
  destruct (sign_tests_scale t _ _ H0 Ho1) as [S1 S2].
  assert (H1' : 0 < 1 - t) by lra.
  destruct (sign_tests_scale (1 - t) _ _ H1' Ho2) as [S3 S4].
  unfold cr, Qlt_bool. rewrite S1, S2, S3, S4.
  assert (K1 : px a < px b -> px a < px m /\ px m < px b) by (intro; split; nra).
  assert (K2 : px b < px a -> px b < px m /\ px m < px a) by (intro; split; nra).
  assert (K3 : px a == px b -> px m == px a) by (intro; nra).
  clear Hm Ho1 Ho2 S1 S2 S3 S4.
  generalize dependent (orient a b p). intros o.
  generalize dependent (px a). generalize dependent (px b).
  generalize dependent (px m). generalize dependent (px p).
  intros xp xm xb xa K1 K2 K3.
  qb xa xp T1; qb xb xp T2; qb xm xp T3; cbn [negb andb];
  try (destruct (Qle_bool 0 o); destruct (Qle_bool o 0); reflexivity);
  exfalso;
  (destruct (Q_dec xa xb) as [[L|L]|L];
   [specialize (K1 L)|specialize (K2 L)|specialize (K3 L)]; lra).
Qed.

Lemma cr_split : forall a b p t, 0 < t -> t < 1 ->
  cr a b p = (cr a (pt_at a b t) p + cr (pt_at a b t) b p)%Z.
Proof.
  intros [ax ay] [bx by_] [p1 p2] t H0 H1. apply (cr_split_gen _ _ _ _ t H0 H1);
  cbv [pt_at orient cross psub px py fst snd]; ring.
Qed.

Lemma cr_split_par : forall a b p u v w, u < v -> v < w ->
  cr (pt_at a b u) (pt_at a b w) p
  = (cr (pt_at a b u) (pt_at a b v) p + cr (pt_at a b v) (pt_at a b w) p)%Z.
Proof.
  intros [ax ay] [bx by_] [p1 p2] u v w H0 H1.
  assert (Hne : ~ w - u == 0) by lra.
  apply (cr_split_gen _ _ _ _ ((v - u) / (w - u))).
  - apply Qlt_shift_div_l; lra.
  - apply Qlt_shift_div_r; lra.
  - cbv [pt_at orient cross psub px py fst snd]. field. exact Hne.
  - cbv [pt_at orient cross psub px py fst snd]. field. exact Hne.
  - cbv [pt_at orient cross psub px py fst snd]. field. exact Hne.
Qed.

Definition crs (p : point) (s : seg) : Z := cr (first_pt s) (last_pt s) p.

Lemma subdiv_from_cr : forall a b p u l ps, subdiv_from a b u l ps -> incr u l ->
  Zsum (map (crs p) ps) = cr (pt_at a b u) (pt_at a b 1) p.
Proof.
  intros a b p u l ps H. induction H; intros Hi.
  - cbn [map Zsum]. destruct H as (_ & Hf & Hg). unfold crs.
    rewrite (cr_peq _ _ p _ _ Hf Hg). lia.
  - cbn [incr] in Hi. destruct Hi as [Hi1 Hi2].
    cbn [map Zsum]. rewrite (IHsubdiv_from Hi2). destruct H as (_ & Hf & Hg).
    unfold crs at 1. rewrite (cr_peq _ _ p _ _ Hf Hg).
    symmetry. apply cr_split_par; [exact Hi1|]. eapply incr_lt1; eassumption.
Qed.

Theorem split_many_cr : forall a b p ts,
  StronglySorted Qlt ts -> (forall t, In t ts -> 0 < t /\ t < 1) ->
  Zsum (map (fun s => cr (first_pt s) (last_pt s) p) (split_many ts [a; b])) = cr a b p.
Proof.
  intros a b p ts Hs Hin. change (fun s => cr (first_pt s) (last_pt s) p) with (crs p).
  rewrite (subdiv_from_cr a b p 0 ts).
  - apply cr_peq; [apply pt_at_0|apply pt_at_1].
  - apply split_many_subdiv. intros t Ht. specialize (Hin t Ht). lra.
  - apply sorted_incr; [exact Hs|exact Hin|lra].
Qed.

(* ------------------------------------------------------------------ *)
(* sorting                                                             *)
(* ------------------------------------------------------------------ *)
Section Sorting.
  Context {A : Type} (le : A -> A -> bool).
  Hypothesis le_total : forall x y, le x y = false -> le y x = true.
  Hypothesis le_trans : forall x y z, le x y = true -> le y z = true -> le x z = true.
  Let R (x y : A) : Prop := le x y = true.

  Lemma insert_sorted_In : forall x l y, In y (insert_sorted le x l) -> y = x \/ In y l.
  Proof.
    intros x l y. induction l as [|z l IH]; cbn [insert_sorted].
    - intros [<-|[]]. left. reflexivity.
    - destruct (le x z).
      + intros [<-|H]; [left; reflexivity|right; exact H].
      + intros [<-|H]; [right; left; reflexivity|].
        destruct (IH H) as [->|H']; [left; reflexivity|right; right; exact H'].
  Qed.

  Lemma sort_by_In : forall l y, In y (sort_by le l) -> In y l.
  Proof.
    induction l as [|x l IH]; intros y H; [exact H|].
    unfold sort_by in H. cbn [fold_right] in H. apply insert_sorted_In in H.
    destruct H as [->|H]; [left; reflexivity|right; apply IH; exact H].
  Qed.

  Lemma insert_sorted_SS : forall x l, StronglySorted R l -> StronglySorted R (insert_sorted le x l).
  Proof.
    intros x l H. induction H as [|z l Hs IH Hall]; cbn [insert_sorted].
    - constructor; constructor.
    - destruct (le x z) eqn:E.
      + constructor; [constructor; assumption|].
        constructor; [exact E|]. rewrite Forall_forall in *. intros w Hw.
        eapply le_trans; [exact E|apply Hall; exact Hw].
      + constructor; [exact IH|]. rewrite Forall_forall in *. intros w Hw.
        apply insert_sorted_In in Hw. destruct Hw as [->|Hw].
        * apply le_total. exact E.
        * apply Hall. exact Hw.
  Qed.

  Lemma sort_by_SS : forall l, StronglySorted R (sort_by le l).
  Proof.
    induction l as [|x l IH]; [constructor|].
    unfold sort_by. cbn [fold_right]. apply insert_sorted_SS. exact IH.
  Qed.
End Sorting.

Lemma filter_SS : forall {A} (R : A -> A -> Prop) f l,
  StronglySorted R l -> StronglySorted R (filter f l).
Proof.
  intros A R f l H. induction H as [|z l Hs IH Hall]; cbn [filter]; [constructor|].
  destruct (f z); [|exact IH]. constructor; [exact IH|].
  rewrite Forall_forall in *. intros w Hw. apply filter_In in Hw. apply Hall. tauto.
Qed.

Lemma pair_le_total : forall x y, pair_le x y = false -> pair_le y x = true.
Proof.
  intros [i u] [k v]. unfold pair_le. cbn [fst snd]. intro H.
  apply orb_false_iff in H. destruct H as [H1 H2].
  apply Nat.ltb_ge in H1.
  destruct (Nat.eqb_spec i k) as [->|N].
  - cbn [andb] in H2. apply Qle_bool_false in H2.
    rewrite Nat.eqb_refl. cbn [andb].
    assert (E : Qle_bool v u = true) by (apply Qle_bool_iff; lra).
    rewrite E. apply orb_true_r.
  - assert (L : (k <? i)%nat = true) by (apply Nat.ltb_lt; lia).
    rewrite L. reflexivity.
Qed.

Lemma pair_le_spec : forall x y, pair_le x y = true <->
  (fst x < fst y)%nat \/ (fst x = fst y /\ snd x <= snd y).
Proof.
  intros [i u] [k v]. unfold pair_le. cbn [fst snd].
  rewrite orb_true_iff, andb_true_iff, Nat.ltb_lt, Nat.eqb_eq, Qle_bool_iff. tauto.
Qed.

Lemma pair_le_trans : forall x y z, pair_le x y = true -> pair_le y z = true -> pair_le x z = true.
Proof.
  intros x y z H1 H2. rewrite pair_le_spec in *.
  destruct H1 as [H1|[H1 H1']], H2 as [H2|[H2 H2']].
  - left. lia.
  - left. lia.
  - left. lia.
  - right. split; [lia|lra].
Qed.

Lemma same_index_sorted : forall (i : nat) (l : list (nat * Q)),
  StronglySorted (fun x y => pair_le x y = true) l ->
  (forall x, In x l -> fst x = i) ->
  StronglySorted Qle (map snd l).
Proof.
  intros i l H. induction H as [|z l Hs IH Hall]; intros Hi; cbn [map]; [constructor|].
  constructor.
  - apply IH. intros x Hx. apply Hi. right. exact Hx.
  - rewrite Forall_forall in *. intros w Hw. apply in_map_iff in Hw.
    destruct Hw as (x & <- & Hx). specialize (Hall x Hx). apply pair_le_spec in Hall.
    pose proof (Hi z (or_introl eq_refl)). pose proof (Hi x (or_intror Hx)).
    destruct Hall as [Hall|[_ Hall]]; [lia|exact Hall].
Qed.

Lemma nodup_sorted_incr : forall ns u,
  StronglySorted Qle ns -> has_dup ns = false -> (forall t, In t ns -> t < 1) ->
  match ns with [] => u < 1 | t :: _ => u < t end -> incr u ns.
Proof.
  induction ns as [|t ns IH]; intros u Hs Hd Hlt Hu; cbn [incr]; [exact Hu|].
  split; [exact Hu|].
  apply StronglySorted_inv in Hs. destruct Hs as [Hs Hall].
  apply IH.
  - exact Hs.
  - destruct ns as [|t1 ns']; [reflexivity|].
    cbn [has_dup] in Hd. apply orb_false_iff in Hd. tauto.
  - intros t' Ht'. apply Hlt. right. exact Ht'.
  - destruct ns as [|t1 ns'].
    + apply Hlt. left. reflexivity.
    + cbn [has_dup] in Hd. apply orb_false_iff in Hd. destruct Hd as [Hd _].
      rewrite Forall_forall in Hall. specialize (Hall t1 (or_introl eq_refl)).
      assert (N : ~ t == t1).
      { intro E. apply Qeq_bool_iff in E. congruence. }
      lra.
Qed.

(* ------------------------------------------------------------------ *)
(* the error monad                                                     *)
(* ------------------------------------------------------------------ *)
Lemma bind_Ok : forall {A B} (r : res A) (f : A -> res B) y,
  bind r f = Ok y -> exists x, r = Ok x /\ f x = Ok y.
Proof. intros A B [x|k|] f y H; cbn in H; try discriminate. exists x. split; [reflexivity|exact H]. Qed.

Lemma assert_Ok : forall b u, assert_ b = Ok u -> b = true.
Proof. intros [|] u H; [reflexivity|discriminate]. Qed.

Lemma mapM_Ok_Forall2 : forall {A B} (f : A -> res B) l ys,
  mapM f l = Ok ys -> Forall2 (fun x y => f x = Ok y) l ys.
Proof.
  intros A B f. induction l as [|x l IH]; intros ys H; cbn [mapM] in H.
  - inversion H. constructor.
  - apply bind_Ok in H. destruct H as (y & Hy & H).
    apply bind_Ok in H. destruct H as (ys' & Hys & H). inversion H; subst.
    constructor; [exact Hy|apply IH; exact Hys].
Qed.

(* ------------------------------------------------------------------ *)
(* what split does to a curve of straight segments                     *)
(* ------------------------------------------------------------------ *)
Lemma seg_clean_line : forall s, length s = 2%nat -> seg_clean s = s.
Proof. intros [|p [|q [|z s]]] H; try discriminate H. reflexivity. Qed.

Lemma map_seg_clean_lines : forall l, (forall s, In s l -> length s = 2%nat) -> map seg_clean l = l.
Proof.
  induction l as [|s l IH]; intros H; cbn [map]; [reflexivity|].
  rewrite seg_clean_line by (apply H; left; reflexivity).
  rewrite IH; [reflexivity|]. intros s' Hs'. apply H. right. exact Hs'.
Qed.

(* ps is a subdivision of the straight segment s at strictly increasing
   parameters ts inside (0,1) *)
Definition subdiv (s : seg) (ps : list seg) : Prop :=
  exists a b ts, s = [a; b] /\ incr 0 ts /\ subdiv_from a b 0 ts ps.

Lemma subdiv_from_lines : forall a b u l ps, subdiv_from a b u l ps ->
  forall s, In s ps -> length s = 2%nat.
Proof.
  intros a b u l ps H. induction H; intros s' [<-|Hin]; try (destruct H; assumption).
  - destruct Hin.
  - apply IHsubdiv_from. exact Hin.
Qed.

(* the same, with the parameters exposed *)
Definition subdiv_ts (s : seg) (ts : list Q) (ps : list seg) : Prop :=
  exists a b, s = [a; b] /\ incr 0 ts /\ subdiv_from a b 0 ts ps.

Lemma subdiv_ts_subdiv : forall s ts ps, subdiv_ts s ts ps -> subdiv s ps.
Proof. intros s ts ps (a & b & H). exists a, b, ts. exact H. Qed.

Lemma subdiv_ts_self : forall a b, subdiv_ts [a; b] [] [[a; b]].
Proof.
  intros a b. exists a, b. split; [reflexivity|]. split; [cbn; lra|].
  constructor. split; [reflexivity|]. cbn [first_pt last_pt hd last].
  split; apply peq_sym; [apply pt_at_0|apply pt_at_1].
Qed.

Lemma near01_false : forall u, 0 <= u -> u <= 1 -> near01 u = false -> 0 < u /\ u < 1.
Proof.
  intros u H0 H1 H. unfold near01 in H. apply orb_false_iff in H. destruct H as [Ha Hb].
  apply Qlt_bool_false in Ha. apply Qlt_bool_false in Hb.
  assert (T : 0 < tol6) by reflexivity.
  unfold Qabs' in *.
  destruct (Qle_bool 0 u) eqn:E1; [apply Qle_bool_iff in E1|apply Qle_bool_false in E1];
  destruct (Qle_bool 0 (u - 1)) eqn:E2;
  try (apply Qle_bool_iff in E2); try (apply Qle_bool_false in E2); split; lra.
Qed.

Section SplitElem.
  Variable pairs : list (nat * Q).
  Hypothesis pairs_sorted : StronglySorted (fun x y => pair_le x y = true) pairs.
  Hypothesis pairs_in : forall iu, In iu pairs -> 0 < snd iu /\ snd iu < 1.

  Definition nodes_of (i : nat) : list Q :=
    map snd (filter (fun iu : nat * Q => Nat.eqb (fst iu) i) pairs).

  Lemma split_elem : forall i a b ps,
    match nodes_of i with
    | [] => Ok [[a; b]]
    | _ => split_segment [a; b] (nodes_of i)
    end = Ok ps ->
    subdiv_ts [a; b] (nodes_of i) ps.
  Proof.
    intros i a b ps H. destruct (nodes_of i) as [|t ns] eqn:E.
    - inversion H. apply subdiv_ts_self.
    - rewrite <- E in *. unfold split_segment in H.
      destruct (has_dup (nodes_of i)) eqn:D; [discriminate|]. inversion H; subst ps. clear H.
      assert (Hin : forall t, In t (nodes_of i) -> 0 < t /\ t < 1).
      { intros t' Ht'. unfold nodes_of in Ht'. apply in_map_iff in Ht'.
        destruct Ht' as (x & <- & Hx). apply filter_In in Hx. apply pairs_in. tauto. }
      assert (Hs : StronglySorted Qle (nodes_of i)).
      { unfold nodes_of. apply (same_index_sorted i).
        - apply filter_SS. exact pairs_sorted.
        - intros x Hx. apply filter_In in Hx. destruct Hx as [_ Hx].
          apply Nat.eqb_eq in Hx. exact Hx. }
      assert (Hi : incr 0 (nodes_of i)).
      { apply nodup_sorted_incr; [exact Hs|exact D| |].
        - intros t' Ht'. apply Hin. exact Ht'.
        - rewrite E. apply (Hin t). rewrite E. left. reflexivity. }
      assert (Hsd : subdiv_from a b 0 (nodes_of i) (split_many (nodes_of i) [a; b])).
      { apply split_many_subdiv. intros t' Ht'. specialize (Hin t' Ht'). lra. }
      rewrite map_seg_clean_lines by (eapply subdiv_from_lines; exact Hsd).
      exists a, b. split; [reflexivity|]. split; assumption.
  Qed.
End SplitElem.

Lemma Forall2_subdiv_lines : forall j pieces, Forall2 subdiv j pieces ->
  forall s, In s (concat pieces) -> length s = 2%nat.
Proof.
  intros j pieces H. induction H as [|s ps j pieces Hsd _ IH]; intros s' Hin; [destruct Hin|].
  cbn [concat] in Hin. apply in_app_iff in Hin. destruct Hin as [Hin|Hin].
  - destruct Hsd as (a & b & ts & _ & _ & Hsd). eapply subdiv_from_lines; eassumption.
  - apply IH. exact Hin.
Qed.

(* indexed Forall2 *)
Inductive Forall2i {A B} (P : nat -> A -> B -> Prop) : nat -> list A -> list B -> Prop :=
| Forall2i_nil : forall k, Forall2i P k [] []
| Forall2i_cons : forall k x y l m, P k x y -> Forall2i P (S k) l m ->
    Forall2i P k (x :: l) (y :: m).

Lemma Forall2i_Forall2 : forall {A B} (P : nat -> A -> B -> Prop) (Q : A -> B -> Prop) k l m,
  (forall i x y, P i x y -> Q x y) -> Forall2i P k l m -> Forall2 Q l m.
Proof. intros A B P Q k l m H F. induction F; constructor; eauto. Qed.

Lemma Forall2i_nth : forall {A B} (P : nat -> A -> B -> Prop) k l m, Forall2i P k l m ->
  length l = length m /\
  forall i x y, nth_error l i = Some x -> nth_error m i = Some y -> P (k + i)%nat x y.
Proof.
  intros A B P k l m F. induction F as [|k x y l m Hxy F [IHl IH]].
  - split; [reflexivity|]. intros [|i] x y H; discriminate H.
  - split; [cbn [length]; congruence|]. intros [|i] x' y' Hx Hy; cbn [nth_error] in *.
    + inversion Hx; inversion Hy; subst. rewrite Nat.add_0_r. exact Hxy.
    + replace (k + S i)%nat with (S k + i)%nat by lia. apply IH; assumption.
Qed.

(* the (index, parameter) pairs split really uses, and the parameters of segment i *)
(* [split_pairs] (Model/Jordan.v): sorted, filtered at the ends, near-repeated nodes dropped *)
Lemma drop_repeated_from_In : forall l prev x, In x (drop_repeated_from prev l) -> In x l.
Proof.
  induction l as [|p t IH]; intros prev x H; cbn [drop_repeated_from] in H; [exact H|].
  destruct (Nat.eqb (fst prev) (fst p) && Qlt_bool (Qabs' (snd p - snd prev)) tol6).
  - right. eapply IH. exact H.
  - destruct H as [<-|H]; [left; reflexivity|right; eapply IH; exact H].
Qed.
Lemma drop_repeated_In : forall l x, In x (drop_repeated l) -> In x l.
Proof.
  intros [|p t] x H; [exact H|]. cbn [drop_repeated] in H.
  destruct H as [<-|H]; [left; reflexivity|right; eapply drop_repeated_from_In; exact H].
Qed.
Lemma drop_repeated_from_SS : forall {R : nat * Q -> nat * Q -> Prop} l prev,
  StronglySorted R l -> StronglySorted R (drop_repeated_from prev l).
Proof.
  intros R. induction l as [|p t IH]; intros prev H; cbn [drop_repeated_from]; [constructor|].
  inversion H as [|? ? Ht Hp]; subst.
  destruct (Nat.eqb (fst prev) (fst p) && Qlt_bool (Qabs' (snd p - snd prev)) tol6).
  - apply IH. exact Ht.
  - constructor; [apply IH; exact Ht|].
    rewrite Forall_forall in *. intros x Hx. apply Hp. eapply drop_repeated_from_In. exact Hx.
Qed.
Lemma drop_repeated_SS : forall {R : nat * Q -> nat * Q -> Prop} l,
  StronglySorted R l -> StronglySorted R (drop_repeated l).
Proof.
  intros R [|p t] H; [constructor|]. cbn [drop_repeated]. inversion H as [|? ? Ht Hp]; subst.
  constructor; [apply drop_repeated_from_SS; exact Ht|].
  rewrite Forall_forall in *. intros x Hx. apply Hp. eapply drop_repeated_from_In. exact Hx.
Qed.
Lemma split_pairs_SS : forall idx nodes,
  StronglySorted (fun x y => pair_le x y = true) (split_pairs idx nodes).
Proof.
  intros. unfold split_pairs. apply drop_repeated_SS.
  apply filter_SS. apply sort_by_SS; [apply pair_le_total|apply pair_le_trans].
Qed.
Lemma split_pairs_In : forall idx nodes iu, In iu (split_pairs idx nodes) ->
  In iu (combine idx nodes) /\ near01 (snd iu) = false.
Proof.
  intros idx nodes iu H. unfold split_pairs in H. apply drop_repeated_In in H.
  apply filter_In in H. destruct H as [H Hn]. apply negb_true_iff in Hn.
  apply sort_by_In in H. tauto.
Qed.
Definition split_nodes (idx : list nat) (nodes : list Q) (i : nat) : list Q :=
  nodes_of (split_pairs idx nodes) i.

Lemma In_insert_sorted : forall {A} (le : A -> A -> bool) x l y,
  y = x \/ In y l -> In y (insert_sorted le x l).
Proof.
  intros A le x l y. induction l as [|z l IH]; cbn [insert_sorted].
  - intros [->|[]]. left. reflexivity.
  - destruct (le x z).
    + intros [->|H]; [left; reflexivity|right; exact H].
    + intros [->|[<-|H]]; [right; apply IH; left; reflexivity|left; reflexivity|].
      right. apply IH. right. exact H.
Qed.

Lemma In_sort_by : forall {A} (le : A -> A -> bool) l y, In y l -> In y (sort_by le l).
Proof.
  intros A le. induction l as [|x l IH]; intros y H; [exact H|].
  unfold sort_by. cbn [fold_right]. apply In_insert_sorted.
  destruct H as [->|H]; [left; reflexivity|right; apply IH; exact H].
Qed.

(* the parameters of segment i are requested ones, none within 1e-6 of an end *)
Lemma split_nodes_In : forall idx nodes i t,
  In t (split_nodes idx nodes i) -> In (i, t) (combine idx nodes) /\ near01 t = false.
Proof.
  intros idx nodes i t. unfold split_nodes, nodes_of. rewrite in_map_iff.
  intros ([k u] & Hu & H). cbn [snd] in Hu. subst u.
  apply filter_In in H. destruct H as [H Hk]. cbn [fst] in Hk. apply Nat.eqb_eq in Hk. subst k.
  apply split_pairs_In in H. exact H.
Qed.

Theorem split_spec_nodes : forall j idx nodes j',
  all_lines j = true -> Jordan.split j idx nodes = Ok j' ->
  exists pieces, j' = concat pieces /\
    Forall2i (fun i s ps => subdiv_ts s (split_nodes idx nodes i) ps) 0 j pieces.
Proof.
  intros j idx nodes j' Hl H. unfold Jordan.split in H.
  apply bind_Ok in H. destruct H as (_ & _ & H).
  apply bind_Ok in H. destruct H as (u1 & Hout & H). apply assert_Ok in Hout.
  apply bind_Ok in H. destruct H as (_ & _ & H).
  apply bind_Ok in H. destruct H as (pieces & Hm & H). inversion H; subst j'. clear H.
  fold (split_pairs idx nodes) in Hm. unfold split_nodes.
  set (pairs := split_pairs idx nodes) in *.
  assert (Hs : StronglySorted (fun x y => pair_le x y = true) pairs).
  { apply split_pairs_SS. }
  assert (Hin : forall iu, In iu pairs -> 0 < snd iu /\ snd iu < 1).
  { intros [i u] Hiu. unfold pairs in Hiu.
    apply split_pairs_In in Hiu. destruct Hiu as [Hiu Hn].
    apply in_combine_r in Hiu. cbn [snd] in *.
    rewrite forallb_forall in Hout. specialize (Hout u Hiu).
    apply negb_true_iff in Hout. apply out01_false in Hout.
    apply near01_false; tauto. }
  assert (F : Forall2i (fun i s ps => subdiv_ts s (nodes_of pairs i) ps) 0 j pieces).
  { apply mapM_Ok_Forall2 in Hm. clear Hout. revert Hl Hm. generalize 0%nat. revert pieces.
    induction j as [|s j IH]; intros pieces k Hl Hm; cbn [length seq combine] in Hm.
    - inversion Hm. constructor.
    - inversion Hm as [|x y l l' Hxy Hrest]; subst.
      cbn [all_lines forallb] in Hl. apply andb_prop in Hl. destruct Hl as [Hl1 Hl2].
      constructor; [|apply (IH l' (S k)); assumption].
      destruct (is_line_inv s Hl1) as (a & b & ->).
      apply (split_elem pairs Hs Hin k a b). exact Hxy. }
  exists pieces. split; [|exact F].
  unfold set_segments. apply map_seg_clean_lines. apply (Forall2_subdiv_lines j).
  eapply Forall2i_Forall2; [|exact F]. intros i s ps. apply subdiv_ts_subdiv.
Qed.

Theorem split_spec : forall j idx nodes j',
  all_lines j = true -> Jordan.split j idx nodes = Ok j' ->
  exists pieces, j' = concat pieces /\ Forall2 subdiv j pieces.
Proof.
  intros j idx nodes j' Hl H.
  destruct (split_spec_nodes _ _ _ _ Hl H) as (pieces & E & F).
  exists pieces. split; [exact E|].
  eapply Forall2i_Forall2; [|exact F]. intros i s ps. apply subdiv_ts_subdiv.
Qed.

(* ------------------------------------------------------------------ *)
(* S4 (curve level). area                                              *)
(* ------------------------------------------------------------------ *)
Lemma Qsum_app : forall l1 l2, Qsum (l1 ++ l2) == Qsum l1 + Qsum l2.
Proof. induction l1 as [|x l1 IH]; intros l2; cbn [app Qsum]; [ring|]. rewrite IH. ring. Qed.

Lemma Zsum_app : forall l1 l2, Zsum (l1 ++ l2) = (Zsum l1 + Zsum l2)%Z.
Proof. induction l1 as [|x l1 IH]; intros l2; cbn [app Zsum]; [reflexivity|]. rewrite IH. lia. Qed.

Lemma Forall2_Qsum_concat : forall (g : seg -> Q) j pieces,
  Forall2 (fun s ps => Qsum (map g ps) == g s) j pieces ->
  Qsum (map g (concat pieces)) == Qsum (map g j).
Proof.
  intros g j pieces H. induction H as [|s ps j pieces Hs _ IH]; [reflexivity|].
  cbn [concat map Qsum]. rewrite map_app, Qsum_app, Hs, IH. reflexivity.
Qed.

Lemma Forall2_Zsum_concat : forall (g : seg -> Z) j pieces,
  Forall2 (fun s ps => Zsum (map g ps) = g s) j pieces ->
  Zsum (map g (concat pieces)) = Zsum (map g j).
Proof.
  intros g j pieces H. induction H as [|s ps j pieces Hs _ IH]; [reflexivity|].
  cbn [concat map Zsum]. rewrite map_app, Zsum_app, Hs, IH. reflexivity.
Qed.

Lemma Forall2_impl : forall {A B} (P Q : A -> B -> Prop) l m,
  (forall x y, P x y -> Q x y) -> Forall2 P l m -> Forall2 Q l m.
Proof. intros A B P Q l m H F. induction F; constructor; auto. Qed.

Lemma subdiv_area : forall s ps, subdiv s ps ->
  Qsum (map (fun s => vertical s 1 0) ps) == vertical s 1 0.
Proof.
  intros s ps (a & b & ts & -> & _ & H). rewrite (subdiv_from_area _ _ _ _ _ H).
  apply vertical_peq; cbn [first_pt last_pt hd last];
    [reflexivity|apply pt_at_0|apply pt_at_1].
Qed.

Theorem split_area : forall j idx nodes j',
  all_lines j = true -> Jordan.split j idx nodes = Ok j' ->
  jordan_area j' == jordan_area j.
Proof.
  intros j idx nodes j' Hl H. destruct (split_spec _ _ _ _ Hl H) as (pieces & -> & F).
  unfold jordan_area, jordan_vertical. rewrite !Qred_correct.
  apply Forall2_Qsum_concat. eapply Forall2_impl; [|exact F]. apply subdiv_area.
Qed.

(* ------------------------------------------------------------------ *)
(* S6 (curve level). crossing numbers                                  *)
(* ------------------------------------------------------------------ *)
Lemma subdiv_cr : forall p s ps, subdiv s ps -> Zsum (map (crs p) ps) = crs p s.
Proof.
  intros p s ps (a & b & ts & -> & Hi & H). rewrite (subdiv_from_cr _ _ p _ _ _ H Hi).
  unfold crs. cbn [first_pt last_pt hd last]. apply cr_peq; [apply pt_at_0|apply pt_at_1].
Qed.

Theorem split_wn : forall j idx nodes j',
  all_lines j = true -> Jordan.split j idx nodes = Ok j' ->
  forall p, wn_lines j' p = wn_lines j p.
Proof.
  intros j idx nodes j' Hl H p. destruct (split_spec _ _ _ _ Hl H) as (pieces & -> & F).
  unfold wn_lines. change (fun s => cr (first_pt s) (last_pt s) p) with (crs p).
  apply Forall2_Zsum_concat. eapply Forall2_impl; [|exact F]. apply subdiv_cr.
Qed.

(* ------------------------------------------------------------------ *)
(* S5. structure: straight segments stay straight, closed stays closed *)
(* ------------------------------------------------------------------ *)
Theorem split_all_lines : forall j idx nodes j',
  all_lines j = true -> Jordan.split j idx nodes = Ok j' -> all_lines j' = true.
Proof.
  intros j idx nodes j' Hl H. destruct (split_spec _ _ _ _ Hl H) as (pieces & -> & F).
  unfold all_lines. apply forallb_forall. intros s Hs. unfold is_line.
  apply Nat.eqb_eq. eapply Forall2_subdiv_lines; eassumption.
Qed.

Fixpoint linked (l : list seg) : Prop :=
  match l with
  | s :: ((s' :: _) as t) => peq (last_pt s) (first_pt s') /\ linked t
  | _ => True
  end.

Lemma chain_ok_iff : forall l first, l <> [] ->
  (chain_ok first l = true <-> linked l /\ peq (last_pt (last l [])) first).
Proof.
  induction l as [|s l IH]; intros first Hne; [contradiction|].
  destruct l as [|s' l'].
  - cbn [chain_ok linked last]. rewrite peqb_peq. tauto.
  - assert (Hne' : s' :: l' <> []) by discriminate.
    specialize (IH first Hne').
    change (chain_ok first (s :: s' :: l'))
      with (peqb (last_pt s) (first_pt s') && chain_ok first (s' :: l')).
    change (linked (s :: s' :: l')) with (peq (last_pt s) (first_pt s') /\ linked (s' :: l')).
    change (last (s :: s' :: l') []) with (last (s' :: l') []).
    rewrite andb_true_iff, peqb_peq, IH. tauto.
Qed.

Lemma last_app_ne : forall {A} (l1 l2 : list A) d, l2 <> [] -> last (l1 ++ l2) d = last l2 d.
Proof.
  intros A l1 l2 d H. induction l1 as [|x l1 IH]; [reflexivity|].
  cbn [app]. destruct (l1 ++ l2) eqn:E.
  - apply app_eq_nil in E. destruct E. contradiction.
  - rewrite <- IH. reflexivity.
Qed.

Lemma linked_app : forall l1 l2, l1 <> [] -> l2 <> [] -> linked l1 -> linked l2 ->
  peq (last_pt (last l1 [])) (first_pt (hd [] l2)) -> linked (l1 ++ l2).
Proof.
  induction l1 as [|s l1 IH]; intros l2 H1 H2 L1 L2 J; [contradiction|].
  destruct l1 as [|s' l1'].
  - destruct l2 as [|s2 l2']; [contradiction|]. cbn [app linked last hd] in *. tauto.
  - assert (Hne : s' :: l1' <> []) by discriminate.
    change (linked (s :: s' :: l1')) with (peq (last_pt s) (first_pt s') /\ linked (s' :: l1')) in L1.
    change (last (s :: s' :: l1') []) with (last (s' :: l1') []) in J.
    destruct L1 as [L1a L1b].
    specialize (IH l2 Hne H2 L1b L2 J).
    change ((s :: s' :: l1') ++ l2) with (s :: s' :: (l1' ++ l2)).
    change ((s' :: l1') ++ l2) with (s' :: (l1' ++ l2)) in IH.
    cbn [linked]. cbn [linked] in IH. tauto.
Qed.

Lemma subdiv_from_linked : forall a b u l ps, subdiv_from a b u l ps ->
  ps <> [] /\ linked ps /\ peq (first_pt (hd [] ps)) (pt_at a b u)
  /\ peq (last_pt (last ps [])) (pt_at a b 1).
Proof.
  intros a b u l ps H. induction H.
  - destruct H as (_ & Hf & Hg). cbn [linked hd last]. split; [discriminate|]. split; [exact I|]. split; assumption.
  - destruct IHsubdiv_from as (Hne & Hl & Hf' & Hg'). destruct H as (_ & Hf & Hg).
    destruct ps as [|s' ps']; [contradiction|].
    split; [discriminate|]. split; [|split].
    + cbn [linked]. split; [|exact Hl]. cbn [hd] in Hf'.
      eapply peq_trans; [exact Hg|apply peq_sym; exact Hf'].
    + exact Hf.
    + exact Hg'.
Qed.

Lemma subdiv_linked : forall s ps, subdiv s ps ->
  ps <> [] /\ linked ps /\ peq (first_pt (hd [] ps)) (first_pt s)
  /\ peq (last_pt (last ps [])) (last_pt s).
Proof.
  intros s ps (a & b & ts & -> & _ & H).
  destruct (subdiv_from_linked _ _ _ _ _ H) as (Hne & Hl & Hf & Hg).
  cbn [first_pt last_pt hd last] in *. split; [exact Hne|]. split; [exact Hl|]. split.
  - eapply peq_trans; [exact Hf|apply pt_at_0].
  - eapply peq_trans; [exact Hg|apply pt_at_1].
Qed.

Lemma concat_linked : forall j pieces, Forall2 subdiv j pieces -> j <> [] -> linked j ->
  concat pieces <> [] /\ linked (concat pieces)
  /\ peq (first_pt (hd [] (concat pieces))) (first_pt (hd [] j))
  /\ peq (last_pt (last (concat pieces) [])) (last_pt (last j [])).
Proof.
  intros j pieces F. induction F as [|s ps j pieces Hs F IH]; intros Hne L; [contradiction|].
  destruct (subdiv_linked _ _ Hs) as (Pne & Pl & Pf & Pg).
  destruct j as [|s' j'].
  - inversion F; subst. cbn [concat]. rewrite app_nil_r. cbn [hd last]. tauto.
  - assert (Hne' : s' :: j' <> []) by discriminate.
    change (linked (s :: s' :: j')) with (peq (last_pt s) (first_pt s') /\ linked (s' :: j')) in L.
    destruct L as [La Lb].
    destruct (IH Hne' Lb) as (Cne & Cl & Cf & Cg). cbn [hd] in Cf.
    cbn [concat]. split; [|split; [|split]].
    + intro E. apply app_eq_nil in E. tauto.
    + apply linked_app; try assumption.
      eapply peq_trans; [exact Pg|]. eapply peq_trans; [exact La|]. apply peq_sym. exact Cf.
    + destruct ps as [|p0 ps0]; [contradiction|]. cbn [app hd] in *. exact Pf.
    + rewrite last_app_ne by exact Cne.
      change (last (s :: s' :: j') []) with (last (s' :: j') []). exact Cg.
Qed.

Theorem split_closed : forall j idx nodes j',
  all_lines j = true -> Jordan.split j idx nodes = Ok j' ->
  closed_chain j = true -> closed_chain j' = true.
Proof.
  intros j idx nodes j' Hl H Hc. destruct (split_spec _ _ _ _ Hl H) as (pieces & -> & F).
  destruct j as [|s j].
  - inversion F. reflexivity.
  - assert (Hne : s :: j <> []) by discriminate.
    unfold closed_chain in Hc. apply chain_ok_iff in Hc; [|exact Hne]. destruct Hc as [L C].
    destruct (concat_linked _ _ F Hne L) as (Cne & Cl & Cf & Cg).
    destruct (concat pieces) as [|c0 cs] eqn:E; [contradiction|].
    unfold closed_chain. apply chain_ok_iff; [discriminate|]. split; [exact Cl|].
    cbn [hd] in Cf.
    eapply peq_trans; [exact Cg|]. eapply peq_trans; [exact C|]. apply peq_sym. exact Cf.
Qed.

(* ------------------------------------------------------------------ *)
(* S7. clean on curves of straight segments                            *)
(* ------------------------------------------------------------------ *)
Definition seg_lines (l : list seg) : Prop := forall s, In s l -> length s = 2%nat.

Lemma all_lines_iff : forall j, all_lines j = true <-> seg_lines j.
Proof.
  intros j. unfold all_lines, seg_lines, is_line. rewrite forallb_forall.
  split; intros H s Hs; [apply Nat.eqb_eq|apply Nat.eqb_eq]; apply H; exact Hs.
Qed.

Lemma set_nth_In : forall {A} (x : A) l n y, In y (set_nth n x l) -> y = x \/ In y l.
Proof.
  intros A x. induction l as [|h t IH]; intros [|n] y H; cbn [set_nth] in H; try contradiction.
  - destruct H as [<-|H]; [left; reflexivity|right; right; exact H].
  - destruct H as [<-|H]; [right; left; reflexivity|].
    destruct (IH n y H) as [->|H']; [left; reflexivity|right; right; exact H'].
Qed.

Lemma remove_nth_In : forall {A} (l : list A) n y, In y (remove_nth n l) -> In y l.
Proof.
  intros A. induction l as [|h t IH]; intros [|n] y H; cbn [remove_nth] in H; try contradiction.
  - right. exact H.
  - destruct H as [<-|H]; [left; reflexivity|right; eapply IH; exact H].
Qed.

(* the shape of a successful union of two straight segments *)
Lemma unite_line_shape : forall p q b m,
  unite [p; q] b = UYes m -> m = [pred_ p; pred_ (last_pt b)].
Proof.
  intros p q b m H. unfold unite in H.
  repeat match type of H with
         | context [if ?c then _ else _] => destruct c
         end; try discriminate.
  inversion H. reflexivity.
Qed.

Lemma unite_line_length : forall a b m, length a = 2%nat -> unite a b = UYes m -> length m = 2%nat.
Proof.
  intros [|p [|q [|z a]]] b m Hl H; try discriminate Hl.
  apply unite_line_shape in H. subst m. reflexivity.
Qed.

Lemma clean_scan_lines : forall n i segs segs', seg_lines segs -> (i + n <= length segs)%nat ->
  clean_scan n i segs = Ok (Some segs') -> seg_lines segs'.
Proof.
  induction n as [|k IH]; intros i segs segs' Hl Hle H; cbn [clean_scan] in H; [discriminate|].
  destruct (unite _ _) as [m| |e] eqn:Hu; [| |discriminate].
  - inversion H; subst segs'. clear H.
    assert (Hm : length m = 2%nat).
    { eapply unite_line_length; [|exact Hu]. apply Hl. apply nth_In. lia. }
    intros s Hs. apply remove_nth_In in Hs. apply set_nth_In in Hs.
    destruct Hs as [->|Hs]; [exact Hm|apply Hl; exact Hs].
  - eapply IH; [exact Hl| |exact H]. lia.
Qed.

Lemma clean_loop_lines : forall f segs segs', seg_lines segs ->
  clean_loop f segs = Ok segs' -> seg_lines segs'.
Proof.
  induction f as [|f IH]; intros segs segs' Hl H; cbn [clean_loop] in H; [discriminate|].
  destruct segs as [|s0 t] eqn:Es.
  - inversion H. intros s [].
  - rewrite <- Es in *. apply bind_Ok in H. destruct H as (r & Hr & H).
    destruct r as [segs1|].
    + eapply IH; [|exact H]. eapply clean_scan_lines; [exact Hl| |exact Hr]. lia.
    + inversion H; subst. exact Hl.
Qed.

Theorem clean_all_lines : forall j j',
  clean j = Ok j' -> all_lines j = true -> all_lines j' = true.
Proof.
  intros j j' H Hl. apply all_lines_iff in Hl. apply all_lines_iff.
  unfold clean in H. apply bind_Ok in H. destruct H as (segs' & Hc & H).
  inversion H; subst j'. clear H.
  rewrite (map_seg_clean_lines j Hl) in Hc.
  apply clean_loop_lines in Hc; [|exact Hl].
  unfold set_segments. rewrite (map_seg_clean_lines segs' Hc). exact Hc.
Qed.

(* a scan that finds nothing leaves the list unchanged; the result of the
   loop is such a list *)
Lemma clean_loop_None : forall f segs,
  clean_scan (length segs) 0 segs = Ok None -> clean_loop (S f) segs = Ok segs.
Proof.
  intros f segs H. cbn [clean_loop]. destruct segs as [|s0 t] eqn:Es; [reflexivity|].
  rewrite <- Es in *. rewrite H. reflexivity.
Qed.

Lemma clean_loop_fixpoint : forall f segs segs', clean_loop f segs = Ok segs' ->
  segs' = [] \/ clean_scan (length segs') 0 segs' = Ok None.
Proof.
  induction f as [|f IH]; intros segs segs' H; cbn [clean_loop] in H; [discriminate|].
  destruct segs as [|s0 t] eqn:Es.
  - inversion H. left. reflexivity.
  - rewrite <- Es in *. apply bind_Ok in H. destruct H as (r & Hr & H).
    destruct r as [segs1|].
    + eapply IH. exact H.
    + inversion H; subst. right. exact Hr.
Qed.

Theorem clean_idempotent : forall j j',
  all_lines j = true -> clean j = Ok j' -> clean j' = Ok j'.
Proof.
  intros j j' Hl H. pose proof (clean_all_lines _ _ H Hl) as Hl'.
  apply all_lines_iff in Hl. apply all_lines_iff in Hl'.
  unfold clean in H. apply bind_Ok in H. destruct H as (segs' & Hc & H).
  inversion H; subst j'. clear H.
  rewrite (map_seg_clean_lines j Hl) in Hc.
  pose proof (clean_loop_lines _ _ _ Hl Hc) as Hs.
  unfold set_segments in *. rewrite (map_seg_clean_lines segs' Hs) in *.
  unfold clean. rewrite (map_seg_clean_lines segs' Hs).
  destruct (clean_loop_fixpoint _ _ _ Hc) as [->|Hn].
  - reflexivity.
  - rewrite (clean_loop_None _ _ Hn). cbn [bind]. unfold set_segments.
    rewrite (map_seg_clean_lines segs' Hs). reflexivity.
Qed.

(* ---- S7 (c): a successful union of two straight segments removes a vertex
   that lies exactly on the chord, strictly inside it ---- *)
Lemma unite_line_spec : forall a m m' b s, unite [a; m] [m'; b] = UYes s ->
  exists t, 0 < t /\ t < 1 /\ peq m (pt_at a b t) /\ peq m' m /\ ~ peq a b
            /\ s = [pred_ a; pred_ b].
Proof.
  intros a m m' b s H. unfold unite in H. cbv zeta in H.
  change (degree [a; m]) with 1%nat in H. change (degree [m'; b]) with 1%nat in H.
  cbn [Nat.eqb negb] in H.
  cbn [last_pt first_pt removelast last hd nth] in H.
  rewrite !split_at_line in H. cbn [fst snd] in H. rewrite !split_at_line in H.
  cbn [fst snd combine forallb set_first set_last removelast app map] in H.
  set (den := inner (padd (psub m a) (psub b m')) (padd (psub m a) (psub b m'))) in H.
  assert (Hden : den = inner (padd (psub m a) (psub b m')) (padd (psub m a) (psub b m')))
    by reflexivity.
  set (node := inner (psub m a) (padd (psub m a) (psub b m')) / den) in H.
  clearbody node den.
  destruct (negb (pt_eq m m')); [discriminate|].
  destruct (Qlt_bool tol6 _); [discriminate|].
  destruct (Qeq_bool den 0) eqn:Ed; [discriminate|].
  destruct (Qle_bool node 0 || Qle_bool 1 node) eqn:En; [discriminate|].
  apply orb_false_iff in En. destruct En as [En0 En1].
  apply Qle_bool_false in En0. apply Qle_bool_false in En1.
  destruct (peqb _ m' && _) eqn:Ep; [|discriminate].
  apply andb_prop in Ep. destruct Ep as [Ep1 Ep2]. rewrite andb_true_r in Ep2.
  apply peqb_peq in Ep1. apply peqb_peq in Ep2.
  inversion H; subst s. clear H.
  exists node. split; [exact En0|]. split; [exact En1|].
  assert (Hn : ~ node == 0) by lra.
  destruct a as [ax ay], m as [mx my], m' as [mx' my'], b as [bx by_].
  cbv [lerp padd pscale psub inner peq pt_at px py fst snd] in *.
  destruct Ep1 as [E1 E2], Ep2 as [E3 E4].
  assert (M1 : mx' == mx) by (rewrite <- E1; field; exact Hn).
  assert (M2 : my' == my) by (rewrite <- E2; field; exact Hn).
  split; [|split; [split; assumption|split; [|reflexivity]]].
  - split; [rewrite <- E3|rewrite <- E4]; field; exact Hn.
  - intros [A1 A2]. assert (Z : den == 0).
    { rewrite Hden, M1, M2, A1, A2. ring. }
    apply Qeq_bool_iff in Z. congruence.
Qed.

Theorem unite_line_area : forall a m m' b s, unite [a; m] [m'; b] = UYes s ->
  vertical s 1 0 == vertical [a; m] 1 0 + vertical [m'; b] 1 0.
Proof.
  intros a m m' b s H.
  destruct (unite_line_spec _ _ _ _ _ H) as (t & _ & _ & Hm & Hm' & _ & ->).
  rewrite (vertical_peq [pred_ a; pred_ b] a b); cbn [first_pt last_pt hd last];
    [|reflexivity|apply pred_peq|apply pred_peq].
  rewrite (vertical_peq [m'; b] m b); cbn [first_pt last_pt hd last];
    [|reflexivity|exact Hm'|apply peq_refl].
  symmetry. apply (vertical_split a b t m Hm).
Qed.

Theorem unite_line_cr : forall a m m' b s p, unite [a; m] [m'; b] = UYes s ->
  crs p s = (crs p [a; m] + crs p [m'; b])%Z.
Proof.
  intros a m m' b s p H.
  destruct (unite_line_spec _ _ _ _ _ H) as (t & H0 & H1 & Hm & Hm' & _ & ->).
  unfold crs. cbn [first_pt last_pt hd last].
  rewrite (cr_peq (pred_ a) (pred_ b) p a b (pred_peq a) (pred_peq b)).
  rewrite (cr_peq a m p a (pt_at a b t) (peq_refl a) Hm).
  rewrite (cr_peq m' b p (pt_at a b t) b (peq_trans _ _ _ Hm' Hm) (peq_refl b)).
  apply cr_split; assumption.
Qed.

(* ---- one step of the scan, up to a permutation of the segments ---- *)
Lemma nth_remove_perm : forall {A} (d : A) l n, (n < length l)%nat ->
  Permutation l (nth n l d :: remove_nth n l).
Proof.
  intros A d. induction l as [|h t IH]; intros [|n] H; cbn [length] in H; try lia.
  - reflexivity.
  - cbn [nth remove_nth]. rewrite perm_swap. apply perm_skip. apply IH. lia.
Qed.

Lemma set_nth_perm : forall {A} (x : A) l n, (n < length l)%nat ->
  Permutation (set_nth n x l) (x :: remove_nth n l).
Proof.
  intros A x. induction l as [|h t IH]; intros [|n] H; cbn [length] in H; try lia.
  - reflexivity.
  - cbn [set_nth remove_nth]. rewrite perm_swap. apply perm_skip. apply IH. lia.
Qed.

Lemma nth_set_nth_other : forall {A} (d x : A) l i j, i <> j ->
  nth j (set_nth i x l) d = nth j l d.
Proof.
  intros A d x. induction l as [|h t IH]; intros [|i] [|j] H; cbn [set_nth nth]; try reflexivity.
  - contradiction.
  - apply IH. lia.
Qed.

Lemma In_remove_other : forall {A} (d : A) l i j, i <> j -> (j < length l)%nat ->
  In (nth j l d) (remove_nth i l).
Proof.
  intros A d. induction l as [|h t IH]; intros [|i] [|j] H Hj; cbn [length] in Hj; try lia.
  - cbn [nth remove_nth]. apply nth_In. lia.
  - cbn [nth remove_nth]. left. reflexivity.
  - cbn [nth remove_nth]. right. apply IH; lia.
Qed.

Lemma scan_step_perm : forall (d m : seg) segs i j,
  (i < length segs)%nat -> (j < length segs)%nat -> i <> j ->
  exists rest, Permutation segs (nth i segs d :: nth j segs d :: rest)
            /\ Permutation (remove_nth j (set_nth i m segs)) (m :: rest).
Proof.
  intros d m segs i j Hi Hj Hij.
  destruct (in_split _ _ (In_remove_other d segs i j Hij Hj)) as (l1 & l2 & E).
  exists (l1 ++ l2). split.
  - rewrite (nth_remove_perm d segs i Hi) at 1. apply perm_skip.
    rewrite E. symmetry. apply Permutation_middle.
  - apply (Permutation_cons_inv (a := nth j segs d)).
    assert (Hj' : (j < length (set_nth i m segs))%nat) by (rewrite set_nth_length; exact Hj).
    pose proof (nth_remove_perm d (set_nth i m segs) j Hj') as Pa.
    rewrite (nth_set_nth_other d m segs i j Hij) in Pa.
    pose proof (set_nth_perm m segs i Hi) as Pb. rewrite E in Pb.
    eapply Permutation_trans; [apply Permutation_sym; exact Pa|].
    eapply Permutation_trans; [exact Pb|].
    eapply Permutation_trans; [|apply perm_swap].
    apply perm_skip. apply Permutation_sym, Permutation_middle.
Qed.

Lemma clean_scan_perm : forall n i segs segs', seg_lines segs -> (i + n <= length segs)%nat ->
  clean_scan n i segs = Ok (Some segs') ->
  exists a m m' b s rest,
    unite [a; m] [m'; b] = UYes s
    /\ Permutation segs ([a; m] :: [m'; b] :: rest)
    /\ Permutation segs' (s :: rest).
Proof.
  induction n as [|k IH]; intros i segs segs' Hl Hle H; cbn [clean_scan] in H; [discriminate|].
  destruct (unite _ _) as [s| |e] eqn:Hu; [| |discriminate].
  - inversion H; subst segs'. clear H IH.
    assert (Hi : (i < length segs)%nat) by lia.
    assert (Hj : ((i + 1) mod length segs < length segs)%nat)
      by (apply Nat.mod_upper_bound; lia).
    set (j := ((i + 1) mod length segs)%nat) in *.
    pose proof (Hl _ (nth_In segs [] Hi)) as Li.
    pose proof (Hl _ (nth_In segs [] Hj)) as Lj.
    destruct (nth i segs []) as [|a [|m [|z si]]] eqn:Ei; try discriminate Li.
    destruct (nth j segs []) as [|m' [|b [|z sj]]] eqn:Ej; try discriminate Lj.
    assert (Hij : i <> j).
    { intro E. rewrite <- E in Ej. rewrite Ei in Ej. inversion Ej. subst m' b.
      destruct (unite_line_spec _ _ _ _ _ Hu) as (t & _ & _ & _ & Hm' & Hab & _).
      apply Hab. exact Hm'. }
    destruct (scan_step_perm [] s segs i j Hi Hj Hij) as (rest & P1 & P2).
    rewrite Ei, Ej in P1.
    exists a, m, m', b, s, rest. split; [exact Hu|]. split; assumption.
  - eapply IH; [exact Hl| |exact H]. lia.
Qed.

Lemma Qsum_map_perm : forall {A} (g : A -> Q) l l', Permutation l l' ->
  Qsum (map g l) == Qsum (map g l').
Proof.
  intros A g l l' P. induction P; cbn [map Qsum].
  - reflexivity.
  - rewrite IHP. reflexivity.
  - ring.
  - rewrite IHP1. exact IHP2.
Qed.

Lemma Zsum_map_perm : forall {A} (g : A -> Z) l l', Permutation l l' ->
  Zsum (map g l) = Zsum (map g l').
Proof.
  intros A g l l' P. induction P; cbn [map Zsum]; lia.
Qed.

Lemma clean_loop_area : forall f segs segs', seg_lines segs -> clean_loop f segs = Ok segs' ->
  Qsum (map (fun s => vertical s 1 0) segs') == Qsum (map (fun s => vertical s 1 0) segs).
Proof.
  induction f as [|f IH]; intros segs segs' Hl H; cbn [clean_loop] in H; [discriminate|].
  destruct segs as [|s0 t] eqn:Es.
  - inversion H. reflexivity.
  - rewrite <- Es in *. apply bind_Ok in H. destruct H as (r & Hr & H).
    destruct r as [segs1|].
    + assert (L1 : seg_lines segs1) by (eapply clean_scan_lines; [exact Hl| |exact Hr]; lia).
      rewrite (IH _ _ L1 H).
      destruct (clean_scan_perm (length segs) 0%nat segs segs1 Hl (Nat.le_refl _) Hr)
        as (a & m & m' & b & s & rest & Hu & P1 & P2).
      rewrite (Qsum_map_perm _ _ _ P1), (Qsum_map_perm _ _ _ P2). cbn [map Qsum].
      rewrite (unite_line_area _ _ _ _ _ Hu). ring.
    + inversion H; subst. reflexivity.
Qed.

Lemma clean_loop_cr : forall p f segs segs', seg_lines segs -> clean_loop f segs = Ok segs' ->
  Zsum (map (crs p) segs') = Zsum (map (crs p) segs).
Proof.
  intros p. induction f as [|f IH]; intros segs segs' Hl H; cbn [clean_loop] in H; [discriminate|].
  destruct segs as [|s0 t] eqn:Es.
  - inversion H. reflexivity.
  - rewrite <- Es in *. apply bind_Ok in H. destruct H as (r & Hr & H).
    destruct r as [segs1|].
    + assert (L1 : seg_lines segs1) by (eapply clean_scan_lines; [exact Hl| |exact Hr]; lia).
      rewrite (IH _ _ L1 H).
      destruct (clean_scan_perm (length segs) 0%nat segs segs1 Hl (Nat.le_refl _) Hr)
        as (a & m & m' & b & s & rest & Hu & P1 & P2).
      rewrite (Zsum_map_perm _ _ _ P1), (Zsum_map_perm _ _ _ P2). cbn [map Zsum].
      rewrite (unite_line_cr _ _ _ _ _ p Hu). lia.
    + inversion H; subst. reflexivity.
Qed.

Theorem clean_area : forall j j', all_lines j = true -> clean j = Ok j' ->
  jordan_area j' == jordan_area j.
Proof.
  intros j j' Hl H. apply all_lines_iff in Hl.
  unfold clean in H. apply bind_Ok in H. destruct H as (segs' & Hc & H).
  inversion H; subst j'. clear H.
  rewrite (map_seg_clean_lines j Hl) in Hc.
  pose proof (clean_loop_lines _ _ _ Hl Hc) as Hs.
  unfold set_segments. rewrite (map_seg_clean_lines segs' Hs).
  unfold jordan_area, jordan_vertical. rewrite !Qred_correct.
  eapply clean_loop_area; eassumption.
Qed.

Theorem clean_wn : forall j j', all_lines j = true -> clean j = Ok j' ->
  forall p, wn_lines j' p = wn_lines j p.
Proof.
  intros j j' Hl H p. apply all_lines_iff in Hl.
  unfold clean in H. apply bind_Ok in H. destruct H as (segs' & Hc & H).
  inversion H; subst j'. clear H.
  rewrite (map_seg_clean_lines j Hl) in Hc.
  pose proof (clean_loop_lines _ _ _ Hl Hc) as Hs.
  unfold set_segments. rewrite (map_seg_clean_lines segs' Hs).
  unfold wn_lines. change (fun s => cr (first_pt s) (last_pt s) p) with (crs p).
  eapply clean_loop_cr; eassumption.
Qed.

(* ---- clean keeps a closed chain closed ---- *)
Definition chain_fp (l : list seg) : point := first_pt (hd [] l).
Definition chain_lp (l : list seg) : point := last_pt (last l []).
Definition closedP (l : list seg) : Prop := l = [] \/ (linked l /\ peq (chain_lp l) (chain_fp l)).

Lemma closed_chain_iff : forall l, closed_chain l = true <-> closedP l.
Proof.
  destruct l as [|s l].
  - split; [left; reflexivity|reflexivity].
  - unfold closed_chain. rewrite chain_ok_iff by discriminate. unfold closedP, chain_lp, chain_fp. cbn [hd].
    split; [right; assumption|intros [E|H]; [discriminate|exact H]].
Qed.

Lemma fp_app : forall l1 l2, l1 <> [] -> chain_fp (l1 ++ l2) = chain_fp l1.
Proof. intros [|s l1] l2 H; [contradiction|reflexivity]. Qed.
Lemma lp_app : forall l1 l2, l2 <> [] -> chain_lp (l1 ++ l2) = chain_lp l2.
Proof. intros l1 l2 H. unfold chain_lp. rewrite last_app_ne by exact H. reflexivity. Qed.
Lemma app_ne_l : forall {A} (l1 l2 : list A), l1 <> [] -> l1 ++ l2 <> [].
Proof. intros A [|x l1] l2 H; [contradiction|discriminate]. Qed.

Lemma linked_app_iff : forall l1 l2, l1 <> [] -> l2 <> [] ->
  (linked (l1 ++ l2) <-> linked l1 /\ linked l2 /\ peq (chain_lp l1) (chain_fp l2)).
Proof.
  induction l1 as [|s l1 IH]; intros l2 H1 H2; [contradiction|].
  destruct l1 as [|s' l1'].
  - destruct l2 as [|s2 l2']; [contradiction|]. unfold chain_lp, chain_fp. cbn [app linked last hd]. tauto.
  - assert (Hne : s' :: l1' <> []) by discriminate. specialize (IH l2 Hne H2).
    change (linked ((s :: s' :: l1') ++ l2))
      with (peq (last_pt s) (first_pt s') /\ linked ((s' :: l1') ++ l2)).
    change (linked (s :: s' :: l1')) with (peq (last_pt s) (first_pt s') /\ linked (s' :: l1')).
    change (chain_lp (s :: s' :: l1')) with (chain_lp (s' :: l1')).
    rewrite IH. tauto.
Qed.

Lemma closedP_rot : forall x l, closedP (x :: l) <-> closedP (l ++ [x]).
Proof.
  intros x l. destruct l as [|y l'].
  - cbn [app]. tauto.
  - assert (Hne : y :: l' <> []) by discriminate.
    assert (Hx : [x] <> []) by discriminate.
    unfold closedP. rewrite (linked_app_iff _ _ Hne Hx), (lp_app _ _ Hx), (fp_app _ [x] Hne).
    change (linked (x :: y :: l')) with (peq (last_pt x) (first_pt y) /\ linked (y :: l')).
    change (chain_lp (x :: y :: l')) with (chain_lp (y :: l')).
    change (chain_fp (x :: y :: l')) with (first_pt x). change (chain_fp [x]) with (first_pt x).
    change (chain_lp [x]) with (last_pt x). change (chain_fp (y :: l')) with (first_pt y).
    change (linked [x]) with True.
    split.
    + intros [E|H]; [discriminate|]. right. tauto.
    + intros [E|H]; [apply app_eq_nil in E; destruct E; discriminate|]. right. tauto.
Qed.

Lemma closedP_replace : forall l1 X Y l2, X <> [] -> Y <> [] -> linked Y ->
  peq (chain_fp X) (chain_fp Y) -> peq (chain_lp X) (chain_lp Y) ->
  closedP (l1 ++ X ++ l2) -> closedP (l1 ++ Y ++ l2).
Proof.
  intros l1 X Y l2 HX HY LY Hf Hl [E|[L C]].
  { apply app_eq_nil in E. destruct E as [_ E]. apply app_eq_nil in E. tauto. }
  right.
  destruct l1 as [|a1 l1'], l2 as [|a2 l2'].
  - cbn [app] in *. rewrite app_nil_r in *. split; [exact LY|].
    eapply peq_trans; [apply peq_sym; exact Hl|]. eapply peq_trans; [exact C|exact Hf].
  - assert (H2 : a2 :: l2' <> []) by discriminate. cbn [app] in *.
    rewrite (linked_app_iff _ _ HX H2) in L. rewrite (linked_app_iff _ _ HY H2).
    rewrite (lp_app _ _ H2), (fp_app _ _ HX) in C. rewrite (lp_app _ _ H2), (fp_app _ _ HY).
    destruct L as (L1 & L2 & L3). split; [split; [exact LY|split; [exact L2|]]|].
    + eapply peq_trans; [apply peq_sym; exact Hl|exact L3].
    + eapply peq_trans; [exact C|exact Hf].
  - assert (H1 : a1 :: l1' <> []) by discriminate. rewrite !app_nil_r in *.
    rewrite (linked_app_iff _ _ H1 HX) in L. rewrite (linked_app_iff _ _ H1 HY).
    rewrite (lp_app _ _ HX), (fp_app _ _ H1) in C. rewrite (lp_app _ _ HY), (fp_app _ _ H1).
    destruct L as (L1 & L2 & L3). split; [split; [exact L1|split; [exact LY|]]|].
    + eapply peq_trans; [exact L3|exact Hf].
    + eapply peq_trans; [apply peq_sym; exact Hl|exact C].
  - assert (H1 : a1 :: l1' <> []) by discriminate.
    assert (H2 : a2 :: l2' <> []) by discriminate.
    pose proof (app_ne_l X (a2 :: l2') HX) as HX2. pose proof (app_ne_l Y (a2 :: l2') HY) as HY2.
    rewrite (linked_app_iff _ _ H1 HX2), (linked_app_iff _ _ HX H2), (fp_app _ _ HX) in L.
    rewrite (linked_app_iff _ _ H1 HY2), (linked_app_iff _ _ HY H2), (fp_app _ _ HY).
    rewrite (lp_app _ _ HX2), (lp_app _ _ H2), (fp_app _ _ H1) in C.
    rewrite (lp_app _ _ HY2), (lp_app _ _ H2), (fp_app _ _ H1).
    destruct L as (L1 & (L2 & L3 & L4) & L5).
    split; [|exact C]. split; [exact L1|]. split; [split; [exact LY|split; [exact L3|]]|].
    + eapply peq_trans; [apply peq_sym; exact Hl|exact L4].
    + eapply peq_trans; [exact L5|exact Hf].
Qed.

Lemma split_adjacent : forall (d x : seg) l i, (i + 1 < length l)%nat ->
  exists l1 l2, l = l1 ++ nth i l d :: nth (i + 1) l d :: l2
             /\ remove_nth (i + 1) (set_nth i x l) = l1 ++ x :: l2.
Proof.
  intros d x. induction l as [|h t IH]; intros i H; cbn [length] in H; [lia|].
  destruct i as [|i].
  - destruct t as [|h2 t2]; [cbn [length] in H; lia|].
    exists [], t2. split; reflexivity.
  - destruct (IH i) as (l1 & l2 & E1 & E2); [lia|].
    exists (h :: l1), l2. cbn [Nat.add nth set_nth remove_nth app]. split.
    + f_equal. exact E1.
    + f_equal. exact E2.
Qed.

Lemma set_nth_last : forall {A} (x y : A) mid, set_nth (length mid) x (mid ++ [y]) = mid ++ [x].
Proof. intros A x y. induction mid as [|h t IH]; cbn [length app set_nth]; [reflexivity|]. rewrite IH. reflexivity. Qed.

Lemma split_wrap : forall (d x : seg) l, (2 <= length l)%nat ->
  exists mid, l = nth 0 l d :: mid ++ [nth (length l - 1) l d]
           /\ remove_nth 0 (set_nth (length l - 1) x l) = mid ++ [x].
Proof.
  intros d x [|h t] H; cbn [length] in H; [lia|].
  destruct (exists_last (l := t)) as (mid & y & ->).
  { intro E. subst t. cbn [length] in H. lia. }
  exists mid. cbn [length]. rewrite app_length. cbn [length].
  replace (S (length mid + 1) - 1)%nat with (S (length mid)) by lia.
  cbn [nth set_nth remove_nth]. rewrite nth_middle, set_nth_last. split; reflexivity.
Qed.

Lemma scan_hit : forall segs i j s, seg_lines segs ->
  (i < length segs)%nat -> (j < length segs)%nat ->
  unite (nth i segs []) (nth j segs []) = UYes s ->
  exists a m m' b, nth i segs [] = [a; m] /\ nth j segs [] = [m'; b]
                /\ s = [pred_ a; pred_ b] /\ i <> j.
Proof.
  intros segs i j s Hl Hi Hj Hu.
  pose proof (Hl _ (nth_In segs [] Hi)) as Li.
  pose proof (Hl _ (nth_In segs [] Hj)) as Lj.
  destruct (nth i segs []) as [|a [|m [|z si]]] eqn:Ei; try discriminate Li.
  destruct (nth j segs []) as [|m' [|b [|z sj]]] eqn:Ej; try discriminate Lj.
  destruct (unite_line_spec _ _ _ _ _ Hu) as (t & _ & _ & _ & Hm' & Hab & Es).
  exists a, m, m', b. repeat split; try reflexivity; try exact Es.
  intro E. rewrite <- E in Ej. rewrite Ei in Ej. inversion Ej. subst m' b.
  apply Hab. exact Hm'.
Qed.

Lemma clean_scan_closed : forall n i segs segs', seg_lines segs -> (i + n <= length segs)%nat ->
  closedP segs -> clean_scan n i segs = Ok (Some segs') -> closedP segs'.
Proof.
  induction n as [|k IH]; intros i segs segs' Hl Hle Hc H; cbn [clean_scan] in H; [discriminate|].
  destruct (unite _ _) as [s| |e] eqn:Hu; [| |discriminate].
  - inversion H; subst segs'. clear H IH.
    assert (Hi : (i < length segs)%nat) by lia.
    assert (Hj : ((i + 1) mod length segs < length segs)%nat)
      by (apply Nat.mod_upper_bound; lia).
    destruct (scan_hit _ _ _ _ Hl Hi Hj Hu) as (a & m & m' & b & Ei & Ej & Es & Hij).
    assert (HX : [[a; m]; [m'; b]] <> []) by discriminate.
    assert (HY : [s] <> []) by discriminate.
    assert (Hf : peq (chain_fp [[a; m]; [m'; b]]) (chain_fp [s])).
    { subst s. unfold chain_fp. cbn [hd first_pt]. apply peq_sym, pred_peq. }
    assert (Hg : peq (chain_lp [[a; m]; [m'; b]]) (chain_lp [s])).
    { subst s. unfold chain_lp. cbn [last last_pt]. apply peq_sym, pred_peq. }
    destruct (Nat.lt_ge_cases (i + 1) (length segs)) as [Hlt|Hge].
    + rewrite (Nat.mod_small _ _ Hlt) in *.
      destruct (split_adjacent [] s segs i Hlt) as (l1 & l2 & E1 & E2).
      rewrite E2. rewrite Ei, Ej in E1. rewrite E1 in Hc.
      apply (closedP_replace l1 [[a; m]; [m'; b]] [s] l2 HX HY I Hf Hg). exact Hc.
    + assert (El : (i + 1 = length segs)%nat) by lia.
      rewrite El, Nat.mod_same in * by lia.
      assert (H2 : (2 <= length segs)%nat) by lia.
      destruct (split_wrap [] s segs H2) as (mid & E1 & E2).
      replace (length segs - 1)%nat with i in * by lia.
      rewrite E2. rewrite Ei, Ej in E1. rewrite E1 in Hc.
      apply closedP_rot in Hc. rewrite <- app_assoc in Hc.
      pose proof (closedP_replace mid [[a; m]; [m'; b]] [s] [] HX HY I Hf Hg) as R.
      cbn [app] in R. cbn [app] in Hc. apply R. exact Hc.
  - eapply IH; [exact Hl| |exact Hc|exact H]. lia.
Qed.

Lemma clean_loop_closed : forall f segs segs', seg_lines segs -> closedP segs ->
  clean_loop f segs = Ok segs' -> closedP segs'.
Proof.
  induction f as [|f IH]; intros segs segs' Hl Hc H; cbn [clean_loop] in H; [discriminate|].
  destruct segs as [|s0 t] eqn:Es.
  - inversion H. left. reflexivity.
  - rewrite <- Es in *. apply bind_Ok in H. destruct H as (r & Hr & H).
    destruct r as [segs1|].
    + assert (L1 : seg_lines segs1) by (eapply clean_scan_lines; [exact Hl| |exact Hr]; lia).
      eapply IH; [exact L1| |exact H].
      eapply (clean_scan_closed (length segs) 0%nat); [exact Hl|lia|exact Hc|exact Hr].
    + inversion H; subst. exact Hc.
Qed.

Theorem clean_closed : forall j j', all_lines j = true -> clean j = Ok j' ->
  closed_chain j = true -> closed_chain j' = true.
Proof.
  intros j j' Hl H Hc. apply all_lines_iff in Hl. apply closed_chain_iff in Hc.
  apply closed_chain_iff.
  unfold clean in H. apply bind_Ok in H. destruct H as (segs' & Hcl & H).
  inversion H; subst j'. clear H.
  rewrite (map_seg_clean_lines j Hl) in Hcl.
  pose proof (clean_loop_lines _ _ _ Hl Hcl) as Hs.
  unfold set_segments. rewrite (map_seg_clean_lines segs' Hs).
  exact (clean_loop_closed _ j segs' Hl Hc Hcl).
Qed.

(* ---- the result of clean has no removable vertex left ---- *)
Lemma clean_scan_None : forall n i segs, clean_scan n i segs = Ok None ->
  forall k, (i <= k < i + n)%nat ->
  unite (nth k segs []) (nth ((k + 1) mod length segs) segs []) = UNo.
Proof.
  induction n as [|n IH]; intros i segs H k Hk; [lia|].
  cbn [clean_scan] in H.
  destruct (unite (nth i segs []) (nth ((i + 1) mod length segs) segs [])) as [m| |e] eqn:Hu;
    try discriminate.
  destruct (Nat.eq_dec k i) as [->|N]; [exact Hu|].
  apply (IH (S i) segs H). lia.
Qed.

Theorem clean_no_redundant : forall j j', all_lines j = true -> clean j = Ok j' ->
  forall k, (k < length j')%nat ->
  unite (nth k j' []) (nth ((k + 1) mod length j') j' []) = UNo.
Proof.
  intros j j' Hl H k Hk. apply all_lines_iff in Hl.
  unfold clean in H. apply bind_Ok in H. destruct H as (segs' & Hc & H).
  inversion H; subst j'. clear H.
  rewrite (map_seg_clean_lines j Hl) in Hc.
  pose proof (clean_loop_lines _ _ _ Hl Hc) as Hs.
  unfold set_segments in *. rewrite (map_seg_clean_lines segs' Hs) in *.
  destruct (clean_loop_fixpoint _ _ _ Hc) as [->|Hn]; [cbn [length] in Hk; lia|].
  apply (clean_scan_None _ _ _ Hn). lia.
Qed.

(* ---- junctions of the pieces of one segment ---- *)
Theorem split_many_junctions : forall a b ts, (forall t, In t ts -> ~ t == 1) ->
  let ps := split_many ts [a; b] in
  ps <> [] /\ linked ps /\ peq (first_pt (hd [] ps)) a /\ peq (last_pt (last ps [])) b.
Proof.
  intros a b ts H ps.
  destruct (subdiv_from_linked _ _ _ _ _ (split_many_subdiv a b ts H)) as (Hne & Hl & Hf & Hg).
  split; [exact Hne|]. split; [exact Hl|]. split.
  - eapply peq_trans; [exact Hf|apply pt_at_0].
  - eapply peq_trans; [exact Hg|apply pt_at_1].
Qed.

(* ------------------------------------------------------------------ *)
Print Assumptions split_many_line.
Print Assumptions split_many_nondegenerate.
Print Assumptions split_many_retrace.
Print Assumptions split_many_area.
Print Assumptions split_many_cr.
Print Assumptions split_many_junctions.
Print Assumptions split_spec_nodes.
Print Assumptions split_nodes_In.
Print Assumptions split_area.
Print Assumptions split_wn.
Print Assumptions split_all_lines.
Print Assumptions split_closed.
Print Assumptions cr_split.
Print Assumptions unite_line_spec.
Print Assumptions unite_line_area.
Print Assumptions clean_all_lines.
Print Assumptions clean_idempotent.
Print Assumptions clean_area.
Print Assumptions clean_wn.
Print Assumptions clean_closed.
Print Assumptions clean_no_redundant.
