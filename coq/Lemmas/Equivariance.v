(* Equivariance.v -- C12 / C09: how the quantities of the model and of the
   specification transform under affine maps of the plane.
     E1  cross / orient / inner under affine maps
     E2  Intersection.lines is an affine invariant
     E3  Bezier evaluation commutes with affine maps (2..7 control points)
     E4  winding number, on_edge, region under translations and positive
         axis scalings
     E5  area and moments of polygons
     E6  exact invertibility of move / scale / rotate
     E7  what is NOT invariant: the absolute tolerance of pt_eq            *)
From Coq Require Import QArith Lqa Lia List.
From SV Require Import Model.Shape Spec.Spec.
From SV Require Import Lemmas.BezierFacts Lemmas.Quadrature Lemmas.Lines.
Import ListNotations.
Open Scope Q_scope.

(* ------------------------------------------------------------------ *)
(* 0. the maps                                                         *)
(* ------------------------------------------------------------------ *)
Definition aff (m11 m12 m21 m22 : Q) (v p : point) : point :=
  (m11 * px p + m12 * py p + px v, m21 * px p + m22 * py p + py v).
Definition adet (m11 m12 m21 m22 : Q) : Q := m11 * m22 - m12 * m21.

Definition translate (v : point) : point -> point := aff 1 0 0 1 v.
Definition scale2 (sx sy : Q) : point -> point := aff sx 0 0 sy pzero.
Definition uscale (k : Q) : point -> point := aff k 0 0 k pzero.
Definition rotate (c s : Q) : point -> point := aff c (- s) s c pzero.

Ltac pts :=
  unfold translate, scale2, uscale, rotate in *;
  unfold aff, adet, orient, cross, inner, psub, padd, pscale, pzero, px, py in *;
  cbn [fst snd] in *.

(* ------------------------------------------------------------------ *)
(* E1. algebra                                                         *)
(* ------------------------------------------------------------------ *)
Section Affine.
Variables m11 m12 m21 m22 : Q.
Variable v : point.
Local Notation T := (aff m11 m12 m21 m22 v).
Local Notation det := (adet m11 m12 m21 m22).

Lemma cross_aff : forall a b c d,
  cross (psub (T b) (T a)) (psub (T d) (T c)) == det * cross (psub b a) (psub d c).
Proof. intros [ax ay] [bx by_] [cx cy] [dx dy]. pts. ring. Qed.

Lemma orient_aff : forall a b p, orient (T a) (T b) (T p) == det * orient a b p.
Proof. intros a b p. unfold orient. apply cross_aff. Qed.

(* the general law for the inner product: the Gram matrix of the linear part *)
Lemma inner_aff : forall a b c d,
  inner (psub (T b) (T a)) (psub (T d) (T c)) ==
    (m11 * m11 + m21 * m21) * ((px b - px a) * (px d - px c))
  + (m12 * m12 + m22 * m22) * ((py b - py a) * (py d - py c))
  + (m11 * m12 + m21 * m22) * ((px b - px a) * (py d - py c) + (py b - py a) * (px d - px c)).
Proof. intros [ax ay] [bx by_] [cx cy] [dx dy]. pts. ring. Qed.

(* ------------------------------------------------------------------ *)
(* E2. crossing parameters                                             *)
(* ------------------------------------------------------------------ *)
Lemma ldet_aff : forall a0 a1 b0 b1,
  ldet (T a0) (T a1) (T b0) (T b1) == det * ldet a0 a1 b0 b1.
Proof. intros. unfold ldet. apply cross_aff. Qed.

Lemma lpar0_aff : forall a0 a1 b0 b1, ~ det == 0 -> ~ ldet a0 a1 b0 b1 == 0 ->
  lpar0 (T a0) (T a1) (T b0) (T b1) == lpar0 a0 a1 b0 b1.
Proof.
  intros a0 a1 b0 b1 D N. unfold lpar0. rewrite ldet_aff, cross_aff.
  field. split; assumption.
Qed.
Lemma lpar1_aff : forall a0 a1 b0 b1, ~ det == 0 -> ~ ldet a0 a1 b0 b1 == 0 ->
  lpar1 (T a0) (T a1) (T b0) (T b1) == lpar1 a0 a1 b0 b1.
Proof.
  intros a0 a1 b0 b1 D N. unfold lpar1. rewrite ldet_aff, cross_aff.
  field. split; assumption.
Qed.

Theorem lines_aff : forall a0 a1 b0 b1, ~ det == 0 ->
  lines (map T [a0; a1]) (map T [b0; b1]) = lines [a0; a1] [b0; b1].
Proof.
  intros a0 a1 b0 b1 D. cbn [map].
  destruct (lines [a0; a1] [b0; b1]) as [[u w]|] eqn:E.
  - apply lines_some in E. destruct E as (N & R0 & R1 & -> & ->).
    pose proof (lpar0_aff a0 a1 b0 b1 D N) as L0.
    pose proof (lpar1_aff a0 a1 b0 b1 D N) as L1.
    apply lines_some. split.
    { rewrite ldet_aff. intro Z. apply Qmult_integral in Z. tauto. }
    split. { rewrite L0. exact R0. }
    split. { rewrite L1. exact R1. }
    split; apply Qred_complete; symmetry; assumption.
  - apply lines_none in E. apply lines_none.
    destruct (Qeq_dec (ldet a0 a1 b0 b1) 0) as [Z|N].
    + left. rewrite ldet_aff, Z. ring.
    + right. rewrite (lpar0_aff a0 a1 b0 b1 D N), (lpar1_aff a0 a1 b0 b1 D N).
      destruct E as [E|E]; [contradiction|exact E].
Qed.

(* parallel stays parallel, whatever the determinant *)
Lemma parallel_aff : forall a0 a1 b0 b1,
  ldet a0 a1 b0 b1 == 0 -> ldet (T a0) (T a1) (T b0) (T b1) == 0.
Proof. intros a0 a1 b0 b1 Z. rewrite ldet_aff, Z. ring. Qed.

(* ------------------------------------------------------------------ *)
(* E3. evaluation commutes with the map                                *)
(* ------------------------------------------------------------------ *)
Lemma eval_aff_1 : forall x0 y0 x1 y1 t,
  peq (eval (map T [(x0,y0);(x1,y1)]) t) (T (eval [(x0,y0);(x1,y1)] t)).
Proof. intros. qcbv. split; ring. Qed.
Lemma eval_aff_2 : forall x0 y0 x1 y1 x2 y2 t,
  peq (eval (map T [(x0,y0);(x1,y1);(x2,y2)]) t) (T (eval [(x0,y0);(x1,y1);(x2,y2)] t)).
Proof. intros. qcbv. split; ring. Qed.
Lemma eval_aff_3 : forall x0 y0 x1 y1 x2 y2 x3 y3 t,
  peq (eval (map T [(x0,y0);(x1,y1);(x2,y2);(x3,y3)]) t)
      (T (eval [(x0,y0);(x1,y1);(x2,y2);(x3,y3)] t)).
Proof. intros. qcbv. split; ring. Qed.
Lemma eval_aff_4 : forall x0 y0 x1 y1 x2 y2 x3 y3 x4 y4 t,
  peq (eval (map T [(x0,y0);(x1,y1);(x2,y2);(x3,y3);(x4,y4)]) t)
      (T (eval [(x0,y0);(x1,y1);(x2,y2);(x3,y3);(x4,y4)] t)).
Proof. intros. qcbv. split; ring. Qed.
Lemma eval_aff_5 : forall x0 y0 x1 y1 x2 y2 x3 y3 x4 y4 x5 y5 t,
  peq (eval (map T [(x0,y0);(x1,y1);(x2,y2);(x3,y3);(x4,y4);(x5,y5)]) t)
      (T (eval [(x0,y0);(x1,y1);(x2,y2);(x3,y3);(x4,y4);(x5,y5)] t)).
Proof. intros. qcbv. split; ring. Qed.
Lemma eval_aff_6 : forall x0 y0 x1 y1 x2 y2 x3 y3 x4 y4 x5 y5 x6 y6 t,
  peq (eval (map T [(x0,y0);(x1,y1);(x2,y2);(x3,y3);(x4,y4);(x5,y5);(x6,y6)]) t)
      (T (eval [(x0,y0);(x1,y1);(x2,y2);(x3,y3);(x4,y4);(x5,y5);(x6,y6)] t)).
Proof. intros. qcbv. split; ring. Qed.

Theorem eval_aff : forall s t, (2 <= length s <= 7)%nat ->
  peq (eval (map T s) t) (T (eval s t)).
Proof.
  intros s t H. seg_cases s H;
  [ apply eval_aff_1 | apply eval_aff_2 | apply eval_aff_3
  | apply eval_aff_4 | apply eval_aff_5 | apply eval_aff_6 ].
Qed.

End Affine.

(* ---------- E1, special maps ---------- *)
Lemma adet_translate : adet 1 0 0 1 == 1.
Proof. unfold adet. ring. Qed.
Lemma adet_scale2 : forall sx sy, adet sx 0 0 sy == sx * sy.
Proof. intros. unfold adet. ring. Qed.
Lemma adet_uscale : forall k, adet k 0 0 k == k * k.
Proof. intros. unfold adet. ring. Qed.
Lemma adet_rotate : forall c s, c * c + s * s == 1 -> adet c (- s) s c == 1.
Proof. intros c s H. unfold adet. rewrite <- H. ring. Qed.

Lemma cross_translate : forall v a b c d,
  cross (psub (translate v b) (translate v a)) (psub (translate v d) (translate v c))
  == cross (psub b a) (psub d c).
Proof. intros. unfold translate. rewrite cross_aff, adet_translate. ring. Qed.
Lemma cross_rotate : forall c s a b c' d, c * c + s * s == 1 ->
  cross (psub (rotate c s b) (rotate c s a)) (psub (rotate c s d) (rotate c s c'))
  == cross (psub b a) (psub d c').
Proof. intros. unfold rotate. rewrite cross_aff, adet_rotate by assumption. ring. Qed.
Lemma cross_uscale : forall k a b c d,
  cross (psub (uscale k b) (uscale k a)) (psub (uscale k d) (uscale k c))
  == k * k * cross (psub b a) (psub d c).
Proof. intros. unfold uscale. rewrite cross_aff, adet_uscale. ring. Qed.
Lemma cross_scale2 : forall sx sy a b c d,
  cross (psub (scale2 sx sy b) (scale2 sx sy a)) (psub (scale2 sx sy d) (scale2 sx sy c))
  == sx * sy * cross (psub b a) (psub d c).
Proof. intros. unfold scale2. rewrite cross_aff, adet_scale2. ring. Qed.

Lemma orient_translate : forall v a b p,
  orient (translate v a) (translate v b) (translate v p) == orient a b p.
Proof. intros. unfold orient. apply cross_translate. Qed.
Lemma orient_rotate : forall c s a b p, c * c + s * s == 1 ->
  orient (rotate c s a) (rotate c s b) (rotate c s p) == orient a b p.
Proof. intros. unfold orient. apply cross_rotate. assumption. Qed.
Lemma orient_uscale : forall k a b p,
  orient (uscale k a) (uscale k b) (uscale k p) == k * k * orient a b p.
Proof. intros. unfold orient. apply cross_uscale. Qed.

Lemma inner_translate : forall v a b c d,
  inner (psub (translate v b) (translate v a)) (psub (translate v d) (translate v c))
  == inner (psub b a) (psub d c).
Proof. intros v [ax ay] [bx by_] [cx cy] [dx dy]. pts. ring. Qed.
Lemma inner_rotate : forall c s a b c' d, c * c + s * s == 1 ->
  inner (psub (rotate c s b) (rotate c s a)) (psub (rotate c s d) (rotate c s c'))
  == inner (psub b a) (psub d c').
Proof.
  intros c s [ax ay] [bx by_] [cx cy] [dx dy] H.
  transitivity ((c * c + s * s) * inner (psub (bx, by_) (ax, ay)) (psub (dx, dy) (cx, cy))).
  - pts. ring.
  - rewrite H. ring.
Qed.
Lemma inner_uscale : forall k a b c d,
  inner (psub (uscale k b) (uscale k a)) (psub (uscale k d) (uscale k c))
  == k * k * inner (psub b a) (psub d c).
Proof. intros k [ax ay] [bx by_] [cx cy] [dx dy]. pts. ring. Qed.
(* lengths: |T b - T a|^2 *)
Lemma norm2_rotate : forall c s a b, c * c + s * s == 1 ->
  norm2 (psub (rotate c s b) (rotate c s a)) == norm2 (psub b a).
Proof. intros. unfold norm2. apply inner_rotate. assumption. Qed.
Lemma norm2_translate : forall v a b,
  norm2 (psub (translate v b) (translate v a)) == norm2 (psub b a).
Proof. intros. unfold norm2. apply inner_translate. Qed.
Lemma norm2_uscale : forall k a b,
  norm2 (psub (uscale k b) (uscale k a)) == k * k * norm2 (psub b a).
Proof. intros. unfold norm2. apply inner_uscale. Qed.

(* ------------------------------------------------------------------ *)
(* maps that agree with an affine map up to == (the model's move_pt,   *)
(* scale_pt, rot_pt normalise their result with Qred)                  *)
(* ------------------------------------------------------------------ *)
Definition aff_map (m11 m12 m21 m22 : Q) (v : point) (f : point -> point) : Prop :=
  forall p, peq (f p) (aff m11 m12 m21 m22 v p).
(* positive axis scaling followed by a translation *)
Definition diag_map (sx sy : Q) (v : point) (f : point -> point) : Prop :=
  aff_map sx 0 0 sy v f.

Lemma aff_map_aff : forall m11 m12 m21 m22 v, aff_map m11 m12 m21 m22 v (aff m11 m12 m21 m22 v).
Proof. intros; intro p; apply peq_refl. Qed.
Lemma diag_translate : forall v, diag_map 1 1 v (translate v).
Proof. intros v p. apply peq_refl. Qed.
Lemma diag_scale2 : forall sx sy, diag_map sx sy pzero (scale2 sx sy).
Proof. intros sx sy p. apply peq_refl. Qed.
Lemma diag_uscale : forall k, diag_map k k pzero (uscale k).
Proof. intros k p. apply peq_refl. Qed.
Lemma diag_padd : forall v, diag_map 1 1 v (fun p => padd p v).
Proof. intros v [x y]. split; pts; ring. Qed.
Lemma diag_pscale : forall k, diag_map k k pzero (pscale k).
Proof. intros k [x y]. split; pts; ring. Qed.
Lemma diag_move_pt : forall v, diag_map 1 1 v (move_pt v).
Proof.
  intros v [x y]. unfold move_pt, pred_. split; cbn [px py fst snd]; rewrite Qred_correct; pts; ring.
Qed.
Lemma diag_scale_pt : forall sx sy, diag_map sx sy pzero (scale_pt sx sy).
Proof.
  intros sx sy [x y]. unfold scale_pt, pred_. split; cbn [px py fst snd]; rewrite Qred_correct; pts; ring.
Qed.
Lemma aff_map_rot_pt : forall c s, aff_map c (- s) s c pzero (rot_pt c s).
Proof.
  intros c s [x y]. unfold rot_pt, pred_. split; cbn [px py fst snd]; rewrite Qred_correct; pts; ring.
Qed.

(* E1 again, for such maps *)
Lemma cross_aff_map : forall m11 m12 m21 m22 v f, aff_map m11 m12 m21 m22 v f ->
  forall a b c d,
  cross (psub (f b) (f a)) (psub (f d) (f c)) == adet m11 m12 m21 m22 * cross (psub b a) (psub d c).
Proof.
  intros m11 m12 m21 m22 v f H a b c d.
  rewrite <- cross_aff with (v := v).
  destruct (H a) as [Ax Ay], (H b) as [Bx By], (H c) as [Cx Cy], (H d) as [Dx Dy].
  unfold cross, psub. cbn [px py fst snd] in *.
  rewrite Ax, Ay, Bx, By, Cx, Cy, Dx, Dy. reflexivity.
Qed.
Lemma orient_aff_map : forall m11 m12 m21 m22 v f, aff_map m11 m12 m21 m22 v f ->
  forall a b p, orient (f a) (f b) (f p) == adet m11 m12 m21 m22 * orient a b p.
Proof. intros. unfold orient. eapply cross_aff_map; eassumption. Qed.

(* ------------------------------------------------------------------ *)
(* E4. winding number, on_edge, region                                 *)
(* ------------------------------------------------------------------ *)
Lemma Qle_bool_ext : forall a b c d, (a <= b <-> c <= d) -> Qle_bool a b = Qle_bool c d.
Proof.
  intros a b c d H.
  destruct (Qle_bool a b) eqn:E1, (Qle_bool c d) eqn:E2; auto.
  - apply Qle_bool_iff in E1. apply H in E1. apply Qle_bool_iff in E1. congruence.
  - apply Qle_bool_iff in E2. apply H in E2. apply Qle_bool_iff in E2. congruence.
Qed.
Lemma Qlt_bool_ext : forall a b c d, (b <= a <-> d <= c) -> Qlt_bool a b = Qlt_bool c d.
Proof. intros. unfold Qlt_bool. f_equal. apply Qle_bool_ext. assumption. Qed.
Lemma Qeq_bool_ext : forall a b c d, (a == b <-> c == d) -> Qeq_bool a b = Qeq_bool c d.
Proof.
  intros a b c d H.
  destruct (Qeq_bool a b) eqn:E1, (Qeq_bool c d) eqn:E2; auto.
  - apply Qeq_bool_iff in E1. apply H in E1. apply Qeq_bool_iff in E1. congruence.
  - apply Qeq_bool_iff in E2. apply H in E2. apply Qeq_bool_iff in E2. congruence.
Qed.
Lemma Qle_bool_comp : forall a a' b b', a == a' -> b == b' -> Qle_bool a b = Qle_bool a' b'.
Proof. intros a a' b b' Ha Hb. apply Qle_bool_ext. rewrite Ha, Hb. tauto. Qed.
Lemma Qlt_bool_comp : forall a a' b b', a == a' -> b == b' -> Qlt_bool a b = Qlt_bool a' b'.
Proof. intros a a' b b' Ha Hb. apply Qlt_bool_ext. rewrite Ha, Hb. tauto. Qed.
Lemma Qeq_bool_comp : forall a a' b b', a == a' -> b == b' -> Qeq_bool a b = Qeq_bool a' b'.
Proof. intros a a' b b' Ha Hb. apply Qeq_bool_ext. rewrite Ha, Hb. tauto. Qed.

Lemma le_diag : forall s x y u w t, 0 < s ->
  (s * x + 0 * u + t <= s * y + 0 * w + t <-> x <= y).
Proof.
  intros s x y u w t H. rewrite <- (Qmult_le_l x y s) by assumption. split; intro; lra.
Qed.
Lemma le_diag' : forall s x y u w t, 0 < s ->
  (0 * u + s * x + t <= 0 * w + s * y + t <-> x <= y).
Proof.
  intros s x y u w t H. rewrite <- (Qmult_le_l x y s) by assumption. split; intro; lra.
Qed.
Lemma pos_mul_ge0 : forall s x, 0 < s -> (0 <= s * x <-> 0 <= x).
Proof.
  intros s x H. rewrite <- (Qmult_le_l 0 x s) by assumption.
  setoid_replace (s * 0) with 0 by ring. tauto.
Qed.
Lemma pos_mul_le0 : forall s x, 0 < s -> (s * x <= 0 <-> x <= 0).
Proof.
  intros s x H. rewrite <- (Qmult_le_l x 0 s) by assumption.
  setoid_replace (s * 0) with 0 by ring. tauto.
Qed.
Lemma nz_mul_eq0 : forall s x, ~ s == 0 -> (s * x == 0 <-> x == 0).
Proof.
  intros s x H. split; intro E.
  - apply Qmult_integral in E. tauto.
  - rewrite E. ring.
Qed.

Section Diag.
Variables sx sy : Q.
Variable v : point.
Variable f : point -> point.
Hypothesis Hsx : 0 < sx.
Hypothesis Hsy : 0 < sy.
Hypothesis Hf : diag_map sx sy v f.

Lemma diag_px_le : forall a b, (px (f a) <= px (f b) <-> px a <= px b).
Proof.
  intros a b. destruct (Hf a) as [Ax _], (Hf b) as [Bx _].
  rewrite Ax, Bx. unfold aff; cbn [px py fst snd]. apply le_diag. exact Hsx.
Qed.
Lemma diag_py_le : forall a b, (py (f a) <= py (f b) <-> py a <= py b).
Proof.
  intros a b. destruct (Hf a) as [_ Ay], (Hf b) as [_ By].
  rewrite Ay, By. unfold aff; cbn [px py fst snd]. apply le_diag'. exact Hsy.
Qed.
Lemma diag_orient : forall a b p, orient (f a) (f b) (f p) == sx * sy * orient a b p.
Proof.
  intros. rewrite (orient_aff_map _ _ _ _ _ _ Hf). rewrite adet_scale2. reflexivity.
Qed.
Lemma diag_sxsy : 0 < sx * sy.
Proof. apply Qmult_lt_0_compat; assumption. Qed.

Theorem cr_diag : forall a b p, cr (f a) (f b) (f p) = cr a b p.
Proof.
  intros a b p. unfold cr.
  rewrite (Qle_bool_ext _ _ _ _ (diag_px_le a p)).
  rewrite (Qlt_bool_ext _ _ _ _ (diag_px_le b p)).
  rewrite (Qle_bool_ext _ _ _ _ (diag_px_le b p)).
  rewrite (Qlt_bool_ext _ _ _ _ (diag_px_le a p)).
  assert (O1 : Qlt_bool (orient (f a) (f b) (f p)) 0 = Qlt_bool (orient a b p) 0).
  { apply Qlt_bool_ext. rewrite diag_orient. apply pos_mul_ge0, diag_sxsy. }
  assert (O2 : Qlt_bool 0 (orient (f a) (f b) (f p)) = Qlt_bool 0 (orient a b p)).
  { apply Qlt_bool_ext. rewrite diag_orient. apply pos_mul_le0, diag_sxsy. }
  rewrite O1, O2. reflexivity.
Qed.

Lemma between_diag_x : forall a b p,
  between (px (f a)) (px (f b)) (px (f p)) = between (px a) (px b) (px p).
Proof.
  intros. unfold between.
  rewrite (Qle_bool_ext _ _ _ _ (diag_px_le a p)), (Qle_bool_ext _ _ _ _ (diag_px_le p b)),
          (Qle_bool_ext _ _ _ _ (diag_px_le b p)), (Qle_bool_ext _ _ _ _ (diag_px_le p a)).
  reflexivity.
Qed.
Lemma between_diag_y : forall a b p,
  between (py (f a)) (py (f b)) (py (f p)) = between (py a) (py b) (py p).
Proof.
  intros. unfold between.
  rewrite (Qle_bool_ext _ _ _ _ (diag_py_le a p)), (Qle_bool_ext _ _ _ _ (diag_py_le p b)),
          (Qle_bool_ext _ _ _ _ (diag_py_le b p)), (Qle_bool_ext _ _ _ _ (diag_py_le p a)).
  reflexivity.
Qed.

Theorem on_edge_diag : forall a b p, on_edge (f a) (f b) (f p) = on_edge a b p.
Proof.
  intros a b p. unfold on_edge. rewrite between_diag_x, between_diag_y.
  assert (O : Qeq_bool (orient (f a) (f b) (f p)) 0 = Qeq_bool (orient a b p) 0).
  { apply Qeq_bool_ext. rewrite diag_orient. apply nz_mul_eq0.
    pose proof diag_sxsy. lra. }
  rewrite O. reflexivity.
Qed.

End Diag.

(* ---------- lists ---------- *)
Definition nonempty_segs (j : jordan) : Prop := forall s, In s j -> s <> [].

Lemma all_lines_nonempty : forall j, all_lines j = true -> nonempty_segs j.
Proof.
  intros j H s Hs. unfold all_lines in H. rewrite forallb_forall in H.
  specialize (H s Hs). destruct s; [discriminate H|discriminate].
Qed.
Lemma nonempty_cons : forall s j, nonempty_segs (s :: j) -> s <> [] /\ nonempty_segs j.
Proof.
  intros s j H. split; [apply H; left; reflexivity|].
  intros s' Hs'. apply H. right. exact Hs'.
Qed.

Lemma first_pt_map : forall (f : point -> point) s, s <> [] -> first_pt (map f s) = f (first_pt s).
Proof. intros f [|a s] H; [contradiction|reflexivity]. Qed.
Lemma last_pt_map : forall (f : point -> point) s, s <> [] -> last_pt (map f s) = f (last_pt s).
Proof.
  intros f s H. unfold last_pt. induction s as [|a s IH]; [contradiction|].
  destruct s as [|b s]; [reflexivity|].
  change (last (f a :: map f (b :: s)) pzero = f (last (a :: b :: s) pzero)).
  change (last (map f (b :: s)) pzero = f (last (b :: s) pzero)).
  apply IH. discriminate.
Qed.

Lemma all_lines_map : forall (f : point -> point) j, all_lines (map (map f) j) = all_lines j.
Proof.
  intros f j. unfold all_lines. induction j as [|s j IH]; [reflexivity|].
  cbn [map forallb]. rewrite IH. unfold is_line. rewrite map_length. reflexivity.
Qed.

Lemma cr_same : forall a p, cr a a p = 0%Z.
Proof.
  intros a p. unfold cr.
  assert (E : Qle_bool (px a) (px p) && Qlt_bool (px p) (px a) = false).
  { destruct (Qle_bool (px a) (px p)) eqn:E1; [|reflexivity].
    unfold Qlt_bool. rewrite E1. reflexivity. }
  rewrite E. reflexivity.
Qed.

Lemma Qsum_map_scale : forall {A} (g : A -> Q) c l,
  Qsum (map (fun x => c * g x) l) == c * Qsum (map g l).
Proof.
  intros A g c l. induction l as [|x l IH]; simpl; [ring|]. rewrite IH. ring.
Qed.

(* telescoping sum along a closed chain, for any function of the end points *)
Lemma chain_telescope_gen : forall (g : point -> Q),
  (forall P R, peqb P R = true -> g P == g R) ->
  forall j first, j <> [] -> chain_ok first j = true ->
  Qsum (map (fun s => g (last_pt s) - g (first_pt s)) j)
  == g first - g (first_pt (hd [] j)).
Proof.
  intros g Hg. induction j as [|s j IH]; intros first Hne H; [contradiction|].
  destruct j as [|s' j'].
  - cbn [chain_ok] in H. apply Hg in H.
    cbn [map Qsum hd]. rewrite H. ring.
  - cbn [chain_ok] in H. apply andb_prop in H. destruct H as [H1 H2].
    apply Hg in H1.
    assert (Hne' : s' :: j' <> []) by discriminate.
    specialize (IH first Hne' H2). cbn [hd] in IH.
    cbn [map Qsum hd] in *. rewrite IH, H1. ring.
Qed.
Lemma closed_telescope : forall (g : point -> Q),
  (forall P R, peqb P R = true -> g P == g R) ->
  forall j, closed_chain j = true ->
  Qsum (map (fun s => g (last_pt s) - g (first_pt s)) j) == 0.
Proof.
  intros g Hg [|s j] H; [reflexivity|].
  unfold closed_chain in H.
  rewrite (chain_telescope_gen g Hg (s :: j) (first_pt s)) by (discriminate || exact H).
  cbn [hd]. ring.
Qed.
Lemma peqb_true : forall P R, peqb P R = true <-> peq P R.
Proof.
  intros P R. unfold peqb, peq. rewrite andb_true_iff, !Qeq_bool_iff. tauto.
Qed.

(* shoelace of a closed chain under a map that is affine up to == *)
Theorem shoelace2_aff_map : forall m11 m12 m21 m22 v f, aff_map m11 m12 m21 m22 v f ->
  forall j, nonempty_segs j -> closed_chain j = true ->
  shoelace2 (map (map f) j) == adet m11 m12 m21 m22 * shoelace2 j.
Proof.
  intros m11 m12 m21 m22 v f H j Hne Hc. unfold shoelace2. rewrite map_map.
  set (g := fun P : point => cross v (aff m11 m12 m21 m22 pzero P)).
  rewrite (Qsum_map_ext (fun s => cross (first_pt (map f s)) (last_pt (map f s)))
     (fun s => adet m11 m12 m21 m22 * cross (first_pt s) (last_pt s)
               + (g (last_pt s) - g (first_pt s)))).
  - rewrite Qsum_map_add, Qsum_map_scale, closed_telescope; [apply Qplus_0_r| |exact Hc].
    intros P R E. apply peqb_true in E. destruct E as [Ex Ey].
    unfold g. pts. rewrite Ex, Ey. reflexivity.
  - intros s Hs. rewrite first_pt_map, last_pt_map by (apply Hne; exact Hs).
    destruct (H (first_pt s)) as [Ax Ay], (H (last_pt s)) as [Bx By].
    unfold g. pts. rewrite Ax, Ay, Bx, By. ring.
Qed.

Section DiagLists.
Variables sx sy : Q.
Variable v : point.
Variable f : point -> point.
Hypothesis Hsx : 0 < sx.
Hypothesis Hsy : 0 < sy.
Hypothesis Hf : diag_map sx sy v f.

Theorem wn_lines_diag : forall j p, wn_lines (map (map f) j) (f p) = wn_lines j p.
Proof.
  intros j p. unfold wn_lines. rewrite map_map. f_equal. apply map_ext. intros s.
  destruct s as [|a s].
  - cbn [map]. rewrite !cr_same. reflexivity.
  - rewrite first_pt_map, last_pt_map by discriminate.
    apply (cr_diag sx sy v f Hsx Hsy Hf).
Qed.

Theorem on_boundary_diag : forall j p, nonempty_segs j ->
  on_boundary (map (map f) j) (f p) = on_boundary j p.
Proof.
  intros j p Hne. unfold on_boundary.
  induction j as [|s j IH]; [reflexivity|].
  apply nonempty_cons in Hne. destruct Hne as [Hs Hj].
  cbn [map existsb]. rewrite (IH Hj). f_equal.
  rewrite first_pt_map, last_pt_map by exact Hs.
  apply (on_edge_diag sx sy v f Hsx Hsy Hf).
Qed.

Theorem shoelace2_diag : forall j, nonempty_segs j -> closed_chain j = true ->
  shoelace2 (map (map f) j) == sx * sy * shoelace2 j.
Proof.
  intros j Hne Hc. rewrite (shoelace2_aff_map _ _ _ _ _ _ Hf j Hne Hc), adet_scale2. reflexivity.
Qed.

Theorem region_simple_diag : forall j p, nonempty_segs j -> closed_chain j = true ->
  region_simple (map (map f) j) (f p) = region_simple j p.
Proof.
  intros j p Hne Hc. unfold region_simple.
  rewrite (on_boundary_diag j p Hne), wn_lines_diag.
  assert (S : Qlt_bool 0 (shoelace2 (map (map f) j)) = Qlt_bool 0 (shoelace2 j)).
  { apply Qlt_bool_ext. rewrite (shoelace2_diag j Hne Hc).
    apply pos_mul_le0. apply Qmult_lt_0_compat; assumption. }
  rewrite S. reflexivity.
Qed.

End DiagLists.

(* pure scalings (no translation): the chain need not be closed *)
Theorem shoelace2_scaling : forall sx sy f, diag_map sx sy pzero f ->
  forall j, nonempty_segs j -> shoelace2 (map (map f) j) == sx * sy * shoelace2 j.
Proof.
  intros sx sy f H j Hne. unfold shoelace2. rewrite map_map, <- Qsum_map_scale.
  apply Qsum_map_ext. intros s Hs.
  rewrite first_pt_map, last_pt_map by (apply Hne; exact Hs).
  destruct (H (first_pt s)) as [Ax Ay], (H (last_pt s)) as [Bx By].
  pts. rewrite Ax, Ay, Bx, By. ring.
Qed.
Theorem region_simple_scaling : forall sx sy f, 0 < sx -> 0 < sy -> diag_map sx sy pzero f ->
  forall j p, nonempty_segs j ->
  region_simple (map (map f) j) (f p) = region_simple j p.
Proof.
  intros sx sy f Hsx Hsy H j p Hne. unfold region_simple.
  rewrite (on_boundary_diag sx sy pzero f Hsx Hsy H j p Hne),
          (wn_lines_diag sx sy pzero f Hsx Hsy H).
  assert (S : Qlt_bool 0 (shoelace2 (map (map f) j)) = Qlt_bool 0 (shoelace2 j)).
  { apply Qlt_bool_ext. rewrite (shoelace2_scaling sx sy f H j Hne).
    apply pos_mul_le0. apply Qmult_lt_0_compat; assumption. }
  rewrite S. reflexivity.
Qed.

(* ------------------------------------------------------------------ *)
(* the shape produced by map_points                                    *)
(* ------------------------------------------------------------------ *)
Definition comp_map (g : jordan -> jordan) (c : comp) : comp :=
  match c with CS j => CS (g j) | CC js => CC (map g js) end.
Definition shape_map (g : jordan -> jordan) (s : shape) : shape :=
  match s with
  | SEmpty => SEmpty
  | SWhole => SWhole
  | SC c => SC (comp_map g c)
  | SD cs => SD (map (comp_map g) cs)
  end.

Lemma firstn_length_app : forall {A} (l r : list A), firstn (length l) (l ++ r) = l.
Proof. intros A l r. induction l as [|a l IH]; [reflexivity|]. cbn. rewrite IH. reflexivity. Qed.
Lemma skipn_length_app : forall {A} (l r : list A), skipn (length l) (l ++ r) = r.
Proof. intros A l r. induction l as [|a l IH]; [reflexivity|]. cbn. exact IH. Qed.

Lemma comp_with_map : forall g c rest,
  comp_with c (map g (comp_jordans c) ++ rest) = (comp_map g c, rest).
Proof.
  intros g [j|js] rest; cbn [comp_with comp_jordans comp_map map app hd tl].
  - reflexivity.
  - rewrite <- (map_length g js), firstn_length_app, skipn_length_app. reflexivity.
Qed.
Lemma comps_with_map : forall g cs rest,
  comps_with cs (map g (concat (map comp_jordans cs)) ++ rest) = map (comp_map g) cs.
Proof.
  intros g cs. induction cs as [|c cs IH]; intro rest; [reflexivity|].
  cbn [map concat comps_with]. rewrite map_app, <- app_assoc, comp_with_map, IH. reflexivity.
Qed.
Theorem with_jordans_map : forall g s, with_jordans s (map g (jordans s)) = shape_map g s.
Proof.
  intros g [| |c|cs]; cbn [with_jordans jordans shape_map]; try reflexivity.
  - rewrite <- (app_nil_r (map g (comp_jordans c))), comp_with_map. reflexivity.
  - rewrite <- (app_nil_r (map g _)), comps_with_map. reflexivity.
Qed.
Corollary map_points_shape_map : forall f s, map_points f s = shape_map (map (map f)) s.
Proof. intros. unfold map_points. apply with_jordans_map. Qed.

Lemma comp_jordans_map : forall g c, comp_jordans (comp_map g c) = map g (comp_jordans c).
Proof. intros g [j|js]; reflexivity. Qed.
Lemma jordans_shape_map : forall g s, jordans (shape_map g s) = map g (jordans s).
Proof.
  intros g [| |c|cs]; cbn [jordans shape_map]; try reflexivity.
  - apply comp_jordans_map.
  - rewrite concat_map, !map_map. f_equal. apply map_ext. intro c. apply comp_jordans_map.
Qed.
Corollary jordans_map_points : forall f s,
  jordans (map_points f s) = map (map (map f)) (jordans s).
Proof. intros. rewrite map_points_shape_map. apply jordans_shape_map. Qed.

Lemma shape_lines_map_points : forall f s, shape_lines (map_points f s) = shape_lines s.
Proof.
  intros f s. unfold shape_lines. rewrite jordans_map_points.
  induction (jordans s) as [|j js IH]; [reflexivity|].
  cbn [map forallb]. rewrite IH, all_lines_map. reflexivity.
Qed.

(* every curve of the shape is a closed chain of non-empty segments *)
Definition chains_ok (js : list jordan) : Prop :=
  forall j, In j js -> nonempty_segs j /\ closed_chain j = true.

(* E4 lifted to shapes: the region of the transformed shape at the transformed point *)
Section DiagShapes.
Variables sx sy : Q.
Variable v : point.
Variable f : point -> point.
Hypothesis Hsx : 0 < sx.
Hypothesis Hsy : 0 < sy.
Hypothesis Hf : diag_map sx sy v f.

Lemma region_comp_diag : forall c p, chains_ok (comp_jordans c) ->
  region_comp (comp_map (map (map f)) c) (f p) = region_comp c p.
Proof.
  intros [j|js] p H; cbn [region_comp comp_map].
  - destruct (H j (or_introl eq_refl)) as [Hn Hc].
    apply (region_simple_diag sx sy v f Hsx Hsy Hf j p Hn Hc).
  - cbn [comp_jordans] in H. induction js as [|j js IH]; [reflexivity|].
    cbn [map fold_right]. rewrite IH by (intros j' Hj'; apply H; right; exact Hj').
    destruct (H j (or_introl eq_refl)) as [Hn Hc].
    rewrite (region_simple_diag sx sy v f Hsx Hsy Hf j p Hn Hc). reflexivity.
Qed.

Theorem region_diag : forall s p, chains_ok (jordans s) ->
  region (map_points f s) (f p) = region s p.
Proof.
  intros s p H. rewrite map_points_shape_map.
  destruct s as [| |c|cs]; cbn [region shape_map]; try reflexivity.
  - apply region_comp_diag. exact H.
  - cbn [jordans] in H. induction cs as [|c cs IH]; [reflexivity|].
    cbn [map fold_right]. rewrite IH.
    + rewrite region_comp_diag; [reflexivity|].
      intros j Hj. apply H. cbn [map concat]. apply in_or_app. left. exact Hj.
    + intros j Hj. apply H. cbn [map concat]. apply in_or_app. right. exact Hj.
Qed.
End DiagShapes.

(* ------------------------------------------------------------------ *)
(* E5 (a). area                                                        *)
(* ------------------------------------------------------------------ *)
Lemma peqb_aff_map : forall m11 m12 m21 m22 v f, aff_map m11 m12 m21 m22 v f ->
  forall P R, peqb P R = true -> peqb (f P) (f R) = true.
Proof.
  intros m11 m12 m21 m22 v f H P R E. apply peqb_true in E. apply peqb_true.
  destruct E as [Ex Ey]. destruct (H P) as [Px Py], (H R) as [Rx Ry].
  split; [rewrite Px, Rx|rewrite Py, Ry]; pts; rewrite Ex, Ey; reflexivity.
Qed.

Lemma chain_ok_map : forall (f : point -> point),
  (forall P R, peqb P R = true -> peqb (f P) (f R) = true) ->
  forall j first, nonempty_segs j -> chain_ok first j = true ->
  chain_ok (f first) (map (map f) j) = true.
Proof.
  intros f Hp. induction j as [|s j IH]; intros first Hne H; [reflexivity|].
  apply nonempty_cons in Hne. destruct Hne as [Hs Hj].
  destruct j as [|s' j'].
  - cbn [map chain_ok] in *. rewrite last_pt_map by exact Hs. apply Hp. exact H.
  - cbn [chain_ok] in H. apply andb_prop in H. destruct H as [H1 H2].
    change (chain_ok (f first) (map f s :: map f s' :: map (map f) j') = true).
    cbn [chain_ok]. apply andb_true_intro. split.
    + destruct (nonempty_cons _ _ Hj) as [Hs' _].
      rewrite last_pt_map, first_pt_map by assumption. apply Hp. exact H1.
    + apply (IH first Hj H2).
Qed.
Lemma closed_chain_map : forall (f : point -> point),
  (forall P R, peqb P R = true -> peqb (f P) (f R) = true) ->
  forall j, nonempty_segs j -> closed_chain j = true -> closed_chain (map (map f) j) = true.
Proof.
  intros f Hp [|s j] Hne H; [reflexivity|].
  unfold closed_chain in *. cbn [map].
  rewrite first_pt_map by (apply Hne; left; reflexivity).
  apply (chain_ok_map f Hp (s :: j) (first_pt s) Hne H).
Qed.

Theorem jordan_area_aff_map : forall m11 m12 m21 m22 v f, aff_map m11 m12 m21 m22 v f ->
  forall j, all_lines j = true -> closed_chain j = true ->
  jordan_area (map (map f) j) == adet m11 m12 m21 m22 * jordan_area j.
Proof.
  intros m11 m12 m21 m22 v f H j Hl Hc.
  pose proof (all_lines_nonempty j Hl) as Hne.
  rewrite (area_shoelace j Hl Hc), (area_shoelace (map (map f) j)).
  - rewrite (shoelace2_aff_map _ _ _ _ _ _ H j Hne Hc). unfold Qdiv. ring.
  - rewrite all_lines_map. exact Hl.
  - apply closed_chain_map; try assumption. apply (peqb_aff_map _ _ _ _ _ _ H).
Qed.

Corollary jordan_area_aff : forall m11 m12 m21 m22 v j,
  all_lines j = true -> closed_chain j = true ->
  jordan_area (map (map (aff m11 m12 m21 m22 v)) j) == adet m11 m12 m21 m22 * jordan_area j.
Proof. intros. apply (jordan_area_aff_map _ _ _ _ _ _ (aff_map_aff _ _ _ _ _)); assumption. Qed.

(* the model's transformations *)
Corollary jordan_area_move : forall v j, all_lines j = true -> closed_chain j = true ->
  jordan_area (map (map (move_pt v)) j) == jordan_area j.
Proof.
  intros v j Hl Hc. rewrite (jordan_area_aff_map _ _ _ _ _ _ (diag_move_pt v) j Hl Hc).
  rewrite adet_translate. ring.
Qed.
Corollary jordan_area_scale : forall sx sy j, all_lines j = true -> closed_chain j = true ->
  jordan_area (map (map (scale_pt sx sy)) j) == sx * sy * jordan_area j.
Proof.
  intros sx sy j Hl Hc. rewrite (jordan_area_aff_map _ _ _ _ _ _ (diag_scale_pt sx sy) j Hl Hc).
  rewrite adet_scale2. reflexivity.
Qed.
Corollary jordan_area_rotate : forall c s j, c * c + s * s == 1 ->
  all_lines j = true -> closed_chain j = true ->
  jordan_area (map (map (rot_pt c s)) j) == jordan_area j.
Proof.
  intros c s j H Hl Hc. rewrite (jordan_area_aff_map _ _ _ _ _ _ (aff_map_rot_pt c s) j Hl Hc).
  rewrite adet_rotate by exact H. ring.
Qed.

(* shape_area of a transformed polygonal shape *)
Theorem shape_area_aff_map : forall m11 m12 m21 m22 v f, aff_map m11 m12 m21 m22 v f ->
  forall s, shape_lines s = true -> (forall j, In j (jordans s) -> closed_chain j = true) ->
  shape_area (map_points f s) == adet m11 m12 m21 m22 * shape_area s.
Proof.
  intros m11 m12 m21 m22 v f H s Hl Hc. unfold shape_area.
  rewrite !Qred_correct, jordans_map_points, map_map, <- Qsum_map_scale.
  apply Qsum_map_ext. intros j Hj.
  apply (jordan_area_aff_map _ _ _ _ _ _ H).
  - unfold shape_lines in Hl. rewrite forallb_forall in Hl. apply Hl. exact Hj.
  - apply Hc. exact Hj.
Qed.

(* ------------------------------------------------------------------ *)
(* E5 (b). moments under axis scalings                                 *)
(* ------------------------------------------------------------------ *)
From Coq Require Import Setoid Morphisms.

Global Instance poly_eq_Equivalence : Equivalence poly_eq.
Proof.
  split.
  - intro p. induction p; constructor; [reflexivity|assumption].
  - intros p q H. induction H; constructor; [symmetry|]; assumption.
  - intros p q r H. revert r. induction H as [|a b p q Hab _ IH]; intros r Hr.
    + exact Hr.
    + inversion Hr as [|b' c q' r' Hbc Hqr]; subst. constructor.
      * rewrite Hab. exact Hbc.
      * apply IH. exact Hqr.
Qed.

Global Instance poly_add_Proper : Proper (poly_eq ==> poly_eq ==> poly_eq) poly_add.
Proof.
  intros p p' Hp. induction Hp as [|a a' p p' Ha Hp IH]; intros q q' Hq.
  - exact Hq.
  - destruct Hq as [|b b' q q' Hb Hq].
    + constructor; assumption.
    + cbn [poly_add]. constructor; [rewrite Ha, Hb; reflexivity|apply IH; exact Hq].
Qed.
Global Instance poly_scale_Proper : Proper (Qeq ==> poly_eq ==> poly_eq) poly_scale.
Proof.
  intros c c' Hc p p' Hp. unfold poly_scale.
  induction Hp as [|a a' p p' Ha _ IH]; cbn [map]; constructor.
  - rewrite Hc, Ha. reflexivity.
  - exact IH.
Qed.
Global Instance poly_cons_Proper : Proper (Qeq ==> poly_eq ==> poly_eq) (@cons Q).
Proof. intros a a' Ha p p' Hp. constructor; assumption. Qed.
Global Instance poly_mul_Proper : Proper (poly_eq ==> poly_eq ==> poly_eq) poly_mul.
Proof.
  intros p p' Hp. induction Hp as [|a a' p p' Ha _ IH]; intros q q' Hq.
  - constructor.
  - cbn [poly_mul]. apply poly_add_Proper.
    + apply poly_scale_Proper; assumption.
    + constructor; [reflexivity|apply IH; exact Hq].
Qed.
Global Instance poly_pow_Proper : Proper (poly_eq ==> eq ==> poly_eq) poly_pow.
Proof.
  intros p p' Hp n n' <-. induction n as [|n IH]; cbn [poly_pow].
  - reflexivity.
  - apply poly_mul_Proper; assumption.
Qed.
Lemma pderiv_from_ext : forall p q, poly_eq p q -> forall k, poly_eq (pderiv_from k p) (pderiv_from k q).
Proof.
  intros p q H. induction H as [|a b p q Hab _ IH]; intro k; cbn [pderiv_from].
  - constructor.
  - constructor; [rewrite Hab; reflexivity|apply IH].
Qed.
Global Instance pderiv_Proper : Proper (poly_eq ==> poly_eq) pderiv.
Proof.
  intros p q H. destruct H as [|a b p q _ H]; cbn [pderiv]; [constructor|].
  apply pderiv_from_ext. exact H.
Qed.
Lemma pderiv_from_scale : forall c p k,
  poly_eq (pderiv_from k (poly_scale c p)) (poly_scale c (pderiv_from k p)).
Proof.
  intros c p. induction p as [|a p IH]; intro k; [reflexivity|].
  cbn [poly_scale map pderiv_from]. constructor; [ring|apply IH].
Qed.
Lemma pderiv_scale : forall c p, poly_eq (pderiv (poly_scale c p)) (poly_scale c (pderiv p)).
Proof. intros c [|a p]; [reflexivity|]. cbn [poly_scale map pderiv]. apply pderiv_from_scale. Qed.
Global Instance pint01_Proper : Proper (poly_eq ==> Qeq) pint01.
Proof. intros p q H. apply pint01_ext. exact H. Qed.

Lemma poly_scale_add : forall k p q,
  poly_eq (poly_scale k (poly_add p q)) (poly_add (poly_scale k p) (poly_scale k q)).
Proof.
  intros k p. induction p as [|a p IH]; intros [|b q]; try reflexivity.
  cbn [poly_add poly_scale map]. constructor; [ring|apply IH].
Qed.
Lemma poly_scale_scale : forall k c p,
  poly_eq (poly_scale k (poly_scale c p)) (poly_scale (k * c) p).
Proof.
  intros k c p. induction p as [|a p IH]; [reflexivity|].
  cbn [poly_scale map]. constructor; [ring|apply IH].
Qed.
Lemma poly_mul_scale_l : forall k p q,
  poly_eq (poly_mul (poly_scale k p) q) (poly_scale k (poly_mul p q)).
Proof.
  intros k p q. induction p as [|a p IH]; [reflexivity|].
  change (poly_scale k (a :: p)) with ((k * a) :: poly_scale k p).
  cbn [poly_mul]. rewrite poly_scale_add, IH, poly_scale_scale.
  apply poly_add_Proper; [reflexivity|].
  change (poly_scale k (0 :: poly_mul p q)) with ((k * 0) :: poly_scale k (poly_mul p q)).
  constructor; [ring|reflexivity].
Qed.
Lemma poly_mul_scale_r : forall k p q,
  poly_eq (poly_mul p (poly_scale k q)) (poly_scale k (poly_mul p q)).
Proof.
  intros k p q. induction p as [|a p IH]; [reflexivity|].
  cbn [poly_mul]. rewrite poly_scale_add, IH, !poly_scale_scale.
  apply poly_add_Proper.
  - apply poly_scale_Proper; [ring|reflexivity].
  - change (poly_scale k (0 :: poly_mul p q)) with ((k * 0) :: poly_scale k (poly_mul p q)).
    constructor; [ring|reflexivity].
Qed.
Lemma poly_pow_scale : forall k p n,
  poly_eq (poly_pow (poly_scale k p) n) (poly_scale (Qpow k n) (poly_pow p n)).
Proof.
  intros k p n. induction n as [|n IH]; cbn [poly_pow Qpow].
  - cbn. constructor; [ring|constructor].
  - rewrite IH, poly_mul_scale_l, poly_mul_scale_r, poly_scale_scale. reflexivity.
Qed.

Lemma Qpow_add : forall k n m, Qpow k (n + m) == Qpow k n * Qpow k m.
Proof.
  intros k n m. induction n as [|n IH]; cbn [Nat.add Qpow]; [ring|]. rewrite IH. ring.
Qed.

Lemma line_poly_scale : forall k a b a' b', a' == k * a -> b' == k * b ->
  poly_eq (line_poly a' b') (poly_scale k (line_poly a b)).
Proof.
  intros k a b a' b' Ha Hb. unfold line_poly. cbn [poly_scale map].
  constructor; [exact Ha|]. constructor; [rewrite Ha, Hb; ring|constructor].
Qed.
Lemma pderiv_line_scale : forall k a b a' b', a' == k * a -> b' == k * b ->
  poly_eq (pderiv (line_poly a' b')) (poly_scale k (pderiv (line_poly a b))).
Proof.
  intros k a b a' b' Ha Hb. unfold line_poly. cbn [pderiv pderiv_from poly_scale map].
  constructor; [rewrite Ha, Hb; ring|constructor].
Qed.

(* x scaled by sx, y by sy: M_ab picks up sx^(a+1) sy^(b+1) *)
Theorem edge_moment_scaling : forall sx sy f, diag_map sx sy pzero f ->
  forall s a b, s <> [] ->
  edge_moment (map f s) a b == Qpow sx (S a) * Qpow sy (S b) * edge_moment s a b.
Proof.
  intros sx sy f H s a b Hs. unfold edge_moment.
  rewrite first_pt_map, last_pt_map by exact Hs.
  destruct (H (first_pt s)) as [Ax Ay], (H (last_pt s)) as [Bx By].
  assert (Ax' : px (f (first_pt s)) == sx * px (first_pt s)) by (rewrite Ax; pts; ring).
  assert (Ay' : py (f (first_pt s)) == sy * py (first_pt s)) by (rewrite Ay; pts; ring).
  assert (Bx' : px (f (last_pt s)) == sx * px (last_pt s)) by (rewrite Bx; pts; ring).
  assert (By' : py (f (last_pt s)) == sy * py (last_pt s)) by (rewrite By; pts; ring).
  rewrite (line_poly_scale sx _ _ _ _ Ax' Bx'), (line_poly_scale sy _ _ _ _ Ay' By').
  rewrite pderiv_scale, !poly_pow_scale.
  repeat (rewrite ?poly_mul_scale_l, ?poly_mul_scale_r, ?poly_scale_scale).
  rewrite pint01_scale. cbn [Qpow]. unfold Qdiv. ring.
Qed.

Corollary edge_moment_uscaling : forall k f, diag_map k k pzero f ->
  forall s a b, s <> [] ->
  edge_moment (map f s) a b == Qpow k (a + b + 2) * edge_moment s a b.
Proof.
  intros k f H s a b Hs. rewrite (edge_moment_scaling k k f H s a b Hs).
  replace (a + b + 2)%nat with (S a + S b)%nat by lia. rewrite Qpow_add. reflexivity.
Qed.
Corollary edge_moment_pscale : forall k A B a b,
  edge_moment (map (pscale k) [A; B]) a b == Qpow k (a + b + 2) * edge_moment [A; B] a b.
Proof. intros. apply (edge_moment_uscaling k _ (diag_pscale k)). discriminate. Qed.

Theorem jordan_moment_scaling : forall sx sy f, diag_map sx sy pzero f ->
  forall j a b, nonempty_segs j ->
  jordan_moment_spec (map (map f) j) a b
  == Qpow sx (S a) * Qpow sy (S b) * jordan_moment_spec j a b.
Proof.
  intros sx sy f H j a b Hne. unfold jordan_moment_spec.
  rewrite map_map, <- Qsum_map_scale. apply Qsum_map_ext. intros s Hs.
  apply (edge_moment_scaling sx sy f H). apply Hne. exact Hs.
Qed.

Theorem moment_spec_scaling : forall sx sy f, diag_map sx sy pzero f ->
  forall Sh a b, (forall j, In j (jordans Sh) -> nonempty_segs j) ->
  moment_spec (map_points f Sh) a b == Qpow sx (S a) * Qpow sy (S b) * moment_spec Sh a b.
Proof.
  intros sx sy f H Sh a b Hne. unfold moment_spec.
  rewrite jordans_map_points, map_map, <- Qsum_map_scale. apply Qsum_map_ext. intros j Hj.
  apply (jordan_moment_scaling sx sy f H). apply Hne. exact Hj.
Qed.
Corollary moment_spec_uscaling : forall k f, diag_map k k pzero f ->
  forall Sh a b, (forall j, In j (jordans Sh) -> nonempty_segs j) ->
  moment_spec (map_points f Sh) a b == Qpow k (a + b + 2) * moment_spec Sh a b.
Proof.
  intros k f H Sh a b Hne. rewrite (moment_spec_scaling k k f H Sh a b Hne).
  replace (a + b + 2)%nat with (S a + S b)%nat by lia. rewrite Qpow_add. reflexivity.
Qed.

(* the model: Shape.scale on a polygonal shape, through moment_polygon_exact *)
Lemma shape_lines_nonempty : forall Sh, shape_lines Sh = true ->
  forall j, In j (jordans Sh) -> nonempty_segs j.
Proof.
  intros Sh H j Hj. apply all_lines_nonempty.
  unfold shape_lines in H. rewrite forallb_forall in H. apply H. exact Hj.
Qed.
Theorem moment_scale_pt : forall sx sy Sh a b, shape_lines Sh = true -> (a + b <= 14)%nat ->
  moment (map_points (scale_pt sx sy) Sh) a b
  == Qpow sx (S a) * Qpow sy (S b) * moment Sh a b.
Proof.
  intros sx sy Sh a b HS Hab.
  rewrite (moment_polygon_exact _ a b) by (rewrite ?shape_lines_map_points; assumption).
  rewrite (moment_polygon_exact Sh a b HS Hab).
  apply (moment_spec_scaling sx sy _ (diag_scale_pt sx sy)).
  apply shape_lines_nonempty. exact HS.
Qed.

(* ------------------------------------------------------------------ *)
(* E6. exact invertibility                                             *)
(* ------------------------------------------------------------------ *)
Definition popp (v : point) : point := (- px v, - py v).

Lemma pred_peq : forall p, peq (pred_ p) p.
Proof. intros p. split; cbn [pred_ px py fst snd]; apply Qred_correct. Qed.
Lemma pred_complete : forall p q, peq p q -> pred_ p = pred_ q.
Proof.
  intros p q [Hx Hy]. unfold pred_. f_equal; apply Qred_complete; assumption.
Qed.
Lemma pred_idem : forall p, pred_ (pred_ p) = pred_ p.
Proof. intro p. apply pred_complete, pred_peq. Qed.
(* a point in lowest terms *)
Definition pnormal (p : point) : Prop := pred_ p = p.
Lemma pnormal_pred : forall p, pnormal (pred_ p).
Proof. intro p. apply pred_idem. Qed.

(* the results of the transformations are in lowest terms: rational inputs stay exact *)
Lemma move_pt_normal : forall v p, pnormal (move_pt v p).
Proof. intros. apply pnormal_pred. Qed.
Lemma scale_pt_normal : forall sx sy p, pnormal (scale_pt sx sy p).
Proof. intros. apply pnormal_pred. Qed.
Lemma rot_pt_normal : forall c s p, pnormal (rot_pt c s p).
Proof. intros. apply pnormal_pred. Qed.
Lemma move_pt_exact : forall v p, peq (move_pt v p) (padd p v).
Proof. intros. apply pred_peq. Qed.
Lemma scale_pt_exact : forall sx sy p, peq (scale_pt sx sy p) (sx * px p, sy * py p).
Proof. intros. apply pred_peq. Qed.
Lemma rot_pt_exact : forall c s p,
  peq (rot_pt c s p) (c * px p - s * py p, s * px p + c * py p).
Proof. intros. apply pred_peq. Qed.

Theorem move_pt_inverse : forall v p, move_pt (popp v) (move_pt v p) = pred_ p.
Proof.
  intros v p. unfold move_pt at 1. apply pred_complete.
  destruct (move_pt_exact v p) as [Hx Hy].
  split; unfold padd, popp in *; cbn [px py fst snd] in *; [rewrite Hx|rewrite Hy]; ring.
Qed.
Corollary move_pt_inverse_peq : forall v p, peq (move_pt (popp v) (move_pt v p)) p.
Proof. intros. rewrite move_pt_inverse. apply pred_peq. Qed.
Corollary move_pt_inverse_normal : forall v p, pnormal p -> move_pt (popp v) (move_pt v p) = p.
Proof. intros v p H. rewrite move_pt_inverse. exact H. Qed.

Theorem scale_pt_inverse : forall sx sy p, ~ sx == 0 -> ~ sy == 0 ->
  scale_pt (/ sx) (/ sy) (scale_pt sx sy p) = pred_ p.
Proof.
  intros sx sy p Hx Hy. unfold scale_pt at 1. apply pred_complete.
  destruct (scale_pt_exact sx sy p) as [Ex Ey].
  split; unfold px, py in *; cbn [fst snd] in *; [rewrite Ex|rewrite Ey]; field; assumption.
Qed.
Corollary scale_pt_inverse_peq : forall sx sy p, ~ sx == 0 -> ~ sy == 0 ->
  peq (scale_pt (/ sx) (/ sy) (scale_pt sx sy p)) p.
Proof. intros. rewrite scale_pt_inverse by assumption. apply pred_peq. Qed.
Corollary scale_pt_inverse_normal : forall sx sy p, ~ sx == 0 -> ~ sy == 0 -> pnormal p ->
  scale_pt (/ sx) (/ sy) (scale_pt sx sy p) = p.
Proof. intros sx sy p Hx Hy H. rewrite scale_pt_inverse by assumption. exact H. Qed.

Theorem rot_pt_inverse : forall c s p, c * c + s * s == 1 ->
  rot_pt c (- s) (rot_pt c s p) = pred_ p.
Proof.
  intros c s p H. unfold rot_pt at 1. apply pred_complete.
  destruct (rot_pt_exact c s p) as [Ex Ey].
  split; unfold px, py in *; cbn [fst snd] in *; rewrite Ex, Ey.
  - transitivity ((c * c + s * s) * fst p); [ring|rewrite H; ring].
  - transitivity ((c * c + s * s) * snd p); [ring|rewrite H; ring].
Qed.
Corollary rot_pt_inverse_peq : forall c s p, c * c + s * s == 1 ->
  peq (rot_pt c (- s) (rot_pt c s p)) p.
Proof. intros. rewrite rot_pt_inverse by assumption. apply pred_peq. Qed.
Corollary rot_pt_inverse_normal : forall c s p, c * c + s * s == 1 -> pnormal p ->
  rot_pt c (- s) (rot_pt c s p) = p.
Proof. intros c s p H N. rewrite rot_pt_inverse by assumption. exact N. Qed.

(* whole shapes: the inverse transformation restores a shape whose points are in lowest terms *)
Definition shape_normal (s : shape) : Prop :=
  forall j sg p, In j (jordans s) -> In sg j -> In p sg -> pnormal p.

Lemma map_id_on : forall {A} (g : A -> A) l, (forall x, In x l -> g x = x) -> map g l = l.
Proof.
  intros A g l H. induction l as [|a l IH]; [reflexivity|].
  cbn [map]. rewrite H by (left; reflexivity). f_equal. apply IH.
  intros x Hx. apply H. right. exact Hx.
Qed.
Lemma shape_map_compose : forall g h s, shape_map g (shape_map h s) = shape_map (fun j => g (h j)) s.
Proof.
  intros g h [| |[j|js]|cs]; cbn [shape_map comp_map]; try reflexivity.
  - rewrite map_map. reflexivity.
  - rewrite map_map. f_equal. apply map_ext. intros [j|js]; cbn [comp_map]; [reflexivity|].
    rewrite map_map. reflexivity.
Qed.
Lemma shape_map_id_on : forall g s, (forall j, In j (jordans s) -> g j = j) -> shape_map g s = s.
Proof.
  intros g [| |[j|js]|cs] H; cbn [shape_map comp_map jordans comp_jordans] in *; try reflexivity.
  - rewrite H by (left; reflexivity). reflexivity.
  - rewrite map_id_on by exact H. reflexivity.
  - f_equal. apply map_id_on. intros c Hc.
    assert (Hc' : forall j, In j (comp_jordans c) -> g j = j).
    { intros j Hj. apply H. apply in_concat. exists (comp_jordans c). split; [|exact Hj].
      apply in_map. exact Hc. }
    destruct c as [j|js]; cbn [comp_map comp_jordans] in *.
    + rewrite Hc' by (left; reflexivity). reflexivity.
    + rewrite map_id_on by exact Hc'. reflexivity.
Qed.

Theorem map_points_inverse : forall (f g : point -> point) s,
  (forall p, g (f p) = pred_ p) -> shape_normal s ->
  map_points g (map_points f s) = s.
Proof.
  intros f g s H N. rewrite !map_points_shape_map, shape_map_compose.
  apply shape_map_id_on. intros j Hj.
  rewrite map_map. apply map_id_on. intros sg Hsg.
  rewrite map_map. apply map_id_on. intros p Hp.
  rewrite H. apply (N j sg p Hj Hsg Hp).
Qed.
Corollary move_shape_inverse : forall v s, shape_normal s ->
  map_points (move_pt (popp v)) (map_points (move_pt v) s) = s.
Proof. intros v s N. apply map_points_inverse; [apply move_pt_inverse|exact N]. Qed.
Corollary scale_shape_inverse : forall sx sy s, ~ sx == 0 -> ~ sy == 0 -> shape_normal s ->
  map_points (scale_pt (/ sx) (/ sy)) (map_points (scale_pt sx sy) s) = s.
Proof.
  intros sx sy s Hx Hy N. apply map_points_inverse; [|exact N].
  intro p. apply scale_pt_inverse; assumption.
Qed.
Corollary rotate_shape_inverse : forall c s sh, c * c + s * s == 1 -> shape_normal sh ->
  map_points (rot_pt c (- s)) (map_points (rot_pt c s) sh) = sh.
Proof.
  intros c s sh H N. apply map_points_inverse; [|exact N].
  intro p. apply rot_pt_inverse. exact H.
Qed.

(* ------------------------------------------------------------------ *)
(* E7. the absolute tolerance is not scale invariant                   *)
(* ------------------------------------------------------------------ *)
Lemma Qabs'_comp : forall x y, x == y -> Qabs' x == Qabs' y.
Proof.
  intros x y H. unfold Qabs'. rewrite (Qle_bool_comp 0 0 x y (Qeq_refl 0) H).
  destruct (Qle_bool 0 y); rewrite H; reflexivity.
Qed.
Lemma Qabs'_pos_mul : forall k x, 0 < k -> Qabs' (k * x) == k * Qabs' x.
Proof.
  intros k x H. unfold Qabs'.
  rewrite (Qle_bool_ext 0 (k * x) 0 x (pos_mul_ge0 k x H)).
  destruct (Qle_bool 0 x); ring.
Qed.
Lemma le_div_pos : forall k a t, 0 < k -> (k * a <= t <-> a <= t / k).
Proof.
  intros k a t H. rewrite <- (Qmult_le_l a (t / k) k) by exact H.
  setoid_replace (k * (t / k)) with t by (field; lra). tauto.
Qed.

Theorem pt_eq_pscale : forall k p q, 0 < k ->
  pt_eq (pscale k p) (pscale k q) =
  negb (Qlt_bool (tol9 / k) (Qabs' (px p - px q))) &&
  negb (Qlt_bool (tol9 / k) (Qabs' (py p - py q))).
Proof.
  intros k p q H. unfold pt_eq, pscale. cbn [px py fst snd].
  assert (X : forall x y, Qlt_bool tol9 (Qabs' (k * x - k * y)) = Qlt_bool (tol9 / k) (Qabs' (x - y))).
  { intros x y. apply Qlt_bool_ext.
    rewrite (Qabs'_comp (k * x - k * y) (k * (x - y))) by ring.
    rewrite (Qabs'_pos_mul k (x - y) H). apply le_div_pos. exact H. }
  rewrite !X. reflexivity.
Qed.
Theorem pt_eq_translate : forall v p q, pt_eq (padd p v) (padd q v) = pt_eq p q.
Proof.
  intros v p q. unfold pt_eq, padd. cbn [px py fst snd].
  assert (X : forall a b c, Qlt_bool tol9 (Qabs' (a + c - (b + c))) = Qlt_bool tol9 (Qabs' (a - b))).
  { intros a b c. apply Qlt_bool_comp; [reflexivity|]. apply Qabs'_comp. ring. }
  rewrite !X. reflexivity.
Qed.
(* a witness: two points equal within 1e-9 that are no longer so after doubling *)
Example pt_eq_not_scale_invariant :
  pt_eq (0, 0) (tol9, 0) = true /\ pt_eq (pscale 2 (0, 0)) (pscale 2 (tol9, 0)) = false.
Proof. vm_compute. split; reflexivity. Qed.

(* ------------------------------------------------------------------ *)
(* E5 (c). area and first moments under translations                   *)
(* ------------------------------------------------------------------ *)
Ltac poly_cbv :=
  cbv [line_poly poly_pow poly_mul poly_add poly_scale map pderiv pderiv_from
       pint01 pint01_from nQ Z.of_nat Pos.of_succ_nat Pos.succ inject_Z].

Lemma edge_moment_00 : forall s,
  edge_moment s 0 0 ==
  (px (first_pt s) + px (last_pt s)) / 2 * (py (last_pt s) - py (first_pt s)).
Proof.
  intro s. unfold edge_moment.
  generalize (px (first_pt s)) (py (first_pt s)) (px (last_pt s)) (py (last_pt s)).
  intros xa ya xb yb. poly_cbv. field.
Qed.
Lemma edge_moment_10 : forall s,
  edge_moment s 1 0 ==
  (px (first_pt s) * px (first_pt s) + px (first_pt s) * px (last_pt s)
   + px (last_pt s) * px (last_pt s)) / 6 * (py (last_pt s) - py (first_pt s)).
Proof.
  intro s. unfold edge_moment.
  generalize (px (first_pt s)) (py (first_pt s)) (px (last_pt s)) (py (last_pt s)).
  intros xa ya xb yb. poly_cbv. field.
Qed.
Lemma edge_moment_01 : forall s,
  edge_moment s 0 1 ==
  (py (last_pt s) - py (first_pt s)) *
  (px (first_pt s) * py (first_pt s)
   + (px (first_pt s) * (py (last_pt s) - py (first_pt s))
      + py (first_pt s) * (px (last_pt s) - px (first_pt s))) / 2
   + (px (last_pt s) - px (first_pt s)) * (py (last_pt s) - py (first_pt s)) / 3).
Proof.
  intro s. unfold edge_moment.
  generalize (px (first_pt s)) (py (first_pt s)) (px (last_pt s)) (py (last_pt s)).
  intros xa ya xb yb. poly_cbv. field.
Qed.

Section Translate.
Variable v : point.
Variable f : point -> point.
Hypothesis Hf : diag_map 1 1 v f.

Lemma translate_coords : forall p, px (f p) == px p + px v /\ py (f p) == py p + py v.
Proof. intro p. destruct (Hf p) as [Hx Hy]. split; [rewrite Hx|rewrite Hy]; pts; ring. Qed.

Lemma edge_moment_00_translate : forall s, s <> [] ->
  edge_moment (map f s) 0 0 ==
  edge_moment s 0 0 + (px v * py (last_pt s) - px v * py (first_pt s)).
Proof.
  intros s Hs. rewrite !edge_moment_00, first_pt_map, last_pt_map by exact Hs.
  destruct (translate_coords (first_pt s)) as [Ax Ay], (translate_coords (last_pt s)) as [Bx By].
  rewrite Ax, Ay, Bx, By. field.
Qed.
Lemma edge_moment_10_translate : forall s, s <> [] ->
  edge_moment (map f s) 1 0 ==
  edge_moment s 1 0 + px v * edge_moment s 0 0
  + (px v * px v / 2 * py (last_pt s) - px v * px v / 2 * py (first_pt s)).
Proof.
  intros s Hs. rewrite !edge_moment_10, edge_moment_00, first_pt_map, last_pt_map by exact Hs.
  destruct (translate_coords (first_pt s)) as [Ax Ay], (translate_coords (last_pt s)) as [Bx By].
  rewrite Ax, Ay, Bx, By. field.
Qed.
Definition g01 (P : point) : Q := px v * (py P * py P) / 2 + px v * py v * py P.
Lemma edge_moment_01_translate : forall s, s <> [] ->
  edge_moment (map f s) 0 1 ==
  edge_moment s 0 1 + py v * edge_moment s 0 0 + (g01 (last_pt s) - g01 (first_pt s)).
Proof.
  intros s Hs. rewrite !edge_moment_01, edge_moment_00, first_pt_map, last_pt_map by exact Hs.
  destruct (translate_coords (first_pt s)) as [Ax Ay], (translate_coords (last_pt s)) as [Bx By].
  rewrite Ax, Ay, Bx, By. unfold g01. field.
Qed.

Lemma peqb_py : forall c P R, peqb P R = true -> c * py P == c * py R.
Proof. intros c P R E. apply peqb_true in E. destruct E as [_ Ey]. rewrite Ey. reflexivity. Qed.
Lemma peqb_g01 : forall P R, peqb P R = true -> g01 P == g01 R.
Proof.
  intros P R E. apply peqb_true in E. destruct E as [_ Ey]. unfold g01. rewrite Ey. reflexivity.
Qed.

Theorem jordan_moment_00_translate : forall j, nonempty_segs j -> closed_chain j = true ->
  jordan_moment_spec (map (map f) j) 0 0 == jordan_moment_spec j 0 0.
Proof.
  intros j Hne Hc. unfold jordan_moment_spec. rewrite map_map.
  rewrite (Qsum_map_ext (fun s => edge_moment (map f s) 0 0)
     (fun s => edge_moment s 0 0
               + ((fun P => px v * py P) (last_pt s) - (fun P => px v * py P) (first_pt s)))).
  - rewrite Qsum_map_add, (closed_telescope (fun P => px v * py P)); [apply Qplus_0_r| |exact Hc].
    apply peqb_py.
  - intros s Hs. apply edge_moment_00_translate. apply Hne. exact Hs.
Qed.
Theorem jordan_moment_10_translate : forall j, nonempty_segs j -> closed_chain j = true ->
  jordan_moment_spec (map (map f) j) 1 0 ==
  jordan_moment_spec j 1 0 + px v * jordan_moment_spec j 0 0.
Proof.
  intros j Hne Hc. unfold jordan_moment_spec. rewrite map_map.
  rewrite (Qsum_map_ext (fun s => edge_moment (map f s) 1 0)
     (fun s => (edge_moment s 1 0 + px v * edge_moment s 0 0)
               + ((fun P => px v * px v / 2 * py P) (last_pt s)
                  - (fun P => px v * px v / 2 * py P) (first_pt s)))).
  - rewrite Qsum_map_add, (closed_telescope (fun P => px v * px v / 2 * py P));
      [|apply peqb_py|exact Hc].
    rewrite Qsum_map_add, Qsum_map_scale. apply Qplus_0_r.
  - intros s Hs. apply edge_moment_10_translate. apply Hne. exact Hs.
Qed.
Theorem jordan_moment_01_translate : forall j, nonempty_segs j -> closed_chain j = true ->
  jordan_moment_spec (map (map f) j) 0 1 ==
  jordan_moment_spec j 0 1 + py v * jordan_moment_spec j 0 0.
Proof.
  intros j Hne Hc. unfold jordan_moment_spec. rewrite map_map.
  rewrite (Qsum_map_ext (fun s => edge_moment (map f s) 0 1)
     (fun s => (edge_moment s 0 1 + py v * edge_moment s 0 0)
               + (g01 (last_pt s) - g01 (first_pt s)))).
  - rewrite Qsum_map_add, (closed_telescope g01); [|apply peqb_g01|exact Hc].
    rewrite Qsum_map_add, Qsum_map_scale. apply Qplus_0_r.
  - intros s Hs. apply edge_moment_01_translate. apply Hne. exact Hs.
Qed.

(* shapes *)
Theorem moment_spec_00_translate : forall sh, chains_ok (jordans sh) ->
  moment_spec (map_points f sh) 0 0 == moment_spec sh 0 0.
Proof.
  intros sh H. unfold moment_spec. rewrite jordans_map_points, map_map.
  apply Qsum_map_ext. intros j Hj. destruct (H j Hj). apply jordan_moment_00_translate; assumption.
Qed.
Theorem moment_spec_10_translate : forall sh, chains_ok (jordans sh) ->
  moment_spec (map_points f sh) 1 0 == moment_spec sh 1 0 + px v * moment_spec sh 0 0.
Proof.
  intros sh H. unfold moment_spec. rewrite jordans_map_points, map_map.
  rewrite <- Qsum_map_scale, <- Qsum_map_add.
  apply Qsum_map_ext. intros j Hj. destruct (H j Hj). apply jordan_moment_10_translate; assumption.
Qed.
Theorem moment_spec_01_translate : forall sh, chains_ok (jordans sh) ->
  moment_spec (map_points f sh) 0 1 == moment_spec sh 0 1 + py v * moment_spec sh 0 0.
Proof.
  intros sh H. unfold moment_spec. rewrite jordans_map_points, map_map.
  rewrite <- Qsum_map_scale, <- Qsum_map_add.
  apply Qsum_map_ext. intros j Hj. destruct (H j Hj). apply jordan_moment_01_translate; assumption.
Qed.
End Translate.

(* the model: Shape.move on polygonal shapes *)
Lemma polygon_chains_ok : forall sh, shape_lines sh = true ->
  (forall j, In j (jordans sh) -> closed_chain j = true) -> chains_ok (jordans sh).
Proof.
  intros sh Hl Hc j Hj. split; [apply (shape_lines_nonempty sh Hl j Hj)|apply Hc; exact Hj].
Qed.
Theorem moment_move_pt : forall v sh, shape_lines sh = true ->
  (forall j, In j (jordans sh) -> closed_chain j = true) ->
  moment (map_points (move_pt v) sh) 0 0 == moment sh 0 0 /\
  moment (map_points (move_pt v) sh) 1 0 == moment sh 1 0 + px v * moment sh 0 0 /\
  moment (map_points (move_pt v) sh) 0 1 == moment sh 0 1 + py v * moment sh 0 0.
Proof.
  intros v sh Hl Hc. pose proof (polygon_chains_ok sh Hl Hc) as Hok.
  assert (Hl' : shape_lines (map_points (move_pt v) sh) = true)
    by (rewrite shape_lines_map_points; exact Hl).
  rewrite !(moment_polygon_exact (map_points (move_pt v) sh)) by (exact Hl' || lia).
  rewrite !(moment_polygon_exact sh) by (exact Hl || lia).
  split; [|split].
  - apply (moment_spec_00_translate v _ (diag_move_pt v) sh Hok).
  - apply (moment_spec_10_translate v _ (diag_move_pt v) sh Hok).
  - apply (moment_spec_01_translate v _ (diag_move_pt v) sh Hok).
Qed.

(* E4 for the model's own maps *)
Corollary region_move_pt : forall v sh p, chains_ok (jordans sh) ->
  region (map_points (move_pt v) sh) (move_pt v p) = region sh p.
Proof.
  intros v sh p H. apply (region_diag 1 1 v (move_pt v)); try exact H; try lra.
  apply diag_move_pt.
Qed.
Corollary region_scale_pt : forall sx sy sh p, 0 < sx -> 0 < sy -> chains_ok (jordans sh) ->
  region (map_points (scale_pt sx sy) sh) (scale_pt sx sy p) = region sh p.
Proof.
  intros sx sy sh p Hx Hy H. apply (region_diag sx sy pzero (scale_pt sx sy)); try assumption.
  apply diag_scale_pt.
Qed.

(* ------------------------------------------------------------------ *)
(* E2 / E3 for maps that are affine up to == (move_pt, scale_pt, rot_pt) *)
(* ------------------------------------------------------------------ *)
Section AffMap.
Variables m11 m12 m21 m22 : Q.
Variable v : point.
Variable f : point -> point.
Hypothesis Hf : aff_map m11 m12 m21 m22 v f.
Local Notation det := (adet m11 m12 m21 m22).

Lemma ldet_aff_map : forall a0 a1 b0 b1,
  ldet (f a0) (f a1) (f b0) (f b1) == det * ldet a0 a1 b0 b1.
Proof. intros. unfold ldet. apply (cross_aff_map _ _ _ _ _ _ Hf). Qed.
Lemma lpar0_aff_map : forall a0 a1 b0 b1, ~ det == 0 -> ~ ldet a0 a1 b0 b1 == 0 ->
  lpar0 (f a0) (f a1) (f b0) (f b1) == lpar0 a0 a1 b0 b1.
Proof.
  intros a0 a1 b0 b1 D N. unfold lpar0.
  rewrite ldet_aff_map, (cross_aff_map _ _ _ _ _ _ Hf). field. split; assumption.
Qed.
Lemma lpar1_aff_map : forall a0 a1 b0 b1, ~ det == 0 -> ~ ldet a0 a1 b0 b1 == 0 ->
  lpar1 (f a0) (f a1) (f b0) (f b1) == lpar1 a0 a1 b0 b1.
Proof.
  intros a0 a1 b0 b1 D N. unfold lpar1.
  rewrite ldet_aff_map, (cross_aff_map _ _ _ _ _ _ Hf). field. split; assumption.
Qed.

Theorem lines_aff_map : forall a0 a1 b0 b1, ~ det == 0 ->
  lines (map f [a0; a1]) (map f [b0; b1]) = lines [a0; a1] [b0; b1].
Proof.
  intros a0 a1 b0 b1 D. cbn [map].
  destruct (lines [a0; a1] [b0; b1]) as [[u w]|] eqn:E.
  - apply lines_some in E. destruct E as (N & R0 & R1 & -> & ->).
    pose proof (lpar0_aff_map a0 a1 b0 b1 D N) as L0.
    pose proof (lpar1_aff_map a0 a1 b0 b1 D N) as L1.
    apply lines_some. split.
    { rewrite ldet_aff_map. intro Z. apply Qmult_integral in Z. tauto. }
    split. { rewrite L0. exact R0. }
    split. { rewrite L1. exact R1. }
    split; apply Qred_complete; symmetry; assumption.
  - apply lines_none in E. apply lines_none.
    destruct (Qeq_dec (ldet a0 a1 b0 b1) 0) as [Z|N].
    + left. rewrite ldet_aff_map, Z. ring.
    + right. rewrite (lpar0_aff_map a0 a1 b0 b1 D N), (lpar1_aff_map a0 a1 b0 b1 D N).
      destruct E as [E|E]; [contradiction|exact E].
Qed.
End AffMap.

Corollary lines_move_pt : forall v a0 a1 b0 b1,
  lines (map (move_pt v) [a0; a1]) (map (move_pt v) [b0; b1]) = lines [a0; a1] [b0; b1].
Proof.
  intros. apply (lines_aff_map _ _ _ _ _ _ (diag_move_pt v)). rewrite adet_translate. lra.
Qed.
Corollary lines_scale_pt : forall sx sy a0 a1 b0 b1, ~ sx == 0 -> ~ sy == 0 ->
  lines (map (scale_pt sx sy) [a0; a1]) (map (scale_pt sx sy) [b0; b1]) = lines [a0; a1] [b0; b1].
Proof.
  intros sx sy a0 a1 b0 b1 Hx Hy. apply (lines_aff_map _ _ _ _ _ _ (diag_scale_pt sx sy)).
  rewrite adet_scale2. intro Z. apply Qmult_integral in Z. tauto.
Qed.
Corollary lines_rot_pt : forall c s a0 a1 b0 b1, c * c + s * s == 1 ->
  lines (map (rot_pt c s) [a0; a1]) (map (rot_pt c s) [b0; b1]) = lines [a0; a1] [b0; b1].
Proof.
  intros c s a0 a1 b0 b1 H. apply (lines_aff_map _ _ _ _ _ _ (aff_map_rot_pt c s)).
  rewrite adet_rotate by exact H. lra.
Qed.

(* evaluation respects == of the control points (2..7 control points) *)
Ltac inv_forall2 :=
  repeat match goal with
         | H : Forall2 _ (_ :: _) _ |- _ => inversion H; subst; clear H
         | H : Forall2 _ [] _ |- _ => inversion H; subst; clear H
         end.
Ltac peq_hyps :=
  repeat match goal with
         | H : peq (_, _) ?q |- _ => destruct q; destruct H
         end;
  unfold px, py in *; cbn [fst snd] in *.
Ltac rew_all :=
  repeat match goal with H : _ == _ |- _ => rewrite ?H; clear H end.

Theorem eval_peq : forall s s' t, (2 <= length s <= 7)%nat -> Forall2 peq s s' ->
  peq (eval s t) (eval s' t).
Proof.
  intros s s' t H F. seg_cases s H; inv_forall2; peq_hyps; qcbv; split; rew_all; reflexivity.
Qed.

Lemma Forall2_map_peq : forall (f g : point -> point) s,
  (forall p, peq (f p) (g p)) -> Forall2 peq (map f s) (map g s).
Proof. intros f g s H. induction s; cbn [map]; constructor; auto. Qed.

Theorem eval_aff_map : forall m11 m12 m21 m22 v f, aff_map m11 m12 m21 m22 v f ->
  forall s t, (2 <= length s <= 7)%nat -> peq (eval (map f s) t) (f (eval s t)).
Proof.
  intros m11 m12 m21 m22 v f H s t Hs.
  apply peq_trans with (eval (map (aff m11 m12 m21 m22 v) s) t).
  - apply eval_peq; [rewrite map_length; exact Hs|]. apply Forall2_map_peq. exact H.
  - apply peq_trans with (aff m11 m12 m21 m22 v (eval s t)).
    + apply eval_aff. exact Hs.
    + apply peq_sym. apply H.
Qed.
Corollary eval_move_pt : forall v s t, (2 <= length s <= 7)%nat ->
  peq (eval (map (move_pt v) s) t) (move_pt v (eval s t)).
Proof. intros. apply (eval_aff_map _ _ _ _ _ _ (diag_move_pt v)). assumption. Qed.
Corollary eval_scale_pt : forall sx sy s t, (2 <= length s <= 7)%nat ->
  peq (eval (map (scale_pt sx sy) s) t) (scale_pt sx sy (eval s t)).
Proof. intros. apply (eval_aff_map _ _ _ _ _ _ (diag_scale_pt sx sy)). assumption. Qed.
Corollary eval_rot_pt : forall c s sg t, (2 <= length sg <= 7)%nat ->
  peq (eval (map (rot_pt c s) sg) t) (rot_pt c s (eval sg t)).
Proof. intros. apply (eval_aff_map _ _ _ _ _ _ (aff_map_rot_pt c s)). assumption. Qed.

(* areas scale by the square of the factor *)
Corollary jordan_area_pscale : forall k j, all_lines j = true -> closed_chain j = true ->
  jordan_area (map (map (pscale k)) j) == k * k * jordan_area j.
Proof.
  intros k j Hl Hc. rewrite (jordan_area_aff_map _ _ _ _ _ _ (diag_pscale k) j Hl Hc).
  rewrite adet_uscale. reflexivity.
Qed.

(* ------------------------------------------------------------------ *)
(* non-vacuity and limits                                              *)
(* ------------------------------------------------------------------ *)
Lemma Lshape_chains_ok : chains_ok (jordans Lshape).
Proof.
  apply polygon_chains_ok; [apply Lshape_hyps|].
  intros j [<-|[]]. apply Lshape_hyps.
Qed.
Lemma Lshape_normal : shape_normal Lshape.
Proof.
  intros j sg p Hj Hsg Hp. cbn in Hj. destruct Hj as [<-|[]].
  repeat (destruct Hsg as [<-|Hsg];
          [repeat (destruct Hp as [<-|Hp]; [reflexivity|]); destruct Hp|]).
  destruct Hsg.
Qed.
Example Lshape_scaled :
  region (map_points (scale_pt 2 3) Lshape) (scale_pt 2 3 (1 # 2, 3 # 2)) = RIn /\
  region Lshape (1 # 2, 3 # 2) = RIn /\
  region (map_points (scale_pt 2 3) Lshape) (scale_pt 2 3 (2, 3 # 2)) = ROut /\
  region (map_points (move_pt (7, -3)) Lshape) (move_pt (7, -3) (1, 3 # 2)) = RBdry /\
  moment (map_points (scale_pt 2 3) Lshape) 2 1 = Qred (Qpow 2 3 * Qpow 3 2 * moment Lshape 2 1) /\
  moment (map_points (move_pt (7, -3)) Lshape) 1 0
    = Qred (moment Lshape 1 0 + 7 * moment Lshape 0 0) /\
  jordan_area (map (map (rot_pt (3 # 5) (4 # 5))) Lhex) = jordan_area Lhex /\
  map_points (rot_pt (3 # 5) (- (4 # 5))) (map_points (rot_pt (3 # 5) (4 # 5)) Lshape) = Lshape.
Proof. vm_compute. repeat split; reflexivity. Qed.

(* why rotations are not treated edge by edge in E4: the crossing count of a single
   edge with the vertical ray is not rotation invariant (quarter turn c = 0, s = 1) *)
Example cr_not_rotation_invariant :
  cr (0, 1) (2, 1) (1, 0) = (-1)%Z /\
  cr (rotate 0 1 (0, 1)) (rotate 0 1 (2, 1)) (rotate 0 1 (1, 0)) = 0%Z.
Proof. vm_compute. split; reflexivity. Qed.
(* shoelace2 of an open chain is not translation invariant *)
Example shoelace2_open_not_translation_invariant :
  shoelace2 [[(0, 0); (1, 0)]] = 0 /\
  Qred (shoelace2 (map (map (translate (0, 1))) [[(0, 0); (1, 0)]])) = -1.
Proof. vm_compute. split; reflexivity. Qed.

Print Assumptions cross_aff.
Print Assumptions orient_aff.
Print Assumptions inner_rotate.
Print Assumptions inner_uscale.
Print Assumptions lines_aff.
Print Assumptions lines_aff_map.
Print Assumptions eval_aff.
Print Assumptions eval_aff_map.
Print Assumptions cr_diag.
Print Assumptions wn_lines_diag.
Print Assumptions on_edge_diag.
Print Assumptions region_simple_diag.
Print Assumptions region_simple_scaling.
Print Assumptions region_diag.
Print Assumptions shoelace2_aff_map.
Print Assumptions jordan_area_aff_map.
Print Assumptions jordan_area_rotate.
Print Assumptions shape_area_aff_map.
Print Assumptions edge_moment_scaling.
Print Assumptions edge_moment_pscale.
Print Assumptions moment_spec_scaling.
Print Assumptions moment_spec_uscaling.
Print Assumptions moment_scale_pt.
Print Assumptions jordan_moment_10_translate.
Print Assumptions jordan_moment_01_translate.
Print Assumptions moment_move_pt.
Print Assumptions move_pt_inverse.
Print Assumptions scale_pt_inverse.
Print Assumptions rot_pt_inverse.
Print Assumptions map_points_inverse.
Print Assumptions rotate_shape_inverse.
Print Assumptions pt_eq_pscale.
Print Assumptions pt_eq_translate.
Print Assumptions Lshape_scaled.
