(* NoZeroCex.v -- the hypothesis [ssep] of NoZero.v (Z4) cannot be dropped: a machine-checked
   instance of A | B, straight boundaries, no zero-length segment in A or B, general
   (recombine) branch, result Ok, and the result CONTAINS the zero-length segment
   [(0,2);(0,2)].

   A = a kite F L G H inside the triangle B, touching B's boundary only at the common
   vertex F = (0,2); its first edge F-L has length ~5e-10 (< the 1e-9 of Point2D.__eq__);
   a second, far away, component of A keeps the operator out of the nested branch.
   FollowPath walks B, at F jumps to A's edge F-L (A contains F), at L jumps back to B
   (L is within 1e-6 of B) on B's edge starting at F (pt_eq F L); from_segments re-points
   the end of F-L to F.                                             (slow: ~2 min of vm_compute) *)
From Coq Require Import QArith List Bool.
From SV Require Import Model.Shape Spec.Spec.
From SV Require Import Lemmas.Construct Lemmas.NoZero.
Import ListNotations.
Open Scope Q_scope.

Definition cex_eps : Q := 1 # 2147483648.
Definition cex_F : point := (0, 2).
Definition cex_L : point := (cex_eps, 2 - cex_eps / 2).
Definition cex_A1 : jordan := [[cex_F; cex_L]; [cex_L; (2,1)]; [(2,1); (2,3)]; [(2,3); cex_F]].
Definition cex_A2 : jordan := [[(10,10); (11,10)]; [(11,10); (10,11)]; [(10,11); (10,10)]].
Definition cex_B : jordan := [[cex_F; (4,-2)]; [(4,-2); (4,6)]; [(4,6); cex_F]].
Definition cex_a : shape := SD [CS cex_A1; CS cex_A2].
Definition cex_b : shape := SC (CS cex_B).
Definition cex_r : shape :=
  SD [CS [[(0,2); (4,-2)]; [(4,-2); (4,6)]; [(4,6); (0,2)]; [(0,2); (0,2)]]; CS cex_A2].

Definition nondegb (j : jordan) : bool :=
  forallb (fun s => negb (peqb (first_pt s) (last_pt s))) j.
Lemma nondegb_sound : forall j, nondegb j = true -> nondeg j.
Proof.
  intros j H s Hs E. unfold nondegb in H. rewrite forallb_forall in H.
  specialize (H s Hs). apply negb_true_iff in H.
  apply Construct.peqb_peq in E. congruence.
Qed.
Lemma snondegb_sound : forall s, forallb nondegb (jordans s) = true -> snondeg s.
Proof.
  intros s H j Hj. apply nondegb_sound. rewrite forallb_forall in H. apply H, Hj.
Qed.

Lemma cex_op_or : op_or cex_a cex_b = Ok (cex_a, cex_b, cex_r).
Proof. vm_cast_no_check (eq_refl (Ok (cex_a, cex_b, cex_r))). Qed.   (* evaluated once, by the kernel, at Qed *)

Theorem nondeg_not_preserved_unconditionally :
  exists a b a' b' s, op_or a b = Ok (a', b', s) /\
    shape_lines a = true /\ shape_lines b = true /\ snondeg a /\ snondeg b /\ ~ snondeg s.
Proof.
  exists cex_a, cex_b, cex_a, cex_b, cex_r.
  split; [exact cex_op_or|].
  split; [reflexivity|]. split; [reflexivity|].
  split; [apply snondegb_sound; vm_compute; reflexivity|].
  split; [apply snondegb_sound; vm_compute; reflexivity|].
  intro H.
  apply (H [[(0,2); (4,-2)]; [(4,-2); (4,6)]; [(4,6); (0,2)]; [(0,2); (0,2)]]
           (or_introl eq_refl) [(0,2); (0,2)]).
  - right. right. right. left. reflexivity.
  - split; reflexivity.
Qed.

(* the hypothesis of NoZero.op_or_result_nondeg that fails here *)
Lemma cex_not_ssep : ~ ssep cex_a.
Proof.
  intro H. specialize (H cex_A1 (or_introl eq_refl) [cex_F; cex_L] (or_introl eq_refl)).
  vm_compute in H. discriminate H.
Qed.

Print Assumptions nondeg_not_preserved_unconditionally.
