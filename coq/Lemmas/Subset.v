(* Subset.v -- C03, soundness direction of SimpleShape._contains_jordan for
   polygons in general position:

     if [simple_has_jordan self j b] answers True, then no point of the curve j
     is outside the shape bounded by self.

   The model tests (1) the start point of every segment of j and (2) for every
   segment s of j the midpoints between consecutive elements of
        U(s) = sort (dedup ({0, 1} ∪ {crossing parameters of s with self})).
   Method of proof.  Fix s = [a0; a1] and t in [0,1].
   (K) general position + [intersection_exact]: every parameter of s at which
       s meets the boundary of self is (==) an element of U(s).
   (C) U(s) is sorted, contains 0 and 1: t lies in a closed interval [u, v] of
       consecutive elements of U(s), and no element of U(s) is strictly inside.
   (M) if s(t) is not on the boundary, the straight move from the tested
       midpoint s((u+v)/2) to s(t) stays off the boundary (by K and C), so
       [region_simple_move] (Constancy.v) transports the region of the midpoint
       to s(t); the region of the midpoint is not ROut by the model's test and
       [simple_has_point_spec].
   The vertex test (1) is not needed for soundness; it is proved as a
   companion fact. *)
From Coq Require Import QArith Lqa Lia ZArith List Sorted Bool.
From SV Require Import Model.Shape Spec.Spec.
From SV Require Lemmas.SplitClean.
From SV Require Import Lemmas.Lines Lemmas.Winding Lemmas.Constancy Lemmas.C02Glue.
Import ListNotations.
Open Scope Q_scope.

(* ------------------------------------------------------------------ *)
(* 1. sorted lists of rationals                                        *)
(* ------------------------------------------------------------------ *)
Lemma Qle_b_total x y : Qle_b x y = false -> Qle_b y x = true.
Proof.
  unfold Qle_b. intro H. apply Qle_bool_false in H. apply Qle_bool_iff. lra.
Qed.
Lemma Qle_b_trans x y z : Qle_b x y = true -> Qle_b y z = true -> Qle_b x z = true.
Proof. unfold Qle_b. rewrite !Qle_bool_iff. intros; lra. Qed.

(* the analogue of SplitClean.sort_by_SS for the order the model uses here *)
Lemma sort_Qle_b_sorted l : StronglySorted Qle (sort_by Qle_b l).
Proof.
  pose proof (SplitClean.sort_by_SS Qle_b Qle_b_total Qle_b_trans l) as H.
  induction H as [|z l' Hs IH Hall]; constructor; [exact IH|].
  rewrite Forall_forall in *. intros w Hw. apply Qle_bool_iff. apply (Hall w Hw).
Qed.

Lemma SS_head_le a l x : StronglySorted Qle (a :: l) -> In x (a :: l) -> a <= x.
Proof.
  intros H Hx. apply StronglySorted_inv in H. destruct H as [_ Hall].
  destruct Hx as [<-|Hx]; [lra|]. rewrite Forall_forall in Hall. apply Hall. exact Hx.
Qed.

Lemma pairs_of_cons2 {A} (a b : A) l : pairs_of (a :: b :: l) = (a, b) :: pairs_of (b :: l).
Proof. reflexivity. Qed.

Lemma pairs_of_In {A} (l : list A) u v : In (u, v) (pairs_of l) -> In u l /\ In v l.
Proof.
  induction l as [|a l IH]; [intros []|]. destruct l as [|b l']; [intros []|].
  rewrite pairs_of_cons2. intros [E|H].
  - inversion E; subst. split; [left; reflexivity | right; left; reflexivity].
  - destruct (IH H) as [H1 H2]. split; right; assumption.
Qed.

(* (C1) every t between two elements lies in a closed interval of consecutive elements *)
Lemma closed_cover : forall l, StronglySorted Qle l -> forall t x y,
  In x l -> In y l -> x <= t -> t <= y -> x < y ->
  exists u v, In (u, v) (pairs_of l) /\ u <= t /\ t <= v.
Proof.
  induction l as [|a l IH]; intros HS t x y Hx Hy Hxt Hty Hxy; [destruct Hx|].
  destruct l as [|b l'].
  - destruct Hx as [<-|[]]. destruct Hy as [<-|[]]. lra.
  - pose proof (SS_head_le _ _ _ HS Hx) as Hax.
    destruct (Qlt_le_dec b t) as [L|L].
    + (* b < t : go on in the tail *)
      assert (HS' : StronglySorted Qle (b :: l')) by (apply StronglySorted_inv in HS; tauto).
      assert (Hab : a <= b) by (apply (SS_head_le _ _ _ HS); right; left; reflexivity).
      assert (Hy' : In y (b :: l')).
      { destruct Hy as [<-|Hy]; [lra | exact Hy]. }
      destruct (IH HS' t b y (or_introl eq_refl) Hy') as (u & v & Huv & H1 & H2); try lra.
      exists u, v. split; [rewrite pairs_of_cons2; right; exact Huv | split; assumption].
    + exists a, b. split; [rewrite pairs_of_cons2; left; reflexivity | split; lra].
Qed.

(* (C2) no element lies strictly inside an interval of consecutive elements *)
Lemma pairs_gap : forall l, StronglySorted Qle l -> forall u v w,
  In (u, v) (pairs_of l) -> In w l -> w <= u \/ v <= w.
Proof.
  induction l as [|a l IH]; intros HS u v w Huv Hw; [destruct Hw|].
  destruct l as [|b l']; [destruct Huv|].
  assert (HS' : StronglySorted Qle (b :: l')) by (apply StronglySorted_inv in HS; tauto).
  rewrite pairs_of_cons2 in Huv. destruct Huv as [E|Huv].
  - inversion E; subst. destruct Hw as [<-|Hw]; [left; lra|].
    right. apply (SS_head_le _ _ _ HS' Hw).
  - destruct Hw as [<-|Hw].
    + left. apply (SS_head_le _ _ _ HS). right. apply (pairs_of_In _ _ _ Huv).
    + apply (IH HS' u v w Huv Hw).
Qed.

(* ------------------------------------------------------------------ *)
(* 2. one arithmetic fact about the move from the midpoint             *)
(* ------------------------------------------------------------------ *)
Lemma conv_inside u v t x m : 2 * m == u + v -> u <= t -> t <= v -> 0 <= x -> x <= 1 ->
  m + x * (t - m) == t \/ (u < m + x * (t - m) /\ m + x * (t - m) < v).
Proof.
  intros Hm Hut Htv Hx0 Hx1.
  destruct (Qlt_le_dec x 1) as [X|X].
  - destruct (Qlt_le_dec u v) as [UV|UV].
    + right.
      assert (P1 : 0 < (1 - x) * (m - u)) by (apply Qmult_lt_0_compat; lra).
      assert (P2 : 0 <= x * (t - u)) by (apply Qmult_le_0_compat; lra).
      assert (P3 : 0 < (1 - x) * (v - m)) by (apply Qmult_lt_0_compat; lra).
      assert (P4 : 0 <= x * (v - t)) by (apply Qmult_le_0_compat; lra).
      split; lra.
    + left. assert (E1 : t == m) by lra. rewrite E1. ring.
  - left. assert (E : x == 1) by lra. rewrite E. ring.
Qed.

(* ------------------------------------------------------------------ *)
(* 3. geometry on a straight segment                                   *)
(* ------------------------------------------------------------------ *)
(* a point exactly on a closed edge has a parameter in [0,1] on it *)
Lemma on_edge_param b0 b1 p : on_edge b0 b1 p = true ->
  exists v, 0 <= v <= 1 /\ peq p (pt_at b0 b1 v).
Proof.
  intro H. apply on_edge_iff in H. destruct H as (O & BX & BY).
  rewrite orient_expand in O. unfold betw in BX, BY.
  destruct p as [x y], b0 as [x0 y0], b1 as [x1 y1].
  cbv [peq pt_at px py fst snd] in *.
  destruct (Qeq_dec x0 x1) as [EX|NX].
  - destruct (Qeq_dec y0 y1) as [EY|NY].
    + exists 0. split; [lra|]. split; lra.
    + set (v := (y - y0) / (y1 - y0)).
      assert (D : ~ y1 - y0 == 0) by lra.
      assert (V : v * (y1 - y0) == y - y0) by (unfold v; field; exact D).
      exists v. split; [split; nra|]. split; [|lra].
      assert (E0 : x1 - x0 == 0) by lra. rewrite E0. lra.
  - set (v := (x - x0) / (x1 - x0)).
    assert (D : ~ x1 - x0 == 0) by lra.
    assert (V : v * (x1 - x0) == x - x0) by (unfold v; field; exact D).
    exists v. split; [split; nra|]. split; [lra|].
    assert (E : y - y0 == ((y1 - y0) * (x - x0)) / (x1 - x0)).
    { apply Qdiv_unique; [exact D | lra]. }
    assert (E' : v * (y1 - y0) == ((y1 - y0) * (x - x0)) / (x1 - x0))
      by (unfold v; field; exact D).
    lra.
Qed.

Lemma region_simple_pt_peq j p q : peq p q -> region_simple j p = region_simple j q.
Proof.
  intro H. unfold region_simple.
  rewrite (on_boundary_peq j p q H), !wn_lines_edges, (wn_e_peq (edges j) p q H).
  reflexivity.
Qed.

Lemma lerp_pt_pt_at a0 a1 t1 t2 x :
  peq (lerp_pt (pt_at a0 a1 t1) (pt_at a0 a1 t2) x) (pt_at a0 a1 (t1 + x * (t2 - t1))).
Proof.
  destruct a0 as [x0 y0], a1 as [x1 y1]. cbv [lerp_pt pt_at peq px py fst snd]. split; ring.
Qed.

(* (M0) constancy of the region along a piece of a straight segment that stays
   off the chain *)
Lemma region_const_seg self a0 a1 t1 t2 : closed_chain self = true ->
  (forall x, 0 <= x -> x <= 1 -> on_boundary self (pt_at a0 a1 (t1 + x * (t2 - t1))) = false) ->
  region_simple self (pt_at a0 a1 t1) = region_simple self (pt_at a0 a1 t2).
Proof.
  intros HC H. apply region_simple_move; [exact HC|].
  intros x X0 X1. rewrite (on_boundary_peq self _ _ (lerp_pt_pt_at a0 a1 t1 t2 x)).
  apply H; assumption.
Qed.

(* THE KEY LEMMA, in isolation: if no parameter strictly between u and v is a
   point of the chain, the region is constant on the open piece (u, v) *)
Theorem region_const_open self a0 a1 u v t1 t2 : closed_chain self = true ->
  (forall t, u < t -> t < v -> on_boundary self (pt_at a0 a1 t) = false) ->
  u < t1 -> t1 < v -> u < t2 -> t2 < v ->
  region_simple self (pt_at a0 a1 t1) = region_simple self (pt_at a0 a1 t2).
Proof.
  intros HC H A1 B1 A2 B2. apply region_const_seg; [exact HC|].
  intros x X0 X1.
  assert (P1 : 0 <= (1 - x) * (t1 - u)) by (apply Qmult_le_0_compat; lra).
  assert (P2 : 0 <= x * (t2 - u)) by (apply Qmult_le_0_compat; lra).
  assert (P3 : 0 <= (1 - x) * (v - t1)) by (apply Qmult_le_0_compat; lra).
  assert (P4 : 0 <= x * (v - t2)) by (apply Qmult_le_0_compat; lra).
  destruct (Qlt_le_dec x 1) as [X|X].
  - assert (Q1 : 0 < (1 - x) * (t1 - u)) by (apply Qmult_lt_0_compat; lra).
    assert (Q3 : 0 < (1 - x) * (v - t1)) by (apply Qmult_lt_0_compat; lra).
    apply H; lra.
  - assert (E : x == 1) by lra.
    rewrite (on_boundary_peq self _ (pt_at a0 a1 t2)).
    + apply H; assumption.
    + apply pt_at_compat. rewrite E. ring.
Qed.

(* ------------------------------------------------------------------ *)
(* 4. the model, unfolded                                              *)
(* ------------------------------------------------------------------ *)
(* the cut parameters of segment number a, exactly as the model computes them *)
Definition cut_raw (inters : list irow) (a : nat) : list Q :=
  0 :: 1 :: concat (map (fun r : irow =>
                      let '(a', _, o) := r in
                      match o with
                      | Some (u, _) => if Nat.eqb a' a then [u] else []
                      | None => []
                      end) inters).
Definition cut_params (inters : list irow) (a : nat) : list Q :=
  sort_by Qle_b (dedup Qeq_bool (cut_raw inters a)).

(* the points at which the model asks [simple_has_point] after the vertices *)
Definition sampled (self j : jordan) (p : point) : Prop :=
  exists inters a s m,
    intersection j self false true = Ok inters /\
    In (a, s) (combine (seq 0 (length j)) j) /\
    In m (mids_between (cut_params inters a)) /\
    p = eval s m.

Lemma Ok_inj {A} (x y : A) : Ok x = Ok y -> x = y.
Proof. intro H. inversion H. reflexivity. Qed.

Lemma simple_has_jordan_true self j b :
  simple_has_jordan self j b = Ok true ->
  forallb (fun p => simple_has_point self p b) (points j 0) = true /\
  exists inters, intersection j self false true = Ok inters /\
    forall a s, In (a, s) (combine (seq 0 (length j)) j) ->
    forall m, In m (mids_between (cut_params inters a)) ->
    simple_has_point self (eval s m) b = true.
Proof.
  unfold simple_has_jordan. intro H.
  destruct (forallb (fun p => simple_has_point self p b) (points j 0)) eqn:V;
    cbn [negb] in H; [|discriminate].
  split; [reflexivity|].
  destruct (intersection j self false true) as [inters| |] eqn:I; cbn [bind] in H;
    try discriminate.
  exists inters. split; [reflexivity|].
  apply Ok_inj in H. rename H into H1. rewrite forallb_forall in H1.
  intros a s Has m Hm. specialize (H1 (a, s) Has). cbv beta iota zeta in H1.
  rewrite forallb_forall in H1. apply H1. exact Hm.
Qed.

(* companion fact: the vertex test *)
Theorem simple_has_jordan_vertices self j b :
  simple_has_jordan self j b = Ok true ->
  forall s, In s j -> simple_has_point self (evalr s 0) b = true.
Proof.
  intros H s Hs. destruct (simple_has_jordan_true self j b H) as [V _].
  rewrite forallb_forall in V. apply V. unfold points. apply in_concat.
  exists (map (fun k => evalr s (nQ k / nQ 1)) (seq 0 1)). split.
  - apply in_map_iff. exists s. split; [reflexivity | exact Hs].
  - left. reflexivity.
Qed.

(* the sampled points are accepted *)
Lemma simple_has_jordan_sampled self j b :
  simple_has_jordan self j b = Ok true ->
  forall p, sampled self j p -> simple_has_point self p b = true.
Proof.
  intros H p (inters & a & s & m & I & Has & Hm & ->).
  destruct (simple_has_jordan_true self j b H) as [_ (inters' & I' & T)].
  rewrite I in I'. inversion I'; subst inters'. apply (T a s Has m Hm).
Qed.

(* ------------------------------------------------------------------ *)
(* 5. the structure of the cut parameters                              *)
(* ------------------------------------------------------------------ *)
Lemma cut_raw_In inters a u :
  In u (cut_raw inters a) <->
  0 = u \/ 1 = u \/ exists b v, In (a, b, Some (u, v)) inters.
Proof.
  unfold cut_raw. cbn [In]. rewrite in_concat. split.
  - intros [E|[E|(l & Hl & Hu)]]; [left; exact E | right; left; exact E|].
    right; right. apply in_map_iff in Hl. destruct Hl as ([[a' b'] o] & <- & Hr).
    destruct o as [[u0 v0]|]; [|destruct Hu].
    destruct (Nat.eqb a' a) eqn:E; [|destruct Hu].
    apply Nat.eqb_eq in E. subst a'. destruct Hu as [<-|[]]. exists b', v0. exact Hr.
  - intros [E|[E|(b' & v & Hr)]]; [left; exact E | right; left; exact E|].
    right; right. exists [u]. split; [|left; reflexivity].
    apply in_map_iff. exists (a, b', Some (u, v)). split; [|exact Hr].
    cbn beta iota. rewrite Nat.eqb_refl. reflexivity.
Qed.

Lemma cut_params_In inters a u : In u (cut_params inters a) -> In u (cut_raw inters a).
Proof.
  unfold cut_params. intro H. apply Lines.sort_by_In in H. apply dedup_In in H. exact H.
Qed.

(* every raw parameter is represented (up to ==) after dedup and sort *)
Lemma cut_params_repr inters a u : In u (cut_raw inters a) ->
  exists u', In u' (cut_params inters a) /\ u' == u.
Proof.
  intro H.
  destruct (dedup_repr Qeq_bool Qeq Qeq_refl Qeq_trans
              (fun x y => proj1 (Qeq_bool_iff x y)) (cut_raw inters a) u H) as (y & Hy & E).
  exists y. split; [|symmetry; exact E].
  unfold cut_params. apply Lines.sort_by_In. exact Hy.
Qed.

(* THE STRUCTURE LEMMA: U = cut_params inters a is sorted, lies in [0,1],
   contains 0 and 1 and (up to ==) every reported crossing parameter of
   segment a -- and nothing else *)
Theorem cut_params_structure j self inters a :
  intersection j self false true = Ok inters ->
  let U := cut_params inters a in
  StronglySorted Qle U /\
  (forall u, In u U -> 0 <= u <= 1) /\
  (exists u0, In u0 U /\ u0 == 0) /\
  (exists u1, In u1 U /\ u1 == 1) /\
  (forall b u v, In (a, b, Some (u, v)) inters -> exists u', In u' U /\ u' == u) /\
  (forall u, In u U -> u = 0 \/ u = 1 \/ exists b v, In (a, b, Some (u, v)) inters).
Proof.
  intros I U. split; [apply sort_Qle_b_sorted|].
  assert (Hall : forall u, In u U ->
            u = 0 \/ u = 1 \/ exists b v, In (a, b, Some (u, v)) inters).
  { intros u Hu. apply cut_params_In in Hu. apply cut_raw_In in Hu.
    destruct Hu as [E|[E|E]]; [left; symmetry; exact E | right; left; symmetry; exact E|].
    right; right; exact E. }
  split; [|split; [|split; [|split; [|exact Hall]]]].
  - intros u Hu. destruct (Hall u Hu) as [->|[->|(b & v & Hr)]]; [lra | lra|].
    destruct (intersection_params _ _ _ _ _ I _ _ _ _ Hr) as (Bu & _ & _). exact Bu.
  - apply cut_params_repr. apply cut_raw_In. left; reflexivity.
  - apply cut_params_repr. apply cut_raw_In. right; left; reflexivity.
  - intros b u v Hr. apply cut_params_repr. apply cut_raw_In. right; right.
    exists b, v. exact Hr.
Qed.

(* ------------------------------------------------------------------ *)
(* 6. general position; every boundary hit is a recorded cut           *)
(* ------------------------------------------------------------------ *)
(* (h2) whenever a segment of j and an edge of self have a common point, they
   are not parallel and not "equal" in the sense of PlanarCurve.__eq__ *)
Definition general_position (j self : jordan) : Prop :=
  forall a0 a1 b0 b1, In [a0; a1] j -> In [b0; b1] self ->
  forall u v, 0 <= u <= 1 -> 0 <= v <= 1 -> peq (pt_at a0 a1 u) (pt_at b0 b1 v) ->
  ~ cross (psub a1 a0) (psub b1 b0) == 0 /\ seg_eq [a0; a1] [b0; b1] = false.

(* (K) *)
Lemma boundary_hit self j inters a a0 a1 t :
  all_lines self = true -> general_position j self ->
  intersection j self false true = Ok inters ->
  (a < length j)%nat -> nth a j [] = [a0; a1] ->
  0 <= t <= 1 -> on_boundary self (pt_at a0 a1 t) = true ->
  exists u, In u (cut_params inters a) /\ u == t.
Proof.
  intros HL GP I Ha Na Ht HB.
  unfold on_boundary in HB. apply existsb_exists in HB. destruct HB as (e & He & HE).
  destruct (all_lines_In self e HL He) as (b0 & b1 & ->).
  change (first_pt [b0; b1]) with b0 in HE. change (last_pt [b0; b1]) with b1 in HE.
  destruct (on_edge_param b0 b1 _ HE) as (v & Hv & P).
  assert (Hs : In [a0; a1] j) by (rewrite <- Na; apply nth_In; exact Ha).
  destruct (GP a0 a1 b0 b1 Hs He t v Ht Hv P) as [D NE].
  destruct (In_nth self [b0; b1] [] He) as (b & Hb & Nb).
  destruct (intersection_subset _ _ _ _ _ I) as (rows' & I' & _).
  destruct (proj1 (intersection_exact j self rows' a b a0 a1 b0 b1 I' Ha Hb Na Nb NE D
                     t v Ht Hv) P) as (u' & v' & Hin & Eu & Ev).
  assert (Hin' : In (a, b, Some (u', v')) inters).
  { apply (intersection_flags _ _ _ _ _ _ I I'). split; [exact Hin | reflexivity]. }
  destruct (cut_params_repr inters a u') as (u'' & Hu'' & E).
  { apply cut_raw_In. right; right. exists b, v'. exact Hin'. }
  exists u''. split; [exact Hu'' | rewrite E; exact Eu].
Qed.

(* (M) a point of segment a that is off the boundary has the region of one of
   the tested midpoints of that segment *)
Lemma off_boundary_region self j inters a a0 a1 t :
  all_lines self = true -> closed_chain self = true -> general_position j self ->
  intersection j self false true = Ok inters ->
  (a < length j)%nat -> nth a j [] = [a0; a1] ->
  0 <= t <= 1 -> on_boundary self (pt_at a0 a1 t) = false ->
  exists u v, In (u, v) (pairs_of (cut_params inters a)) /\ 0 <= u /\ v <= 1 /\
    region_simple self (pt_at a0 a1 t) = region_simple self (pt_at a0 a1 ((u + v) / 2)).
Proof.
  intros HL HC GP I Ha Na Ht HB.
  destruct (cut_params_structure j self inters a I)
    as (SS & R01 & (u0 & H0 & E0) & (u1 & H1 & E1) & _ & _).
  destruct (closed_cover _ SS t u0 u1 H0 H1) as (u & v & Huv & Hut & Htv); try lra.
  destruct (pairs_of_In _ _ _ Huv) as [Hu Hv].
  pose proof (R01 u Hu) as Ru. pose proof (R01 v Hv) as Rv.
  exists u, v. split; [exact Huv|]. split; [lra|]. split; [lra|].
  symmetry. apply region_const_seg; [exact HC|]. intros x X0 X1.
  set (m := (u + v) / 2).
  assert (Hm : 2 * m == u + v) by (unfold m; field).
  destruct (on_boundary self (pt_at a0 a1 (m + x * (t - m)))) eqn:B; [exfalso | reflexivity].
  destruct (conv_inside u v t x m Hm Hut Htv X0 X1) as [E|[A1 A2]].
  - rewrite (on_boundary_peq self _ (pt_at a0 a1 t) (pt_at_compat _ _ _ _ E)) in B.
    congruence.
  - assert (R : 0 <= m + x * (t - m) <= 1) by lra.
    destruct (boundary_hit self j inters a a0 a1 _ HL GP I Ha Na R B) as (w & Hw & Ew).
    destruct (pairs_gap _ SS u v w Huv Hw); lra.
Qed.

(* ------------------------------------------------------------------ *)
(* 7. transfer: every point of the curve is on the boundary or has the *)
(*    region of a sampled point                                        *)
(* ------------------------------------------------------------------ *)
Theorem curve_point_transfer self j inters :
  all_lines self = true -> closed_chain self = true -> all_lines j = true ->
  general_position j self ->
  intersection j self false true = Ok inters ->
  forall s t, In s j -> 0 <= t -> t <= 1 ->
  region_simple self (eval s t) = RBdry \/
  exists p, sampled self j p /\ region_simple self (eval s t) = region_simple self p.
Proof.
  intros HL HC HLj GP I s t Hs T0 T1.
  destruct (In_nth j s [] Hs) as (a & Ha & Na).
  destruct (all_lines_In j s HLj Hs) as (a0 & a1 & ->).
  rewrite (region_simple_pt_peq self _ _ (eval_deg1 a0 a1 t)).
  destruct (on_boundary self (pt_at a0 a1 t)) eqn:B.
  - left. unfold region_simple. rewrite B. reflexivity.
  - right.
    destruct (off_boundary_region self j inters a a0 a1 t HL HC GP I Ha Na (conj T0 T1) B)
      as (u & v & Huv & _ & _ & E).
    exists (eval [a0; a1] ((u + v) / 2)). split.
    + exists inters, a, [a0; a1], ((u + v) / 2). split; [exact I|]. split; [|split].
      * pose proof (combine_seq_In_conv (A:=seg) [] j 0 a Ha) as Hc. cbn [Nat.add] in Hc.
        rewrite Na in Hc. exact Hc.
      * unfold mids_between. apply in_map_iff. exists (u, v). split; [reflexivity | exact Huv].
      * reflexivity.
    + rewrite E. apply region_simple_pt_peq. apply Lines.peq_sym. apply eval_deg1.
Qed.

(* ------------------------------------------------------------------ *)
(* 8. the soundness theorems                                           *)
(* ------------------------------------------------------------------ *)
(* a sampled point that the model accepts is not outside *)
Lemma sampled_not_out self j b p :
  simple_has_jordan self j b = Ok true ->
  all_lines self = true -> closed_chain self = true ->
  sampled self j p -> tol_exact self p -> region_simple self p <> ROut.
Proof.
  intros H HL HC Sp T E.
  pose proof (simple_has_point_spec self p b HL T (jordan_pos_shoelace self HL HC)) as S.
  rewrite (simple_has_jordan_sampled self j b H p Sp), E in S. cbn in S. discriminate S.
Qed.

(* WEAK FORM -- no hypothesis on undefined winding numbers:
   no point of the curve is outside *)
Theorem simple_has_jordan_not_out self j b :
  simple_has_jordan self j b = Ok true ->
  all_lines self = true -> closed_chain self = true -> all_lines j = true ->
  general_position j self ->
  (forall p, sampled self j p -> tol_exact self p) ->
  forall s t, In s j -> 0 <= t -> t <= 1 ->
  region_simple self (eval s t) <> ROut.
Proof.
  intros H HL HC HLj GP TOL s t Hs T0 T1.
  destruct (simple_has_jordan_true self j b H) as [_ (inters & I & _)].
  destruct (curve_point_transfer self j inters HL HC HLj GP I s t Hs T0 T1)
    as [E|(p & Sp & E)]; rewrite E; [discriminate|].
  apply (sampled_not_out self j b p H HL HC Sp (TOL p Sp)).
Qed.

(* MAIN THEOREM -- sampled form of the hypotheses (h3), (h5) *)
Theorem simple_has_jordan_sound self j b :
  simple_has_jordan self j b = Ok true ->
  all_lines self = true -> closed_chain self = true -> all_lines j = true ->
  general_position j self ->
  (forall p, sampled self j p -> tol_exact self p) ->
  (forall p, sampled self j p -> region_simple self p <> RUndef) ->
  forall s t, In s j -> 0 <= t -> t <= 1 ->
  region_simple self (eval s t) = RIn \/ region_simple self (eval s t) = RBdry.
Proof.
  intros H HL HC HLj GP TOL NU s t Hs T0 T1.
  destruct (simple_has_jordan_true self j b H) as [_ (inters & I & _)].
  destruct (curve_point_transfer self j inters HL HC HLj GP I s t Hs T0 T1)
    as [E|(p & Sp & E)]; [right; exact E|].
  rewrite E.
  pose proof (sampled_not_out self j b p H HL HC Sp (TOL p Sp)) as NO.
  pose proof (NU p Sp) as NU'.
  destruct (region_simple self p); [left; reflexivity | congruence | right; reflexivity | congruence].
Qed.

(* every sampled point is a point of the curve *)
Lemma sampled_on_curve self j p : sampled self j p ->
  exists s t, In s j /\ 0 <= t /\ t <= 1 /\ p = eval s t.
Proof.
  intros (inters & a & s & m & I & Has & Hm & ->).
  exists s, m. split; [apply in_combine_r in Has; exact Has|].
  unfold mids_between in Hm. apply in_map_iff in Hm. destruct Hm as ([u v] & <- & Huv).
  cbn [fst snd]. destruct (pairs_of_In _ _ _ Huv) as [Hu Hv].
  destruct (cut_params_structure j self inters a I) as (_ & R01 & _).
  pose proof (R01 u Hu). pose proof (R01 v Hv).
  assert (E : (u + v) / 2 == (u + v) * (1 # 2)) by field.
  split; [rewrite E; lra|]. split; [rewrite E; lra | reflexivity].
Qed.

(* MAIN THEOREM -- uniform form of the hypotheses: the tolerance test is exact
   at every point of the curve, and self has no undefined winding number *)
Corollary simple_has_jordan_sound_uniform self j b :
  simple_has_jordan self j b = Ok true ->
  all_lines self = true -> closed_chain self = true -> all_lines j = true ->
  general_position j self ->
  (forall s t, In s j -> 0 <= t -> t <= 1 -> tol_exact self (eval s t)) ->
  (forall p, region_simple self p <> RUndef) ->
  forall s t, In s j -> 0 <= t -> t <= 1 ->
  region_simple self (eval s t) = RIn \/ region_simple self (eval s t) = RBdry.
Proof.
  intros H HL HC HLj GP TOL NU. apply (simple_has_jordan_sound self j b H HL HC HLj GP).
  - intros p Sp. destruct (sampled_on_curve self j p Sp) as (s & t & Hs & T0 & T1 & ->).
    apply TOL; assumption.
  - intros p _. apply NU.
Qed.

(* the same at the level of shapes: `J in A` for a simple shape A *)
Corollary contains_jordan_simple_sound self j b :
  contains_jordan (SC (CS self)) j b = Ok true ->
  all_lines self = true -> closed_chain self = true -> all_lines j = true ->
  general_position j self ->
  (forall p, sampled self j p -> tol_exact self p) ->
  (forall p, sampled self j p -> region_simple self p <> RUndef) ->
  forall s t, In s j -> 0 <= t -> t <= 1 ->
  region (SC (CS self)) (eval s t) = RIn \/ region (SC (CS self)) (eval s t) = RBdry.
Proof. exact (simple_has_jordan_sound self j b). Qed.

(* ------------------------------------------------------------------ *)
(* 8b. connected and disjoint containers                               *)
(* ------------------------------------------------------------------ *)
Definition curve_pt (j : jordan) (p : point) : Prop :=
  exists s t, In s j /\ 0 <= t /\ t <= 1 /\ p = eval s t.
(* the hypotheses of the main theorem for one boundary curve of the container *)
Definition good_pair (self j : jordan) : Prop :=
  all_lines self = true /\ closed_chain self = true /\ general_position j self /\
  (forall p, sampled self j p -> tol_exact self p) /\
  (forall p, sampled self j p -> region_simple self p <> RUndef).

Lemma forallM_true {A} (f : A -> res bool) l :
  forallM f l = Ok true -> forall x, In x l -> f x = Ok true.
Proof.
  induction l as [|y l IH]; intros H x Hx; [destruct Hx|].
  cbn [forallM] in H. destruct (f y) as [[|]| |] eqn:F; cbn [bind] in H; try discriminate.
  destruct Hx as [<-|Hx]; [exact F | apply IH; assumption].
Qed.
Lemma existsM_true {A} (f : A -> res bool) l :
  existsM f l = Ok true -> exists x, In x l /\ f x = Ok true.
Proof.
  induction l as [|y l IH]; intro H; [discriminate|].
  cbn [existsM] in H. destruct (f y) as [[|]| |] eqn:F; cbn [bind] in H; try discriminate.
  - exists y. split; [left; reflexivity | exact F].
  - destruct (IH H) as (x & Hx & Fx). exists x. split; [right; exact Hx | exact Fx].
Qed.

Lemma simple_sound_pt self j b p :
  simple_has_jordan self j b = Ok true -> all_lines j = true -> good_pair self j ->
  curve_pt j p -> region_simple self p = RIn \/ region_simple self p = RBdry.
Proof.
  intros H HLj (HL & HC & GP & TOL & NU) (s & t & Hs & T0 & T1 & ->).
  apply (simple_has_jordan_sound self j b H HL HC HLj GP TOL NU s t Hs T0 T1).
Qed.

Theorem comp_has_jordan_sound c j b :
  comp_has_jordan c j b = Ok true -> all_lines j = true ->
  (forall self, In self (comp_jordans c) -> good_pair self j) ->
  forall p, curve_pt j p -> region_comp c p = RIn \/ region_comp c p = RBdry.
Proof.
  intros H HLj G p Hp. destruct c as [self|js]; cbn [comp_has_jordan region_comp comp_jordans] in *.
  - apply (simple_sound_pt self j b p H HLj (G self (or_introl eq_refl)) Hp).
  - pose proof (forallM_true _ _ H) as F. clear H.
    induction js as [|self js IH]; cbn [fold_right]; [left; reflexivity|].
    assert (R1 : region_simple self p = RIn \/ region_simple self p = RBdry).
    { apply (simple_sound_pt self j b p (F self (or_introl eq_refl)) HLj
               (G self (or_introl eq_refl)) Hp). }
    assert (R2 : fold_right (fun j0 r => reg_and (region_simple j0 p) r) RIn js = RIn \/
                 fold_right (fun j0 r => reg_and (region_simple j0 p) r) RIn js = RBdry).
    { apply IH; intros x Hx; [apply G | apply F]; right; exact Hx. }
    destruct R1 as [->| ->], R2 as [->| ->]; cbn [reg_and]; auto.
Qed.

(* `J in A` for an arbitrary shape A.  For a DisjointShape the union of regions
   is strict in RUndef, so the other components must have a defined region at
   the points of the curve. *)
Theorem contains_jordan_sound S j b :
  contains_jordan S j b = Ok true -> all_lines j = true ->
  (forall self, In self (jordans S) -> good_pair self j) ->
  (forall cs, S = SD cs -> forall c p, In c cs -> curve_pt j p -> region_comp c p <> RUndef) ->
  forall p, curve_pt j p -> region S p = RIn \/ region S p = RBdry.
Proof.
  intros H HLj G ND p Hp. destruct S as [| |c|cs]; cbn [contains_jordan region jordans] in *.
  - discriminate.
  - left. reflexivity.
  - apply (comp_has_jordan_sound c j b H HLj G p Hp).
  - destruct (existsM_true _ _ H) as (c & Hc & Fc). clear H.
    assert (Rc : region_comp c p = RIn \/ region_comp c p = RBdry).
    { apply (comp_has_jordan_sound c j b Fc HLj); [|exact Hp].
      intros self Hs. apply G. apply in_concat. exists (comp_jordans c). split; [|exact Hs].
      apply in_map. exact Hc. }
    pose proof (fun c' Hc' => ND cs eq_refl c' p Hc' Hp) as N. clear ND G Fc.
    induction cs as [|c0 cs IH]; [destruct Hc|]. cbn [fold_right].
    assert (N0 : region_comp c0 p <> RUndef) by (apply N; left; reflexivity).
    destruct Hc as [->|Hc].
    + assert (NR : forall cs', (forall c', In c' cs' -> region_comp c' p <> RUndef) ->
                fold_right (fun c' r => reg_or (region_comp c' p) r) ROut cs' <> RUndef).
      { induction cs' as [|c1 cs' IH']; intro N'; cbn [fold_right]; [discriminate|].
        assert (A1 : region_comp c1 p <> RUndef) by (apply N'; left; reflexivity).
        assert (A2 : fold_right (fun c' r => reg_or (region_comp c' p) r) ROut cs' <> RUndef)
          by (apply IH'; intros c' Hc'; apply N'; right; exact Hc').
        destruct (region_comp c1 p), (fold_right _ ROut cs'); cbn [reg_or]; congruence. }
      specialize (NR cs (fun c' Hc' => N c' (or_intror Hc'))).
      destruct Rc as [->| ->]; destruct (fold_right _ ROut cs); cbn [reg_or]; auto; congruence.
    + specialize (IH Hc (fun c' Hc' => N c' (or_intror Hc'))).
      destruct IH as [->| ->]; destruct (region_comp c0 p); cbn [reg_or]; auto; congruence.
Qed.

(* ------------------------------------------------------------------ *)
(* 9. decidable sufficient conditions for the hypotheses               *)
(* ------------------------------------------------------------------ *)
(* (h2): a pair is fine if it is not parallel and not "equal", or parallel but
   not collinear (then there is no common point at all) *)
Definition gp_pair_b (a0 a1 b0 b1 : point) : bool :=
  if Qeq_bool (cross (psub a1 a0) (psub b1 b0)) 0
  then negb (Qeq_bool (cross (psub a1 a0) (psub b0 a0)) 0)
  else negb (seg_eq [a0; a1] [b0; b1]).
Definition gp_b (j self : jordan) : bool :=
  forallb (fun s => forallb (fun e =>
     match s, e with
     | [a0; a1], [b0; b1] => gp_pair_b a0 a1 b0 b1
     | _, _ => true
     end) self) j.

Lemma gp_b_ok j self : gp_b j self = true -> general_position j self.
Proof.
  intros H a0 a1 b0 b1 Hs He u v Hu Hv P.
  unfold gp_b in H. rewrite forallb_forall in H. specialize (H _ Hs).
  rewrite forallb_forall in H. specialize (H _ He). cbv beta iota in H.
  unfold gp_pair_b in H.
  destruct (Qeq_bool (cross (psub a1 a0) (psub b1 b0)) 0) eqn:D.
  - exfalso. apply Qeq_bool_iff in D. apply negb_true_iff in H.
    assert (N : ~ cross (psub a1 a0) (psub b0 a0) == 0).
    { intro E. apply Qeq_bool_iff in E. congruence. }
    apply N. clear H N.
    destruct a0 as [x0 y0], a1 as [x1 y1], b0 as [z0 w0], b1 as [z1 w1].
    cbv [peq pt_at cross psub px py fst snd] in *. destruct P as [Px Py].
    assert (K1 : (x1 - x0) * (w0 - y0 - (u * (y1 - y0) - v * (w1 - w0))) == 0).
    { setoid_replace (w0 - y0 - (u * (y1 - y0) - v * (w1 - w0))) with 0 by lra. ring. }
    assert (K2 : (y1 - y0) * (z0 - x0 - (u * (x1 - x0) - v * (z1 - z0))) == 0).
    { setoid_replace (z0 - x0 - (u * (x1 - x0) - v * (z1 - z0))) with 0 by lra. ring. }
    assert (K3 : v * ((x1 - x0) * (w1 - w0) - (y1 - y0) * (z1 - z0)) == 0).
    { rewrite D. ring. }
    lra.
  - split; [|apply negb_true_iff; exact H].
    intro E. apply Qeq_bool_iff in E. congruence.
Qed.

(* (h3), (h5): the finitely many sampled points, and a boolean check at each *)
Definition sample_list (self j : jordan) : res (list point) :=
  do inters <- intersection j self false true;
  Ok (concat (map (fun a_s : nat * seg =>
                let '(a, s) := a_s in
                map (eval s) (mids_between (cut_params inters a)))
              (combine (seq 0 (length j)) j))).

Lemma sampled_list self j l p : sample_list self j = Ok l -> sampled self j p -> In p l.
Proof.
  unfold sample_list. intros H (inters & a & s & m & I & Has & Hm & ->).
  rewrite I in H. cbn [bind] in H. apply Ok_inj in H. subst l.
  apply in_concat. exists (map (eval s) (mids_between (cut_params inters a))). split.
  - apply in_map_iff. exists (a, s). split; [reflexivity | exact Has].
  - apply in_map. exact Hm.
Qed.

Definition tol_exact_b (self : jordan) (p : point) : bool :=
  forallb (fun s => Bool.eqb (on_seg s p) (on_edge (first_pt s) (last_pt s) p)) self.
Lemma tol_exact_b_ok self p : tol_exact_b self p = true -> tol_exact self p.
Proof.
  unfold tol_exact_b, tol_exact, tol_exact_seg. rewrite forallb_forall.
  intros H s Hs. apply eqb_prop. apply H. exact Hs.
Qed.

Definition sample_ok (self : jordan) (p : point) : bool :=
  tol_exact_b self p && match region_simple self p with RUndef => false | _ => true end.

(* MAIN THEOREM -- all hypotheses decidable by evaluation *)
Theorem simple_has_jordan_sound_checked self j b l :
  simple_has_jordan self j b = Ok true ->
  all_lines self = true -> closed_chain self = true -> all_lines j = true ->
  gp_b j self = true ->
  sample_list self j = Ok l -> forallb (sample_ok self) l = true ->
  forall s t, In s j -> 0 <= t -> t <= 1 ->
  region_simple self (eval s t) = RIn \/ region_simple self (eval s t) = RBdry.
Proof.
  intros H HL HC HLj GP SL OK. rewrite forallb_forall in OK.
  apply (simple_has_jordan_sound self j b H HL HC HLj (gp_b_ok j self GP)).
  - intros p Sp. specialize (OK p (sampled_list self j l p SL Sp)).
    unfold sample_ok in OK. apply andb_true_iff in OK. apply tol_exact_b_ok. tauto.
  - intros p Sp. specialize (OK p (sampled_list self j l p SL Sp)).
    unfold sample_ok in OK. apply andb_true_iff in OK. destruct OK as [_ OK].
    intro E. rewrite E in OK. discriminate.
Qed.

(* ------------------------------------------------------------------ *)
(* 10. non-vacuity                                                     *)
(* ------------------------------------------------------------------ *)
Definition big : jordan :=
  [[(0,0);(4,0)]; [(4,0);(4,4)]; [(4,4);(0,4)]; [(0,4);(0,0)]].
Definition small : jordan :=
  [[(1,1);(3,1)]; [(3,1);(3,3)]; [(3,3);(1,3)]; [(1,3);(1,1)]].
(* touches the four edges of [big] with its vertices *)
Definition diamond : jordan :=
  [[(2,0);(4,2)]; [(4,2);(2,4)]; [(2,4);(0,2)]; [(0,2);(2,0)]].
(* the L-shaped hexagon of F11 and a triangle inside it whose first edge
   passes through the reflex vertex (2,2): a cut in the middle of a segment *)
Definition Lhex : jordan :=
  [[(0,0);(4,0)]; [(4,0);(4,4)]; [(4,4);(2,4)]; [(2,4);(2,2)]; [(2,2);(0,2)]; [(0,2);(0,0)]].
Definition tri : jordan := [[(1,1);(3,3)]; [(3,3);(3,1)]; [(3,1);(1,1)]].
(* the curve of the repaired defect F11: leaves the hexagon between (2,4) and (0,2) *)
Definition f11 : jordan := [[(0,0);(4,4)]; [(4,4);(2,4)]; [(2,4);(0,2)]; [(0,2);(0,0)]].

(* the hypotheses hold and the model answers True *)
Example small_in_big_hyps :
  simple_has_jordan big small true = Ok true /\
  all_lines big = true /\ closed_chain big = true /\ all_lines small = true /\
  gp_b small big = true /\
  sample_list big small = Ok [(8 # 4, 4 # 4); (12 # 4, 8 # 4); (8 # 4, 12 # 4); (4 # 4, 8 # 4)] /\
  forallb (sample_ok big) [(8 # 4, 4 # 4); (12 # 4, 8 # 4); (8 # 4, 12 # 4); (4 # 4, 8 # 4)] = true.
Proof. vm_compute. repeat split; reflexivity. Qed.

Example small_in_big : forall s t, In s small -> 0 <= t -> t <= 1 ->
  region_simple big (eval s t) = RIn \/ region_simple big (eval s t) = RBdry.
Proof.
  destruct small_in_big_hyps as (H1 & H2 & H3 & H4 & H5 & H6 & H7).
  exact (simple_has_jordan_sound_checked big small true _ H1 H2 H3 H4 H5 H6 H7).
Qed.

Example diamond_in_big : forall s t, In s diamond -> 0 <= t -> t <= 1 ->
  region_simple big (eval s t) = RIn \/ region_simple big (eval s t) = RBdry.
Proof.
  eapply (simple_has_jordan_sound_checked big diamond true); [vm_compute; reflexivity ..].
Qed.

(* the cut parameters of the first edge of [tri] are 0, 1/2, 1 *)
Example tri_cuts : exists inters, intersection tri Lhex false true = Ok inters /\
  map Qred (cut_params inters 0) = [0; 1 # 2; 1].
Proof. eexists. split; vm_compute; reflexivity. Qed.

Example tri_in_Lhex : forall s t, In s tri -> 0 <= t -> t <= 1 ->
  region_simple Lhex (eval s t) = RIn \/ region_simple Lhex (eval s t) = RBdry.
Proof.
  eapply (simple_has_jordan_sound_checked Lhex tri true); [vm_compute; reflexivity ..].
Qed.

(* the open test (boundary = false) accepts the same triangle although it
   touches the boundary at (2,2): only vertices and midpoints are tested.  The
   theorems above hold for both values of the flag and promise no more than
   "RIn or RBdry" in either case. *)
Example tri_in_Lhex_open : simple_has_jordan Lhex tri false = Ok true.
Proof. vm_compute. reflexivity. Qed.

(* the repaired F11 witness: the model answers False, and indeed a point of
   the curve, (1,3) = f11[2](1/2), is outside *)
Example f11_rejected :
  simple_has_jordan Lhex f11 true = Ok false /\
  region_simple Lhex (eval [(2,4);(0,2)] (1 # 2)) = ROut.
Proof. vm_compute. split; reflexivity. Qed.

Print Assumptions region_const_open.
Print Assumptions cut_params_structure.
Print Assumptions simple_has_jordan_vertices.
Print Assumptions curve_point_transfer.
Print Assumptions simple_has_jordan_not_out.
Print Assumptions simple_has_jordan_sound.
Print Assumptions simple_has_jordan_sound_uniform.
Print Assumptions contains_jordan_simple_sound.
Print Assumptions comp_has_jordan_sound.
Print Assumptions contains_jordan_sound.
Print Assumptions gp_b_ok.
Print Assumptions simple_has_jordan_sound_checked.
Print Assumptions small_in_big.
Print Assumptions diamond_in_big.
Print Assumptions tri_in_Lhex.
Print Assumptions f11_rejected.
