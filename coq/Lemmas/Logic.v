(* Logic.v -- the pure-logic layer of the properties
     C01 (operators compute the set-theoretic result, for every nested expression),
     C03 (`B in A` means subset: singleton rows and composition rules),
     C19 (directly constructed composite shapes: order independence).
   Nothing geometric is proved here: Part A reduces C01 for all expressions to
   one-step soundness of `|`, `&`, `~`; Part B is list/permutation reasoning. *)
From Coq Require Import QArith Qreduction List Bool Lia Permutation Sorted.
From SV Require Import Spec.Spec Lemmas.Fuel.
Import ListNotations.

(* ------------------------------------------------------------------ *)
(* monad inversion                                                     *)
(* ------------------------------------------------------------------ *)
Lemma bind_ok {A B} (r : res A) (f : A -> res B) x :
  bind r f = Ok x -> exists a, r = Ok a /\ f a = Ok x.
Proof. destruct r; simpl; intros H; [eauto | discriminate | discriminate]. Qed.

Ltac inv_bind H :=
  let a := fresh "v" in let Ha := fresh "Hv" in
  apply bind_ok in H; destruct H as (a & Ha & H).

(* ================================================================== *)
(* PART A : C01, induction over expressions                            *)
(* ================================================================== *)

(* eval_expr's local `bin`, as a definition *)
Definition bin_eval (env : list shape) (a b : expr) (f : shape -> shape -> res op3)
  : res (list shape * shape) :=
  do ra <- eval_expr env a;
  let '(env1, va) := ra in
  do rb <- eval_expr env1 b;
  let '(env2, vb) := rb in
  do r <- f va vb;
  let '(va', vb', s) := r in
  Ok (env_set (env_set env2 a va') b vb', s).

Definition sub3 (x y : shape) : res op3 :=
  do r <- op_sub x y; let '(x', s) := r in Ok (x', y, s).

Lemma eval_EVar env n :
  eval_expr env (EVar n) = match nth_error env n with Some s => Ok (env, s) | None => Err EIndex end.
Proof. reflexivity. Qed.
Lemma eval_EOr env a b : eval_expr env (EOr a b) = bin_eval env a b op_or.
Proof. reflexivity. Qed.
Lemma eval_EAdd env a b : eval_expr env (EAdd a b) = bin_eval env a b op_or.
Proof. reflexivity. Qed.
Lemma eval_EAnd env a b : eval_expr env (EAnd a b) = bin_eval env a b op_and.
Proof. reflexivity. Qed.
Lemma eval_EMul env a b : eval_expr env (EMul a b) = bin_eval env a b op_and.
Proof. reflexivity. Qed.
Lemma eval_ESub env a b : eval_expr env (ESub a b) = bin_eval env a b sub3.
Proof. reflexivity. Qed.
Lemma eval_EXor env a b : eval_expr env (EXor a b) = bin_eval env a b op_xor.
Proof. reflexivity. Qed.
Lemma eval_ENot env a :
  eval_expr env (ENot a) =
  (do ra <- eval_expr env a; let '(env1, va) := ra in do s <- op_not va; Ok (env1, s)).
Proof. reflexivity. Qed.
Lemma eval_ENeg env a :
  eval_expr env (ENeg a) =
  (do ra <- eval_expr env a; let '(env1, va) := ra in do s <- op_not va; Ok (env1, s)).
Proof. reflexivity. Qed.

Lemma sem_ext (f g : nat -> bool) e : (forall n, f n = g n) -> sem f e = sem g e.
Proof.
  intros H; induction e; simpl; try congruence; auto.
Qed.

(* ---------- list facts: set_nth / nth / Forall ---------- *)
Lemma set_nth_Forall {A} (P : A -> Prop) (x : A) : forall l n,
  Forall P l -> P x -> Forall P (set_nth n x l).
Proof.
  induction l as [|h t IH]; intros [|k] Hl Hx; simpl; auto;
    inversion Hl; subst; constructor; auto.
Qed.

Lemma set_nth_nth_same {A} (x d : A) : forall l n,
  (n < length l)%nat -> nth n (set_nth n x l) d = x.
Proof.
  induction l as [|h t IH]; intros [|k] Hn; simpl in *; try lia; auto.
  apply IH; lia.
Qed.

Lemma set_nth_nth_other {A} (x d : A) : forall l n m,
  n <> m -> nth m (set_nth n x l) d = nth m l d.
Proof.
  induction l as [|h t IH]; intros [|k] [|m] Hnm; simpl; auto; try congruence.
Qed.

Lemma set_nth_oob {A} (x : A) : forall l n, (length l <= n)%nat -> set_nth n x l = l.
Proof.
  induction l as [|h t IH]; intros [|k] Hn; simpl in *; auto; try lia.
  f_equal; apply IH; lia.
Qed.

(* writing a value that is `f`-equal to the stored one changes no `f (nth m _)` *)
Lemma set_nth_nth_inv {A B} (f : A -> B) (x d : A) : forall l n,
  f x = f (nth n l d) -> forall m, f (nth m (set_nth n x l) d) = f (nth m l d).
Proof.
  intros l n Hx m.
  destruct (Nat.eq_dec n m) as [->|Hnm].
  - destruct (Nat.lt_ge_cases m (length l)) as [Hlt|Hge].
    + rewrite set_nth_nth_same by exact Hlt. exact Hx.
    + rewrite set_nth_oob by exact Hge. reflexivity.
  - rewrite set_nth_nth_other by exact Hnm. reflexivity.
Qed.

Lemma nth_error_nth_default {A} (d : A) : forall l n x, nth_error l n = Some x -> nth n l d = x.
Proof.
  induction l as [|h t IH]; intros [|k] x H; simpl in *; try discriminate; auto.
  congruence.
Qed.

Section ExprInduction.
  Variable den : shape -> bool.   (* "the query point is in the shape" *)
  Variable ok : shape -> Prop.    (* "the point is off the boundary / the shape is well formed" *)

  Hypothesis or_ok : forall a b a' b' r, op_or a b = Ok (a', b', r) -> ok a -> ok b ->
    ok a' /\ ok b' /\ ok r /\ den a' = den a /\ den b' = den b /\ den r = den a || den b.
  Hypothesis and_ok : forall a b a' b' r, op_and a b = Ok (a', b', r) -> ok a -> ok b ->
    ok a' /\ ok b' /\ ok r /\ den a' = den a /\ den b' = den b /\ den r = den a && den b.
  Hypothesis not_ok : forall a r, op_not a = Ok r -> ok a -> ok r /\ den r = negb (den a).

  (* The facts about SEmpty / SWhole need no extra hypotheses: they follow from
     and_ok / not_ok on the constant cases of the operators. *)
  Lemma ok_empty_whole : ok SEmpty <-> ok SWhole.
  Proof.
    split; intros H.
    - exact (proj1 (not_ok SEmpty SWhole eq_refl H)).
    - exact (proj1 (not_ok SWhole SEmpty eq_refl H)).
  Qed.

  Lemma den_empty : ok SEmpty -> den SEmpty = false.
  Proof.
    intros H.
    destruct (not_ok SEmpty SWhole eq_refl H) as [Hw Hdw].
    destruct (and_ok SEmpty SWhole SEmpty SWhole SEmpty eq_refl H Hw) as (_&_&_&_&_&E).
    rewrite Hdw in E. destruct (den SEmpty); simpl in *; congruence.
  Qed.

  Lemma den_whole : ok SWhole -> den SWhole = true.
  Proof.
    intros H.
    destruct (not_ok SWhole SEmpty eq_refl H) as [He Hde].
    rewrite (den_empty He) in Hde. destruct (den SWhole); simpl in *; congruence.
  Qed.

  (* A1 *)
  Lemma sub_ok : forall a b a' r, op_sub a b = Ok (a', r) -> ok a -> ok b ->
    ok a' /\ ok r /\ den a' = den a /\ den r = den a && negb (den b).
  Proof.
    intros a b a' r H Ha Hb.
    assert (G : forall a, ok a ->
      (do nb <- op_not b; do r <- op_and a nb; let '(a', _, s) := r in Ok (a', s)) = Ok (a', r) ->
      ok a' /\ ok r /\ den a' = den a /\ den r = den a && negb (den b)).
    { clear a H Ha. intros a Ha H.
      inv_bind H. destruct (not_ok _ _ Hv Hb) as [Hnb Enb].
      inv_bind H. destruct v0 as [[a1 b1] s]. inversion H; subst; clear H.
      destruct (and_ok _ _ _ _ _ Hv0 Ha Hnb) as (H1&_&H3&H4&_&H6).
      rewrite H6, Enb. auto. }
    unfold op_sub in H. destruct a.
    - inversion H; subst. rewrite (den_empty Ha). auto.
    - inv_bind H. inversion H; subst. destruct (not_ok _ _ Hv Hb) as [Hnb Enb].
      rewrite (den_whole Ha), Enb. auto.
    - apply G; assumption.
    - apply G; assumption.
  Qed.

  (* A2 *)
  Lemma xor_ok : forall a b a' b' r, op_xor a b = Ok (a', b', r) -> ok a -> ok b ->
    ok a' /\ ok b' /\ ok r /\ den a' = den a /\ den b' = den b /\ den r = xorb (den a) (den b).
  Proof.
    intros a b a' b' r H Ha Hb. unfold op_xor in H.
    inv_bind H. destruct v as [a1 d1].
    inv_bind H. destruct v as [b1 d2].
    inv_bind H. destruct v as [[x y] s]. inversion H; subst; clear H.
    destruct (sub_ok _ _ _ _ Hv Ha Hb) as (Ha1 & Hd1 & Ea1 & Ed1).
    destruct (sub_ok _ _ _ _ Hv0 Hb Ha1) as (Hb1 & Hd2 & Eb1 & Ed2).
    destruct (or_ok _ _ _ _ _ Hv1 Hd1 Hd2) as (_ & _ & Hr & _ & _ & Er).
    repeat split; auto.
    rewrite Er, Ed1, Ed2, Ea1.
    destruct (den a), (den b); reflexivity.
  Qed.

  (* one-step soundness of a binary operator with truth table g *)
  Definition op_sound (f : shape -> shape -> res op3) (g : bool -> bool -> bool) : Prop :=
    forall a b a' b' r, f a b = Ok (a', b', r) -> ok a -> ok b ->
      ok a' /\ ok b' /\ ok r /\ den a' = den a /\ den b' = den b /\ den r = g (den a) (den b).

  Lemma sub3_sound : op_sound sub3 (fun x y => x && negb y).
  Proof.
    intros a b a' b' r H Ha Hb. unfold sub3 in H.
    inv_bind H. destruct v as [x s]. inversion H; subst; clear H.
    destruct (sub_ok _ _ _ _ Hv Ha Hb) as (H1 & H2 & H3 & H4). auto 10.
  Qed.

  Definition denv (env : list shape) : nat -> bool := fun n => den (nth n env SEmpty).

  (* the conclusion of the main theorem *)
  Definition eval_good (env : list shape) (e : expr) (env' : list shape) (r : shape) : Prop :=
    ok r /\ Forall ok env' /\ length env' = length env /\
    (forall n, den (nth n env' SEmpty) = den (nth n env SEmpty)) /\
    den r = sem (fun n => den (nth n env SEmpty)) e.

  Lemma env_set_Forall env e v : Forall ok env -> ok v -> Forall ok (env_set env e v).
  Proof. destruct e; simpl; auto. apply set_nth_Forall. Qed.

  Lemma env_set_length env e v : length (env_set env e v) = length env.
  Proof. destruct e; simpl; auto. apply set_nth_length. Qed.

  Lemma env_set_den env e v :
    den v = sem (fun n => den (nth n env SEmpty)) e ->
    forall m, den (nth m (env_set env e v) SEmpty) = den (nth m env SEmpty).
  Proof.
    destruct e; simpl; intros H m; auto.
    apply set_nth_nth_inv. exact H.
  Qed.

  Lemma bin_sound f g a b :
    op_sound f g ->
    (forall env env' r, Forall ok env -> eval_expr env a = Ok (env', r) -> eval_good env a env' r) ->
    (forall env env' r, Forall ok env -> eval_expr env b = Ok (env', r) -> eval_good env b env' r) ->
    forall env env' r, Forall ok env -> bin_eval env a b f = Ok (env', r) ->
      ok r /\ Forall ok env' /\ length env' = length env /\
      (forall n, den (nth n env' SEmpty) = den (nth n env SEmpty)) /\
      den r = g (sem (fun n => den (nth n env SEmpty)) a) (sem (fun n => den (nth n env SEmpty)) b).
  Proof.
    intros Hf IHa IHb env env' r Henv H. unfold bin_eval in H.
    inv_bind H. destruct v as [env1 va].
    inv_bind H. destruct v as [env2 vb].
    inv_bind H. destruct v as [[va' vb'] s]. inversion H; subst; clear H.
    destruct (IHa _ _ _ Henv Hv) as (Hva & Henv1 & L1 & D1 & Eva).
    destruct (IHb _ _ _ Henv1 Hv0) as (Hvb & Henv2 & L2 & D2 & Evb).
    destruct (Hf _ _ _ _ _ Hv1 Hva Hvb) as (Hva' & Hvb' & Hs & Eva' & Evb' & Es).
    assert (D12 : forall n, den (nth n env2 SEmpty) = den (nth n env SEmpty)).
    { intros n. rewrite D2. apply D1. }
    assert (Da : forall n, den (nth n (env_set env2 a va') SEmpty) = den (nth n env SEmpty)).
    { intros n. rewrite env_set_den; [apply D12|].
      rewrite Eva', Eva. apply sem_ext. intros k. symmetry. apply D12. }
    repeat split.
    - exact Hs.
    - apply env_set_Forall; [apply env_set_Forall|]; assumption.
    - rewrite !env_set_length. congruence.
    - intros n. rewrite env_set_den; [apply Da|].
      rewrite Evb', Evb. apply sem_ext. intros k. rewrite Da. apply D1.
    - rewrite Es, Eva, Evb. f_equal. apply sem_ext. exact D1.
  Qed.

  Lemma not_sound a :
    (forall env env' r, Forall ok env -> eval_expr env a = Ok (env', r) -> eval_good env a env' r) ->
    forall env env' r, Forall ok env ->
      (do ra <- eval_expr env a; let '(env1, va) := ra in do s <- op_not va; Ok (env1, s)) = Ok (env', r) ->
      ok r /\ Forall ok env' /\ length env' = length env /\
      (forall n, den (nth n env' SEmpty) = den (nth n env SEmpty)) /\
      den r = negb (sem (fun n => den (nth n env SEmpty)) a).
  Proof.
    intros IHa env env' r Henv H.
    inv_bind H. destruct v as [env1 va].
    inv_bind H. inversion H; subst; clear H.
    destruct (IHa _ _ _ Henv Hv) as (Hva & Henv1 & L1 & D1 & Eva).
    destruct (not_ok _ _ Hv0 Hva) as [Hr Er].
    rewrite Er, Eva. auto.
  Qed.

  (* A3 *)
  Theorem eval_expr_sound : forall e env env' r,
    Forall ok env -> eval_expr env e = Ok (env', r) ->
    ok r /\ Forall ok env' /\ length env' = length env /\
    (forall n, den (nth n env' SEmpty) = den (nth n env SEmpty)) /\
    den r = sem (fun n => den (nth n env SEmpty)) e.
  Proof.
    induction e; intros env env' r Henv H.
    - (* EVar *)
      rewrite eval_EVar in H. destruct (nth_error env n) eqn:E; [|discriminate].
      inversion H; subst; clear H.
      pose proof (nth_error_nth_default SEmpty _ _ _ E) as Hn.
      repeat split; auto.
      + rewrite Forall_forall in Henv. apply Henv. eapply nth_error_In; eauto.
      + simpl. congruence.
    - rewrite eval_EOr in H. exact (bin_sound _ _ _ _ or_ok IHe1 IHe2 _ _ _ Henv H).
    - rewrite eval_EAnd in H. exact (bin_sound _ _ _ _ and_ok IHe1 IHe2 _ _ _ Henv H).
    - rewrite eval_ESub in H. exact (bin_sound _ _ _ _ sub3_sound IHe1 IHe2 _ _ _ Henv H).
    - rewrite eval_EXor in H. exact (bin_sound _ _ _ _ xor_ok IHe1 IHe2 _ _ _ Henv H).
    - rewrite eval_ENot in H. exact (not_sound _ IHe _ _ _ Henv H).
    - rewrite eval_EAdd in H. exact (bin_sound _ _ _ _ or_ok IHe1 IHe2 _ _ _ Henv H).
    - rewrite eval_EMul in H. exact (bin_sound _ _ _ _ and_ok IHe1 IHe2 _ _ _ Henv H).
    - rewrite eval_ENeg in H. exact (not_sound _ IHe _ _ _ Henv H).
  Qed.

End ExprInduction.


(* A4: a computation (not an instantiation of the section): two overlapping
   axis-parallel squares, A = [0,2]^2 and B = [1,3]^2; A ^ B contains (1/2,1/2)
   and (5/2,5/2), and does not contain (3/2,3/2) (in A & B) nor (4,4). *)
Open Scope Q_scope.
Definition sqA : shape :=
  SC (CS [[(0,0);(2,0)];[(2,0);(2,2)];[(2,2);(0,2)];[(0,2);(0,0)]]).
Definition sqB : shape :=
  SC (CS [[(1,1);(3,1)];[(3,1);(3,3)];[(3,3);(1,3)];[(1,3);(1,1)]]).

Example xor_example_compute :
  match eval_expr [sqA; sqB] (EXor (EVar 0) (EVar 1)) with
  | Ok (env', r) =>
      contains_point r (1#2, 1#2) true
      && negb (contains_point r (3#2, 3#2) true)
      && contains_point r (5#2, 5#2) true
      && negb (contains_point r (4, 4) true)
      && Nat.eqb (length env') 2
  | _ => false
  end = true.
Proof. vm_compute. reflexivity. Qed.

Example xor_example :
  exists env' r,
    eval_expr [sqA; sqB] (EXor (EVar 0) (EVar 1)) = Ok (env', r) /\
    contains_point r (1#2, 1#2) true = true /\
    contains_point r (3#2, 3#2) true = false.
Proof.
  pose proof xor_example_compute as H.
  destruct (eval_expr [sqA; sqB] (EXor (EVar 0) (EVar 1))) as [[env' r]| |]; try discriminate.
  exists env', r. split; [reflexivity|].
  repeat (apply andb_prop in H; destruct H as [H ?]).
  split; [assumption|]. apply negb_true_iff. assumption.
Qed.

(* ================================================================== *)
(* PART B : C03 (pure-logic rules of contains_shape), C19 (order)      *)
(* ================================================================== *)

(* ---------- B1: singleton rows ---------- *)
Lemma contains_whole_l b : contains_shape SWhole b = Ok true.
Proof. destruct b; reflexivity. Qed.
Lemma contains_empty_r a : contains_shape a SEmpty = Ok true.
Proof. destruct a; reflexivity. Qed.
Lemma contains_empty_l b : b <> SEmpty -> contains_shape SEmpty b = Ok false.
Proof. destruct b; intros H; try reflexivity. congruence. Qed.
Lemma contains_whole_r a : a <> SWhole -> a <> SEmpty -> contains_shape a SWhole = Ok false.
Proof. destruct a; intros H1 H2; try reflexivity; congruence. Qed.

(* ---------- B2: composition rules, as equations ---------- *)
Lemma contains_SC_SC c o : contains_shape (SC c) (SC o) = comp_has_comp c o.
Proof. reflexivity. Qed.
Lemma contains_CS_SC j o : contains_shape (SC (CS j)) (SC o) = simple_has_comp j o.
Proof. reflexivity. Qed.
Lemma contains_CC_SC js o :
  contains_shape (SC (CC js)) (SC o) = forallM (fun self => simple_has_comp self o) js.
Proof. reflexivity. Qed.
Lemma contains_SC_SD c os : contains_shape (SC c) (SD os) = comp_has_disjoint c os.
Proof. reflexivity. Qed.
Lemma contains_CS_SD j os :
  contains_shape (SC (CS j)) (SD os) = forallM (fun o => simple_has_comp j o) os.
Proof. reflexivity. Qed.
Lemma contains_CC_SD js os :
  contains_shape (SC (CC js)) (SD os) =
  forallM (fun self => forallM (fun o => simple_has_comp self o) os) js.
Proof. reflexivity. Qed.
Lemma contains_SD_SC cs o :
  contains_shape (SD cs) (SC o) = existsM (fun c => comp_has_comp c o) cs.
Proof. reflexivity. Qed.
Lemma contains_SD_SD cs os :
  contains_shape (SD cs) (SD os) =
  forallM (fun o => existsM (fun c => comp_has_comp c o) cs) os.
Proof. reflexivity. Qed.
Lemma contains_CC_CC js subs :
  contains_shape (SC (CC js)) (SC (CC subs)) =
  forallM (fun self => existsM (fun sub => simple_has_simple (invert sub) (invert self)) subs) js.
Proof. reflexivity. Qed.

(* generic facts on forallM / existsM *)
Lemma forallM_true {A} (f : A -> res bool) l :
  forallM f l = Ok true -> forall x, In x l -> f x = Ok true.
Proof.
  induction l as [|h t IH]; simpl; intros H x Hx; [contradiction|].
  destruct (f h) as [[|]| |] eqn:E; simpl in H; try discriminate.
  destruct Hx as [<-|Hx]; auto.
Qed.
Lemma forallM_true_intro {A} (f : A -> res bool) l :
  (forall x, In x l -> f x = Ok true) -> forallM f l = Ok true.
Proof.
  induction l as [|h t IH]; simpl; intros H; [reflexivity|].
  rewrite (H h) by auto. simpl. apply IH. intros; apply H; auto.
Qed.
Lemma forallM_true_iff {A} (f : A -> res bool) l :
  forallM f l = Ok true <-> Forall (fun x => f x = Ok true) l.
Proof.
  rewrite Forall_forall. split; [apply forallM_true | apply forallM_true_intro].
Qed.
Lemma forallM_false {A} (f : A -> res bool) l :
  forallM f l = Ok false -> exists x, In x l /\ f x = Ok false.
Proof.
  induction l as [|h t IH]; simpl; intros H; [discriminate|].
  destruct (f h) as [[|]| |] eqn:E; simpl in H; try discriminate.
  - destruct (IH H) as (x & Hx & Hfx). exists x; auto.
  - exists h; auto.
Qed.
(* precise form: the first non-true answer is `Ok false` *)
Lemma forallM_false_iff {A} (f : A -> res bool) l :
  forallM f l = Ok false <->
  exists l1 x l2, l = l1 ++ x :: l2 /\ Forall (fun y => f y = Ok true) l1 /\ f x = Ok false.
Proof.
  split.
  - induction l as [|h t IH]; simpl; intros H; [discriminate|].
    destruct (f h) as [[|]| |] eqn:E; simpl in H; try discriminate.
    + destruct (IH H) as (l1 & x & l2 & -> & H1 & Hx).
      exists (h :: l1), x, l2. repeat split; auto.
    + exists [], h, t. repeat split; auto.
  - intros (l1 & x & l2 & -> & H1 & Hx).
    induction H1 as [|y l1 Hy H1 IH]; simpl.
    + rewrite Hx. reflexivity.
    + rewrite Hy. simpl. exact IH.
Qed.

Lemma existsM_false {A} (f : A -> res bool) l :
  existsM f l = Ok false -> forall x, In x l -> f x = Ok false.
Proof.
  induction l as [|h t IH]; simpl; intros H x Hx; [contradiction|].
  destruct (f h) as [[|]| |] eqn:E; simpl in H; try discriminate.
  destruct Hx as [<-|Hx]; auto.
Qed.
Lemma existsM_false_intro {A} (f : A -> res bool) l :
  (forall x, In x l -> f x = Ok false) -> existsM f l = Ok false.
Proof.
  induction l as [|h t IH]; simpl; intros H; [reflexivity|].
  rewrite (H h) by auto. simpl. apply IH. intros; apply H; auto.
Qed.
Lemma existsM_false_iff {A} (f : A -> res bool) l :
  existsM f l = Ok false <-> Forall (fun x => f x = Ok false) l.
Proof.
  rewrite Forall_forall. split; [apply existsM_false | apply existsM_false_intro].
Qed.
Lemma existsM_true {A} (f : A -> res bool) l :
  existsM f l = Ok true -> exists x, In x l /\ f x = Ok true.
Proof.
  induction l as [|h t IH]; simpl; intros H; [discriminate|].
  destruct (f h) as [[|]| |] eqn:E; simpl in H; try discriminate.
  - exists h; auto.
  - destruct (IH H) as (x & Hx & Hfx). exists x; auto.
Qed.
Lemma existsM_true_iff {A} (f : A -> res bool) l :
  existsM f l = Ok true <->
  exists l1 x l2, l = l1 ++ x :: l2 /\ Forall (fun y => f y = Ok false) l1 /\ f x = Ok true.
Proof.
  split.
  - induction l as [|h t IH]; simpl; intros H; [discriminate|].
    destruct (f h) as [[|]| |] eqn:E; simpl in H; try discriminate.
    + exists [], h, t. repeat split; auto.
    + destruct (IH H) as (l1 & x & l2 & -> & H1 & Hx).
      exists (h :: l1), x, l2. repeat split; auto.
  - intros (l1 & x & l2 & -> & H1 & Hx).
    induction H1 as [|y l1 Hy H1 IH]; simpl.
    + rewrite Hx. reflexivity.
    + rewrite Hy. simpl. exact IH.
Qed.

(* the composition rules in "answer" form *)
Lemma contains_CC_SC_true js o :
  contains_shape (SC (CC js)) (SC o) = Ok true <->
  forall j, In j js -> contains_shape (SC (CS j)) (SC o) = Ok true.
Proof. rewrite contains_CC_SC, forallM_true_iff, Forall_forall. reflexivity. Qed.
Lemma contains_SD_SC_true cs o :
  contains_shape (SD cs) (SC o) = Ok true ->
  exists c, In c cs /\ contains_shape (SC c) (SC o) = Ok true.
Proof. rewrite contains_SD_SC. apply existsM_true. Qed.
Lemma contains_SD_SD_true cs os :
  contains_shape (SD cs) (SD os) = Ok true <->
  forall o, In o os -> contains_shape (SD cs) (SC o) = Ok true.
Proof. rewrite contains_SD_SD, forallM_true_iff, Forall_forall. reflexivity. Qed.
Lemma contains_SD_SD_false cs os :
  contains_shape (SD cs) (SD os) = Ok false ->
  exists o, In o os /\ contains_shape (SD cs) (SC o) = Ok false.
Proof. rewrite contains_SD_SD. apply forallM_false. Qed.
Lemma contains_SC_SD_true c os :
  contains_shape (SC c) (SD os) = Ok true <->
  forall o, In o os -> contains_shape (SC c) (SC o) = Ok true.
Proof.
  destruct c as [j|js].
  - rewrite contains_CS_SD, forallM_true_iff, Forall_forall. reflexivity.
  - rewrite contains_CC_SD, forallM_true_iff, Forall_forall. split.
    + intros H o Ho. rewrite contains_CC_SC. apply forallM_true_intro.
      intros j Hj. exact (forallM_true _ _ (H j Hj) o Ho).
    + intros H j Hj. apply forallM_true_intro. intros o Ho.
      specialize (H o Ho). rewrite contains_CC_SC in H. exact (forallM_true _ _ H j Hj).
Qed.

(* ---------- B3: order independence ---------- *)
Lemma existsb_perm {A} (f : A -> bool) l l' :
  Permutation l l' -> existsb f l = existsb f l'.
Proof.
  induction 1; simpl; try congruence.
  destruct (f x), (f y); reflexivity.
Qed.
Lemma forallb_perm {A} (f : A -> bool) l l' :
  Permutation l l' -> forallb f l = forallb f l'.
Proof.
  induction 1; simpl; try congruence.
  destruct (f x), (f y); reflexivity.
Qed.

Theorem contains_point_SD_perm cs cs' p b :
  Permutation cs cs' -> contains_point (SD cs) p b = contains_point (SD cs') p b.
Proof. apply existsb_perm. Qed.
Theorem contains_point_CC_perm js js' p b :
  Permutation js js' -> contains_point (SC (CC js)) p b = contains_point (SC (CC js')) p b.
Proof. apply forallb_perm. Qed.

Lemma reg_and_comm a b : reg_and a b = reg_and b a.
Proof. destruct a, b; reflexivity. Qed.
Lemma reg_and_assoc a b c : reg_and a (reg_and b c) = reg_and (reg_and a b) c.
Proof. destruct a, b, c; reflexivity. Qed.
Lemma reg_or_comm a b : reg_or a b = reg_or b a.
Proof. destruct a, b; reflexivity. Qed.
Lemma reg_or_assoc a b c : reg_or a (reg_or b c) = reg_or (reg_or a b) c.
Proof. destruct a, b, c; reflexivity. Qed.
Lemma reg_and_In_r a : reg_and a RIn = a.
Proof. destruct a; reflexivity. Qed.
Lemma reg_or_Out_r a : reg_or a ROut = a.
Proof. destruct a; reflexivity. Qed.

Lemma fold_right_perm {A B} (op : B -> B -> B) (g : A -> B) (e : B) :
  (forall a b, op a b = op b a) ->
  (forall a b c, op a (op b c) = op (op a b) c) ->
  forall l l', Permutation l l' ->
    fold_right (fun x r => op (g x) r) e l = fold_right (fun x r => op (g x) r) e l'.
Proof.
  intros Hc Ha l l' H. induction H; simpl.
  - reflexivity.
  - rewrite IHPermutation. reflexivity.
  - rewrite !Ha. f_equal. apply Hc.
  - etransitivity; eassumption.
Qed.

Theorem region_SD_perm cs cs' p :
  Permutation cs cs' -> region (SD cs) p = region (SD cs') p.
Proof.
  intros H. simpl.
  exact (fold_right_perm reg_or (fun c => region_comp c p) ROut reg_or_comm reg_or_assoc _ _ H).
Qed.
Theorem region_CC_perm js js' p :
  Permutation js js' -> region (SC (CC js)) p = region (SC (CC js')) p.
Proof.
  intros H. simpl.
  exact (fold_right_perm reg_and (fun j => region_simple j p) RIn reg_and_comm reg_and_assoc _ _ H).
Qed.

Lemma Qsum_perm l l' : Permutation l l' -> Qsum l == Qsum l'.
Proof.
  induction 1; simpl.
  - reflexivity.
  - rewrite IHPermutation. reflexivity.
  - ring.
  - etransitivity; eassumption.
Qed.

Lemma concat_map_perm {A B} (f : A -> list B) l l' :
  Permutation l l' -> Permutation (concat (map f l)) (concat (map f l')).
Proof.
  induction 1; simpl.
  - constructor.
  - apply Permutation_app_head. assumption.
  - rewrite !app_assoc. apply Permutation_app_tail. apply Permutation_app_comm.
  - eapply perm_trans; eassumption.
Qed.

Lemma jordans_SD_perm cs cs' :
  Permutation cs cs' -> Permutation (jordans (SD cs)) (jordans (SD cs')).
Proof. apply concat_map_perm. Qed.

(* area and moments only depend on the multiset of curves; thanks to Qred the
   results are even syntactically equal *)
Theorem shape_area_jordans_perm s s' :
  Permutation (jordans s) (jordans s') -> shape_area s = shape_area s'.
Proof.
  intros H. unfold shape_area. apply Qred_complete. apply Qsum_perm.
  apply Permutation_map. exact H.
Qed.
Theorem moment_jordans_perm s s' a b :
  Permutation (jordans s) (jordans s') -> moment s a b = moment s' a b.
Proof.
  intros H. unfold moment. apply Qred_complete.
  apply Qmult_comp; [|reflexivity].
  apply Qsum_perm. apply Permutation_map. exact H.
Qed.
Theorem comp_area_perm js js' :
  Permutation js js' -> comp_area (CC js) = comp_area (CC js').
Proof.
  intros H. unfold comp_area. apply Qred_complete. apply Qsum_perm.
  apply Permutation_map. exact H.
Qed.

Theorem shape_area_CC_perm js js' :
  Permutation js js' -> shape_area (SC (CC js)) == shape_area (SC (CC js')).
Proof. intros H. rewrite (shape_area_jordans_perm (SC (CC js)) (SC (CC js')) H). reflexivity. Qed.
Theorem shape_area_SD_perm cs cs' :
  Permutation cs cs' -> shape_area (SD cs) == shape_area (SD cs').
Proof.
  intros H. rewrite (shape_area_jordans_perm _ _ (jordans_SD_perm _ _ H)). reflexivity.
Qed.
Theorem moment_CC_perm js js' a b :
  Permutation js js' -> moment (SC (CC js)) a b == moment (SC (CC js')) a b.
Proof. intros H. rewrite (moment_jordans_perm (SC (CC js)) (SC (CC js')) a b H). reflexivity. Qed.
Theorem moment_SD_perm cs cs' a b :
  Permutation cs cs' -> moment (SD cs) a b == moment (SD cs') a b.
Proof.
  intros H. rewrite (moment_jordans_perm _ _ a b (jordans_SD_perm _ _ H)). reflexivity.
Qed.

(* ---------- B4: sort_by is a permutation ---------- *)
Lemma insert_sorted_perm {A} (le : A -> A -> bool) x l :
  Permutation (insert_sorted le x l) (x :: l).
Proof.
  induction l as [|y t IH]; simpl.
  - apply Permutation_refl.
  - destruct (le x y).
    + apply Permutation_refl.
    + eapply perm_trans; [apply perm_skip; exact IH | apply perm_swap].
Qed.
Theorem sort_by_perm {A} (le : A -> A -> bool) l : Permutation (sort_by le l) l.
Proof.
  induction l as [|x t IH].
  - apply perm_nil.
  - change (sort_by le (x :: t)) with (insert_sorted le x (sort_by le t)).
    eapply perm_trans; [apply insert_sorted_perm | apply perm_skip; exact IH].
Qed.

Lemma disjoint_of_nil : disjoint_of [] = SEmpty.
Proof. reflexivity. Qed.
Lemma disjoint_of_one c : disjoint_of [c] = SC c.
Proof. reflexivity. Qed.
Lemma disjoint_of_many c1 c2 t :
  disjoint_of (c1 :: c2 :: t) = SD (sort_by comp_ge (c1 :: c2 :: t)).
Proof. reflexivity. Qed.

Lemma jordans_disjoint_of cs : Permutation (jordans (disjoint_of cs)) (jordans (SD cs)).
Proof.
  destruct cs as [|c1 [|c2 t]].
  - apply perm_nil.
  - simpl. rewrite app_nil_r. apply Permutation_refl.
  - rewrite disjoint_of_many. apply jordans_SD_perm. apply sort_by_perm.
Qed.

Theorem contains_point_disjoint_of cs p b :
  contains_point (disjoint_of cs) p b = existsb (fun c => comp_has_point c p b) cs.
Proof.
  destruct cs as [|c1 [|c2 t]].
  - reflexivity.
  - simpl. rewrite orb_false_r. reflexivity.
  - rewrite disjoint_of_many. apply (contains_point_SD_perm _ (c1 :: c2 :: t)). apply sort_by_perm.
Qed.
Theorem region_disjoint_of cs p :
  region (disjoint_of cs) p = region (SD cs) p.
Proof.
  destruct cs as [|c1 [|c2 t]].
  - reflexivity.
  - simpl. rewrite reg_or_Out_r. reflexivity.
  - rewrite disjoint_of_many. apply region_SD_perm. apply sort_by_perm.
Qed.
Theorem shape_area_disjoint_of cs : shape_area (disjoint_of cs) = shape_area (SD cs).
Proof. apply shape_area_jordans_perm, jordans_disjoint_of. Qed.
Theorem moment_disjoint_of cs a b : moment (disjoint_of cs) a b = moment (SD cs) a b.
Proof. apply moment_jordans_perm, jordans_disjoint_of. Qed.

(* the constructor's result does not depend on the order of the arguments, as
   far as points / regions / area / moments are concerned *)
Theorem contains_point_disjoint_of_perm cs cs' p b :
  Permutation cs cs' ->
  contains_point (disjoint_of cs) p b = contains_point (disjoint_of cs') p b.
Proof. intros H. rewrite !contains_point_disjoint_of. apply existsb_perm, H. Qed.
Theorem region_disjoint_of_perm cs cs' p :
  Permutation cs cs' -> region (disjoint_of cs) p = region (disjoint_of cs') p.
Proof. intros H. rewrite !region_disjoint_of. apply region_SD_perm, H. Qed.
Theorem shape_area_disjoint_of_perm cs cs' :
  Permutation cs cs' -> shape_area (disjoint_of cs) = shape_area (disjoint_of cs').
Proof.
  intros H. rewrite !shape_area_disjoint_of.
  apply shape_area_jordans_perm, jordans_SD_perm, H.
Qed.
Theorem moment_disjoint_of_perm cs cs' a b :
  Permutation cs cs' -> moment (disjoint_of cs) a b = moment (disjoint_of cs') a b.
Proof.
  intros H. rewrite !moment_disjoint_of.
  apply moment_jordans_perm, jordans_SD_perm, H.
Qed.

(* the ConnectedShape constructor `CC (sort_by area_ge js)` *)
Theorem contains_point_CC_sorted js p b :
  contains_point (SC (CC (sort_by area_ge js))) p b = contains_point (SC (CC js)) p b.
Proof. apply contains_point_CC_perm, sort_by_perm. Qed.
Theorem region_CC_sorted js p :
  region (SC (CC (sort_by area_ge js))) p = region (SC (CC js)) p.
Proof. apply region_CC_perm, sort_by_perm. Qed.
Theorem shape_area_CC_sorted js :
  shape_area (SC (CC (sort_by area_ge js))) = shape_area (SC (CC js)).
Proof. apply shape_area_jordans_perm. simpl. apply sort_by_perm. Qed.
Theorem comp_area_CC_sorted js :
  comp_area (CC (sort_by area_ge js)) = comp_area (CC js).
Proof. apply comp_area_perm, sort_by_perm. Qed.
Theorem moment_CC_sorted js a b :
  moment (SC (CC (sort_by area_ge js))) a b = moment (SC (CC js)) a b.
Proof. apply moment_jordans_perm. simpl. apply sort_by_perm. Qed.

(* ---------- B5: with distinct keys the stored order is canonical ---------- *)
Section SortCanonical.
  Context {A : Type} (le : A -> A -> bool).
  Hypothesis le_total : forall x y, le x y = true \/ le y x = true.
  Hypothesis le_trans : forall x y z, le x y = true -> le y z = true -> le x z = true.

  Definition leP (x y : A) : Prop := le x y = true.

  Lemma insert_sorted_sorted x l :
    StronglySorted leP l -> StronglySorted leP (insert_sorted le x l).
  Proof.
    induction l as [|y t IH]; simpl; intros H.
    - constructor; constructor.
    - inversion H as [|? ? Ht Hy]; subst.
      destruct (le x y) eqn:E.
      + constructor; [exact H|]. constructor; [exact E|].
        rewrite Forall_forall in *. intros z Hz. eapply le_trans; [exact E | apply Hy, Hz].
      + assert (Eyx : le y x = true) by (destruct (le_total x y); congruence).
        constructor; [apply IH, Ht|].
        rewrite Forall_forall in *. intros z Hz.
        apply (Permutation_in _ (insert_sorted_perm le x t)) in Hz.
        destruct Hz as [<-|Hz]; [exact Eyx | apply Hy, Hz].
  Qed.

  Lemma sort_by_sorted l : StronglySorted leP (sort_by le l).
  Proof.
    induction l as [|x t IH]; [constructor|].
    change (sort_by le (x :: t)) with (insert_sorted le x (sort_by le t)).
    apply insert_sorted_sorted, IH.
  Qed.

  Lemma sorted_perm_eq : forall l l',
    (forall x y, In x l -> In y l -> le x y = true -> le y x = true -> x = y) ->
    StronglySorted leP l -> StronglySorted leP l' -> Permutation l l' -> l = l'.
  Proof.
    induction l as [|x t IH]; intros l' Hanti Hs Hs' Hp.
    - apply Permutation_nil in Hp. auto.
    - destruct l' as [|y t'].
      { apply Permutation_sym, Permutation_nil in Hp. discriminate. }
      inversion Hs as [|? ? Hst Hx]; subst.
      inversion Hs' as [|? ? Hst' Hy]; subst.
      rewrite Forall_forall in Hx, Hy.
      assert (Exy : x = y).
      { assert (Hxin : In x (y :: t')) by (apply (Permutation_in _ Hp); left; reflexivity).
        assert (Hyin : In y (x :: t))
          by (apply (Permutation_in _ (Permutation_sym Hp)); left; reflexivity).
        destruct Hxin as [->|Hxin]; [reflexivity|].
        destruct Hyin as [->|Hyin]; [reflexivity|].
        apply Hanti; [left; reflexivity | right; exact Hyin | apply Hx, Hyin | apply Hy, Hxin]. }
      subst y. f_equal.
      apply IH; auto.
      + intros a b Ha Hb. apply Hanti; right; assumption.
      + eapply Permutation_cons_inv. exact Hp.
  Qed.

  Theorem sort_by_canonical l l' :
    (forall x y, In x l -> In y l -> le x y = true -> le y x = true -> x = y) ->
    Permutation l l' -> sort_by le l = sort_by le l'.
  Proof.
    intros Hanti Hp. apply sorted_perm_eq.
    - intros x y Hx Hy.
      apply Hanti; [exact (Permutation_in _ (sort_by_perm le l) Hx)
                   | exact (Permutation_in _ (sort_by_perm le l) Hy)].
    - apply sort_by_sorted.
    - apply sort_by_sorted.
    - eapply perm_trans; [apply sort_by_perm|].
      eapply perm_trans; [exact Hp|]. apply Permutation_sym, sort_by_perm.
  Qed.
End SortCanonical.

Lemma Qle_bool_total x y : Qle_bool x y = true \/ Qle_bool y x = true.
Proof.
  rewrite !Qle_bool_iff. destruct (Qlt_le_dec x y) as [H|H]; [left; apply Qlt_le_weak, H | right; exact H].
Qed.
Lemma Qle_bool_trans x y z : Qle_bool x y = true -> Qle_bool y z = true -> Qle_bool x z = true.
Proof. rewrite !Qle_bool_iff. apply Qle_trans. Qed.

(* DisjointShape constructor: if the component areas are pairwise different, the
   stored shape does not depend on the order of the arguments *)
Theorem disjoint_of_canonical cs cs' :
  (forall x y, In x cs -> In y cs -> comp_area x == comp_area y -> x = y) ->
  Permutation cs cs' -> disjoint_of cs = disjoint_of cs'.
Proof.
  intros Hd Hp.
  assert (Hs : sort_by comp_ge cs = sort_by comp_ge cs').
  { apply sort_by_canonical; auto.
    - intros x y. apply Qle_bool_total.
    - intros x y z H1 H2. unfold comp_ge in *. eapply Qle_bool_trans; eassumption.
    - intros x y Hx Hy H1 H2. apply Hd; auto. unfold comp_ge in *.
      rewrite Qle_bool_iff in H1, H2. apply Qle_antisym; assumption. }
  pose proof (Permutation_length Hp) as HL.
  destruct cs as [|c1 [|c2 t]], cs' as [|d1 [|d2 t']]; simpl in HL; try discriminate.
  - reflexivity.
  - apply Permutation_length_1 in Hp. subst. reflexivity.
  - rewrite !disjoint_of_many. f_equal. exact Hs.
Qed.

Theorem CC_sorted_canonical js js' :
  (forall x y, In x js -> In y js -> jordan_area x == jordan_area y -> x = y) ->
  Permutation js js' -> CC (sort_by area_ge js) = CC (sort_by area_ge js').
Proof.
  intros Hd Hp. f_equal. apply sort_by_canonical; auto.
  - intros x y. apply Qle_bool_total.
  - intros x y z H1 H2. unfold area_ge in *. eapply Qle_bool_trans; eassumption.
  - intros x y Hx Hy H1 H2. apply Hd; auto. unfold area_ge in *.
    rewrite Qle_bool_iff in H1, H2. apply Qle_antisym; assumption.
Qed.

Print Assumptions sub_ok.
Print Assumptions xor_ok.
Print Assumptions eval_expr_sound.
Print Assumptions xor_example.
Print Assumptions contains_SC_SD_true.
Print Assumptions contains_point_SD_perm.
Print Assumptions region_SD_perm.
Print Assumptions region_CC_perm.
Print Assumptions shape_area_SD_perm.
Print Assumptions moment_SD_perm.
Print Assumptions sort_by_perm.
Print Assumptions moment_disjoint_of_perm.
Print Assumptions sort_by_canonical.
Print Assumptions disjoint_of_canonical.
Print Assumptions CC_sorted_canonical.
