(* RaySum.v -- the one-dimensional core of "A | B is the union" (and of the
   other boolean operators): along the upward vertical ray from p, the signed
   crossings of dA that lie outside B plus the signed crossings of dB that lie
   outside A count exactly the boundary of A u B.

   Stage 1: a purely combinatorial statement about two finite families of
            signed crossings (height, sign) on a line.
   Stage 2: the crossings of a chain of straight edges with a vertical line,
            [wn_lines j (x, y) = above (crossings j x) y], and the ray-sum
            theorems for two chains. *)
From Coq Require Import QArith Lqa Lia ZArith List Bool.
From SV Require Import Spec.Spec Lemmas.Winding Lemmas.Constancy.
Import ListNotations.
Open Scope Q_scope.

(* ------------------------------------------------------------------ *)
(* 0. booleans, filters                                                *)
(* ------------------------------------------------------------------ *)
Lemma Qltb_true a b : Qlt_bool a b = true <-> a < b.
Proof.
  unfold Qlt_bool. destruct (Qle_bool b a) eqn:E; cbn [negb]; split; intro H;
    try discriminate; try reflexivity; qb; lra.
Qed.
Lemma Qltb_false a b : Qlt_bool a b = false <-> b <= a.
Proof.
  unfold Qlt_bool. destruct (Qle_bool b a) eqn:E; cbn [negb]; split; intro H;
    try discriminate; try reflexivity; qb; lra.
Qed.
Lemma Qeqb_false a b : Qeq_bool a b = false <-> ~ a == b.
Proof.
  split.
  - apply Qeq_bool_neq.
  - intro H. destruct (Qeq_bool a b) eqn:E; [|reflexivity].
    apply Qeq_bool_iff in E. contradiction.
Qed.

Lemma filter_len_le {A} (f g : A -> bool) l :
  (forall x, In x l -> f x = true -> g x = true) ->
  (length (filter f l) <= length (filter g l))%nat.
Proof.
  induction l as [|a l IH]; intro H; cbn [filter]; [lia|].
  assert (IH' := IH (fun x Hx => H x (or_intror Hx))).
  pose proof (H a (or_introl eq_refl)) as Ha.
  destruct (f a); destruct (g a); cbn [length]; try lia.
  all: try (specialize (Ha eq_refl); discriminate).
Qed.

Lemma filter_len_lt {A} (f g : A -> bool) l x :
  (forall x, In x l -> f x = true -> g x = true) ->
  In x l -> f x = false -> g x = true ->
  (length (filter f l) < length (filter g l))%nat.
Proof.
  induction l as [|a l IH]; intros H Hx Hf Hg; [destruct Hx|].
  cbn [filter].
  assert (H' : forall x, In x l -> f x = true -> g x = true)
    by (intros z Hz; apply H; right; exact Hz).
  destruct Hx as [->|Hx].
  - rewrite Hf, Hg. cbn [length]. pose proof (filter_len_le f g l H'). lia.
  - specialize (IH H' Hx Hf Hg).
    pose proof (H a (or_introl eq_refl)) as Ha.
    destruct (f a); destruct (g a); cbn [length]; try lia.
    all: try (specialize (Ha eq_refl); discriminate).
Qed.

(* ------------------------------------------------------------------ *)
(* 1. STAGE 1: signed crossings on a line                              *)
(* ------------------------------------------------------------------ *)
Definition crossing := (Q * Z)%type.      (* (height, sign) *)

(* signed number of crossings strictly above height y *)
Definition above (L : list crossing) (y : Q) : Z :=
  Zsum (map snd (filter (fun c => Qlt_bool y (fst c)) L)).

(* weighted sum of the crossings strictly above y / exactly at height h *)
Definition sumw (w : crossing -> Z) (L : list crossing) (y : Q) : Z :=
  Zsum (map (fun c => (snd c * w c)%Z) (filter (fun c => Qlt_bool y (fst c)) L)).
Definition atw (w : crossing -> Z) (L : list crossing) (h : Q) : Z :=
  Zsum (map (fun c => (snd c * w c)%Z) (filter (fun c => Qeq_bool (fst c) h) L)).
Definition cnt (L : list crossing) (y : Q) : nat :=
  length (filter (fun c => Qlt_bool y (fst c)) L).

Lemma above_sumw L y : above L y = sumw (fun _ => 1%Z) L y.
Proof.
  unfold above, sumw. induction (filter (fun c => Qlt_bool y (fst c)) L) as [|c l IH];
    cbn [map Zsum]; [reflexivity | rewrite IH; lia].
Qed.

Lemma above_Qeq L y y' : y == y' -> above L y = above L y'.
Proof.
  intro E. unfold above. f_equal. f_equal. apply filter_ext. intro c.
  destruct (Qlt_bool y (fst c)) eqn:E1; destruct (Qlt_bool y' (fst c)) eqn:E2; auto;
    rewrite ?Qltb_true, ?Qltb_false in *; lra.
Qed.

(* no crossing in (y, y'] *)
Lemma above_gap L y y' : y <= y' ->
  (forall c, In c L -> y < fst c -> y' < fst c) -> above L y = above L y'.
Proof.
  intros Hy H. unfold above. f_equal. f_equal. apply filter_ext_in. intros c Hc.
  specialize (H c Hc).
  destruct (Qlt_bool y (fst c)) eqn:E1; destruct (Qlt_bool y' (fst c)) eqn:E2; auto;
    rewrite ?Qltb_true, ?Qltb_false in *; lra.
Qed.

Lemma none_above (L : list crossing) y : (forall c, In c L -> ~ y < fst c) ->
  filter (fun c => Qlt_bool y (fst c)) L = [].
Proof.
  induction L as [|c L IH]; intro H; cbn [filter]; [reflexivity|].
  destruct (Qlt_bool y (fst c)) eqn:E.
  - apply Qltb_true in E. exfalso. apply (H c); [left; reflexivity | exact E].
  - apply IH. intros c' Hc'. apply H. right; exact Hc'.
Qed.

Lemma above_dec (L : list crossing) y :
  (exists c, In c L /\ y < fst c) \/ (forall c, In c L -> ~ y < fst c).
Proof.
  induction L as [|c L [(c' & H1 & H2)|IH]].
  - right. intros c [].
  - left. exists c'. split; [right; exact H1 | exact H2].
  - destruct (Qlt_le_dec y (fst c)) as [Lt|Le].
    + left. exists c. split; [left; reflexivity | exact Lt].
    + right. intros c' [<-|Hc']; [lra | apply IH; exact Hc'].
Qed.

(* the lowest crossing above y *)
Lemma lowest (L : list crossing) y : (exists c, In c L /\ y < fst c) ->
  exists c0, In c0 L /\ y < fst c0 /\ forall c, In c L -> y < fst c -> fst c0 <= fst c.
Proof.
  induction L as [|c L IH]; intros (c' & Hc' & Hy); [destruct Hc'|].
  destruct (above_dec L y) as [Ex|No].
  - destruct (IH Ex) as (c1 & I1 & Y1 & M1).
    destruct (Qlt_le_dec y (fst c)) as [Lt|Le].
    + destruct (Qlt_le_dec (fst c) (fst c1)) as [L1|L1].
      * exists c. split; [left; reflexivity|]. split; [exact Lt|].
        intros d [<-|Hd] Yd; [lra|]. specialize (M1 d Hd Yd). lra.
      * exists c1. split; [right; exact I1|]. split; [exact Y1|].
        intros d [<-|Hd] Yd; [lra|]. apply M1; assumption.
    + exists c1. split; [right; exact I1|]. split; [exact Y1|].
      intros d [<-|Hd] Yd; [lra|]. apply M1; assumption.
  - destruct Hc' as [->|Hc']; [|exfalso; apply (No c' Hc' Hy)].
    exists c'. split; [left; reflexivity|]. split; [exact Hy|].
    intros d [<-|Hd] Yd; [lra|]. exfalso. apply (No d Hd Yd).
Qed.

Lemma cnt_lt L y c0 : In c0 L -> y < fst c0 -> (cnt L (fst c0) < cnt L y)%nat.
Proof.
  intros I Y. unfold cnt.
  apply (filter_len_lt (fun c => Qlt_bool (fst c0) (fst c)) (fun c => Qlt_bool y (fst c)) L c0).
  - intros c _ H. apply Qltb_true in H. apply Qltb_true. lra.
  - exact I.
  - apply Qltb_false. lra.
  - apply Qltb_true. exact Y.
Qed.

(* passing the lowest level h above y *)
Lemma sumw_step w L y h : y < h ->
  (forall c, In c L -> y < fst c -> h <= fst c) ->
  sumw w L y = (sumw w L h + atw w L h)%Z.
Proof.
  intros Yh. unfold sumw, atw. induction L as [|c L IH]; intro H; [reflexivity|].
  assert (IH' := IH (fun d Hd => H d (or_intror Hd))).
  pose proof (H c (or_introl eq_refl)) as Hc.
  cbn [filter].
  destruct (Qlt_bool y (fst c)) eqn:E1; destruct (Qlt_bool h (fst c)) eqn:E2;
    destruct (Qeq_bool (fst c) h) eqn:E3; cbn [map Zsum]; try lia; exfalso;
    rewrite ?Qltb_true, ?Qltb_false, ?Qeq_bool_iff, ?Qeqb_false in *;
    try (specialize (Hc E1)); lra.
Qed.

Lemma atw_none w L h : (forall c, In c L -> ~ fst c == h) -> atw w L h = 0%Z.
Proof.
  intro H. unfold atw. induction L as [|c L IH]; [reflexivity|]. cbn [filter].
  destruct (Qeq_bool (fst c) h) eqn:E.
  - apply Qeq_bool_iff in E. exfalso. apply (H c); [left; reflexivity | exact E].
  - apply IH. intros d Hd. apply H. right; exact Hd.
Qed.

Lemma atw_const w L h k : (forall c, fst c == h -> w c = k) ->
  atw w L h = (atw (fun _ => 1%Z) L h * k)%Z.
Proof.
  intro H. unfold atw. induction L as [|c L IH]; [reflexivity|]. cbn [filter].
  destruct (Qeq_bool (fst c) h) eqn:E; [|exact IH].
  apply Qeq_bool_iff in E. cbn [map Zsum]. rewrite IH, (H c E). lia.
Qed.

Lemma above_step L y h : y < h ->
  (forall c, In c L -> y < fst c -> h <= fst c) ->
  above L y = (above L h + atw (fun _ => 1%Z) L h)%Z.
Proof. intros Yh H. rewrite !above_sumw. apply sumw_step; assumption. Qed.

(* 0/1-valuedness off the crossing heights implies it everywhere *)
Lemma above01_everywhere L :
  (forall y, (forall c, In c L -> ~ fst c == y) -> above L y = 0%Z \/ above L y = 1%Z) ->
  forall y, above L y = 0%Z \/ above L y = 1%Z.
Proof.
  intros H y. destruct (above_dec L y) as [Ex|No].
  - destruct (lowest L y Ex) as (c0 & I0 & Y0 & M0).
    set (y' := (y + fst c0) * (1 # 2)).
    assert (Y1 : y < y') by (unfold y'; lra).
    assert (Y2 : y' < fst c0) by (unfold y'; lra).
    rewrite (above_gap L y y') by (try lra; intros c Hc Yc; specialize (M0 c Hc Yc); lra).
    apply H. intros c Hc E.
    assert (Yc : y < fst c) by lra. specialize (M0 c Hc Yc). lra.
  - left. unfold above. rewrite (none_above L y No). reflexivity.
Qed.

Section RaySum.
  Variables LA LB : list crossing.
  (* no crossing of A at the height of a crossing of B *)
  Hypothesis Hdisj : forall a b, In a LA -> In b LB -> ~ fst a == fst b.
  Hypothesis HA : forall y, above LA y = 0%Z \/ above LA y = 1%Z.
  Hypothesis HB : forall y, above LB y = 0%Z \/ above LB y = 1%Z.

  (* Phi = indicator of the combined region as a function of the two
     indicators; wA b = weight of a crossing of dA at a place where the
     indicator of B is b; wB a likewise *)
  Variables (Phi : Z -> Z -> Z) (wA wB : Z -> Z).
  Hypothesis Phi00 : Phi 0%Z 0%Z = 0%Z.
  Hypothesis PhiA : forall a a' b, (a = 0 \/ a = 1)%Z -> (a' = 0 \/ a' = 1)%Z ->
    (b = 0 \/ b = 1)%Z -> (Phi a' b - Phi a b = (a' - a) * wA b)%Z.
  Hypothesis PhiB : forall a b b', (a = 0 \/ a = 1)%Z -> (b = 0 \/ b = 1)%Z ->
    (b' = 0 \/ b' = 1)%Z -> (Phi a b' - Phi a b = (b' - b) * wB a)%Z.

  Theorem ray_sum_gen y :
    (sumw (fun c => wA (above LB (fst c))) LA y
     + sumw (fun c => wB (above LA (fst c))) LB y)%Z
    = Phi (above LA y) (above LB y).
  Proof.
    assert (G : forall N y, (cnt (LA ++ LB) y < N)%nat ->
      (sumw (fun c => wA (above LB (fst c))) LA y
       + sumw (fun c => wB (above LA (fst c))) LB y)%Z
      = Phi (above LA y) (above LB y)); [|apply (G (S (cnt (LA ++ LB) y))); lia].
    clear y. induction N as [|N IH]; intros y Hn; [lia|].
    destruct (above_dec (LA ++ LB) y) as [Ex|No].
    - destruct (lowest _ y Ex) as (c0 & I0 & Y0 & M0).
      set (h := fst c0) in *.
      assert (MA : forall c, In c LA -> y < fst c -> h <= fst c)
        by (intros c Hc; apply M0; apply in_or_app; left; exact Hc).
      assert (MB : forall c, In c LB -> y < fst c -> h <= fst c)
        by (intros c Hc; apply M0; apply in_or_app; right; exact Hc).
      assert (Hh : (cnt (LA ++ LB) h < N)%nat)
        by (pose proof (cnt_lt _ y c0 I0 Y0) as CL; change (fst c0) with h in CL; lia).
      specialize (IH h Hh).
      rewrite (sumw_step _ LA y h Y0 MA), (sumw_step _ LB y h Y0 MB).
      rewrite (above_step LA y h Y0 MA), (above_step LB y h Y0 MB).
      rewrite (atw_const _ LA h (wA (above LB h)))
        by (intros c E; f_equal; apply above_Qeq; exact E).
      rewrite (atw_const _ LB h (wB (above LA h)))
        by (intros c E; f_equal; apply above_Qeq; exact E).
      pose proof (above_step LA y h Y0 MA) as SA.
      pose proof (above_step LB y h Y0 MB) as SB.
      apply in_app_or in I0. destruct I0 as [I0|I0].
      + assert (ZB : atw (fun _ => 1%Z) LB h = 0%Z).
        { apply atw_none. intros c Hc E. apply (Hdisj c0 c I0 Hc). fold h. lra. }
        rewrite ZB in *.
        pose proof (PhiA (above LA h) (above LA y) (above LB h) (HA h) (HA y) (HB h)) as P.
        rewrite SA in P. rewrite ?Z.mul_0_l, ?Z.add_0_r. lia.
      + assert (ZA : atw (fun _ => 1%Z) LA h = 0%Z).
        { apply atw_none. intros c Hc E. apply (Hdisj c c0 Hc I0). fold h. lra. }
        rewrite ZA in *.
        pose proof (PhiB (above LA h) (above LB h) (above LB y) (HA h) (HB h) (HB y)) as P.
        rewrite SB in P. rewrite ?Z.mul_0_l, ?Z.add_0_r. lia.
    - assert (NA : forall c, In c LA -> ~ y < fst c)
        by (intros c Hc; apply No; apply in_or_app; left; exact Hc).
      assert (NB : forall c, In c LB -> ~ y < fst c)
        by (intros c Hc; apply No; apply in_or_app; right; exact Hc).
      unfold sumw, above. rewrite (none_above LA y NA), (none_above LB y NB).
      cbn [map Zsum]. rewrite Phi00. reflexivity.
  Qed.
End RaySum.

(* the filter form of a 0/1-weighted sum *)
Lemma filter_weight (g : crossing -> bool) L y :
  Zsum (map snd (filter (fun c => Qlt_bool y (fst c) && g c) L))
  = sumw (fun c => if g c then 1%Z else 0%Z) L y.
Proof.
  unfold sumw. induction L as [|c L IH]; [reflexivity|]. cbn [filter].
  destruct (Qlt_bool y (fst c)); cbn [andb]; [|exact IH].
  cbn [map Zsum]. destruct (g c); cbn [map Zsum]; rewrite IH; lia.
Qed.

Definition b2z (b : bool) : Z := if b then 1%Z else 0%Z.

Section Operators.
  Variables LA LB : list crossing.
  Hypothesis Hdisj : forall a b, In a LA -> In b LB -> ~ fst a == fst b.
  (* 0/1-valued at every height that is not a crossing height *)
  Hypothesis HA : forall y, (forall c, In c LA -> ~ fst c == y) ->
    above LA y = 0%Z \/ above LA y = 1%Z.
  Hypothesis HB : forall y, (forall c, In c LB -> ~ fst c == y) ->
    above LB y = 0%Z \/ above LB y = 1%Z.

  Let HA' := above01_everywhere LA HA.
  Let HB' := above01_everywhere LB HB.

  (* crossings of dA outside B + crossings of dB outside A = boundary of A u B *)
  Theorem ray_sum_union y0 :
    (Zsum (map snd (filter (fun c => Qlt_bool y0 (fst c) && (above LB (fst c) =? 0)%Z) LA))
     + Zsum (map snd (filter (fun c => Qlt_bool y0 (fst c) && (above LA (fst c) =? 0)%Z) LB)))%Z
    = (if (above LA y0 =? 0)%Z && (above LB y0 =? 0)%Z then 0 else 1)%Z.
  Proof.
    rewrite !filter_weight.
    apply (ray_sum_gen LA LB Hdisj HA' HB'
             (fun a b => if (a =? 0)%Z && (b =? 0)%Z then 0 else 1)%Z
             (fun b => if (b =? 0)%Z then 1 else 0)%Z
             (fun a => if (a =? 0)%Z then 1 else 0)%Z).
    - reflexivity.
    - intros a a' b [->| ->] [->| ->] [->| ->]; reflexivity.
    - intros a b b' [->| ->] [->| ->] [->| ->]; reflexivity.
  Qed.

  (* crossings of dA inside B + crossings of dB inside A = boundary of A n B *)
  Theorem ray_sum_inter y0 :
    (Zsum (map snd (filter (fun c => Qlt_bool y0 (fst c) && (above LB (fst c) =? 1)%Z) LA))
     + Zsum (map snd (filter (fun c => Qlt_bool y0 (fst c) && (above LA (fst c) =? 1)%Z) LB)))%Z
    = (if (above LA y0 =? 1)%Z && (above LB y0 =? 1)%Z then 1 else 0)%Z.
  Proof.
    rewrite !filter_weight.
    apply (ray_sum_gen LA LB Hdisj HA' HB'
             (fun a b => if (a =? 1)%Z && (b =? 1)%Z then 1 else 0)%Z
             (fun b => if (b =? 1)%Z then 1 else 0)%Z
             (fun a => if (a =? 1)%Z then 1 else 0)%Z).
    - reflexivity.
    - intros a a' b [->| ->] [->| ->] [->| ->]; reflexivity.
    - intros a b b' [->| ->] [->| ->] [->| ->]; reflexivity.
  Qed.

  (* crossings of dA outside B - crossings of dB inside A = boundary of A \ B *)
  Theorem ray_sum_diff y0 :
    (Zsum (map snd (filter (fun c => Qlt_bool y0 (fst c) && (above LB (fst c) =? 0)%Z) LA))
     - Zsum (map snd (filter (fun c => Qlt_bool y0 (fst c) && (above LA (fst c) =? 1)%Z) LB)))%Z
    = (if (above LA y0 =? 1)%Z && (above LB y0 =? 0)%Z then 1 else 0)%Z.
  Proof.
    rewrite !filter_weight.
    rewrite <- (ray_sum_gen LA LB Hdisj HA' HB'
             (fun a b => if (a =? 1)%Z && (b =? 0)%Z then 1 else 0)%Z
             (fun b => if (b =? 0)%Z then 1 else 0)%Z
             (fun a => if (a =? 1)%Z then -1 else 0)%Z).
    - enough (E : sumw (fun c => if (above LA (fst c) =? 1)%Z then (-1)%Z else 0%Z) LB y0
                  = (- sumw (fun c => if (above LA (fst c) =? 1)%Z then 1%Z else 0%Z) LB y0)%Z)
        by (rewrite E; lia).
      unfold sumw. induction (filter (fun c => Qlt_bool y0 (fst c)) LB) as [|c l IH];
        [reflexivity|]. cbn [map Zsum]. rewrite IH.
      destruct (above LA (fst c) =? 1)%Z; lia.
    - reflexivity.
    - intros a a' b [->| ->] [->| ->] [->| ->]; reflexivity.
    - intros a b b' [->| ->] [->| ->] [->| ->]; reflexivity.
  Qed.
End Operators.

(* ------------------------------------------------------------------ *)
(* 2. STAGE 2: crossings of a chain with the vertical line at x        *)
(* ------------------------------------------------------------------ *)
(* the edge a->b is met by the vertical line at x (half-open rule of [cr]) *)
Definition spans (a b : point) (x : Q) : bool :=
  (Qle_bool (px a) x && Qlt_bool x (px b)) || (Qle_bool (px b) x && Qlt_bool x (px a)).
(* the value of [cr a b] far below the edge *)
Definition esign (a b : point) : Z := if Qlt_bool (px a) (px b) then (-1)%Z else 1%Z.

Lemma spans_iff a b x :
  spans a b x = true <-> (px a <= x /\ x < px b) \/ (px b <= x /\ x < px a).
Proof.
  unfold spans. rewrite orb_true_iff, !andb_true_iff, !Qle_bool_iff, !Qltb_true. tauto.
Qed.

(* for a fixed abscissa, [cr] as a function of the height is a step function:
   esign below the hit height [ystar a b x], 0 at and above it *)
Lemma cr_height a b x y :
  cr a b (x, y) =
  if spans a b x then (if Qlt_bool y (ystar a b x) then esign a b else 0%Z) else 0%Z.
Proof.
  destruct (spans a b x) eqn:S.
  - apply spans_iff in S.
    assert (D : ~ px b - px a == 0) by lra.
    rewrite cr_crq. change (px (x, y)) with x.
    rewrite (crq_ext (px a) (px b) x (orient a b (x, y))
                     (px a) (px b) x ((px b - px a) * (y - ystar a b x)))
      by (rewrite ?(orient_ystar a b x y D); tauto).
    set (ys := ystar a b x). clearbody ys. clear D.
    unfold crq, esign, Qlt_bool.
    dq; cbn [andb negb]; try reflexivity; exfalso; qb; destruct S; try lra; nra.
  - unfold cr. change (px (x, y)) with x. unfold spans in S.
    apply orb_false_iff in S. destruct S as [S1 S2]. rewrite S1, S2. reflexivity.
Qed.

(* the crossing (hit height, sign) of an edge with the line, its hit point *)
Definition xing (x : Q) (s : seg) : crossing :=
  (ystar (first_pt s) (last_pt s) x, esign (first_pt s) (last_pt s)).
Definition hit (x : Q) (s : seg) : point := (x, ystar (first_pt s) (last_pt s) x).
Definition crossings (j : jordan) (x : Q) : list crossing :=
  map (xing x) (filter (fun s => spans (first_pt s) (last_pt s) x) j).

(* weighted crossing sums along the upward ray from (x, y) *)
Lemma cr_sum_sumw (W : crossing -> Z) j x y :
  Zsum (map (fun s => (cr (first_pt s) (last_pt s) (x, y) * W (xing x s))%Z) j)
  = sumw W (crossings j x) y.
Proof.
  unfold crossings, sumw. induction j as [|s j IH]; [reflexivity|].
  cbn [map Zsum filter]. rewrite IH, cr_height.
  destruct (spans (first_pt s) (last_pt s) x); [|lia].
  cbn [map filter]. change (fst (xing x s)) with (ystar (first_pt s) (last_pt s) x).
  destruct (Qlt_bool y (ystar (first_pt s) (last_pt s) x)); cbn [map Zsum]; [|lia].
  change (snd (xing x s)) with (esign (first_pt s) (last_pt s)). lia.
Qed.

(* the winding number on the line is the signed number of crossings above *)
Theorem wn_above j x y : wn_lines j (x, y) = above (crossings j x) y.
Proof.
  rewrite above_sumw, <- cr_sum_sumw. unfold wn_lines. f_equal. apply map_ext.
  intro s. lia.
Qed.

Lemma in_crossings j x c : In c (crossings j x) ->
  exists s, In s j /\ spans (first_pt s) (last_pt s) x = true /\ c = xing x s.
Proof.
  unfold crossings. intro H. apply in_map_iff in H. destruct H as (s & <- & Hs).
  apply filter_In in Hs. exists s. tauto.
Qed.

Lemma crossings_in j x s : In s j -> spans (first_pt s) (last_pt s) x = true ->
  In (xing x s) (crossings j x).
Proof. intros H S. unfold crossings. apply in_map. apply filter_In. tauto. Qed.

(* no crossing of ja with the line at the height of a crossing of jb *)
Definition xdisj (ja jb : jordan) (x : Q) : Prop :=
  forall s t, In s ja -> In t jb ->
    spans (first_pt s) (last_pt s) x = true -> spans (first_pt t) (last_pt t) x = true ->
    ~ ystar (first_pt s) (last_pt s) x == ystar (first_pt t) (last_pt t) x.
(* the winding number takes only the values 0, 1 on the line at x *)
Definition wn01 (j : jordan) (x : Q) : Prop :=
  forall y, wn_lines j (x, y) = 0%Z \/ wn_lines j (x, y) = 1%Z.

Section RaySumLines.
  Variables (ja jb : jordan) (x : Q).
  Hypothesis Hdisj : xdisj ja jb x.
  Hypothesis HA : wn01 ja x.
  Hypothesis HB : wn01 jb x.
  Variables (Phi : Z -> Z -> Z) (wA wB : Z -> Z).
  Hypothesis Phi00 : Phi 0%Z 0%Z = 0%Z.
  Hypothesis PhiA : forall a a' b, (a = 0 \/ a = 1)%Z -> (a' = 0 \/ a' = 1)%Z ->
    (b = 0 \/ b = 1)%Z -> (Phi a' b - Phi a b = (a' - a) * wA b)%Z.
  Hypothesis PhiB : forall a b b', (a = 0 \/ a = 1)%Z -> (b = 0 \/ b = 1)%Z ->
    (b' = 0 \/ b' = 1)%Z -> (Phi a b' - Phi a b = (b' - b) * wB a)%Z.

  Theorem ray_sum_lines_gen y :
    (Zsum (map (fun s => (cr (first_pt s) (last_pt s) (x, y)
                          * wA (wn_lines jb (hit x s)))%Z) ja)
     + Zsum (map (fun t => (cr (first_pt t) (last_pt t) (x, y)
                            * wB (wn_lines ja (hit x t)))%Z) jb))%Z
    = Phi (wn_lines ja (x, y)) (wn_lines jb (x, y)).
  Proof.
    assert (EA : Zsum (map (fun s => (cr (first_pt s) (last_pt s) (x, y)
                          * wA (wn_lines jb (hit x s)))%Z) ja)
                 = sumw (fun c => wA (above (crossings jb x) (fst c))) (crossings ja x) y).
    { rewrite <- (cr_sum_sumw (fun c => wA (above (crossings jb x) (fst c))) ja x y).
      apply Zsum_map_ext. intros s _. cbn beta. unfold hit. rewrite wn_above. reflexivity. }
    assert (EB : Zsum (map (fun t => (cr (first_pt t) (last_pt t) (x, y)
                          * wB (wn_lines ja (hit x t)))%Z) jb)
                 = sumw (fun c => wB (above (crossings ja x) (fst c))) (crossings jb x) y).
    { rewrite <- (cr_sum_sumw (fun c => wB (above (crossings ja x) (fst c))) jb x y).
      apply Zsum_map_ext. intros t _. cbn beta. unfold hit. rewrite wn_above. reflexivity. }
    rewrite EA, EB, !wn_above.
    apply ray_sum_gen; try assumption.
    - intros a b Ia Ib.
      destruct (in_crossings _ _ _ Ia) as (s & Hs & Ss & ->).
      destruct (in_crossings _ _ _ Ib) as (t & Ht & St & ->).
      exact (Hdisj s t Hs Ht Ss St).
    - intro y'. rewrite <- wn_above. apply HA.
    - intro y'. rewrite <- wn_above. apply HB.
  Qed.
End RaySumLines.

(* ------------------------------------------------------------------ *)
(* 2b. the hypotheses in geometric form                                *)
(* ------------------------------------------------------------------ *)
(* the vertical line at x passes through no vertex of j *)
Definition no_vertex_on (j : jordan) (x : Q) : Prop :=
  forall s, In s j -> ~ px (first_pt s) == x /\ ~ px (last_pt s) == x.
(* the winding number is 0 or 1 at the points of the line off the boundary *)
Definition wn01_off (j : jordan) (x : Q) : Prop :=
  forall y, on_boundary j (x, y) = false ->
    wn_lines j (x, y) = 0%Z \/ wn_lines j (x, y) = 1%Z.
(* no point of the line lies on both boundaries *)
Definition no_common (ja jb : jordan) (x : Q) : Prop :=
  forall y, on_boundary ja (x, y) = true -> on_boundary jb (x, y) = true -> False.

Lemma Qneq_cases a b : ~ a == b -> a < b \/ b < a.
Proof. intro H. destruct (Q_dec a b) as [[L|L]|E]; tauto. Qed.

(* the hit point of a spanning edge lies on the edge *)
Lemma hit_on_boundary j x s : In s j -> spans (first_pt s) (last_pt s) x = true ->
  on_boundary j (hit x s) = true.
Proof.
  intros Hs S. apply spans_iff in S. unfold on_boundary. apply existsb_exists.
  exists s. split; [exact Hs|]. unfold hit. apply on_edge_ystar; unfold betw; lra.
Qed.

(* off the vertices, a boundary point of the line is a hit point *)
Lemma on_boundary_hit j x y : no_vertex_on j x -> on_boundary j (x, y) = true ->
  exists s, In s j /\ spans (first_pt s) (last_pt s) x = true /\
            ystar (first_pt s) (last_pt s) x == y.
Proof.
  intros NV H. unfold on_boundary in H. apply existsb_exists in H.
  destruct H as (s & Hs & E). exists s. split; [exact Hs|].
  apply on_edge_iff in E. destruct E as (O & BX & _). change (px (x, y)) with x in BX.
  destruct (NV s Hs) as [N1 N2].
  apply Qneq_cases in N1. apply Qneq_cases in N2. unfold betw in BX.
  assert (S : (px (first_pt s) <= x /\ x < px (last_pt s)) \/
              (px (last_pt s) <= x /\ x < px (first_pt s))) by lra.
  split; [apply spans_iff; exact S|].
  assert (D : ~ px (last_pt s) - px (first_pt s) == 0) by lra.
  rewrite (orient_ystar _ _ x y D) in O.
  apply Qmult_integral in O. destruct O as [O|O]; [contradiction | lra].
Qed.

Lemma wn01_of_off j x : no_vertex_on j x -> wn01_off j x -> wn01 j x.
Proof.
  intros NV H y. rewrite wn_above. revert y. apply above01_everywhere.
  intros y Hno. rewrite <- wn_above. apply H.
  destruct (on_boundary j (x, y)) eqn:B; [exfalso | reflexivity].
  destruct (on_boundary_hit j x y NV B) as (s & Hs & S & E).
  apply (Hno (xing x s)); [apply crossings_in; assumption | exact E].
Qed.

Lemma xdisj_of_no_common ja jb x : no_common ja jb x -> xdisj ja jb x.
Proof.
  intros H s t Hs Ht Ss St E.
  apply (H (ystar (first_pt s) (last_pt s) x)).
  - exact (hit_on_boundary ja x s Hs Ss).
  - rewrite (on_boundary_peq jb _ (hit x t)); [exact (hit_on_boundary jb x t Ht St)|].
    unfold hit. split; cbn [px py fst snd]; [reflexivity | exact E].
Qed.

(* ------------------------------------------------------------------ *)
(* 2c. the ray-sum theorems                                            *)
(* ------------------------------------------------------------------ *)
Section RaySumTheorems.
  Variables (ja jb : jordan) (p : point).
  Hypothesis NVa : no_vertex_on ja (px p).
  Hypothesis NVb : no_vertex_on jb (px p).
  Hypothesis NC : no_common ja jb (px p).
  Hypothesis HA : wn01_off ja (px p).
  Hypothesis HB : wn01_off jb (px p).

  Let Hd := xdisj_of_no_common ja jb (px p) NC.
  Let HA' := wn01_of_off ja (px p) NVa HA.
  Let HB' := wn01_of_off jb (px p) NVb HB.

  (* crossings of dA whose hit point is outside B + crossings of dB whose hit
     point is outside A = crossings of the boundary of A u B *)
  Theorem ray_sum_lines_union :
    (Zsum (map (fun s => (cr (first_pt s) (last_pt s) p
                          * b2z (wn_lines jb (hit (px p) s) =? 0))%Z) ja)
     + Zsum (map (fun t => (cr (first_pt t) (last_pt t) p
                            * b2z (wn_lines ja (hit (px p) t) =? 0))%Z) jb))%Z
    = (if (wn_lines ja p =? 0)%Z && (wn_lines jb p =? 0)%Z then 0 else 1)%Z.
  Proof.
    destruct p as [x y]. cbn [px fst] in *.
    apply (ray_sum_lines_gen ja jb x Hd HA' HB'
             (fun a b => if (a =? 0)%Z && (b =? 0)%Z then 0 else 1)%Z
             (fun b => b2z (b =? 0)%Z) (fun a => b2z (a =? 0)%Z)).
    - reflexivity.
    - intros a a' b [->| ->] [->| ->] [->| ->]; reflexivity.
    - intros a b b' [->| ->] [->| ->] [->| ->]; reflexivity.
  Qed.

  (* crossings of dA inside B + crossings of dB inside A = boundary of A n B *)
  Theorem ray_sum_lines_inter :
    (Zsum (map (fun s => (cr (first_pt s) (last_pt s) p
                          * b2z (wn_lines jb (hit (px p) s) =? 1))%Z) ja)
     + Zsum (map (fun t => (cr (first_pt t) (last_pt t) p
                            * b2z (wn_lines ja (hit (px p) t) =? 1))%Z) jb))%Z
    = (if (wn_lines ja p =? 1)%Z && (wn_lines jb p =? 1)%Z then 1 else 0)%Z.
  Proof.
    destruct p as [x y]. cbn [px fst] in *.
    apply (ray_sum_lines_gen ja jb x Hd HA' HB'
             (fun a b => if (a =? 1)%Z && (b =? 1)%Z then 1 else 0)%Z
             (fun b => b2z (b =? 1)%Z) (fun a => b2z (a =? 1)%Z)).
    - reflexivity.
    - intros a a' b [->| ->] [->| ->] [->| ->]; reflexivity.
    - intros a b b' [->| ->] [->| ->] [->| ->]; reflexivity.
  Qed.

  (* crossings of dA outside B - crossings of dB inside A = boundary of A \ B *)
  Theorem ray_sum_lines_diff :
    (Zsum (map (fun s => (cr (first_pt s) (last_pt s) p
                          * b2z (wn_lines jb (hit (px p) s) =? 0))%Z) ja)
     + Zsum (map (fun t => (cr (first_pt t) (last_pt t) p
                            * - b2z (wn_lines ja (hit (px p) t) =? 1))%Z) jb))%Z
    = (if (wn_lines ja p =? 1)%Z && (wn_lines jb p =? 0)%Z then 1 else 0)%Z.
  Proof.
    destruct p as [x y]. cbn [px fst] in *.
    apply (ray_sum_lines_gen ja jb x Hd HA' HB'
             (fun a b => if (a =? 1)%Z && (b =? 0)%Z then 1 else 0)%Z
             (fun b => b2z (b =? 0)%Z) (fun a => (- b2z (a =? 1))%Z)).
    - reflexivity.
    - intros a a' b [->| ->] [->| ->] [->| ->]; reflexivity.
    - intros a b b' [->| ->] [->| ->] [->| ->]; reflexivity.
  Qed.

  (* symmetric difference *)
  Theorem ray_sum_lines_xor :
    (Zsum (map (fun s => (cr (first_pt s) (last_pt s) p
                          * (if (wn_lines jb (hit (px p) s) =? 0) then 1 else -1))%Z) ja)
     + Zsum (map (fun t => (cr (first_pt t) (last_pt t) p
                            * (if (wn_lines ja (hit (px p) t) =? 0) then 1 else -1))%Z) jb))%Z
    = (if (wn_lines ja p =? wn_lines jb p)%Z then 0 else 1)%Z.
  Proof.
    destruct p as [x y]. cbn [px fst] in *.
    apply (ray_sum_lines_gen ja jb x Hd HA' HB'
             (fun a b => if (a =? b)%Z then 0 else 1)%Z
             (fun b => if (b =? 0)%Z then 1 else -1)%Z
             (fun a => if (a =? 0)%Z then 1 else -1)%Z).
    - reflexivity.
    - intros a a' b [->| ->] [->| ->] [->| ->]; reflexivity.
    - intros a b b' [->| ->] [->| ->] [->| ->]; reflexivity.
  Qed.
End RaySumTheorems.

(* ------------------------------------------------------------------ *)
(* 2d. STAGE 3, first half of the glue: from the hit point to the       *)
(*     midpoint of the piece                                            *)
(* ------------------------------------------------------------------ *)
(* the open edge a-b does not meet j (after the mutual splitting of the two
   boundaries the pieces of one meet the other at most in their end points) *)
Definition open_off (j : jordan) (a b : point) : Prop :=
  forall t, 0 < t -> t < 1 -> on_boundary j (lerp_pt a b t) = false.
Definition emid (s : seg) : point := lerp_pt (first_pt s) (last_pt s) (1 # 2).

Lemma wn_lines_peq j p q : peq p q -> wn_lines j p = wn_lines j q.
Proof. intro H. rewrite !wn_lines_edges. apply wn_e_peq. exact H. Qed.

Lemma ratio01 t d e : t * d == e -> (0 < e /\ e < d) \/ (d < e /\ e < 0) ->
  0 < t /\ t < 1.
Proof. intros T [[H1 H2]|[H1 H2]]; split; nra. Qed.

(* the winding number of j is the same at the hit point and at the midpoint of
   an edge whose interior does not meet j *)
Lemma wn_hit_mid j a b x : closed_chain j = true -> ~ px a == x -> ~ px b == x ->
  spans a b x = true -> open_off j a b ->
  wn_lines j (x, ystar a b x) = wn_lines j (lerp_pt a b (1 # 2)).
Proof.
  intros HC Na Nb S Hoff. apply spans_iff in S. apply Qneq_cases in Na.
  apply Qneq_cases in Nb.
  assert (D : ~ px b - px a == 0) by lra.
  set (t0 := (x - px a) / (px b - px a)).
  assert (T : t0 * (px b - px a) == x - px a) by (unfold t0; field; exact D).
  assert (T01 : 0 < t0 /\ t0 < 1)
    by (apply (ratio01 t0 (px b - px a) (x - px a) T);
        destruct S as [[? ?]|[? ?]]; destruct Na; destruct Nb;
        ((left; lra) || (right; lra))).
  rewrite (wn_lines_peq j (x, ystar a b x) (lerp_pt a b t0)).
  - apply wn_lines_move; [exact HC|]. intros t T0 T1.
    rewrite (on_boundary_peq j _ (lerp_pt a b (t0 + t * ((1 # 2) - t0)))).
    + apply Hoff; nra.
    + unfold lerp_pt, peq; cbn [px py fst snd]. split; ring.
  - unfold lerp_pt, peq; cbn [px py fst snd]. split; [rewrite T; ring|].
    unfold ystar, t0. field. exact D.
Qed.

Section RaySumMid.
  Variables (ja jb : jordan) (p : point).
  Hypothesis Ca : closed_chain ja = true.
  Hypothesis Cb : closed_chain jb = true.
  Hypothesis NVa : no_vertex_on ja (px p).
  Hypothesis NVb : no_vertex_on jb (px p).
  Hypothesis NC : no_common ja jb (px p).
  Hypothesis HA : wn01_off ja (px p).
  Hypothesis HB : wn01_off jb (px p).
  (* the pieces of each boundary do not cross the other boundary *)
  Hypothesis OA : forall s, In s ja -> open_off jb (first_pt s) (last_pt s).
  Hypothesis OB : forall t, In t jb -> open_off ja (first_pt t) (last_pt t).

  Lemma hit_to_mid (w : Z -> Z) j j' : closed_chain j' = true ->
    no_vertex_on j (px p) ->
    (forall s, In s j -> open_off j' (first_pt s) (last_pt s)) ->
    Zsum (map (fun s => (cr (first_pt s) (last_pt s) p * w (wn_lines j' (emid s)))%Z) j)
    = Zsum (map (fun s => (cr (first_pt s) (last_pt s) p
                           * w (wn_lines j' (hit (px p) s)))%Z) j).
  Proof.
    intros C NV O. apply Zsum_map_ext. intros s Hs.
    destruct p as [x y]. cbn [px fst] in *. rewrite cr_height.
    destruct (spans (first_pt s) (last_pt s) x) eqn:S; [|reflexivity].
    unfold hit, emid.
    rewrite (wn_hit_mid j' _ _ x C (proj1 (NV s Hs)) (proj2 (NV s Hs)) S (O s Hs)). reflexivity.
  Qed.

  (* the union selection: pieces of dA whose MIDPOINT is outside B and pieces
     of dB whose midpoint is outside A *)
  Theorem ray_sum_mid_union :
    (Zsum (map (fun s => (cr (first_pt s) (last_pt s) p
                          * b2z (wn_lines jb (emid s) =? 0))%Z) ja)
     + Zsum (map (fun t => (cr (first_pt t) (last_pt t) p
                            * b2z (wn_lines ja (emid t) =? 0))%Z) jb))%Z
    = (if (wn_lines ja p =? 0)%Z && (wn_lines jb p =? 0)%Z then 0 else 1)%Z.
  Proof.
    rewrite (hit_to_mid (fun w => b2z (w =? 0)%Z) ja jb Cb NVa OA).
    rewrite (hit_to_mid (fun w => b2z (w =? 0)%Z) jb ja Ca NVb OB).
    apply ray_sum_lines_union; assumption.
  Qed.

  (* the intersection selection *)
  Theorem ray_sum_mid_inter :
    (Zsum (map (fun s => (cr (first_pt s) (last_pt s) p
                          * b2z (wn_lines jb (emid s) =? 1))%Z) ja)
     + Zsum (map (fun t => (cr (first_pt t) (last_pt t) p
                            * b2z (wn_lines ja (emid t) =? 1))%Z) jb))%Z
    = (if (wn_lines ja p =? 1)%Z && (wn_lines jb p =? 1)%Z then 1 else 0)%Z.
  Proof.
    rewrite (hit_to_mid (fun w => b2z (w =? 1)%Z) ja jb Cb NVa OA).
    rewrite (hit_to_mid (fun w => b2z (w =? 1)%Z) jb ja Ca NVb OB).
    apply ray_sum_lines_inter; assumption.
  Qed.
End RaySumMid.

(* ------------------------------------------------------------------ *)
(* 3. non-vacuity: two overlapping squares                             *)
(* ------------------------------------------------------------------ *)
Definition sq2 : jordan :=
  [[(2,2);(6,2)]; [(6,2);(6,6)]; [(6,6);(2,6)]; [(2,6);(2,2)]].

Lemma wn01_off_of_wn01 j x : wn01 j x -> wn01_off j x.
Proof. intros H y _. apply H. Qed.

Ltac line01 j x :=
  let y := fresh "y" in
  intro y; rewrite wn_above;
  let l := eval vm_compute in (crossings j x) in
  change (crossings j x) with l;
  unfold above; cbn [filter fst];
  repeat match goal with
  | |- context[Qlt_bool y ?h] => let E := fresh "E" in destruct (Qlt_bool y h) eqn:E
  end; cbn [map Zsum snd];
  try (left; reflexivity); try (right; reflexivity); exfalso;
  rewrite ?Qltb_true, ?Qltb_false in *; lra.

Lemma sq_wn01 : wn01 sq 3.
Proof. line01 sq 3. Qed.
Lemma sq2_wn01 : wn01 sq2 3.
Proof. line01 sq2 3. Qed.

Ltac in_cases H :=
  cbn [In sq sq2] in H;
  repeat match type of H with _ \/ _ => destruct H as [H|H] end;
  try contradiction; subst.

Lemma sq_nv : no_vertex_on sq 3.
Proof.
  intros s Hs. unfold sq in Hs. in_cases Hs; cbn [first_pt last_pt hd last px fst];
    split; intro E; vm_compute in E; discriminate.
Qed.
Lemma sq2_nv : no_vertex_on sq2 3.
Proof.
  intros s Hs. unfold sq2 in Hs. in_cases Hs; cbn [first_pt last_pt hd last px fst];
    split; intro E; vm_compute in E; discriminate.
Qed.

Lemma sq_sq2_no_common : no_common sq sq2 3.
Proof.
  intros y Ha Hb.
  destruct (on_boundary_hit sq 3 y sq_nv Ha) as (s & Hs & Ss & Es).
  destruct (on_boundary_hit sq2 3 y sq2_nv Hb) as (t & Ht & St & Et).
  unfold sq in Hs. unfold sq2 in Ht. in_cases Hs; in_cases Ht;
    try (vm_compute in Ss; discriminate); try (vm_compute in St; discriminate);
    match type of Es with ?h == _ =>
      let v := eval vm_compute in h in
      assert (E1 : h == v) by (vm_compute; reflexivity) end;
    match type of Et with ?h == _ =>
      let v := eval vm_compute in h in
      assert (E2 : h == v) by (vm_compute; reflexivity) end;
    rewrite E1 in Es; rewrite E2 in Et; lra.
Qed.

Definition p31 : point := (3, 1).
Definition x3 : Q := 3.
(* the hypotheses of the theorem are jointly satisfiable; at p = (3,1) (inside
   sq, outside sq2) the only counted crossing is the top edge of sq2 *)
Example sq_union_instance :
  (Zsum (map (fun s => (cr (first_pt s) (last_pt s) p31
                        * b2z (wn_lines sq2 (hit x3 s) =? 0))%Z) sq)
   + Zsum (map (fun t => (cr (first_pt t) (last_pt t) p31
                          * b2z (wn_lines sq (hit x3 t) =? 0))%Z) sq2))%Z
  = 1%Z.
Proof.
  exact (ray_sum_lines_union sq sq2 p31 sq_nv sq2_nv sq_sq2_no_common
           (wn01_off_of_wn01 _ _ sq_wn01) (wn01_off_of_wn01 _ _ sq2_wn01)).
Qed.

Example sq_union_terms :
  (map (fun s => (cr (first_pt s) (last_pt s) p31
                  * b2z (wn_lines sq2 (hit x3 s) =? 0))%Z) sq,
   map (fun t => (cr (first_pt t) (last_pt t) p31
                  * b2z (wn_lines sq (hit x3 t) =? 0))%Z) sq2)
  = ([0; 0; 0; 0], [0; 0; 1; 0])%Z.
Proof. vm_compute. reflexivity. Qed.

(* ------------------------------------------------------------------ *)
(* STAGE 3: what is still missing to reach the operator of the model    *)
(* ------------------------------------------------------------------ *)
(* [ray_sum_mid_union] is the statement "sum of the crossings of the pieces
   selected by the midpoint test = winding number of the union" for ONE curve
   per operand, with the selection written with [wn_lines] at the exact
   midpoint [emid].  To replace it by the selection of the model
   (Measure.midpoints_shapes_In': (i,k) selected for the union iff
    [other_has a' b' i k true = false]) one needs, for a' = SC (CS ja),
   b' = SC (CS jb) (the operands after [split_all]):
   (G1) piece_mid = emid up to peq:  for s = [a;b],
        peq (evalr s Qhalf) (emid s)   (Winding.eval_line + pred_ = Qred), and
        [wn_lines_peq] above;
   (G2) midpoint test = winding number:  for a counter-clockwise jb and a
        point m off the boundary of jb,
        contains_point (SC (CS jb)) m closed = false <-> wn_lines jb m = 0
        (Winding.contains_point_spec with region_simple, needs tol_exact jb m,
         jordan_pos jb = Qlt_bool 0 (shoelace2 jb) and wn in {0,1});
   (G3) the hypotheses OA / OB: after [split_all] no piece of one operand
        crosses the other boundary in its interior ([open_off]); this is the
        completeness of the intersection splitting, not available as a lemma
        (Cells.split_boundary only says that splitting keeps the point set);
   (G4) the curves of the result are made of exactly the selected pieces
        (Measure.faithful_follow + indexs_to_jordan_exact), so that
        sum over the result curves of wn_lines = the left-hand side of
        [ray_sum_mid_union]  (the [Zsum]/[cr] analogue of
        Measure.follow_path_conservation, with h := fun s => cr .. p);
   (G5) [wn01_off] for simple counter-clockwise polygons (kept as hypothesis).
   With G1-G5, [ray_sum_mid_union] gives: the total winding number of the
   curves of a | b at p is 1 iff p is in A or in B, for every p whose vertical
   line avoids the vertices and the common boundary points; the remaining
   points follow from Cells.op_or_wn_cellwise (constancy on cells). *)

Print Assumptions ray_sum_gen.
Print Assumptions ray_sum_union.
Print Assumptions ray_sum_inter.
Print Assumptions ray_sum_diff.
Print Assumptions cr_height.
Print Assumptions wn_above.
Print Assumptions ray_sum_lines_gen.
Print Assumptions ray_sum_lines_union.
Print Assumptions ray_sum_lines_inter.
Print Assumptions ray_sum_lines_diff.
Print Assumptions ray_sum_lines_xor.
Print Assumptions sq_union_instance.
Print Assumptions wn_hit_mid.
Print Assumptions ray_sum_mid_union.
Print Assumptions ray_sum_mid_inter.
