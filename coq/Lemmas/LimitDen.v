(* LimitDen.v -- "rational in, exact rational out": the model of CPython's
   Fraction.limit_denominator (Model/Num.v).  The loop invariant of the
   continued-fraction recurrence, the bound and positivity of the returned
   denominator, lowest terms of the result, termination within ld_fuel, and
   the agreement of the 3.12 and 3.11 closing tests. *)
From SV Require Import Model.Num.
From Coq Require Import Lia.
Open Scope Z_scope.

(* ---------- D1 ---------- *)
Theorem limit_den_small : forall N num den,
  den <= N -> limit_den N num den = Some (num, den).
Proof.
  intros N num den H. unfold limit_den. apply Z.leb_le in H. rewrite H. reflexivity.
Qed.
Theorem limit_den311_small : forall N num den,
  den <= N -> limit_den311 N num den = Some (num, den).
Proof.
  intros N num den H. unfold limit_den311. apply Z.leb_le in H. rewrite H. reflexivity.
Qed.

(* ---------- Euclidean division facts (Coq: n / 0 = 0) ---------- *)
Lemma div_nonneg : forall n d, 0 <= n -> 0 <= d -> 0 <= n / d.
Proof.
  intros n d Hn Hd. destruct (Z.eq_dec d 0) as [-> | Hd0].
  - rewrite Zdiv_0_r. lia.
  - apply Z.div_pos; lia.
Qed.
Lemma rem_nonneg : forall n d, 0 <= n -> 0 <= d -> 0 <= n - n / d * d.
Proof.
  intros n d Hn Hd. destruct (Z.eq_dec d 0) as [-> | Hd0].
  - rewrite Zdiv_0_r. lia.
  - pose proof (Z.mod_pos_bound n d ltac:(lia)) as B. rewrite Z.mod_eq in B by lia. lia.
Qed.
Lemma rem_lt : forall n d, 0 < d -> 0 <= n - n / d * d < d.
Proof.
  intros n d Hd.
  pose proof (Z.mod_pos_bound n d Hd) as B. rewrite Z.mod_eq in B by lia. lia.
Qed.

(* ---------- the loop invariant ---------- *)
Definition ld_inv (N num den p0 q0 p1 q1 n d : Z) : Prop :=
  0 <= q0 <= N /\ 0 <= q1 <= N /\ 0 <= n /\ 0 <= d /\
  p1 * n + p0 * d = num /\ q1 * n + q0 * d = den /\
  (p1 * q0 - p0 * q1 = 1 \/ p1 * q0 - p0 * q1 = -1).

Lemma ld_inv_step : forall N num den p0 q0 p1 q1 n d,
  ld_inv N num den p0 q0 p1 q1 n d ->
  q0 + n / d * q1 <= N ->
  ld_inv N num den p1 q1 (p0 + n / d * p1) (q0 + n / d * q1) d (n - n / d * d).
Proof.
  intros N num den p0 q0 p1 q1 n d (Hq0 & Hq1 & Hn & Hd & Hp & Hq & Hs) Hle.
  pose proof (div_nonneg n d Hn Hd) as Ha.
  pose proof (rem_nonneg n d Hn Hd) as Hr.
  set (a := n / d) in *.
  assert (0 <= a * q1) by (apply Z.mul_nonneg_nonneg; lia).
  unfold ld_inv. repeat split; lia.
Qed.

Lemma ld_loop_inv : forall fuel N num den p0 q0 p1 q1 n d p0' q0' p1' q1' n' d',
  ld_inv N num den p0 q0 p1 q1 n d ->
  ld_loop fuel N p0 q0 p1 q1 n d = Some (p0', q0', p1', q1', n', d') ->
  ld_inv N num den p0' q0' p1' q1' n' d' /\ N < q0' + n' / d' * q1'.
Proof.
  induction fuel as [|f IH]; intros N num den p0 q0 p1 q1 n d p0' q0' p1' q1' n' d' I H;
    cbn [ld_loop] in H; [discriminate |].
  destruct (N <? q0 + n / d * q1) eqn:E.
  - inversion H; subst. split; [exact I | apply Z.ltb_lt; exact E].
  - apply Z.ltb_ge in E. eapply IH; [| exact H]. apply ld_inv_step; assumption.
Qed.

(* the first iteration never exits (q1 = 0, q2 = 1 <= N), whatever the sign of num *)
Lemma ld_loop_first : forall f N num den, 1 <= N ->
  ld_loop (S f) N 0 1 1 0 num den =
  ld_loop f N 1 0 (0 + num / den * 1) (1 + num / den * 0) den (num - num / den * den).
Proof.
  intros f N num den HN. cbn [ld_loop].
  replace (1 + num / den * 0) with 1 by ring.
  destruct (N <? 1) eqn:E; [apply Z.ltb_lt in E; lia | reflexivity].
Qed.

Lemma ld_inv_first : forall N num den, 1 <= N -> 0 < den ->
  ld_inv N num den 1 0 (0 + num / den * 1) (1 + num / den * 0) den (num - num / den * den).
Proof.
  intros N num den HN Hden. pose proof (rem_lt num den Hden) as R.
  unfold ld_inv. repeat split; lia.
Qed.

(* what the loop hands to the closing test *)
Lemma ld_loop_exit : forall N num den p0 q0 p1 q1 n d,
  1 <= N -> 0 < den ->
  ld_loop (ld_fuel den) N 0 1 1 0 num den = Some (p0, q0, p1, q1, n, d) ->
  ld_inv N num den p0 q0 p1 q1 n d /\ N < q0 + n / d * q1.
Proof.
  intros N num den p0 q0 p1 q1 n d HN Hden H. unfold ld_fuel in H.
  rewrite ld_loop_first in H by exact HN.
  eapply ld_loop_inv; [| exact H]. apply ld_inv_first; assumption.
Qed.

(* consequences of the invariant at exit *)
Lemma exit_facts : forall N num den p0 q0 p1 q1 n d,
  ld_inv N num den p0 q0 p1 q1 n d -> N < q0 + n / d * q1 ->
  1 <= q1 /\ 0 < d /\
  let k := (N - q0) / q1 in
  0 <= k < n / d /\ q0 + k * q1 <= N /\ N - q1 < q0 + k * q1.
Proof.
  intros N num den p0 q0 p1 q1 n d (Hq0 & Hq1 & Hn & Hd & Hp & Hq & Hs) Hex.
  pose proof (div_nonneg n d Hn Hd) as Ha.
  assert (Q1 : 1 <= q1).
  { destruct (Z.eq_dec q1 0) as [-> | ?]; [rewrite Z.mul_0_r in Hex; lia | lia]. }
  assert (D : 0 < d).
  { destruct (Z.eq_dec d 0) as [-> | ?]; [rewrite Zdiv_0_r in Hex; lia | lia]. }
  split; [exact Q1 |]. split; [exact D |]. intro k.
  pose proof (rem_lt (N - q0) q1 ltac:(lia)) as R. fold k in R.
  assert (K0 : 0 <= k) by (apply div_nonneg; lia).
  set (a := n / d) in *.
  assert (k < a) by nia.
  lia.
Qed.

(* ---------- D2: the returned denominator is in (0, N] ---------- *)
(* no sign condition on num and no lowest-terms condition are needed *)
Theorem limit_den_bound : forall N num den n' d',
  1 <= N -> 0 < den ->
  limit_den N num den = Some (n', d') -> 0 < d' <= N.
Proof.
  intros N num den n' d' HN Hden H. unfold limit_den in H.
  destruct (den <=? N) eqn:E.
  { apply Z.leb_le in E. inversion H; subst. lia. }
  destruct (ld_loop (ld_fuel den) N 0 1 1 0 num den) as [[[[[[p0 q0] p1] q1] n] d]|] eqn:L;
    [| discriminate].
  destruct (ld_loop_exit _ _ _ _ _ _ _ _ _ HN Hden L) as [I Hex].
  destruct (exit_facts _ _ _ _ _ _ _ _ _ I Hex) as (Q1 & D & K).
  destruct I as (Hq0 & Hq1 & _). cbv zeta in H, K.
  destruct (2 * d * (q0 + (N - q0) / q1 * q1) <=? den); inversion H; subst; lia.
Qed.

Theorem limit_den311_bound : forall N num den n' d',
  1 <= N -> 0 < den ->
  limit_den311 N num den = Some (n', d') -> 0 < d' <= N.
Proof.
  intros N num den n' d' HN Hden H. unfold limit_den311 in H.
  destruct (den <=? N) eqn:E.
  { apply Z.leb_le in E. inversion H; subst. lia. }
  destruct (ld_loop (ld_fuel den) N 0 1 1 0 num den) as [[[[[[p0 q0] p1] q1] n] d]|] eqn:L;
    [| discriminate].
  destruct (ld_loop_exit _ _ _ _ _ _ _ _ _ HN Hden L) as [I Hex].
  destruct (exit_facts _ _ _ _ _ _ _ _ _ I Hex) as (Q1 & D & K).
  destruct I as (Hq0 & Hq1 & _). cbv zeta in H, K.
  match type of H with (if ?c then _ else _) = _ => destruct c end; inversion H; subst; lia.
Qed.

(* ---------- the result is in lowest terms ---------- *)
Lemma det_coprime : forall p q u v,
  p * u - v * q = 1 \/ p * u - v * q = -1 -> Z.gcd p q = 1.
Proof.
  intros p q u v H.
  apply Z.divide_1_r_nonneg; [apply Z.gcd_nonneg |].
  assert (D : (Z.gcd p q | p * u - v * q)).
  { apply Z.divide_sub_r.
    - apply Z.divide_mul_l, Z.gcd_divide_l.
    - apply Z.divide_mul_r, Z.gcd_divide_r. }
  destruct H as [H | H]; rewrite H in D; [exact D |].
  apply Z.divide_opp_r in D. exact D.
Qed.

Theorem limit_den_coprime : forall N num den n' d',
  1 <= N -> 0 < den -> Z.gcd num den = 1 ->
  limit_den N num den = Some (n', d') -> Z.gcd n' d' = 1.
Proof.
  intros N num den n' d' HN Hden G H. unfold limit_den in H.
  destruct (den <=? N) eqn:E.
  { inversion H; subst. exact G. }
  destruct (ld_loop (ld_fuel den) N 0 1 1 0 num den) as [[[[[[p0 q0] p1] q1] n] d]|] eqn:L;
    [| discriminate].
  destruct (ld_loop_exit _ _ _ _ _ _ _ _ _ HN Hden L) as [I _].
  destruct I as (_ & _ & _ & _ & _ & _ & Hs). cbv zeta in H.
  set (k := (N - q0) / q1) in *.
  destruct (2 * d * (q0 + k * q1) <=? den); inversion H as [[En Ed]]; clear H.
  - rewrite <- En, <- Ed. apply (det_coprime p1 q1 q0 p0). exact Hs.
  - apply (det_coprime (p0 + k * p1) (q0 + k * q1) (- q1) (- p1)).
    destruct Hs as [Hs | Hs]; [left | right]; rewrite <- Hs; ring.
Qed.

(* ---------- D4: the 3.12 and the 3.11 closing tests agree ---------- *)
(* holds for every input with den > 0, N >= 1; lowest terms not needed *)
Theorem limit_den_eq_311 : forall N num den,
  1 <= N -> 0 < den -> limit_den N num den = limit_den311 N num den.
Proof.
  intros N num den HN Hden. unfold limit_den, limit_den311.
  destruct (den <=? N); [reflexivity |].
  destruct (ld_loop (ld_fuel den) N 0 1 1 0 num den) as [[[[[[p0 q0] p1] q1] n] d]|] eqn:L;
    [| reflexivity].
  destruct (ld_loop_exit _ _ _ _ _ _ _ _ _ HN Hden L) as [I Hex].
  destruct (exit_facts _ _ _ _ _ _ _ _ _ I Hex) as (Q1 & D & K).
  destruct I as (Hq0 & Hq1 & Hn & Hd & Hp & Hq & Hs). cbv zeta in K |- *.
  set (k := (N - q0) / q1) in *.
  destruct K as ((K0 & Ka) & Kle & Kgt).
  pose proof (rem_lt n d D) as R.
  assert (Hkd : 0 < n - k * d) by nia.
  (* the two distances, up to the common sign s = p1*q0 - p0*q1 *)
  assert (E1 : Z.abs (p1 * den - num * q1) = d).
  { replace (p1 * den - num * q1) with ((p1 * q0 - p0 * q1) * d)
      by (rewrite <- Hp, <- Hq; ring).
    destruct Hs as [-> | ->]; lia. }
  assert (E2 : Z.abs ((p0 + k * p1) * den - num * (q0 + k * q1)) = n - k * d).
  { replace ((p0 + k * p1) * den - num * (q0 + k * q1))
      with (- ((p1 * q0 - p0 * q1) * (n - k * d))) by (rewrite <- Hp, <- Hq; ring).
    destruct Hs as [-> | ->]; lia. }
  rewrite E1, E2.
  assert (Hden' : den = (n - k * d) * q1 + d * (q0 + k * q1)) by (rewrite <- Hq; ring).
  set (X := (n - k * d) * q1) in *. set (Y := d * (q0 + k * q1)) in *.
  replace (2 * d * (q0 + k * q1)) with (2 * Y) by (unfold Y; ring).
  destruct (Z.leb_spec (2 * Y) den), (Z.leb_spec Y X); try reflexivity; lia.
Qed.

(* ---------- D3: the fuel is enough (lowest terms required) ---------- *)
(* not in lowest terms the model's loop need not stop: n / 0 = 0 in Coq where
   CPython would never get there (Fraction normalises) *)
Example limit_den_not_lowest : limit_den 3 2 4 = None.
Proof. vm_compute. reflexivity. Qed.

Lemma ld_loop_total : forall fuel N num den p0 q0 p1 q1 n d,
  N < den -> ld_inv N num den p0 q0 p1 q1 n d -> Z.gcd n d = 1 -> d < n ->
  Z.log2 n + Z.log2 d + 1 <= Z.of_nat fuel ->
  ld_loop fuel N p0 q0 p1 q1 n d <> None.
Proof.
  induction fuel as [|f IH]; intros N num den p0 q0 p1 q1 n d HN I G Hdn HF.
  { pose proof (Z.log2_nonneg n). pose proof (Z.log2_nonneg d). lia. }
  cbn [ld_loop].
  destruct (N <? q0 + n / d * q1) eqn:E; [discriminate |].
  apply Z.ltb_ge in E.
  pose proof (ld_inv_step _ _ _ _ _ _ _ _ _ I E) as I'.
  destruct I as (Hq0 & Hq1 & Hn & Hd & Hp & Hq & Hs).
  assert (D : 0 < d).
  { destruct (Z.eq_dec d 0) as [-> | ?]; [| lia].
    rewrite Z.gcd_0_r in G. assert (n = 1) by lia. subst n. lia. }
  pose proof (rem_lt n d D) as R.
  assert (Hmod : n - n / d * d = n mod d) by (rewrite Z.mod_eq by lia; ring).
  apply (IH N num den); try assumption.
  - rewrite Hmod, Z.gcd_comm, Z.gcd_mod by lia. rewrite Z.gcd_comm. exact G.
  - lia.
  - set (r := n - n / d * d) in *.
    assert (A1 : 1 <= n / d) by (apply Z.div_le_lower_bound; lia).
    assert (Hlog : Z.log2 r + 1 <= Z.log2 n).
    { destruct (Z.eq_dec r 0) as [-> | Hr].
      - cbn. change 1 with (Z.log2 2). apply Z.log2_le_mono. lia.
      - replace (Z.log2 r + 1) with (Z.log2 (2 * r)) by (rewrite Z.log2_double; lia).
        apply Z.log2_le_mono. unfold r. nia. }
    lia.
Qed.

Lemma ld_loop_start_total : forall N num den,
  1 <= N -> N < den -> Z.gcd num den = 1 ->
  ld_loop (ld_fuel den) N 0 1 1 0 num den <> None.
Proof.
  intros N num den HN Hden G. unfold ld_fuel. rewrite ld_loop_first by exact HN.
  assert (D : 0 < den) by lia.
  pose proof (rem_lt num den D) as R.
  assert (Hmod : num - num / den * den = num mod den) by (rewrite Z.mod_eq by lia; ring).
  apply (ld_loop_total _ N num den).
  - exact Hden.
  - apply ld_inv_first; assumption.
  - rewrite Hmod, Z.gcd_comm, Z.gcd_mod by lia. rewrite Z.gcd_comm. exact G.
  - lia.
  - pose proof (Z.log2_nonneg den).
    assert (Z.log2 (num - num / den * den) <= Z.log2 den) by (apply Z.log2_le_mono; lia).
    lia.
Qed.

Theorem limit_den_total : forall N num den,
  1 <= N -> 0 < den -> Z.gcd num den = 1 -> limit_den N num den <> None.
Proof.
  intros N num den HN Hden G. unfold limit_den.
  destruct (den <=? N) eqn:E; [discriminate |]. apply Z.leb_gt in E.
  pose proof (ld_loop_start_total N num den HN E G) as T.
  destruct (ld_loop (ld_fuel den) N 0 1 1 0 num den) as [[[[[[p0 q0] p1] q1] n] d]|];
    [| congruence].
  cbv zeta. destruct (_ <=? _); discriminate.
Qed.

Theorem limit_den311_total : forall N num den,
  1 <= N -> 0 < den -> Z.gcd num den = 1 -> limit_den311 N num den <> None.
Proof.
  intros N num den HN Hden G. rewrite <- limit_den_eq_311 by assumption.
  apply limit_den_total; assumption.
Qed.

(* more fuel never changes an answer *)
Lemma ld_loop_fuel_mono : forall f f' N p0 q0 p1 q1 n d r,
  (f <= f')%nat -> ld_loop f N p0 q0 p1 q1 n d = Some r ->
  ld_loop f' N p0 q0 p1 q1 n d = Some r.
Proof.
  induction f as [|f IH]; intros f' N p0 q0 p1 q1 n d r Hle H; [discriminate |].
  destruct f' as [|f']; [lia |]. cbn [ld_loop] in *.
  destruct (N <? q0 + n / d * q1); [exact H |]. apply IH; [lia | exact H].
Qed.

(* ---------- the statement of the property: rational in, exact rational out ---------- *)
Theorem limit_den_spec : forall N num den,
  1 <= N -> 0 < den -> Z.gcd num den = 1 ->
  exists n' d', limit_den N num den = Some (n', d') /\ 0 < d' <= N /\ Z.gcd n' d' = 1 /\
                (den <= N -> n' = num /\ d' = den).
Proof.
  intros N num den HN Hden G.
  destruct (limit_den N num den) as [[n' d']|] eqn:E.
  - exists n', d'. split; [reflexivity |].
    split; [eapply limit_den_bound; eassumption |].
    split; [eapply limit_den_coprime; eassumption |].
    intro Hs. rewrite limit_den_small in E by exact Hs. inversion E; auto.
  - exfalso. exact (limit_den_total N num den HN Hden G E).
Qed.

Example limit_den_ex1 :
  limit_den 1000000000 883567286527 1800356236451 = Some (477435269, 972821852).
Proof. vm_compute. reflexivity. Qed.
Example limit_den_ex2 : limit_den 10 31415926 10000000 = Some (22, 7).
Proof. vm_compute. reflexivity. Qed.
Example limit_den_ex3 : limit_den 10 (-31415926) 10000000 = Some (-22, 7).
Proof. vm_compute. reflexivity. Qed.

(* the result is a fixed point *)
Corollary limit_den_idem : forall N num den n' d',
  1 <= N -> 0 < den -> limit_den N num den = Some (n', d') ->
  limit_den N n' d' = Some (n', d').
Proof.
  intros N num den n' d' HN Hden H. apply limit_den_small.
  pose proof (limit_den_bound _ _ _ _ _ HN Hden H). lia.
Qed.

(* ---------- Point2D coordinate normalisation never fails ---------- *)
Lemma Qred_coprime : forall q, Z.gcd (Qnum (Qred q)) (Zpos (Qden (Qred q))) = 1.
Proof.
  intros [n d]. unfold Qred.
  pose proof (Z.ggcd_correct_divisors n (Zpos d)) as C.
  pose proof (Z.ggcd_gcd n (Zpos d)) as Gg.
  destruct (Z.ggcd n (Zpos d)) as [g [aa bb]]. cbn [fst snd] in *.
  destruct C as [Cn Cd].
  pose proof (Z.gcd_nonneg n (Zpos d)) as G0. rewrite <- Gg in G0.
  assert (Gp : 0 < g) by (destruct (Z.eq_dec g 0) as [-> | ?]; lia).
  assert (Bp : 0 < bb) by nia.
  cbn [Qnum Qden]. rewrite Z2Pos.id by exact Bp.
  pose proof (Z.gcd_mul_mono_l_nonneg aa bb g ltac:(lia)) as M.
  rewrite <- Cn, <- Cd, <- Gg in M.
  pose proof (Z.gcd_nonneg aa bb). nia.
Qed.

Theorem norm_coord_total : forall q,
  exists n d, norm_coord q = Some (Qred (n # d)) /\
              Zpos d <= cap9 /\ Z.gcd n (Zpos d) = 1.
Proof.
  intro q. unfold norm_coord.
  destruct (limit_den_spec cap9 (Qnum (Qred q)) (Zpos (Qden (Qred q))))
    as (n' & d' & E & B & G & _).
  - unfold cap9. lia.
  - reflexivity.
  - apply Qred_coprime.
  - rewrite E. destruct d' as [|d'|d']; try lia. exists n', d'. repeat split; try lia; assumption.
Qed.

Theorem norm_coord_small : forall q,
  Zpos (Qden (Qred q)) <= cap9 -> norm_coord q = Some (Qred q).
Proof.
  intros q H. unfold norm_coord. rewrite limit_den_small by exact H.
  f_equal. transitivity (Qred (Qred q)).
  - destruct (Qred q); reflexivity.
  - apply Qred_complete, Qred_correct.
Qed.

Print Assumptions limit_den_small.
Print Assumptions limit_den311_small.
Print Assumptions limit_den_bound.
Print Assumptions limit_den311_bound.
Print Assumptions limit_den_coprime.
Print Assumptions limit_den_eq_311.
Print Assumptions limit_den_total.
Print Assumptions limit_den311_total.
Print Assumptions ld_loop_fuel_mono.
Print Assumptions limit_den_spec.
Print Assumptions norm_coord_total.
Print Assumptions norm_coord_small.
