(* SubsetComplete.v -- C03, completeness direction of
   SimpleShape._contains_jordan (boundary flag = True) for straight closed
   boundaries, and the resulting characterisation (iff) in general position.

     if every point of the curve j is inside or on the boundary of the simple
     shape bounded by self, then [simple_has_jordan self j true] answers True.

   Method.  The model only asks [simple_has_point self p true] at
     (1) the vertices  evalr s 0 = pred_ (eval s 0)  of j, and
     (2) the sampled midpoints  eval s m  (m between consecutive cut parameters,
         hence in [0,1] by [sampled_on_curve]);
   all of them are (representations of) points of the curve, so by
   [simple_has_point_spec] the answer at each of them is True.  The crossing
   finder never raises on straight input ([intersection_total]).
   The vertices are tested in reduced representation, so the proof needs that
   the tolerance test [on_seg] does not depend on the representation of the
   rational coordinates of the point ([on_seg_peq], section 1). *)
From Coq Require Import QArith Lqa Lia ZArith List Sorted Bool Qround Qreduction.
From SV Require Import Model.Shape Spec.Spec.
From SV Require Import Lemmas.Lines Lemmas.Winding Lemmas.Constancy Lemmas.C02Glue.
From SV Require Lemmas.Tolerance Lemmas.BezierFacts Lemmas.Affine.
From SV Require Import Lemmas.Subset.
Import ListNotations.
Open Scope Q_scope.

(* ------------------------------------------------------------------ *)
(* 1. the tolerance test does not depend on the representation of p    *)
(* ------------------------------------------------------------------ *)
Lemma Qle_bool_compat a a' b b' : a == a' -> b == b' -> Qle_bool a b = Qle_bool a' b'.
Proof.
  intros Ha Hb. destruct (Qle_bool a b) eqn:E, (Qle_bool a' b') eqn:E'; auto.
  - apply Qle_bool_iff in E. rewrite Ha, Hb in E. apply Qle_bool_iff in E. congruence.
  - apply Qle_bool_iff in E'. rewrite <- Ha, <- Hb in E'. apply Qle_bool_iff in E'. congruence.
Qed.
Lemma Qlt_bool_compat a a' b b' : a == a' -> b == b' -> Qlt_bool a b = Qlt_bool a' b'.
Proof. intros Ha Hb. unfold Qlt_bool. rewrite (Qle_bool_compat b b' a a' Hb Ha). reflexivity. Qed.
Lemma Qeq_bool_compat a a' b b' : a == a' -> b == b' -> Qeq_bool a b = Qeq_bool a' b'.
Proof.
  intros Ha Hb. destruct (Qeq_bool a b) eqn:E, (Qeq_bool a' b') eqn:E'; auto.
  - apply Qeq_bool_iff in E. rewrite Ha, Hb in E. apply Qeq_bool_iff in E. congruence.
  - apply Qeq_bool_iff in E'. rewrite <- Ha, <- Hb in E'. apply Qeq_bool_iff in E'. congruence.
Qed.

Lemma padd_peq p p' q q' : peq p p' -> peq q q' -> peq (padd p q) (padd p' q').
Proof. intros [A1 A2] [B1 B2]. unfold peq, padd, px, py in *; cbn [fst snd] in *. split; lra. Qed.
Lemma pscale_peq k k' p p' : k == k' -> peq p p' -> peq (pscale k p) (pscale k' p').
Proof.
  intros K [A1 A2]. unfold peq, pscale, px, py in *; cbn [fst snd] in *.
  split; [rewrite K, A1 | rewrite K, A2]; reflexivity.
Qed.

Lemma horner_compat t t' cs : t == t' -> peq (horner t cs) (horner t' cs).
Proof.
  intro T. unfold horner.
  assert (G : forall v v', peq v v' ->
            peq (fold_left (fun v c => padd (pscale t v) c) cs v)
                (fold_left (fun v c => padd (pscale t' v) c) cs v')).
  { induction cs as [|c cs IH]; intros v v' V; cbn [fold_left]; [exact V|].
    apply IH. apply padd_peq; [apply pscale_peq; assumption | apply BezierFacts.peq_refl]. }
  apply G. apply BezierFacts.peq_refl.
Qed.
Lemma eval_compat s u u' : u == u' -> peq (eval s u) (eval s u').
Proof. intro U. unfold eval. apply horner_compat. exact U. Qed.

Lemma round60_compat x y : x == y -> round60 x = round60 y.
Proof.
  intro E. unfold round60.
  assert (F : Qfloor (x * (1152921504606846976 # 1)) = Qfloor (y * (1152921504606846976 # 1)))
    by (apply Qfloor_comp; rewrite E; reflexivity).
  rewrite F. reflexivity.
Qed.
Lemma nround_compat d x y : x == y -> nround d x == nround d y.
Proof.
  intro E. unfold nround. destruct (d <=? 1)%nat.
  - rewrite !Qred_correct. exact E.
  - rewrite (round60_compat x y E). reflexivity.
Qed.

Lemma newton_step_compat s ds dds p p' u u' : peq p p' -> u == u' ->
  newton_step s ds dds p u == newton_step s ds dds p' u'.
Proof.
  intros P U. unfold newton_step.
  pose proof (Tolerance.psub_peq _ _ _ _ (eval_compat s u u' U) P) as C.
  pose proof (eval_compat ds u u' U) as D.
  pose proof (eval_compat dds u u' U) as DD.
  pose proof (Tolerance.inner_peq _ _ _ _ D C) as F.
  pose proof (Tolerance.inner_peq _ _ _ _ DD C) as F1.
  pose proof (Tolerance.inner_peq _ _ _ _ D D) as F2.
  set (c := psub (eval s u) p) in *. set (c' := psub (eval s u') p') in *.
  set (d := eval ds u) in *. set (d' := eval ds u') in *.
  set (e := eval dds u) in *. set (e' := eval dds u') in *.
  assert (DF0 : inner e c + inner d d == inner e' c' + inner d' d') by (rewrite F1, F2; reflexivity).
  apply Tolerance.Qclamp01_compat. apply nround_compat.
  rewrite (Qlt_bool_compat tol6 tol6 _ _ (Qeq_refl _) (Tolerance.Qabs'_compat _ _ DF0)).
  destruct (Qlt_bool tol6 (Qabs' (inner e' c' + inner d' d'))).
  - rewrite U, F, DF0. reflexivity.
  - rewrite U, F. reflexivity.
Qed.

Lemma existsb_Qeq_compat x x' l l' : x == x' -> Forall2 Qeq l l' ->
  existsb (Qeq_bool x) l = existsb (Qeq_bool x') l'.
Proof.
  intros X H. induction H as [|y y' l l' Y H IH]; cbn [existsb]; [reflexivity|].
  rewrite IH, (Qeq_bool_compat x x' y y' X Y). reflexivity.
Qed.
Lemma dedup_Qeq_compat l l' : Forall2 Qeq l l' ->
  Forall2 Qeq (dedup Qeq_bool l) (dedup Qeq_bool l').
Proof.
  intro H. induction H as [|y y' l l' Y H IH]; cbn [dedup]; [constructor|].
  rewrite (existsb_Qeq_compat y y' l l' Y H).
  destruct (existsb (Qeq_bool y') l'); [exact IH | constructor; assumption].
Qed.
Lemma map_step_compat s ds dds p p' l l' : peq p p' -> Forall2 Qeq l l' ->
  Forall2 Qeq (map (newton_step s ds dds p) l) (map (newton_step s ds dds p') l').
Proof.
  intros P H. induction H as [|y y' l l' Y H IH]; cbn [map]; constructor; [|exact IH].
  apply newton_step_compat; assumption.
Qed.
Lemma newton_rounds_compat n s ds dds p p' : peq p p' -> forall l l', Forall2 Qeq l l' ->
  Forall2 Qeq (newton_rounds n s ds dds p l) (newton_rounds n s ds dds p' l').
Proof.
  intro P. induction n as [|n IH]; intros l l' H; cbn [newton_rounds]; [exact H|].
  pose proof (dedup_Qeq_compat _ _ (map_step_compat s ds dds p p' l l' P H)) as D.
  destruct D as [|a a' t t' A D]; [apply IH; constructor|].
  destruct D as [|b b' t t' B D]; [constructor; [exact A | constructor]|].
  apply IH. constructor; [exact A|]. constructor; assumption.
Qed.
Lemma Forall2_Qeq_refl l : Forall2 Qeq l l.
Proof. induction l; constructor; [reflexivity | assumption]. Qed.

Lemma dist2_peq s p p' u u' : peq p p' -> u == u' -> dist2 s p u == dist2 s p' u'.
Proof.
  intros P U. unfold dist2. apply Tolerance.norm2_peq. apply Tolerance.psub_peq; [|exact P].
  apply eval_compat. exact U.
Qed.

Lemma box_contains_peq b p p' : peq p p' -> box_contains b p = box_contains b p'.
Proof.
  intros [X Y]. unfold box_contains.
  rewrite (Qlt_bool_compat (px p) (px p') _ _ X (Qeq_refl _)),
          (Qlt_bool_compat (py p) (py p') _ _ Y (Qeq_refl _)),
          (Qlt_bool_compat _ _ (px p) (px p') (Qeq_refl _) X),
          (Qlt_bool_compat _ _ (py p) (py p') (Qeq_refl _) Y).
  reflexivity.
Qed.

(* PlanarCurve.__contains__ on a point: any degree *)
Theorem on_seg_peq s p p' : peq p p' -> on_seg s p = on_seg s p'.
Proof.
  intro P. unfold on_seg. rewrite (box_contains_peq _ p p' P). f_equal.
  unfold project.
  pose proof (newton_rounds_compat 10 s (derivate s) (derivate (derivate s)) p p' P
                _ _ (Forall2_Qeq_refl (closed_linspace (2 + degree s)))) as H.
  induction H as [|y y' l l' Y H IH]; cbn [existsb]; [reflexivity|].
  rewrite IH, (Qlt_bool_compat _ _ _ _ (dist2_peq s p p' y y' P Y) (Qeq_refl tol6sq)).
  reflexivity.
Qed.

Lemma tol_exact_peq self p p' : peq p p' -> tol_exact self p -> tol_exact self p'.
Proof.
  intros P T s Hs. specialize (T s Hs). unfold tol_exact_seg in *.
  rewrite <- (on_seg_peq s p p' P), T.
  apply Affine.on_edge_peq3; [apply BezierFacts.peq_refl | apply BezierFacts.peq_refl | exact P].
Qed.

(* ------------------------------------------------------------------ *)
(* 2. the point test accepts inside and boundary points                *)
(* ------------------------------------------------------------------ *)
Lemma simple_has_point_in_bdry self p :
  all_lines self = true -> closed_chain self = true -> tol_exact self p ->
  region_simple self p = RIn \/ region_simple self p = RBdry ->
  simple_has_point self p true = true.
Proof.
  intros HL HC T R.
  pose proof (simple_has_point_spec self p true HL T (jordan_pos_shoelace self HL HC)) as S.
  destruct R as [R|R]; rewrite R in S; exact S.
Qed.

(* the converse, when the region is defined *)
Lemma simple_has_point_true_region self p b :
  all_lines self = true -> closed_chain self = true -> tol_exact self p ->
  region_simple self p <> RUndef ->
  simple_has_point self p b = true ->
  region_simple self p = RIn \/ region_simple self p = RBdry.
Proof.
  intros HL HC T NU H.
  pose proof (simple_has_point_spec self p b HL T (jordan_pos_shoelace self HL HC)) as S.
  rewrite H in S. destruct (region_simple self p); cbn in S; auto; try discriminate; congruence.
Qed.

(* ------------------------------------------------------------------ *)
(* 3. completeness                                                     *)
(* ------------------------------------------------------------------ *)
Lemma all_lines_len2 j : all_lines j = true -> forall s, In s j -> length s = 2%nat.
Proof. intros H s Hs. destruct (all_lines_In j s H Hs) as (a & b & ->). reflexivity. Qed.

Lemma intersection_lines_total j self eb ep :
  all_lines j = true -> all_lines self = true ->
  exists inters, intersection j self eb ep = Ok inters.
Proof.
  intros Hj Hs. apply intersection_total; apply all_lines_len2; assumption.
Qed.

(* the model answers True as soon as the point test accepts the finitely many
   tested points (any flag, any degree) *)
Lemma simple_has_jordan_intro self j b inters :
  (forall s, In s j -> simple_has_point self (evalr s 0) b = true) ->
  intersection j self false true = Ok inters ->
  (forall p, sampled self j p -> simple_has_point self p b = true) ->
  simple_has_jordan self j b = Ok true.
Proof.
  intros V I M. unfold simple_has_jordan.
  assert (HV : forallb (fun p => simple_has_point self p b) (points j 0) = true).
  { apply forallb_forall. intros p Hp. unfold points in Hp. apply in_concat in Hp.
    destruct Hp as (l & Hl & Hp). apply in_map_iff in Hl. destruct Hl as (s & <- & Hs).
    destruct Hp as [<-|[]]. apply (V s Hs). }
  rewrite HV. cbn [negb]. rewrite I. cbn [bind]. f_equal.
  apply forallb_forall. intros [a s] Has. cbv beta iota zeta.
  apply forallb_forall. intros m Hm.
  apply M. exists inters, a, s, m. split; [exact I|]. split; [exact Has|].
  split; [exact Hm | reflexivity].
Qed.

(* MAIN THEOREM *)
Theorem simple_has_jordan_complete self j :
  all_lines self = true -> closed_chain self = true -> all_lines j = true ->
  (forall p, curve_pt j p -> tol_exact self p) ->
  (forall s t, In s j -> 0 <= t -> t <= 1 ->
     region_simple self (eval s t) = RIn \/ region_simple self (eval s t) = RBdry) ->
  simple_has_jordan self j true = Ok true.
Proof.
  intros HL HC HLj TOL R.
  destruct (intersection_lines_total j self false true HLj HL) as (inters & I).
  apply (simple_has_jordan_intro self j true inters); [|exact I|].
  - (* the vertices: reduced representations of eval s 0 *)
    intros s Hs.
    assert (P : peq (eval s 0) (evalr s 0)) by (apply BezierFacts.peq_sym, Tolerance.pred_peq).
    apply simple_has_point_in_bdry; [exact HL | exact HC | |].
    + apply (tol_exact_peq self _ _ P). apply TOL. exists s, 0.
      split; [exact Hs|]. split; [lra|]. split; [lra | reflexivity].
    + rewrite <- (region_simple_pt_peq self _ _ P). apply R; [exact Hs | lra | lra].
  - (* the midpoints *)
    intros p Sp. destruct (sampled_on_curve self j p Sp) as (s & t & Hs & T0 & T1 & E).
    apply simple_has_point_in_bdry; [exact HL | exact HC | |].
    + apply TOL. exists s, t. split; [exact Hs|]. split; [exact T0|]. split; [exact T1 | exact E].
    + rewrite E. apply R; assumption.
Qed.

(* sampled form: only the finitely many tested points matter *)
Theorem simple_has_jordan_complete_sampled self j :
  all_lines self = true -> closed_chain self = true -> all_lines j = true ->
  (forall s, In s j -> tol_exact self (eval s 0) /\
     (region_simple self (eval s 0) = RIn \/ region_simple self (eval s 0) = RBdry)) ->
  (forall p, sampled self j p -> tol_exact self p /\
     (region_simple self p = RIn \/ region_simple self p = RBdry)) ->
  simple_has_jordan self j true = Ok true.
Proof.
  intros HL HC HLj V M.
  destruct (intersection_lines_total j self false true HLj HL) as (inters & I).
  apply (simple_has_jordan_intro self j true inters); [|exact I|].
  - intros s Hs. destruct (V s Hs) as [T R].
    assert (P : peq (eval s 0) (evalr s 0)) by (apply BezierFacts.peq_sym, Tolerance.pred_peq).
    apply simple_has_point_in_bdry; [exact HL | exact HC | |].
    + apply (tol_exact_peq self _ _ P T).
    + rewrite <- (region_simple_pt_peq self _ _ P). exact R.
  - intros p Sp. destruct (M p Sp) as [T R].
    apply simple_has_point_in_bdry; assumption.
Qed.

(* the same at the level of shapes: `J in A` for a simple shape A *)
Corollary contains_jordan_simple_complete self j :
  all_lines self = true -> closed_chain self = true -> all_lines j = true ->
  (forall p, curve_pt j p -> tol_exact self p) ->
  (forall p, curve_pt j p ->
     region (SC (CS self)) p = RIn \/ region (SC (CS self)) p = RBdry) ->
  contains_jordan (SC (CS self)) j true = Ok true.
Proof.
  intros HL HC HLj TOL R. cbn [contains_jordan comp_has_jordan].
  apply simple_has_jordan_complete; try assumption.
  intros s t Hs T0 T1. apply (R (eval s t)). exists s, t.
  split; [exact Hs|]. split; [exact T0|]. split; [exact T1 | reflexivity].
Qed.

(* ------------------------------------------------------------------ *)
(* 4. the characterisation in general position                         *)
(* ------------------------------------------------------------------ *)
Corollary simple_has_jordan_iff self j :
  all_lines self = true -> closed_chain self = true -> all_lines j = true ->
  general_position j self ->
  (forall p, curve_pt j p -> tol_exact self p) ->
  (forall p, curve_pt j p -> region_simple self p <> RUndef) ->
  (simple_has_jordan self j true = Ok true <->
   forall s t, In s j -> 0 <= t -> t <= 1 ->
     region_simple self (eval s t) = RIn \/ region_simple self (eval s t) = RBdry).
Proof.
  intros HL HC HLj GP TOL NU. split.
  - intro H. apply (simple_has_jordan_sound self j true H HL HC HLj GP).
    + intros p Sp. apply TOL. exact (sampled_on_curve self j p Sp).
    + intros p Sp. apply NU. exact (sampled_on_curve self j p Sp).
  - intro R. apply simple_has_jordan_complete; assumption.
Qed.

(* the answer is a boolean in any case, so under the same hypotheses the
   model answers False exactly when some point of the curve is outside *)
Corollary simple_has_jordan_false_iff self j :
  all_lines self = true -> closed_chain self = true -> all_lines j = true ->
  general_position j self ->
  (forall p, curve_pt j p -> tol_exact self p) ->
  (forall p, curve_pt j p -> region_simple self p <> RUndef) ->
  (simple_has_jordan self j true = Ok false <->
   ~ forall s t, In s j -> 0 <= t -> t <= 1 ->
     region_simple self (eval s t) = RIn \/ region_simple self (eval s t) = RBdry).
Proof.
  intros HL HC HLj GP TOL NU.
  pose proof (simple_has_jordan_iff self j HL HC HLj GP TOL NU) as IFF.
  destruct (intersection_lines_total j self false true HLj HL) as (inters & I).
  assert (B : exists r, simple_has_jordan self j true = Ok r).
  { unfold simple_has_jordan.
    destruct (negb (forallb (fun p => simple_has_point self p true) (points j 0)));
      [eexists; reflexivity|].
    rewrite I. cbn [bind]. eexists; reflexivity. }
  destruct B as ([|] & E); rewrite E in *.
  - split; [discriminate|]. intro N. exfalso. apply N. apply IFF. reflexivity.
  - split; [|reflexivity]. intros _ N. apply IFF in N. discriminate.
Qed.

(* ------------------------------------------------------------------ *)
(* 5. non-vacuity: the hypotheses of both directions hold for the      *)
(*    square [small] inside the square [big] of Subset.v               *)
(* ------------------------------------------------------------------ *)
Lemma small_pt_range p : curve_pt small p -> 1 <= px p <= 3 /\ 1 <= py p <= 3.
Proof.
  intros (s & t & Hs & T0 & T1 & ->).
  unfold small in Hs. cbn [In] in Hs.
  destruct Hs as [<-|[<-|[<-|[<-|[]]]]];
    match goal with |- context [eval [?a; ?b] t] =>
      destruct (eval_deg1 a b t) as [EX EY] end;
    rewrite EX, EY; unfold pt_at, px, py; cbn [fst snd]; split; split; lra.
Qed.

Lemma tol6sq_le1 : tol6sq <= 1.
Proof. vm_compute. discriminate. Qed.

Lemma sq_far a b : 1 <= a \/ a <= -1 \/ 1 <= b \/ b <= -1 -> 1 <= a * a + b * b.
Proof.
  intro H.
  assert (A : 0 <= a * a) by nra. assert (B : 0 <= b * b) by nra.
  destruct H as [H|[H|[H|H]]]; nra.
Qed.

Lemma small_tol_exact p : curve_pt small p -> tol_exact big p.
Proof.
  intro Hp. destruct (small_pt_range p Hp) as [[X1 X3] [Y1 Y3]]. clear Hp.
  pose proof tol6sq_le1 as T.
  intros s Hs. unfold big in Hs. cbn [In] in Hs.
  destruct p as [x y]. unfold px, py in X1, X3, Y1, Y3. cbn [fst snd] in X1, X3, Y1, Y3.
  destruct Hs as [<-|[<-|[<-|[<-|[]]]]];
    (apply Tolerance.tol_exact_seg_line; [vm_compute; reflexivity|]; right;
     intros u U0 U1; rewrite Tolerance.dist2_line;
     apply (Qle_trans _ 1); [exact T|];
     unfold norm2, inner, psub, Tolerance.line_pt, px, py; cbn [fst snd];
     apply sq_far;
     first [left; lra | right; left; lra | right; right; left; lra | right; right; right; lra]).
Qed.

Lemma small_region_defined p : curve_pt small p -> region_simple big p <> RUndef.
Proof.
  intros (s & t & Hs & T0 & T1 & ->).
  destruct (small_in_big s t Hs T0 T1) as [E|E]; rewrite E; discriminate.
Qed.

(* all hypotheses of [simple_has_jordan_iff] *)
Example small_big_iff_hyps :
  all_lines big = true /\ closed_chain big = true /\ all_lines small = true /\
  general_position small big /\
  (forall p, curve_pt small p -> tol_exact big p) /\
  (forall p, curve_pt small p -> region_simple big p <> RUndef).
Proof.
  split; [reflexivity|]. split; [reflexivity|]. split; [reflexivity|].
  split; [apply gp_b_ok; vm_compute; reflexivity|].
  split; [exact small_tol_exact | exact small_region_defined].
Qed.

(* the answer True, obtained from the completeness theorem (not by evaluation) *)
Example small_in_big_complete : simple_has_jordan big small true = Ok true.
Proof.
  apply simple_has_jordan_complete;
    [reflexivity | reflexivity | reflexivity | exact small_tol_exact | exact small_in_big].
Qed.
(* ... and it agrees with evaluation *)
Example small_in_big_eval : simple_has_jordan big small true = Ok true.
Proof. vm_compute. reflexivity. Qed.

(* a curve that leaves the shape: the right-hand side of the iff fails and the
   model answers False; the hypotheses of the iff hold here as well except
   that they are not needed for this direction *)
Example f11_not_inside :
  ~ (forall s t, In s f11 -> 0 <= t -> t <= 1 ->
       region_simple Lhex (eval s t) = RIn \/ region_simple Lhex (eval s t) = RBdry).
Proof.
  intro H. specialize (H [(2,4);(0,2)] (1 # 2)).
  destruct H as [E|E]; [right; right; left; reflexivity | lra | lra | |];
    destruct f11_rejected as [_ R]; rewrite R in E; discriminate.
Qed.

Print Assumptions on_seg_peq.
Print Assumptions simple_has_jordan_complete_sampled.
Print Assumptions contains_jordan_simple_complete.
Print Assumptions simple_has_jordan_false_iff.
Print Assumptions small_big_iff_hyps.
Print Assumptions small_in_big_complete.
Print Assumptions simple_has_jordan_complete.
Print Assumptions simple_has_jordan_iff.
