(* glue: the orientation premise of contains_point_spec follows from the shoelace theorem *)
From SV Require Import Spec.Spec Lemmas.BezierFacts Lemmas.Quadrature Lemmas.Winding.
From Coq Require Import Lqa.
Open Scope Q_scope.

Lemma Qlt_bool_comp : forall a b a' b', a == a' -> b == b' -> Qlt_bool a b = Qlt_bool a' b'.
Proof.
  intros a b a' b' Ha Hb. unfold Qlt_bool. f_equal.
  destruct (Qle_bool b a) eqn:E1, (Qle_bool b' a') eqn:E2; auto.
  - apply Qle_bool_iff in E1. rewrite Ha, Hb in E1. apply Qle_bool_iff in E1. congruence.
  - apply Qle_bool_iff in E2. rewrite <- Ha, <- Hb in E2. apply Qle_bool_iff in E2. congruence.
Qed.

Lemma jordan_pos_shoelace : forall j, all_lines j = true -> closed_chain j = true ->
  jordan_pos j = Qlt_bool 0 (shoelace2 j).
Proof.
  intros j Hl Hc. unfold jordan_pos. pose proof (area_shoelace j Hl Hc) as H0.
  assert (H : shoelace2 j == 2 * jordan_area j) by (rewrite H0; field).
  destruct (Qlt_bool 0 (jordan_area j)) eqn:E1, (Qlt_bool 0 (shoelace2 j)) eqn:E2; auto.
  - apply Qlt_bool_true in E1. unfold Qlt_bool in E2. apply Bool.negb_false_iff in E2.
    apply Qle_bool_iff in E2. rewrite H in E2. lra.
  - apply Qlt_bool_true in E2. unfold Qlt_bool in E1. apply Bool.negb_false_iff in E1.
    apply Qle_bool_iff in E1. rewrite H in E2. lra.
Qed.

Theorem contains_point_polygon : forall S p b,
  shape_lines S = true ->
  (forall j, In j (jordans S) -> closed_chain j = true) ->
  (forall j, In j (jordans S) -> tol_exact j p) ->
  spec_contains (region S p) b (contains_point S p b).
Proof.
  intros S p b Hl Hc Ht. apply contains_point_spec; auto.
  intros j Hj. apply jordan_pos_shoelace; auto.
  unfold shape_lines in Hl. rewrite forallb_forall in Hl. auto.
Qed.
