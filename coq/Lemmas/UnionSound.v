(* UnionSound.v -- one-step soundness of [|] and [&] for two simple polygons in
   the general (recombination) branch: the total winding number of the curves
   FollowPath assembles is the indicator of the union (resp. intersection).

   The glue between RaySum.ray_sum_mid_union / ray_sum_mid_inter (one
   dimensional ray sums) and the operator of the model (Shape.recombine):
   G1  piece midpoint of the model = exact midpoint, up to peq
   G2  midpoint test of the model = winding number test
   G4  the result curves carry exactly the selected pieces (Z-valued analogue
       of Measure.follow_path_conservation) and the selection sum is the sum
       over all pieces of indicator * weight
   G3  after the mutual splitting no piece of one operand meets the boundary
       of the other in its interior (completeness of the crossing finder and
       of JordanCurve.split, under general position and "no tolerance effect"
       hypotheses on the crossing parameters)
   FINAL  recombine_union_sound / recombine_inter_sound, op_or_union_sound,
          op_and_inter_sound, and an instance on two overlapping squares. *)
From Coq Require Import QArith Lqa Lia ZArith List Bool Permutation Sorted.
From SV Require Import Model.Shape Spec.Spec.
From SV Require Import Lemmas.BezierFacts Lemmas.Lines Lemmas.SplitClean Lemmas.Construct
                       Lemmas.Logic Lemmas.Measure Lemmas.Winding Lemmas.Constancy Lemmas.RaySum.
From SV Require Lemmas.Cells Lemmas.Subset Lemmas.SubsetComplete Lemmas.Tolerance Lemmas.Affine.
Import ListNotations.
Open Scope Q_scope.

(* ================================================================== *)
(* G1. the midpoint of the model is the exact midpoint                 *)
(* ================================================================== *)
Lemma evalr_half_emid : forall a b, peq (evalr [a; b] Qhalf) (emid [a; b]).
Proof.
  intros a b. unfold evalr, emid. cbn [first_pt last_pt hd last].
  eapply Lines.peq_trans; [apply Tolerance.pred_peq|].
  unfold Qhalf, lerp_pt. apply Winding.eval_line.
Qed.

Lemma wn_lines_mid : forall j a b,
  wn_lines j (evalr [a; b] Qhalf) = wn_lines j (emid [a; b]).
Proof. intros. apply wn_lines_peq, evalr_half_emid. Qed.

Lemma on_boundary_mid : forall j a b,
  on_boundary j (evalr [a; b] Qhalf) = on_boundary j (emid [a; b]).
Proof. intros. apply on_boundary_peq, evalr_half_emid. Qed.

(* the midpoint of a piece whose interior avoids j is off the boundary of j *)
Lemma open_off_mid : forall j a b, open_off j a b -> on_boundary j (evalr [a; b] Qhalf) = false.
Proof.
  intros j a b H. rewrite on_boundary_mid. unfold emid. cbn [first_pt last_pt hd last].
  apply H; lra.
Qed.

(* ================================================================== *)
(* G2. the midpoint test is the winding number test                    *)
(* ================================================================== *)
(* for a counter-clockwise curve (jordan_pos), at a point off the boundary at
   which the tolerance test is exact and the winding number is 0 or 1, both
   membership tests (closed, open) say "outside" exactly when the winding
   number is 0 *)
Theorem simple_has_point_wn : forall j m closed,
  all_lines j = true -> jordan_pos j = true -> tol_exact j m ->
  on_boundary j m = false -> (wn_lines j m = 0 \/ wn_lines j m = 1)%Z ->
  simple_has_point j m closed = negb (wn_lines j m =? 0)%Z.
Proof.
  intros j m closed HL HP HT HB HW. unfold simple_has_point.
  rewrite (jordan_wn2_lines j m HL HT), HB, HP.
  destruct HW as [-> | ->]; destruct closed; reflexivity.
Qed.

Corollary simple_has_point_false_iff : forall j m closed,
  all_lines j = true -> jordan_pos j = true -> tol_exact j m ->
  on_boundary j m = false -> (wn_lines j m = 0 \/ wn_lines j m = 1)%Z ->
  (simple_has_point j m closed = false <-> wn_lines j m = 0%Z).
Proof.
  intros j m closed HL HP HT HB HW.
  rewrite (simple_has_point_wn j m closed HL HP HT HB HW).
  destruct HW as [E | E]; rewrite E; cbn; split; intro; try reflexivity; discriminate.
Qed.

Corollary simple_has_point_true_iff : forall j m closed,
  all_lines j = true -> jordan_pos j = true -> tol_exact j m ->
  on_boundary j m = false -> (wn_lines j m = 0 \/ wn_lines j m = 1)%Z ->
  (simple_has_point j m closed = true <-> wn_lines j m = 1%Z).
Proof.
  intros j m closed HL HP HT HB HW.
  rewrite (simple_has_point_wn j m closed HL HP HT HB HW).
  destruct HW as [E | E]; rewrite E; cbn; split; intro; try reflexivity; discriminate.
Qed.

(* the two selection weights of the operators, in winding number form *)
Lemma union_weight : forall j m closed (z : Z),
  all_lines j = true -> jordan_pos j = true -> tol_exact j m ->
  on_boundary j m = false -> (wn_lines j m = 0 \/ wn_lines j m = 1)%Z ->
  (if Bool.eqb (simple_has_point j m closed) false then z else 0%Z)
  = (z * b2z (wn_lines j m =? 0))%Z.
Proof.
  intros j m closed z HL HP HT HB HW.
  rewrite (simple_has_point_wn j m closed HL HP HT HB HW).
  destruct HW as [E | E]; rewrite E; unfold b2z; cbn; lia.
Qed.

Lemma inter_weight : forall j m closed (z : Z),
  all_lines j = true -> jordan_pos j = true -> tol_exact j m ->
  on_boundary j m = false -> (wn_lines j m = 0 \/ wn_lines j m = 1)%Z ->
  (if Bool.eqb (simple_has_point j m closed) true then z else 0%Z)
  = (z * b2z (wn_lines j m =? 1))%Z.
Proof.
  intros j m closed z HL HP HT HB HW.
  rewrite (simple_has_point_wn j m closed HL HP HT HB HW).
  destruct HW as [E | E]; rewrite E; unfold b2z; cbn; lia.
Qed.

(* ================================================================== *)
(* G4. bookkeeping: result curves = selected pieces                    *)
(* ================================================================== *)
Lemma Zsum_concat_map : forall {X} (g : X -> Z) (ls : list (list X)),
  Zsum (map g (concat ls)) = Zsum (map (fun l => Zsum (map g l)) ls).
Proof.
  intros X g ls. induction ls as [|l ls IH]; [reflexivity|].
  cbn [concat map Zsum]. rewrite map_app, SplitClean.Zsum_app, IH. reflexivity.
Qed.

Lemma Zsum_map_concat_map : forall {X Y} (g : Y -> Z) (f : X -> list Y) l,
  Zsum (map g (concat (map f l))) = Zsum (map (fun x => Zsum (map g (f x))) l).
Proof. intros. rewrite Zsum_concat_map, map_map. reflexivity. Qed.

Lemma Zsum_indexed : forall {X} (l : list X) (F : nat * X -> Z) (f : X -> Z) s,
  (forall i x, In (i, x) (combine (seq s (length l)) l) -> F (i, x) = f x) ->
  Zsum (map F (combine (seq s (length l)) l)) = Zsum (map f l).
Proof.
  intros X l F f. induction l as [|y l IH]; intros s H; cbn [length seq combine map Zsum];
    [reflexivity|].
  rewrite (H s y) by (left; reflexivity). rewrite IH; [reflexivity|].
  intros i x Hin. apply H. right. exact Hin.
Qed.

(* the curves of the result carry the signed crossings of the selected pieces *)
Theorem follow_path_wn_sum : forall js idx new p,
  forallb all_lines js = true ->
  (forall ik, In ik idx -> valid_piece js (fst ik) (snd ik)) ->
  faithful_follow js idx ->
  follow_path js idx = Ok new ->
  Zsum (map (fun j => wn_lines j p) new)
  = Zsum (map (fun ik => crs p (piece js (fst ik) (snd ik))) idx).
Proof.
  intros js idx new p Hl Hv Hf H. rewrite follow_path_paths in H.
  apply bind_Ok in H. destruct H as (ps & Hps & Hm).
  destruct (Hf ps Hps) as [Hp Hj].
  rewrite <- (Zsum_map_perm _ _ _ Hp).
  assert (Hv' : forall q, In q ps -> forall ik, In ik q -> valid_piece js (fst ik) (snd ik)).
  { intros q Hin ik Hik. apply Hv. apply (Permutation_in _ Hp). apply in_concat.
    exists q. split; assumption. }
  clear Hp Hv Hps Hf. apply mapM_Ok_Forall2 in Hm.
  induction Hm as [|q j ps new Hqj _ IH]; [reflexivity|].
  cbn [map Zsum concat]. rewrite map_app, SplitClean.Zsum_app. f_equal.
  - assert (HL : all_lines (path_segs js q) = true)
      by (apply path_segs_lines; [exact Hl|]; apply Hv'; left; reflexivity).
    rewrite (indexs_to_jordan_exact js q HL) in Hqj by (apply Hj; left; reflexivity).
    inversion Hqj; subst j. unfold wn_lines, path_segs. rewrite map_map. reflexivity.
  - apply IH.
    + intros q' Hq'. apply Hj. right. exact Hq'.
    + intros q' Hq'. apply Hv'. right. exact Hq'.
Qed.

(* sum over a selection = sum over all pieces of indicator * weight *)
Lemma selection_Zsum_one : forall a b closed inside (h : seg -> Z),
  Zsum (map (fun ik => h (piece (jordans a) (fst ik) (snd ik)))
            (midpoints_one_shape a b closed inside))
  = Zsum (map (fun j => Zsum (map (fun s =>
               if Bool.eqb (contains_point b (evalr s Qhalf) closed) inside then h s else 0%Z) j))
            (jordans a)).
Proof.
  intros a b closed inside h. unfold midpoints_one_shape. set (js := jordans a).
  rewrite Zsum_map_concat_map. apply Zsum_indexed. intros i j Hij.
  apply In_combine_seq in Hij. destruct Hij as [_ Hij]. rewrite Nat.sub_0_r in Hij.
  apply (nth_error_Some_nth js i j []) in Hij. destruct Hij as [Hi Hj].
  rewrite Zsum_map_concat_map. apply Zsum_indexed. intros k s Hks.
  apply In_combine_seq in Hks. destruct Hks as [_ Hks]. rewrite Nat.sub_0_r in Hks.
  apply (nth_error_Some_nth j k s []) in Hks. destruct Hks as [Hk Hs].
  destruct (Bool.eqb _ inside); cbn [map Zsum fst snd]; [|reflexivity].
  unfold piece. rewrite Hj, Hs. lia.
Qed.

Theorem selection_Zsum : forall a b closed inside (h : seg -> Z),
  Zsum (map (fun ik => h (piece (jordans a ++ jordans b) (fst ik) (snd ik)))
            (midpoints_shapes a b closed inside))
  = (Zsum (map (fun j => Zsum (map (fun s =>
               if Bool.eqb (contains_point b (evalr s Qhalf) closed) inside then h s else 0%Z) j))
            (jordans a))
     + Zsum (map (fun j => Zsum (map (fun s =>
               if Bool.eqb (contains_point a (evalr s Qhalf) closed) inside then h s else 0%Z) j))
            (jordans b)))%Z.
Proof.
  intros a b closed inside h. unfold midpoints_shapes.
  rewrite map_app, SplitClean.Zsum_app, map_map.
  rewrite <- (selection_Zsum_one a b closed inside h), <- (selection_Zsum_one b a closed inside h).
  f_equal.
  - apply Zsum_map_ext. intros ik Hik.
    rewrite piece_app_l by (eapply midpoints_one_shape_lt; exact Hik). reflexivity.
  - apply Zsum_map_ext. intros ik Hik. cbn [fst snd].
    rewrite piece_app_r by lia.
    replace (length (jordans a) + fst ik - length (jordans a))%nat with (fst ik) by lia.
    reflexivity.
Qed.

(* ================================================================== *)
(* the operands after the mutual splitting                             *)
(* ================================================================== *)
(* a point of the part [u, v] of the segment a-b lies on the edge between the
   points at u and at v *)
Lemma on_edge_sub : forall a b f g p u v t, u < v -> u <= t -> t <= v ->
  peq f (pt_at a b u) -> peq g (pt_at a b v) -> peq p (pt_at a b t) ->
  on_edge f g p = true.
Proof.
  intros a b f g p u v t UV UT TV Hf Hg Hp.
  rewrite (Affine.on_edge_peq3 f (pt_at a b u) g (pt_at a b v) p p Hf Hg (Lines.peq_refl p)).
  assert (D : ~ v - u == 0) by lra.
  set (x := (t - u) / (v - u)).
  assert (X : x * (v - u) == t - u) by (unfold x; field; exact D).
  apply (Tolerance.on_edge_param _ _ p x); [nra | nra |].
  eapply Lines.peq_trans; [exact Hp|]. apply Lines.peq_sym.
  eapply Lines.peq_trans; [apply pt_at_pt_at|]. apply pt_at_compat. lra.
Qed.

Lemma subdiv_from_cover : forall a b u l ps, subdiv_from a b u l ps -> incr u l ->
  forall t p, u <= t -> t <= 1 -> peq p (pt_at a b t) ->
  exists s, In s ps /\ on_edge (first_pt s) (last_pt s) p = true.
Proof.
  intros a b u l ps H. induction H as [u s Hp | u v l s ps Hp Hsd IH]; intros Hi t p UT T1 Pp.
  - cbn [incr] in Hi. destruct Hp as (_ & Hf & Hg). exists s. split; [left; reflexivity|].
    exact (on_edge_sub a b _ _ p u 1 t Hi UT T1 Hf Hg Pp).
  - cbn [incr] in Hi. destruct Hi as [Hi1 Hi2].
    destruct (Qlt_le_dec v t) as [VT|TV].
    + destruct (IH Hi2 t p ltac:(lra) T1 Pp) as (s' & Hs' & E).
      exists s'. split; [right; exact Hs'|exact E].
    + destruct Hp as (_ & Hf & Hg). exists s. split; [left; reflexivity|].
      exact (on_edge_sub a b _ _ p u v t Hi1 UT TV Hf Hg Pp).
Qed.

Lemma subdiv_cover : forall s ps p, subdiv s ps ->
  on_edge (first_pt s) (last_pt s) p = true -> on_boundary ps p = true.
Proof.
  intros s ps p (a & b & ts & -> & Hi & H) He. cbn [first_pt last_pt hd last] in He.
  destruct (Subset.on_edge_param a b p He) as (t & [T0 T1] & Pp).
  destruct (subdiv_from_cover a b 0 ts ps H Hi t p T0 T1 Pp) as (x & Hx & E).
  unfold on_boundary. apply existsb_exists. exists x. split; assumption.
Qed.

Lemma Forall2_subdiv_cover : forall j pieces p, Forall2 subdiv j pieces ->
  on_boundary j p = true -> on_boundary (concat pieces) p = true.
Proof.
  intros j pieces p F. induction F as [|s ps j pieces Hsd _ IH]; intro H; [exact H|].
  change (on_boundary (s :: j) p) with (on_edge (first_pt s) (last_pt s) p || on_boundary j p) in H.
  cbn [concat]. rewrite Cells.on_boundary_app. apply orb_true_iff.
  apply orb_true_iff in H. destruct H as [H|H].
  - left. exact (subdiv_cover s ps p Hsd H).
  - right. apply IH. exact H.
Qed.

(* JordanCurve.split keeps the exact point set of the boundary *)
Theorem split_boundary_eq : forall j idx nodes j',
  all_lines j = true -> Jordan.split j idx nodes = Ok j' ->
  forall p, on_boundary j' p = on_boundary j p.
Proof.
  intros j idx nodes j' Hl H p.
  destruct (on_boundary j p) eqn:E.
  - destruct (split_spec _ _ _ _ Hl H) as (pieces & -> & F).
    exact (Forall2_subdiv_cover j pieces p F E).
  - destruct (on_boundary j' p) eqn:E'; [|reflexivity].
    rewrite (Cells.split_boundary j idx nodes j' Hl H p E') in E. discriminate.
Qed.

(* what the splitting keeps *)
Definition same_curve (j j' : jordan) : Prop :=
  all_lines j' = true /\
  (closed_chain j = true -> closed_chain j' = true) /\
  (forall p, wn_lines j' p = wn_lines j p) /\
  (forall p, on_boundary j' p = on_boundary j p) /\
  jordan_area j' == jordan_area j.

Lemma same_curve_refl : forall j, all_lines j = true -> same_curve j j.
Proof. intros j H. repeat split; auto. Qed.

Lemma split_same_curve : forall j idx nodes j', all_lines j = true ->
  Jordan.split j idx nodes = Ok j' -> same_curve j j'.
Proof.
  intros j idx nodes j' Hl H. split; [exact (split_all_lines _ _ _ _ Hl H)|].
  split; [exact (SplitClean.split_closed _ _ _ _ Hl H)|].
  split; [exact (split_wn _ _ _ _ Hl H)|].
  split; [exact (split_boundary_eq _ _ _ _ Hl H)|].
  exact (split_area _ _ _ _ Hl H).
Qed.

Lemma split_two_same_curve : forall ja jb ja' jb',
  all_lines ja = true -> all_lines jb = true ->
  split_two_jordans ja jb = Ok (ja', jb') -> same_curve ja ja' /\ same_curve jb jb'.
Proof.
  intros ja jb ja' jb' Ha Hb H. unfold split_two_jordans in H.
  destruct (box_and _ _); [|inversion H; subst; split; apply same_curve_refl; assumption].
  destruct (jordan_and ja jb) as [inters| |]; cbn [bind] in H; try discriminate.
  destruct (Jordan.split ja _ _) as [xa| |] eqn:Ea; cbn [bind] in H; try discriminate.
  destruct (Jordan.split jb _ _) as [xb| |] eqn:Eb; cbn [bind] in H; try discriminate.
  inversion H; subst.
  split; [exact (split_same_curve _ _ _ _ Ha Ea)|exact (split_same_curve _ _ _ _ Hb Eb)].
Qed.

Lemma same_curve_pos : forall j j', same_curve j j' -> jordan_pos j' = jordan_pos j.
Proof.
  intros j j' (_ & _ & _ & _ & E). unfold jordan_pos.
  apply SubsetComplete.Qlt_bool_compat; [reflexivity|exact E].
Qed.

(* recombine on two simple shapes, exposed *)
Theorem recombine_simple_inv : forall ja jb closed inside a' b' new,
  recombine (SC (CS ja)) (SC (CS jb)) closed inside = Ok (a', b', new) ->
  exists ja' jb', split_two_jordans ja jb = Ok (ja', jb') /\
    a' = SC (CS ja') /\ b' = SC (CS jb') /\
    follow_path [ja'; jb'] (midpoints_shapes (SC (CS ja')) (SC (CS jb')) closed inside) = Ok new.
Proof.
  intros ja jb closed inside a' b' new H.
  destruct (recombine_inv _ _ _ _ _ _ _ H) as (jas & jbs & Es & Ea & Eb & Ef).
  cbn [jordans comp_jordans split_all split_one_against] in Es.
  destruct (split_two_jordans ja jb) as [[xa xb]| |] eqn:E2; cbn [bind] in Es; try discriminate.
  inversion Es; subst jas jbs. clear Es.
  exists xa, xb. split; [reflexivity|].
  cbn [with_jordans comp_with fst hd] in Ea, Eb. subst a' b'.
  split; [reflexivity|]. split; [reflexivity|]. exact Ef.
Qed.

(* ================================================================== *)
(* the sum over the result curves, for both operators                  *)
(* ================================================================== *)
(* the operand is a valid simple polygon: off its boundary the winding number
   is 0 (outside) or 1 (inside) *)
Definition simple01 (j : jordan) : Prop :=
  forall q, on_boundary j q = false -> (wn_lines j q = 0 \/ wn_lines j q = 1)%Z.

Lemma simple01_same : forall j j', same_curve j j' -> simple01 j -> simple01 j'.
Proof.
  intros j j' (_ & _ & W & B & _) H q Hq. rewrite W. apply H. rewrite <- B. exact Hq.
Qed.

(* the tolerance test of the other operand's curves is exact at the piece midpoints *)
Definition mids_tol_exact (a b : shape) : Prop :=
  forall j s j2, In j (jordans a) -> In s j -> In j2 (jordans b) -> tol_exact j2 (evalr s Qhalf).
(* (G3) no piece of a meets a boundary curve of b in its interior *)
Definition pieces_open_off (a b : shape) : Prop :=
  forall j s j2, In j (jordans a) -> In s j -> In j2 (jordans b) ->
    open_off j2 (first_pt s) (last_pt s).

Lemma sel_weight : forall j m closed inside (z : Z),
  all_lines j = true -> jordan_pos j = true -> tol_exact j m ->
  on_boundary j m = false -> (wn_lines j m = 0 \/ wn_lines j m = 1)%Z ->
  (if Bool.eqb (simple_has_point j m closed) inside then z else 0%Z)
  = (z * b2z (wn_lines j m =? (if inside then 1 else 0)))%Z.
Proof.
  intros j m closed [|] z; [apply inter_weight | apply union_weight].
Qed.

(* one operand's share of the selection sum, in winding number form *)
Lemma share_sum : forall j j2 closed inside p,
  all_lines j = true -> all_lines j2 = true -> jordan_pos j2 = true -> simple01 j2 ->
  (forall s, In s j -> tol_exact j2 (evalr s Qhalf)) ->
  (forall s, In s j -> open_off j2 (first_pt s) (last_pt s)) ->
  Zsum (map (fun s => if Bool.eqb (simple_has_point j2 (evalr s Qhalf) closed) inside
                      then crs p s else 0%Z) j)
  = Zsum (map (fun s => (cr (first_pt s) (last_pt s) p
                         * b2z (wn_lines j2 (emid s) =? (if inside then 1 else 0)))%Z) j).
Proof.
  intros j j2 closed inside p HL HL2 HP H01 HT HO. apply Zsum_map_ext. intros s Hs.
  destruct (all_lines_In j s HL Hs) as (a & b & ->).
  pose proof (open_off_mid j2 a b (HO _ Hs)) as HB.
  rewrite (sel_weight j2 _ closed inside (crs p [a; b]) HL2 HP (HT _ Hs) HB (H01 _ HB)).
  rewrite wn_lines_mid. reflexivity.
Qed.

Theorem recombine_selected_sum : forall ja jb closed inside a' b' new p,
  all_lines ja = true -> all_lines jb = true ->
  jordan_pos ja = true -> jordan_pos jb = true ->
  simple01 ja -> simple01 jb ->
  recombine (SC (CS ja)) (SC (CS jb)) closed inside = Ok (a', b', new) ->
  mids_tol_exact a' b' -> mids_tol_exact b' a' ->
  pieces_open_off a' b' -> pieces_open_off b' a' ->
  faithful_follow (jordans a' ++ jordans b') (midpoints_shapes a' b' closed inside) ->
  exists ja' jb', a' = SC (CS ja') /\ b' = SC (CS jb') /\
    same_curve ja ja' /\ same_curve jb jb' /\
    Zsum (map (fun j => wn_lines j p) new)
    = (Zsum (map (fun s => (cr (first_pt s) (last_pt s) p
                 * b2z (wn_lines jb' (emid s) =? (if inside then 1 else 0)))%Z) ja')
       + Zsum (map (fun t => (cr (first_pt t) (last_pt t) p
                 * b2z (wn_lines ja' (emid t) =? (if inside then 1 else 0)))%Z) jb'))%Z.
Proof.
  intros ja jb closed inside a' b' new p La Lb Pa Pb Sa Sb H MTa MTb OOa OOb FF.
  destruct (recombine_simple_inv _ _ _ _ _ _ _ H) as (ja' & jb' & E2 & -> & -> & Ef).
  destruct (split_two_same_curve _ _ _ _ La Lb E2) as [Ca Cb].
  exists ja', jb'. split; [reflexivity|]. split; [reflexivity|].
  split; [exact Ca|]. split; [exact Cb|].
  pose proof Ca as (La' & _). pose proof Cb as (Lb' & _).
  cbn [jordans comp_jordans] in FF.
  assert (Hl : forallb all_lines ([ja'] ++ [jb']) = true)
    by (cbn [app forallb]; rewrite La', Lb'; reflexivity).
  rewrite (follow_path_wn_sum ([ja'] ++ [jb']) _ new p Hl
             (midpoints_shapes_valid (SC (CS ja')) (SC (CS jb')) closed inside) FF Ef).
  pose proof (selection_Zsum (SC (CS ja')) (SC (CS jb')) closed inside (crs p)) as SZ.
  cbn [jordans comp_jordans] in SZ. rewrite SZ. clear SZ.
  cbn [map Zsum contains_point comp_has_point]. rewrite !Z.add_0_r.
  f_equal.
  - apply share_sum; try assumption.
    + rewrite (same_curve_pos _ _ Cb). exact Pb.
    + exact (simple01_same _ _ Cb Sb).
    + intros s Hs. apply (MTa ja' s jb'); [left; reflexivity|exact Hs|left; reflexivity].
    + intros s Hs. apply (OOa ja' s jb'); [left; reflexivity|exact Hs|left; reflexivity].
  - apply share_sum; try assumption.
    + rewrite (same_curve_pos _ _ Ca). exact Pa.
    + exact (simple01_same _ _ Ca Sa).
    + intros s Hs. apply (MTb jb' s ja'); [left; reflexivity|exact Hs|left; reflexivity].
    + intros s Hs. apply (OOb jb' s ja'); [left; reflexivity|exact Hs|left; reflexivity].
Qed.

(* ================================================================== *)
(* CORE: soundness with (G3) as a hypothesis                           *)
(* ================================================================== *)
(* the vertical line through p avoids the vertices of the re-split operands *)
Definition line_avoids_vertices (a' b' : shape) (x : Q) : Prop :=
  forall j, In j (jordans a' ++ jordans b') -> no_vertex_on j x.

Section Core.
  Variables (ja jb : jordan) (a' b' : shape) (new : list jordan) (p : point).
  Hypothesis La : all_lines ja = true.
  Hypothesis Lb : all_lines jb = true.
  Hypothesis Ca : closed_chain ja = true.
  Hypothesis Cb : closed_chain jb = true.
  Hypothesis Pa : jordan_pos ja = true.
  Hypothesis Pb : jordan_pos jb = true.
  Hypothesis Sa : simple01 ja.
  Hypothesis Sb : simple01 jb.
  Hypothesis NV : line_avoids_vertices a' b' (px p).
  Hypothesis NC : no_common ja jb (px p).
  Hypothesis MTa : mids_tol_exact a' b'.
  Hypothesis MTb : mids_tol_exact b' a'.
  Hypothesis OOa : pieces_open_off a' b'.
  Hypothesis OOb : pieces_open_off b' a'.

  Lemma core_ray_hyps : forall ja' jb', a' = SC (CS ja') -> b' = SC (CS jb') ->
    same_curve ja ja' -> same_curve jb jb' ->
    closed_chain ja' = true /\ closed_chain jb' = true /\
    no_vertex_on ja' (px p) /\ no_vertex_on jb' (px p) /\ no_common ja' jb' (px p) /\
    wn01_off ja' (px p) /\ wn01_off jb' (px p) /\
    (forall s, In s ja' -> open_off jb' (first_pt s) (last_pt s)) /\
    (forall t, In t jb' -> open_off ja' (first_pt t) (last_pt t)).
  Proof.
    intros ja' jb' Ea Eb Sca Scb. subst a' b'.
    pose proof Sca as (_ & Cca & _ & Ba & _). pose proof Scb as (_ & Ccb & _ & Bb & _).
    split; [exact (Cca Ca)|]. split; [exact (Ccb Cb)|].
    split; [apply NV; left; reflexivity|].
    split; [apply NV; right; left; reflexivity|].
    split; [intros y Ha Hb; rewrite Ba in Ha; rewrite Bb in Hb; exact (NC y Ha Hb)|].
    split; [intros y Hy; exact (simple01_same _ _ Sca Sa _ Hy)|].
    split; [intros y Hy; exact (simple01_same _ _ Scb Sb _ Hy)|].
    split.
    - intros s Hs. apply (OOa ja' s jb'); [left; reflexivity|exact Hs|left; reflexivity].
    - intros s Hs. apply (OOb jb' s ja'); [left; reflexivity|exact Hs|left; reflexivity].
  Qed.

  Theorem recombine_union_core :
    recombine (SC (CS ja)) (SC (CS jb)) true false = Ok (a', b', new) ->
    faithful_follow (jordans a' ++ jordans b') (midpoints_shapes a' b' true false) ->
    Zsum (map (fun j => wn_lines j p) new)
    = (if (wn_lines ja p =? 0)%Z && (wn_lines jb p =? 0)%Z then 0 else 1)%Z.
  Proof.
    intros H FF.
    destruct (recombine_selected_sum ja jb true false a' b' new p La Lb Pa Pb Sa Sb H
                MTa MTb OOa OOb FF) as (ja' & jb' & Ea & Eb & Sca & Scb & ->).
    destruct (core_ray_hyps ja' jb' Ea Eb Sca Scb)
      as (C1 & C2 & N1 & N2 & N3 & W1 & W2 & O1 & O2).
    rewrite (ray_sum_mid_union ja' jb' p C1 C2 N1 N2 N3 W1 W2 O1 O2).
    destruct Sca as (_ & _ & Wa & _). destruct Scb as (_ & _ & Wb & _).
    rewrite Wa, Wb. reflexivity.
  Qed.

  Theorem recombine_inter_core :
    recombine (SC (CS ja)) (SC (CS jb)) false true = Ok (a', b', new) ->
    faithful_follow (jordans a' ++ jordans b') (midpoints_shapes a' b' false true) ->
    Zsum (map (fun j => wn_lines j p) new)
    = (if (wn_lines ja p =? 1)%Z && (wn_lines jb p =? 1)%Z then 1 else 0)%Z.
  Proof.
    intros H FF.
    destruct (recombine_selected_sum ja jb false true a' b' new p La Lb Pa Pb Sa Sb H
                MTa MTb OOa OOb FF) as (ja' & jb' & Ea & Eb & Sca & Scb & ->).
    destruct (core_ray_hyps ja' jb' Ea Eb Sca Scb)
      as (C1 & C2 & N1 & N2 & N3 & W1 & W2 & O1 & O2).
    rewrite (ray_sum_mid_inter ja' jb' p C1 C2 N1 N2 N3 W1 W2 O1 O2).
    destruct Sca as (_ & _ & Wa & _). destruct Scb as (_ & _ & Wb & _).
    rewrite Wa, Wb. reflexivity.
  Qed.
End Core.

(* ================================================================== *)
(* G3. after the mutual splitting the pieces of one operand do not     *)
(*     meet the other boundary in their interior                       *)
(* ================================================================== *)
(* ---- (a) disjoint boxes: no common boundary point ---- *)
Lemma on_edge_in_box : forall j a b p, In [a; b] j -> on_edge a b p = true ->
  bxmin (jordan_box j) <= px p /\ px p <= bxmax (jordan_box j) /\
  bymin (jordan_box j) <= py p /\ py p <= bymax (jordan_box j).
Proof.
  intros j a b p Hin He. pose proof (jordan_box_le j [a; b] Hin) as (B1 & B2 & B3 & B4).
  rewrite Lines.seg_box_2 in B1, B2, B3, B4.
  unfold bxmin, bymin, bxmax, bymax in *; cbn [fst snd] in *.
  unfold on_edge in He. rewrite !andb_true_iff, !between_iff in He. destruct He as [[_ Hx] Hy].
  pose proof (Qmin'_l (px a) (px b)). pose proof (Qmin'_r (px a) (px b)).
  pose proof (Qmin'_l (py a) (py b)). pose proof (Qmin'_r (py a) (py b)).
  pose proof (Qmax'_l (px a) (px b)). pose proof (Qmax'_r (px a) (px b)).
  pose proof (Qmax'_l (py a) (py b)). pose proof (Qmax'_r (py a) (py b)).
  repeat split; lra.
Qed.

Lemma on_boundary_in_box : forall j p, all_lines j = true -> on_boundary j p = true ->
  bxmin (jordan_box j) <= px p /\ px p <= bxmax (jordan_box j) /\
  bymin (jordan_box j) <= py p /\ py p <= bymax (jordan_box j).
Proof.
  intros j p HL HB. unfold on_boundary in HB. apply existsb_exists in HB.
  destruct HB as (s & Hs & He). destruct (all_lines_In j s HL Hs) as (a & b & ->).
  exact (on_edge_in_box j a b p Hs He).
Qed.

Lemma box_none_disjoint : forall ja jb p, all_lines ja = true -> all_lines jb = true ->
  box_and (jordan_box ja) (jordan_box jb) = None ->
  on_boundary ja p = true -> on_boundary jb p = true -> False.
Proof.
  intros ja jb p La Lb HN Ha Hb.
  destruct (on_boundary_in_box ja p La Ha) as (A1 & A2 & A3 & A4).
  destruct (on_boundary_in_box jb p Lb Hb) as (B1 & B2 & B3 & B4).
  unfold box_and in HN.
  match type of HN with context [Qlt_bool ?a ?b] => destruct (Qlt_bool a b) eqn:X end.
  { apply Lines.Qlt_bool_true in X.
    pose proof (Lines.Qmax'_lub _ _ _ A1 B1). pose proof (Lines.Qmin'_glb _ _ _ A2 B2). lra. }
  match type of HN with context [Qlt_bool ?a ?b] => destruct (Qlt_bool a b) eqn:Y end.
  { apply Lines.Qlt_bool_true in Y.
    pose proof (Lines.Qmax'_lub _ _ _ A3 B3). pose proof (Lines.Qmin'_glb _ _ _ A4 B4). lra. }
  discriminate.
Qed.

(* ---- (b) the (index, parameter) pairs JordanCurve.split is asked for ---- *)
Definition cuts_a (inters : list irow) : list (nat * Q) :=
  concat (map (fun r : irow => let '(a, _, o) := r in
                 match o with Some (u, _) => [(a, u)] | None => [] end) inters).
Definition cuts_b (inters : list irow) : list (nat * Q) :=
  concat (map (fun r : irow => let '(_, b, o) := r in
                 match o with Some (_, v) => [(b, v)] | None => [] end) inters).
Definition cut_order (raw : list (nat * Q)) : list (nat * Q) :=
  sort_by nat_q_le (dedup nq_eqb raw).

Lemma cuts_a_In : forall inters a b u v, In (a, b, Some (u, v)) inters -> In (a, u) (cuts_a inters).
Proof.
  intros inters a b u v H. unfold cuts_a. apply in_concat. exists [(a, u)].
  split; [|left; reflexivity]. apply in_map_iff. exists (a, b, Some (u, v)). split; [reflexivity|exact H].
Qed.
Lemma cuts_b_In : forall inters a b u v, In (a, b, Some (u, v)) inters -> In (b, v) (cuts_b inters).
Proof.
  intros inters a b u v H. unfold cuts_b. apply in_concat. exists [(b, v)].
  split; [|left; reflexivity]. apply in_map_iff. exists (a, b, Some (u, v)). split; [reflexivity|exact H].
Qed.

Theorem split_two_jordans_inv : forall ja jb ja' jb',
  split_two_jordans ja jb = Ok (ja', jb') ->
  (box_and (jordan_box ja) (jordan_box jb) = None /\ ja' = ja /\ jb' = jb) \/
  exists inters, jordan_and ja jb = Ok inters /\
    Jordan.split ja (map fst (cut_order (cuts_a inters))) (map snd (cut_order (cuts_a inters))) = Ok ja' /\
    Jordan.split jb (map fst (cut_order (cuts_b inters))) (map snd (cut_order (cuts_b inters))) = Ok jb'.
Proof.
  intros ja jb ja' jb' H. unfold split_two_jordans in H.
  destruct (box_and _ _); [|left; inversion H; subst; repeat split].
  right. destruct (jordan_and ja jb) as [inters| |]; cbn [bind] in H; try discriminate.
  cbv zeta in H. fold (cuts_a inters) in H. fold (cuts_b inters) in H.
  fold (cut_order (cuts_a inters)) in H. fold (cut_order (cuts_b inters)) in H.
  destruct (Jordan.split ja _ _) as [xa| |] eqn:Ea; cbn [bind] in H; try discriminate.
  destruct (Jordan.split jb _ _) as [xb| |] eqn:Eb; cbn [bind] in H; try discriminate.
  inversion H; subst. exists inters. repeat split; assumption.
Qed.

(* ---- (c) no tolerance effect on the cut parameters ---- *)
(* the parameters strictly inside (0,1) are not within 1e-6 of an end, and two
   kept parameters of the same segment are equal or at least 1e-6 apart *)
Definition cuts_clean (pairs : list (nat * Q)) : Prop :=
  (forall iu, In iu pairs -> 0 < snd iu -> snd iu < 1 -> near01 (snd iu) = false) /\
  (forall iu iv, In iu pairs -> In iv pairs -> fst iu = fst iv ->
     near01 (snd iu) = false -> near01 (snd iv) = false ->
     snd iu == snd iv \/ tol6 <= Qabs' (snd iu - snd iv)).

Definition same_cut (x y : nat * Q) : Prop := fst x = fst y /\ snd x == snd y.

Lemma drop_repeated_from_repr : forall l prev,
  (forall x y, In x (prev :: l) -> In y (prev :: l) -> fst x = fst y ->
     snd x == snd y \/ tol6 <= Qabs' (snd x - snd y)) ->
  forall x, In x l -> exists x', In x' (prev :: drop_repeated_from prev l) /\ same_cut x' x.
Proof.
  induction l as [|q t IH]; intros prev Hsep x Hx; [destruct Hx|].
  cbn [drop_repeated_from].
  destruct (Nat.eqb (fst prev) (fst q) && Qlt_bool (Qabs' (snd q - snd prev)) tol6) eqn:E.
  - apply andb_true_iff in E. destruct E as [E1 E2].
    apply Nat.eqb_eq in E1. apply Lines.Qlt_bool_true in E2.
    assert (Hsep' : forall x y, In x (prev :: t) -> In y (prev :: t) -> fst x = fst y ->
              snd x == snd y \/ tol6 <= Qabs' (snd x - snd y)).
    { intros a b Ha Hb. apply Hsep; cbn [In] in *; tauto. }
    destruct Hx as [<-|Hx].
    + exists prev. split; [left; reflexivity|]. split; [exact E1|].
      destruct (Hsep q prev) as [K|K]; [right; left; reflexivity|left; reflexivity|
                                        symmetry; exact E1| |lra].
      symmetry. exact K.
    + exact (IH prev Hsep' x Hx).
  - assert (Hsep' : forall x y, In x (q :: t) -> In y (q :: t) -> fst x = fst y ->
              snd x == snd y \/ tol6 <= Qabs' (snd x - snd y)).
    { intros a b Ha Hb. apply Hsep; right; assumption. }
    destruct Hx as [<-|Hx].
    + exists q. split; [right; left; reflexivity|]. split; reflexivity.
    + destruct (IH q Hsep' x Hx) as (x' & Hx' & S). exists x'. split; [right; exact Hx'|exact S].
Qed.

Lemma drop_repeated_repr : forall l,
  (forall x y, In x l -> In y l -> fst x = fst y ->
     snd x == snd y \/ tol6 <= Qabs' (snd x - snd y)) ->
  forall x, In x l -> exists x', In x' (drop_repeated l) /\ same_cut x' x.
Proof.
  intros [|q t] Hsep x Hx; [destruct Hx|]. cbn [drop_repeated].
  destruct Hx as [<-|Hx].
  - exists q. split; [left; reflexivity|]. split; reflexivity.
  - exact (drop_repeated_from_repr t q Hsep x Hx).
Qed.

Lemma combine_fst_snd : forall {X Y} (l : list (X * Y)), combine (map fst l) (map snd l) = l.
Proof.
  intros X Y l. induction l as [|[x y] l IH]; [reflexivity|]. cbn [map combine fst snd]. rewrite IH.
  reflexivity.
Qed.

(* every requested parameter strictly inside (0,1) is a node of the splitting *)
Lemma split_nodes_complete : forall raw i t,
  cuts_clean raw -> In (i, t) raw -> 0 < t -> t < 1 ->
  exists t', In t' (split_nodes (map fst (cut_order raw)) (map snd (cut_order raw)) i) /\ t' == t.
Proof.
  intros raw i t [Hnear Hsep] Hin T0 T1.
  destruct (dedup_repr nq_eqb (fun x y => same_cut y x)) with (l := raw) (x := (i, t))
    as (y & Hy & [Fy Sy]); try exact Hin.
  { intros x. split; reflexivity. }
  { intros x y z [A1 A2] [B1 B2]. split; [congruence|]. rewrite B2. exact A2. }
  { intros x y E. unfold nq_eqb in E. apply andb_true_iff in E. destruct E as [E1 E2].
    apply Nat.eqb_eq in E1. apply Qeq_bool_iff in E2. split; [symmetry; exact E1|symmetry; exact E2]. }
  cbn [fst snd] in Fy, Sy.
  assert (Hyraw : In y raw) by (apply dedup_In in Hy; exact Hy).
  assert (Ny : near01 (snd y) = false) by (apply Hnear; [exact Hyraw|lra|lra]).
  unfold split_nodes, nodes_of, split_pairs. rewrite combine_fst_snd.
  set (l := filter (fun iu : nat * Q => negb (near01 (snd iu))) (sort_by pair_le (cut_order raw))).
  assert (Hl : forall x, In x l -> In x raw /\ near01 (snd x) = false).
  { intros x Hx. unfold l in Hx. apply filter_In in Hx. destruct Hx as [Hx Nx].
    apply negb_true_iff in Nx. split; [|exact Nx].
    apply Lines.sort_by_In in Hx. unfold cut_order in Hx. apply Lines.sort_by_In in Hx.
    apply dedup_In in Hx. exact Hx. }
  assert (Hyl : In y l).
  { unfold l. apply filter_In. split; [|rewrite Ny; reflexivity].
    apply Lines.sort_by_In. unfold cut_order. apply Lines.sort_by_In. exact Hy. }
  destruct (drop_repeated_repr l) with (x := y) as (y' & Hy' & [Fy' Sy']); [|exact Hyl|].
  { intros a b Ha Hb Hab. destruct (Hl a Ha) as [Ra Na]. destruct (Hl b Hb) as [Rb Nb].
    exact (Hsep a b Ra Rb Hab Na Nb). }
  exists (snd y'). split; [|rewrite Sy', Sy; reflexivity].
  apply in_map. apply filter_In. split; [exact Hy'|]. apply Nat.eqb_eq. congruence.
Qed.

(* ---- (d) the pieces of a subdivision ---- *)
Lemma subdiv_from_piece : forall a b u0 l ps, subdiv_from a b u0 l ps -> incr u0 l ->
  forall s, In s ps -> exists u v, piece_par a b s u v /\ u0 <= u /\ u < v /\ v <= 1 /\
    forall t, In t l -> t <= u \/ v <= t.
Proof.
  intros a b u0 l ps H. induction H as [u s Hp | u v l s ps Hp Hsd IH]; intros Hi s' Hin.
  - destruct Hin as [<-|[]]. cbn [incr] in Hi. exists u, 1.
    split; [exact Hp|]. repeat split; try lra. intros t [].
  - cbn [incr] in Hi. destruct Hi as [Hi1 Hi2]. pose proof (incr_lt1 _ _ Hi2) as V1.
    destruct Hin as [<-|Hin].
    + exists u, v. split; [exact Hp|]. repeat split; try lra.
      intros t [<-|Ht]; [right; lra|]. destruct (incr_In _ _ _ Hi2 Ht). right; lra.
    + destruct (IH Hi2 s' Hin) as (u' & v' & Hp' & A1 & A2 & A3 & A4).
      exists u', v'. split; [exact Hp'|]. repeat split; try lra.
      intros t [<-|Ht]; [left; lra|exact (A4 t Ht)].
Qed.

Lemma Forall2i_concat_In : forall (P : nat -> seg -> list seg -> Prop) k l m s,
  Forall2i P k l m -> In s (concat m) ->
  exists i x ps, nth_error l i = Some x /\ In s ps /\ P (k + i)%nat x ps.
Proof.
  intros P k l m s F. induction F as [k|k x y l m Hxy F IH]; intro Hin; [destruct Hin|].
  cbn [concat] in Hin. apply in_app_iff in Hin. destruct Hin as [Hin|Hin].
  - exists 0%nat, x, y. rewrite Nat.add_0_r. split; [reflexivity|]. split; assumption.
  - destruct (IH Hin) as (i & x' & ps & Hn & Hs & HP). exists (S i), x', ps.
    split; [exact Hn|]. split; [exact Hs|]. replace (k + S i)%nat with (S k + i)%nat by lia. exact HP.
Qed.

(* a piece of the re-split curve is a part (lo, hi) of a segment of the curve
   and no requested cut parameter lies strictly inside it *)
Theorem split_piece_no_cut : forall j raw j' s,
  all_lines j = true -> cuts_clean raw ->
  Jordan.split j (map fst (cut_order raw)) (map snd (cut_order raw)) = Ok j' -> In s j' ->
  exists i a0 a1 lo hi, (i < length j)%nat /\ nth i j [] = [a0; a1] /\
    piece_par a0 a1 s lo hi /\ 0 <= lo /\ lo < hi /\ hi <= 1 /\
    forall t, In (i, t) raw -> lo < t -> t < hi -> False.
Proof.
  intros j raw j' s HL HC H Hs.
  destruct (split_spec_nodes _ _ _ _ HL H) as (pieces & -> & F).
  destruct (Forall2i_concat_In _ _ _ _ _ F Hs) as (i & x & ps & Hn & Hps & (a0 & a1 & -> & Hi & Hsd)).
  cbn [Nat.add] in Hi, Hsd.
  destruct (subdiv_from_piece _ _ _ _ _ Hsd Hi s Hps) as (lo & hi & Hp & A1 & A2 & A3 & A4).
  apply (nth_error_Some_nth j i [a0; a1] []) in Hn. destruct Hn as [Hlt Hnth].
  exists i, a0, a1, lo, hi.
  split; [exact Hlt|]. split; [exact Hnth|]. split; [exact Hp|].
  split; [exact A1|]. split; [exact A2|]. split; [exact A3|].
  intros t Ht T1 T2.
  destruct (split_nodes_complete raw i t HC Ht ltac:(lra) ltac:(lra)) as (t' & Ht' & E).
  destruct (A4 t' Ht'); lra.
Qed.

(* ---- (e) every common point is a reported crossing ---- *)
Lemma common_point_row : forall ja jb inters a b a0 a1 b0 b1 u v,
  Subset.general_position ja jb -> jordan_and ja jb = Ok inters ->
  (a < length ja)%nat -> nth a ja [] = [a0; a1] ->
  (b < length jb)%nat -> nth b jb [] = [b0; b1] ->
  0 <= u <= 1 -> 0 <= v <= 1 -> peq (pt_at a0 a1 u) (pt_at b0 b1 v) ->
  (0 < u /\ u < 1) \/ (0 < v /\ v < 1) ->
  exists u' v', In (a, b, Some (u', v')) inters /\ u' == u /\ v' == v.
Proof.
  intros ja jb inters a b a0 a1 b0 b1 u v GP I Ha Na Hb Nb Hu Hv P Hin01.
  unfold jordan_and in I.
  destruct (intersection_subset _ _ _ _ _ I) as (rows' & I' & _).
  assert (Hsa : In [a0; a1] ja) by (rewrite <- Na; apply nth_In; exact Ha).
  assert (Hsb : In [b0; b1] jb) by (rewrite <- Nb; apply nth_In; exact Hb).
  destruct (GP a0 a1 b0 b1 Hsa Hsb u v Hu Hv P) as [D NE].
  destruct (proj1 (intersection_exact ja jb rows' a b a0 a1 b0 b1 I' Ha Hb Na Nb NE D
                     u v Hu Hv) P) as (u' & v' & Hin & Eu & Ev).
  exists u', v'. split; [|split; assumption].
  apply (intersection_flags _ _ _ _ _ _ I I'). split; [exact Hin|].
  unfold keep. cbn [snd orb andb]. apply orb_true_iff.
  destruct Hin01 as [[K1 K2]|[K1 K2]]; [left|right]; apply inside01_true; lra.
Qed.

Lemma lerp_in_piece : forall a0 a1 s lo hi x, piece_par a0 a1 s lo hi ->
  peq (lerp_pt (first_pt s) (last_pt s) x) (pt_at a0 a1 (lo + x * (hi - lo))).
Proof.
  intros a0 a1 s lo hi x (_ & Hf & Hg).
  change (lerp_pt (first_pt s) (last_pt s) x) with (pt_at (first_pt s) (last_pt s) x).
  eapply Lines.peq_trans; [apply pt_at_peq; [exact Hf|exact Hg|reflexivity]|apply pt_at_pt_at].
Qed.

(* the pieces of ja against the boundary of jb *)
Theorem pieces_off_a : forall ja jb inters ja',
  all_lines ja = true -> all_lines jb = true -> Subset.general_position ja jb ->
  jordan_and ja jb = Ok inters -> cuts_clean (cuts_a inters) ->
  Jordan.split ja (map fst (cut_order (cuts_a inters))) (map snd (cut_order (cuts_a inters))) = Ok ja' ->
  forall s, In s ja' -> open_off jb (first_pt s) (last_pt s).
Proof.
  intros ja jb inters ja' La Lb GP I HC H s Hs x X0 X1.
  destruct (on_boundary jb (lerp_pt (first_pt s) (last_pt s) x)) eqn:B; [exfalso|reflexivity].
  destruct (split_piece_no_cut ja _ ja' s La HC H Hs)
    as (i & a0 & a1 & lo & hi & Hlt & Hnth & Hp & A1 & A2 & A3 & Hno).
  rewrite (on_boundary_peq jb _ _ (lerp_in_piece a0 a1 s lo hi x Hp)) in B.
  set (t := lo + x * (hi - lo)) in *.
  assert (T1 : lo < t) by (unfold t; nra). assert (T2 : t < hi) by (unfold t; nra).
  unfold on_boundary in B. apply existsb_exists in B. destruct B as (e & He & HE).
  destruct (all_lines_In jb e Lb He) as (b0 & b1 & ->).
  change (first_pt [b0; b1]) with b0 in HE. change (last_pt [b0; b1]) with b1 in HE.
  destruct (Subset.on_edge_param b0 b1 _ HE) as (v & Hv & P).
  destruct (In_nth jb [b0; b1] [] He) as (b & Hb & Nb).
  destruct (common_point_row ja jb inters i b a0 a1 b0 b1 t v GP I Hlt Hnth Hb Nb
              ltac:(lra) Hv P ltac:(left; lra)) as (u' & v' & Hin & Eu & Ev).
  apply (Hno u'); [exact (cuts_a_In _ _ _ _ _ Hin)|lra|lra].
Qed.

(* the pieces of jb against the boundary of ja *)
Theorem pieces_off_b : forall ja jb inters jb',
  all_lines ja = true -> all_lines jb = true -> Subset.general_position ja jb ->
  jordan_and ja jb = Ok inters -> cuts_clean (cuts_b inters) ->
  Jordan.split jb (map fst (cut_order (cuts_b inters))) (map snd (cut_order (cuts_b inters))) = Ok jb' ->
  forall s, In s jb' -> open_off ja (first_pt s) (last_pt s).
Proof.
  intros ja jb inters jb' La Lb GP I HC H s Hs x X0 X1.
  destruct (on_boundary ja (lerp_pt (first_pt s) (last_pt s) x)) eqn:B; [exfalso|reflexivity].
  destruct (split_piece_no_cut jb _ jb' s Lb HC H Hs)
    as (i & b0 & b1 & lo & hi & Hlt & Hnth & Hp & A1 & A2 & A3 & Hno).
  rewrite (on_boundary_peq ja _ _ (lerp_in_piece b0 b1 s lo hi x Hp)) in B.
  set (t := lo + x * (hi - lo)) in *.
  assert (T1 : lo < t) by (unfold t; nra). assert (T2 : t < hi) by (unfold t; nra).
  unfold on_boundary in B. apply existsb_exists in B. destruct B as (e & He & HE).
  destruct (all_lines_In ja e La He) as (a0 & a1 & ->).
  change (first_pt [a0; a1]) with a0 in HE. change (last_pt [a0; a1]) with a1 in HE.
  destruct (Subset.on_edge_param a0 a1 _ HE) as (u & Hu & P).
  destruct (In_nth ja [a0; a1] [] He) as (a & Ha & Na).
  destruct (common_point_row ja jb inters a i a0 a1 b0 b1 u t GP I Ha Na Hlt Hnth
              Hu ltac:(lra) (Lines.peq_sym _ _ P) ltac:(right; lra)) as (u' & v' & Hin & Eu & Ev).
  apply (Hno v'); [exact (cuts_b_In _ _ _ _ _ Hin)|lra|lra].
Qed.

(* no tolerance effect in the splitting of ja against jb *)
Definition tolerance_free (ja jb : jordan) : Prop :=
  forall inters, jordan_and ja jb = Ok inters ->
    cuts_clean (cuts_a inters) /\ cuts_clean (cuts_b inters).

Lemma open_off_same : forall j j' a b, (forall p, on_boundary j' p = on_boundary j p) ->
  open_off j a b -> open_off j' a b.
Proof. intros j j' a b E H t T0 T1. rewrite E. apply H; assumption. Qed.

Lemma piece_point_on_boundary : forall j s x, In s j -> 0 < x -> x < 1 ->
  on_boundary j (lerp_pt (first_pt s) (last_pt s) x) = true.
Proof.
  intros j s x Hs X0 X1. unfold on_boundary. apply existsb_exists. exists s. split; [exact Hs|].
  apply (Tolerance.on_edge_param _ _ _ x); [lra|lra|]. apply Lines.peq_refl.
Qed.

(* (G3) *)
Theorem split_two_open_off : forall ja jb ja' jb',
  all_lines ja = true -> all_lines jb = true ->
  Subset.general_position ja jb -> tolerance_free ja jb ->
  split_two_jordans ja jb = Ok (ja', jb') ->
  (forall s, In s ja' -> open_off jb' (first_pt s) (last_pt s)) /\
  (forall t, In t jb' -> open_off ja' (first_pt t) (last_pt t)).
Proof.
  intros ja jb ja' jb' La Lb GP TF H.
  destruct (split_two_same_curve _ _ _ _ La Lb H) as [(_ & _ & _ & Ba & _) (_ & _ & _ & Bb & _)].
  destruct (split_two_jordans_inv _ _ _ _ H) as [(HN & -> & ->)|(inters & I & Ea & Eb)].
  - split; intros s Hs x X0 X1.
    + destruct (on_boundary jb _) eqn:B; [exfalso|reflexivity].
      exact (box_none_disjoint ja jb _ La Lb HN (piece_point_on_boundary ja s x Hs X0 X1) B).
    + destruct (on_boundary ja _) eqn:B; [exfalso|reflexivity].
      exact (box_none_disjoint ja jb _ La Lb HN B (piece_point_on_boundary jb s x Hs X0 X1)).
  - destruct (TF inters I) as [Ca Cb]. split; intros s Hs.
    + apply (open_off_same jb jb' _ _ Bb).
      exact (pieces_off_a ja jb inters ja' La Lb GP I Ca Ea s Hs).
    + apply (open_off_same ja ja' _ _ Ba).
      exact (pieces_off_b ja jb inters jb' La Lb GP I Cb Eb s Hs).
Qed.

Corollary recombine_pieces_open_off : forall ja jb closed inside a' b' new,
  all_lines ja = true -> all_lines jb = true ->
  Subset.general_position ja jb -> tolerance_free ja jb ->
  recombine (SC (CS ja)) (SC (CS jb)) closed inside = Ok (a', b', new) ->
  pieces_open_off a' b' /\ pieces_open_off b' a'.
Proof.
  intros ja jb closed inside a' b' new La Lb GP TF H.
  destruct (recombine_simple_inv _ _ _ _ _ _ _ H) as (ja' & jb' & E2 & -> & -> & _).
  destruct (split_two_open_off _ _ _ _ La Lb GP TF E2) as [Oa Ob].
  split; intros j s j2 Hj Hs Hj2; cbn [jordans comp_jordans In] in Hj, Hj2;
    destruct Hj as [<-|[]]; destruct Hj2 as [<-|[]]; [apply Oa|apply Ob]; exact Hs.
Qed.

(* ================================================================== *)
(* FINAL: one-step soundness of the recombination branch               *)
(* ================================================================== *)
Section Final.
  Variables (ja jb : jordan) (a' b' : shape) (new : list jordan) (p : point).
  (* the operands: closed counter-clockwise polygons, winding number 0/1 off the boundary *)
  Hypothesis La : all_lines ja = true.
  Hypothesis Lb : all_lines jb = true.
  Hypothesis Ca : closed_chain ja = true.
  Hypothesis Cb : closed_chain jb = true.
  Hypothesis Pa : jordan_pos ja = true.
  Hypothesis Pb : jordan_pos jb = true.
  Hypothesis Sa : simple01 ja.
  Hypothesis Sb : simple01 jb.
  (* general position, no tolerance effect in the splitting and in the midpoint tests *)
  Hypothesis GP : Subset.general_position ja jb.
  Hypothesis TF : tolerance_free ja jb.
  Hypothesis MTa : mids_tol_exact a' b'.
  Hypothesis MTb : mids_tol_exact b' a'.
  (* the point: its vertical line avoids the vertices and the common boundary points *)
  Hypothesis NV : line_avoids_vertices a' b' (px p).
  Hypothesis NC : no_common ja jb (px p).

  Theorem recombine_union_sound :
    recombine (SC (CS ja)) (SC (CS jb)) true false = Ok (a', b', new) ->
    faithful_follow (jordans a' ++ jordans b') (midpoints_shapes a' b' true false) ->
    Zsum (map (fun j => wn_lines j p) new)
    = (if (wn_lines ja p =? 0)%Z && (wn_lines jb p =? 0)%Z then 0 else 1)%Z.
  Proof.
    intros H FF.
    destruct (recombine_pieces_open_off ja jb true false a' b' new La Lb GP TF H) as [OOa OOb].
    exact (recombine_union_core ja jb a' b' new p La Lb Ca Cb Pa Pb Sa Sb NV NC MTa MTb OOa OOb H FF).
  Qed.

  Theorem recombine_inter_sound :
    recombine (SC (CS ja)) (SC (CS jb)) false true = Ok (a', b', new) ->
    faithful_follow (jordans a' ++ jordans b') (midpoints_shapes a' b' false true) ->
    Zsum (map (fun j => wn_lines j p) new)
    = (if (wn_lines ja p =? 1)%Z && (wn_lines jb p =? 1)%Z then 1 else 0)%Z.
  Proof.
    intros H FF.
    destruct (recombine_pieces_open_off ja jb false true a' b' new La Lb GP TF H) as [OOa OOb].
    exact (recombine_inter_core ja jb a' b' new p La Lb Ca Cb Pa Pb Sa Sb NV NC MTa MTb OOa OOb H FF).
  Qed.

  (* the operators themselves, when neither operand contains the other *)
  Lemma general_branch_result : forall closed inside dflt s,
    jordans dflt = [] ->
    (do r <- recombine (SC (CS ja)) (SC (CS jb)) closed inside;
     let '(a1, b1, new1) := r in
     match new1 with
     | [] => Ok (a1, b1, dflt)
     | _ => do s1 <- shape_from_jordans new1; Ok (a1, b1, s1)
     end) = Ok (a', b', s) ->
    exists new1, recombine (SC (CS ja)) (SC (CS jb)) closed inside = Ok (a', b', new1) /\
      Permutation (jordans s) new1.
  Proof.
    intros closed inside dflt s Hd H. apply bind_Ok in H.
    destruct H as ([[a1 b1] new1] & Er & H). destruct new1 as [|n0 nt].
    - inversion H; subst. exists []. split; [exact Er|]. rewrite Hd. constructor.
    - apply bind_Ok in H. destruct H as (s1 & Hs & H). inversion H; subst.
      exists (n0 :: nt). split; [exact Er|]. exact (shape_from_jordans_perm _ _ Hs).
  Qed.

  Theorem op_or_union_sound : forall s,
    op_or (SC (CS ja)) (SC (CS jb)) = Ok (a', b', s) ->
    contains_shape (SC (CS ja)) (SC (CS jb)) = Ok false ->
    contains_shape (SC (CS jb)) (SC (CS ja)) = Ok false ->
    faithful_follow (jordans a' ++ jordans b') (midpoints_shapes a' b' true false) ->
    Zsum (map (fun j => wn_lines j p) (jordans s))
    = (if (wn_lines ja p =? 0)%Z && (wn_lines jb p =? 0)%Z then 0 else 1)%Z.
  Proof.
    intros s H Hab Hba FF. unfold op_or in H. rewrite Hab in H. cbn [bind] in H.
    rewrite Hba in H. cbn [bind] in H.
    destruct (general_branch_result true false SWhole s eq_refl H) as (new1 & Er & HP).
    rewrite (Zsum_map_perm _ _ _ HP).
    destruct (recombine_pieces_open_off ja jb true false a' b' new1 La Lb GP TF Er) as [OOa OOb].
    exact (recombine_union_core ja jb a' b' new1 p La Lb Ca Cb Pa Pb Sa Sb NV NC MTa MTb OOa OOb Er FF).
  Qed.

  Theorem op_and_inter_sound : forall s,
    op_and (SC (CS ja)) (SC (CS jb)) = Ok (a', b', s) ->
    contains_shape (SC (CS ja)) (SC (CS jb)) = Ok false ->
    contains_shape (SC (CS jb)) (SC (CS ja)) = Ok false ->
    faithful_follow (jordans a' ++ jordans b') (midpoints_shapes a' b' false true) ->
    Zsum (map (fun j => wn_lines j p) (jordans s))
    = (if (wn_lines ja p =? 1)%Z && (wn_lines jb p =? 1)%Z then 1 else 0)%Z.
  Proof.
    intros s H Hab Hba FF. unfold op_and in H. rewrite Hab in H. cbn [bind] in H.
    rewrite Hba in H. cbn [bind] in H.
    destruct (general_branch_result false true SEmpty s eq_refl H) as (new1 & Er & HP).
    rewrite (Zsum_map_perm _ _ _ HP).
    destruct (recombine_pieces_open_off ja jb false true a' b' new1 La Lb GP TF Er) as [OOa OOb].
    exact (recombine_inter_core ja jb a' b' new1 p La Lb Ca Cb Pa Pb Sa Sb NV NC MTa MTb OOa OOb Er FF).
  Qed.

  (* in terms of [region], when the result is a single counter-clockwise curve *)
  Corollary op_or_union_region : forall s j,
    op_or (SC (CS ja)) (SC (CS jb)) = Ok (a', b', s) ->
    contains_shape (SC (CS ja)) (SC (CS jb)) = Ok false ->
    contains_shape (SC (CS jb)) (SC (CS ja)) = Ok false ->
    faithful_follow (jordans a' ++ jordans b') (midpoints_shapes a' b' true false) ->
    s = SC (CS j) -> on_boundary j p = false -> Qlt_bool 0 (shoelace2 j) = true ->
    region s p = if (wn_lines ja p =? 0)%Z && (wn_lines jb p =? 0)%Z then ROut else RIn.
  Proof.
    intros s j H Hab Hba FF Es HB HS.
    pose proof (op_or_union_sound s H Hab Hba FF) as W. subst s.
    cbn [jordans comp_jordans map Zsum] in W. rewrite Z.add_0_r in W.
    cbn [region region_comp]. unfold region_simple. rewrite HB, HS, W.
    destruct ((wn_lines ja p =? 0)%Z && (wn_lines jb p =? 0)%Z); reflexivity.
  Qed.

  Corollary op_and_inter_region : forall s j,
    op_and (SC (CS ja)) (SC (CS jb)) = Ok (a', b', s) ->
    contains_shape (SC (CS ja)) (SC (CS jb)) = Ok false ->
    contains_shape (SC (CS jb)) (SC (CS ja)) = Ok false ->
    faithful_follow (jordans a' ++ jordans b') (midpoints_shapes a' b' false true) ->
    s = SC (CS j) -> on_boundary j p = false -> Qlt_bool 0 (shoelace2 j) = true ->
    region s p = if (wn_lines ja p =? 1)%Z && (wn_lines jb p =? 1)%Z then RIn else ROut.
  Proof.
    intros s j H Hab Hba FF Es HB HS.
    pose proof (op_and_inter_sound s H Hab Hba FF) as W. subst s.
    cbn [jordans comp_jordans map Zsum] in W. rewrite Z.add_0_r in W.
    cbn [region region_comp]. unfold region_simple. rewrite HB, HS, W.
    destruct ((wn_lines ja p =? 1)%Z && (wn_lines jb p =? 1)%Z); reflexivity.
  Qed.
End Final.

(* ================================================================== *)
(* extension to the whole cell of p                                    *)
(* ================================================================== *)
(* the points q whose vertical line passes through a vertex (or a common
   boundary point) are reached from a point p of the same cell of the
   arrangement: along a segment that is clear of both boundaries all the
   winding numbers involved are constant *)
Lemma seg_clear_off : forall ja jb p q, Cells.seg_clear (SC (CS ja)) (SC (CS jb)) p q ->
  seg_off ja p q /\ seg_off jb p q.
Proof.
  intros ja jb p q H. split; intros t T0 T1; destruct (H t T0 T1) as [Na Nb].
  - destruct (on_boundary ja _) eqn:E; [exfalso|reflexivity]. apply Na.
    exists ja. split; [left; reflexivity|exact E].
  - destruct (on_boundary jb _) eqn:E; [exfalso|reflexivity]. apply Nb.
    exists jb. split; [left; reflexivity|exact E].
Qed.

Lemma all_lines_segs_ok : forall j, all_lines j = true -> segs_ok (jordans (SC (CS j))).
Proof.
  intros j H j0 s [<-|[]] Hs. destruct (all_lines_In j s H Hs) as (a & b & ->). cbn [length]. lia.
Qed.

Theorem recombine_sum_cell : forall ja jb closed inside a' b' new p q,
  all_lines ja = true -> all_lines jb = true ->
  recombine (SC (CS ja)) (SC (CS jb)) closed inside = Ok (a', b', new) ->
  Cells.exact_joins a' b' -> Cells.seg_clear (SC (CS ja)) (SC (CS jb)) p q ->
  Zsum (map (fun j => wn_lines j q) new) = Zsum (map (fun j => wn_lines j p) new).
Proof.
  intros ja jb closed inside a' b' new p q La Lb H Hx Hclear.
  pose proof (recombine_closed _ _ _ _ _ _ _ (all_lines_segs_ok ja La) (all_lines_segs_ok jb Lb) H) as Hc.
  unfold closed_all in Hc. rewrite Forall_forall in Hc.
  assert (SLa : shape_lines (SC (CS ja)) = true) by (cbn; rewrite La; reflexivity).
  assert (SLb : shape_lines (SC (CS jb)) = true) by (cbn; rewrite Lb; reflexivity).
  apply Zsum_map_ext. intros j Hj. symmetry.
  apply (wn_lines_move j p q (Hc j Hj)). intros t T0 T1.
  destruct (on_boundary j (lerp_pt p q t)) eqn:E; [exfalso|reflexivity].
  destruct (Hclear t T0 T1) as [Na Nb].
  destruct (Cells.recombine_boundary _ _ _ _ _ _ _ SLa SLb H Hx (lerp_pt p q t)) as [K|K];
    [exists j; split; assumption|exact (Na K)|exact (Nb K)].
Qed.

Section FinalCell.
  Variables (ja jb : jordan) (a' b' : shape) (new : list jordan) (p q : point).
  Hypothesis La : all_lines ja = true.
  Hypothesis Lb : all_lines jb = true.
  Hypothesis Ca : closed_chain ja = true.
  Hypothesis Cb : closed_chain jb = true.
  Hypothesis Pa : jordan_pos ja = true.
  Hypothesis Pb : jordan_pos jb = true.
  Hypothesis Sa : simple01 ja.
  Hypothesis Sb : simple01 jb.
  Hypothesis GP : Subset.general_position ja jb.
  Hypothesis TF : tolerance_free ja jb.
  Hypothesis MTa : mids_tol_exact a' b'.
  Hypothesis MTb : mids_tol_exact b' a'.
  Hypothesis NV : line_avoids_vertices a' b' (px p).
  Hypothesis NC : no_common ja jb (px p).
  (* q lies in the cell of p; re-pointing moves nothing *)
  Hypothesis Hx : Cells.exact_joins a' b'.
  Hypothesis Hclear : Cells.seg_clear (SC (CS ja)) (SC (CS jb)) p q.

  Theorem recombine_union_sound_cell :
    recombine (SC (CS ja)) (SC (CS jb)) true false = Ok (a', b', new) ->
    faithful_follow (jordans a' ++ jordans b') (midpoints_shapes a' b' true false) ->
    Zsum (map (fun j => wn_lines j q) new)
    = (if (wn_lines ja q =? 0)%Z && (wn_lines jb q =? 0)%Z then 0 else 1)%Z.
  Proof.
    intros H FF. destruct (seg_clear_off ja jb p q Hclear) as [Oa Ob].
    rewrite (recombine_sum_cell ja jb true false a' b' new p q La Lb H Hx Hclear).
    rewrite <- (wn_lines_move ja p q Ca Oa), <- (wn_lines_move jb p q Cb Ob).
    exact (recombine_union_sound ja jb a' b' new p La Lb Ca Cb Pa Pb Sa Sb GP TF MTa MTb NV NC H FF).
  Qed.

  Theorem recombine_inter_sound_cell :
    recombine (SC (CS ja)) (SC (CS jb)) false true = Ok (a', b', new) ->
    faithful_follow (jordans a' ++ jordans b') (midpoints_shapes a' b' false true) ->
    Zsum (map (fun j => wn_lines j q) new)
    = (if (wn_lines ja q =? 1)%Z && (wn_lines jb q =? 1)%Z then 1 else 0)%Z.
  Proof.
    intros H FF. destruct (seg_clear_off ja jb p q Hclear) as [Oa Ob].
    rewrite (recombine_sum_cell ja jb false true a' b' new p q La Lb H Hx Hclear).
    rewrite <- (wn_lines_move ja p q Ca Oa), <- (wn_lines_move jb p q Cb Ob).
    exact (recombine_inter_sound ja jb a' b' new p La Lb Ca Cb Pa Pb Sa Sb GP TF MTa MTb NV NC H FF).
  Qed.
End FinalCell.

(* ================================================================== *)
(* executable checks of the hypotheses                                 *)
(* ================================================================== *)
Definition no_vertex_on_b (j : jordan) (x : Q) : bool :=
  forallb (fun s => negb (Qeq_bool (px (first_pt s)) x) && negb (Qeq_bool (px (last_pt s)) x)) j.
Lemma no_vertex_on_b_ok : forall j x, no_vertex_on_b j x = true -> no_vertex_on j x.
Proof.
  intros j x H s Hs. unfold no_vertex_on_b in H. rewrite forallb_forall in H.
  specialize (H s Hs). apply andb_true_iff in H. destruct H as [H1 H2].
  apply negb_true_iff in H1, H2. split; intro E; apply Qeq_bool_iff in E; congruence.
Qed.

Definition line_avoids_b (a' b' : shape) (x : Q) : bool :=
  forallb (fun j => no_vertex_on_b j x) (jordans a' ++ jordans b').
Lemma line_avoids_b_ok : forall a' b' x, line_avoids_b a' b' x = true -> line_avoids_vertices a' b' x.
Proof.
  intros a' b' x H j Hj. unfold line_avoids_b in H. rewrite forallb_forall in H.
  apply no_vertex_on_b_ok, H, Hj.
Qed.

Definition no_common_b (ja jb : jordan) (x : Q) : bool :=
  forallb (fun s => forallb (fun t =>
    negb (spans (first_pt s) (last_pt s) x && spans (first_pt t) (last_pt t) x &&
          Qeq_bool (ystar (first_pt s) (last_pt s) x) (ystar (first_pt t) (last_pt t) x))) jb) ja.
Lemma no_common_b_ok : forall ja jb x, no_vertex_on ja x -> no_vertex_on jb x ->
  no_common_b ja jb x = true -> no_common ja jb x.
Proof.
  intros ja jb x Na Nb H y Ha Hb.
  destruct (on_boundary_hit ja x y Na Ha) as (s & Hs & Ss & Es).
  destruct (on_boundary_hit jb x y Nb Hb) as (t & Ht & St & Et).
  unfold no_common_b in H. rewrite forallb_forall in H. specialize (H s Hs).
  rewrite forallb_forall in H. specialize (H t Ht). rewrite Ss, St in H. cbn [andb] in H.
  apply negb_true_iff in H. apply Qeqb_false in H. apply H. rewrite Es, Et. reflexivity.
Qed.

Definition mids_tol_exact_b (a b : shape) : bool :=
  forallb (fun j => forallb (fun s => forallb (fun j2 =>
             Subset.tol_exact_b j2 (evalr s Qhalf)) (jordans b)) j) (jordans a).
Lemma mids_tol_exact_b_ok : forall a b, mids_tol_exact_b a b = true -> mids_tol_exact a b.
Proof.
  intros a b H j s j2 Hj Hs Hj2. unfold mids_tol_exact_b in H. rewrite forallb_forall in H.
  specialize (H j Hj). rewrite forallb_forall in H. specialize (H s Hs).
  rewrite forallb_forall in H. apply Subset.tol_exact_b_ok, H, Hj2.
Qed.

Definition cuts_clean_b (pairs : list (nat * Q)) : bool :=
  forallb (fun iu => implb (Qlt_bool 0 (snd iu) && Qlt_bool (snd iu) 1) (negb (near01 (snd iu)))) pairs &&
  forallb (fun iu => forallb (fun iv =>
    implb (Nat.eqb (fst iu) (fst iv) && negb (near01 (snd iu)) && negb (near01 (snd iv)))
          (Qeq_bool (snd iu) (snd iv) || Qle_bool tol6 (Qabs' (snd iu - snd iv)))) pairs) pairs.
Lemma cuts_clean_b_ok : forall pairs, cuts_clean_b pairs = true -> cuts_clean pairs.
Proof.
  intros pairs H. unfold cuts_clean_b in H. apply andb_true_iff in H. destruct H as [H1 H2].
  rewrite forallb_forall in H1, H2. split.
  - intros iu Hiu U0 U1. specialize (H1 iu Hiu).
    rewrite (proj2 (Lines.Qlt_bool_true _ _) U0), (proj2 (Lines.Qlt_bool_true _ _) U1) in H1.
    cbn [andb implb] in H1. apply negb_true_iff in H1. exact H1.
  - intros iu iv Hiu Hiv E Nu Nv. specialize (H2 iu Hiu). rewrite forallb_forall in H2.
    specialize (H2 iv Hiv). rewrite (proj2 (Nat.eqb_eq _ _) E), Nu, Nv in H2.
    cbn [andb negb implb] in H2. apply orb_true_iff in H2. destruct H2 as [K|K].
    + left. apply Qeq_bool_iff. exact K.
    + right. apply Qle_bool_iff. exact K.
Qed.

Definition tolerance_free_b (ja jb : jordan) : bool :=
  match jordan_and ja jb with
  | Ok inters => cuts_clean_b (cuts_a inters) && cuts_clean_b (cuts_b inters)
  | _ => true
  end.
Lemma tolerance_free_b_ok : forall ja jb, tolerance_free_b ja jb = true -> tolerance_free ja jb.
Proof.
  intros ja jb H inters I. unfold tolerance_free_b in H. rewrite I in H.
  apply andb_true_iff in H. destruct H as [H1 H2]. split; apply cuts_clean_b_ok; assumption.
Qed.

(* all the decidable hypotheses of the final theorems, for the operator given
   by the flags (closed, inside) *)
Definition sound_hyps_b (ja jb : jordan) (closed inside : bool) (p : point) : bool :=
  all_lines ja && all_lines jb && closed_chain ja && closed_chain jb &&
  jordan_pos ja && jordan_pos jb && Subset.gp_b ja jb && tolerance_free_b ja jb &&
  no_vertex_on_b ja (px p) && no_vertex_on_b jb (px p) && no_common_b ja jb (px p) &&
  match recombine (SC (CS ja)) (SC (CS jb)) closed inside with
  | Ok (a', b', _) =>
      mids_tol_exact_b a' b' && mids_tol_exact_b b' a' && line_avoids_b a' b' (px p) &&
      faithful_follow_b (jordans a' ++ jordans b') (midpoints_shapes a' b' closed inside)
  | _ => true
  end.

Ltac split_andb H :=
  repeat match type of H with
  | (_ && _)%bool = true => let H2 := fresh "K" in apply andb_true_iff in H; destruct H as [H H2]
  end.

Theorem recombine_union_checked : forall ja jb a' b' new p,
  simple01 ja -> simple01 jb -> sound_hyps_b ja jb true false p = true ->
  recombine (SC (CS ja)) (SC (CS jb)) true false = Ok (a', b', new) ->
  Zsum (map (fun j => wn_lines j p) new)
  = (if (wn_lines ja p =? 0)%Z && (wn_lines jb p =? 0)%Z then 0 else 1)%Z.
Proof.
  intros ja jb a' b' new p Sa Sb H Er. unfold sound_hyps_b in H. rewrite Er in H.
  apply andb_true_iff in H. destruct H as [H R]. split_andb H. split_andb R.
  apply (recombine_union_sound ja jb a' b' new p); try assumption.
  - apply Subset.gp_b_ok; assumption.
  - apply tolerance_free_b_ok; assumption.
  - apply mids_tol_exact_b_ok; assumption.
  - apply mids_tol_exact_b_ok; assumption.
  - apply line_avoids_b_ok; assumption.
  - apply no_common_b_ok; [apply no_vertex_on_b_ok|apply no_vertex_on_b_ok|]; assumption.
  - apply faithful_follow_b_sound; assumption.
Qed.

Theorem recombine_inter_checked : forall ja jb a' b' new p,
  simple01 ja -> simple01 jb -> sound_hyps_b ja jb false true p = true ->
  recombine (SC (CS ja)) (SC (CS jb)) false true = Ok (a', b', new) ->
  Zsum (map (fun j => wn_lines j p) new)
  = (if (wn_lines ja p =? 1)%Z && (wn_lines jb p =? 1)%Z then 1 else 0)%Z.
Proof.
  intros ja jb a' b' new p Sa Sb H Er. unfold sound_hyps_b in H. rewrite Er in H.
  apply andb_true_iff in H. destruct H as [H R]. split_andb H. split_andb R.
  apply (recombine_inter_sound ja jb a' b' new p); try assumption.
  - apply Subset.gp_b_ok; assumption.
  - apply tolerance_free_b_ok; assumption.
  - apply mids_tol_exact_b_ok; assumption.
  - apply mids_tol_exact_b_ok; assumption.
  - apply line_avoids_b_ok; assumption.
  - apply no_common_b_ok; [apply no_vertex_on_b_ok|apply no_vertex_on_b_ok|]; assumption.
  - apply faithful_follow_b_sound; assumption.
Qed.

(* ================================================================== *)
(* non-vacuity: the two overlapping squares of Measure.v               *)
(* ================================================================== *)
(* (G5) for rectangles: the winding number is 0 or 1 everywhere *)
Lemma ex_sq_wn01 : forall x0 y0 x1 y1 q, x0 < x1 -> y0 < y1 ->
  (wn_lines (ex_sq x0 y0 x1 y1) q = 0 \/ wn_lines (ex_sq x0 y0 x1 y1) q = 1)%Z.
Proof.
  intros x0 y0 x1 y1 [x y] HX HY. unfold wn_lines, ex_sq.
  cbn [map Zsum first_pt last_pt hd last].
  unfold cr, orient, cross, psub, Qlt_bool; cbn [px py fst snd].
  repeat (match goal with |- context[Qle_bool ?a ?b] => destruct (Qle_bool a b) eqn:? end;
          cbn [andb negb]);
  try (left; reflexivity); try (right; reflexivity); exfalso; qb; nra.
Qed.
Lemma ex_sq_simple01 : forall x0 y0 x1 y1, x0 < x1 -> y0 < y1 -> simple01 (ex_sq x0 y0 x1 y1).
Proof. intros x0 y0 x1 y1 HX HY q _. apply ex_sq_wn01; assumption. Qed.

Definition exja : jordan := ex_sq 0 0 2 2.
Definition exjb : jordan := ex_sq 1 1 3 3.
Definition p_A : point := (3 # 2, 1 # 2).    (* in A only *)
Definition p_AB : point := (3 # 2, 3 # 2).   (* in A and B *)
Definition p_B : point := (5 # 2, 5 # 2).    (* in B only *)
Definition p_out : point := (5 # 2, 1 # 2).  (* in neither, below B *)

Lemma exja_simple01 : simple01 exja.
Proof. apply ex_sq_simple01; reflexivity. Qed.
Lemma exjb_simple01 : simple01 exjb.
Proof. apply ex_sq_simple01; reflexivity. Qed.

(* every decidable hypothesis holds at the four points, for both operators *)
Example ex_hyps : forall q, In q [p_A; p_AB; p_B; p_out] ->
  sound_hyps_b exja exjb true false q = true /\ sound_hyps_b exja exjb false true q = true.
Proof.
  intros q Hq. cbn [In] in Hq.
  repeat match goal with H : _ \/ _ |- _ => destruct H as [H|H] end; try contradiction; subst q;
    split; vm_compute; reflexivity.
Qed.

(* the conclusion of the final theorem, instantiated: the curves of A | B wind
   once around the points of A or B and not at all around the others *)
Example ex_union_sound :
  exists a' b' new, recombine exA exB true false = Ok (a', b', new) /\
    Zsum (map (fun j => wn_lines j p_A) new) = 1%Z /\
    Zsum (map (fun j => wn_lines j p_AB) new) = 1%Z /\
    Zsum (map (fun j => wn_lines j p_B) new) = 1%Z /\
    Zsum (map (fun j => wn_lines j p_out) new) = 0%Z.
Proof.
  destruct (recombine exA exB true false) as [[[a' b'] new]| |] eqn:E;
    [|exfalso; vm_compute in E; discriminate E..].
  exists a', b', new. split; [reflexivity|].
  assert (T : forall q, In q [p_A; p_AB; p_B; p_out] ->
    Zsum (map (fun j => wn_lines j q) new)
    = (if (wn_lines exja q =? 0)%Z && (wn_lines exjb q =? 0)%Z then 0 else 1)%Z).
  { intros q Hq. apply (recombine_union_checked exja exjb a' b' new q exja_simple01 exjb_simple01);
      [exact (proj1 (ex_hyps q Hq))|exact E]. }
  repeat split; (rewrite T; [vm_compute; reflexivity|cbn [In]; tauto]).
Qed.

Example ex_inter_sound :
  exists a' b' new, recombine exA exB false true = Ok (a', b', new) /\
    Zsum (map (fun j => wn_lines j p_A) new) = 0%Z /\
    Zsum (map (fun j => wn_lines j p_AB) new) = 1%Z /\
    Zsum (map (fun j => wn_lines j p_B) new) = 0%Z /\
    Zsum (map (fun j => wn_lines j p_out) new) = 0%Z.
Proof.
  destruct (recombine exA exB false true) as [[[a' b'] new]| |] eqn:E;
    [|exfalso; vm_compute in E; discriminate E..].
  exists a', b', new. split; [reflexivity|].
  assert (T : forall q, In q [p_A; p_AB; p_B; p_out] ->
    Zsum (map (fun j => wn_lines j q) new)
    = (if (wn_lines exja q =? 1)%Z && (wn_lines exjb q =? 1)%Z then 1 else 0)%Z).
  { intros q Hq. apply (recombine_inter_checked exja exjb a' b' new q exja_simple01 exjb_simple01);
      [exact (proj2 (ex_hyps q Hq))|exact E]. }
  repeat split; (rewrite T; [vm_compute; reflexivity|cbn [In]; tauto]).
Qed.

(* the same through the operator and [region] *)
Example ex_op_or_region :
  exists a' b' s, op_or exA exB = Ok (a', b', s) /\
    region s p_A = RIn /\ region s p_AB = RIn /\ region s p_B = RIn /\ region s p_out = ROut.
Proof.
  destruct (op_or exA exB) as [[[a' b'] s]| |] eqn:E; [|exfalso; vm_compute in E; discriminate E..].
  exists a', b', s. split; [reflexivity|].
  assert (Es : exists j, s = SC (CS j) /\ Qlt_bool 0 (shoelace2 j) = true /\
            forall q, In q [p_A; p_AB; p_B; p_out] -> on_boundary j q = false).
  { assert (K : match op_or exA exB with
                | Ok (_, _, SC (CS j)) => Qlt_bool 0 (shoelace2 j) = true /\
                    forallb (fun q => negb (on_boundary j q)) [p_A; p_AB; p_B; p_out] = true
                | _ => False end) by (vm_compute; split; reflexivity).
    rewrite E in K. destruct s as [| |[j|js]|cs]; try contradiction.
    exists j. split; [reflexivity|]. destruct K as [K1 K2]. split; [exact K1|].
    rewrite forallb_forall in K2. intros q Hq. apply negb_true_iff, K2, Hq. }
  destruct Es as (j & Es & HS & HB).
  assert (Er : exists new, recombine exA exB true false = Ok (a', b', new)).
  { unfold op_or, exA, exB in E.
    replace (contains_shape (SC (CS (ex_sq 0 0 2 2))) (SC (CS (ex_sq 1 1 3 3)))) with (Ok false) in E
      by (vm_compute; reflexivity). cbn [bind] in E.
    replace (contains_shape (SC (CS (ex_sq 1 1 3 3))) (SC (CS (ex_sq 0 0 2 2)))) with (Ok false) in E
      by (vm_compute; reflexivity). cbn [bind] in E.
    apply bind_Ok in E. destruct E as ([[a1 b1] new] & Er & E). exists new.
    destruct new; [inversion E; subst; exact Er|].
    apply bind_Ok in E. destruct E as (s1 & _ & E). inversion E; subst. exact Er. }
  destruct Er as (new & Er).
  assert (T : forall q, In q [p_A; p_AB; p_B; p_out] ->
    region s q = if (wn_lines exja q =? 0)%Z && (wn_lines exjb q =? 0)%Z then ROut else RIn).
  { intros q Hq. pose proof (proj1 (ex_hyps q Hq)) as H. unfold sound_hyps_b in H.
    change (SC (CS exja)) with exA in H. change (SC (CS exjb)) with exB in H. rewrite Er in H.
    apply andb_true_iff in H. destruct H as [H R]. split_andb H. split_andb R.
    apply (op_or_union_region exja exjb a' b' q) with (s := s) (j := j); try assumption.
    - exact exja_simple01.
    - exact exjb_simple01.
    - apply Subset.gp_b_ok; assumption.
    - apply tolerance_free_b_ok; assumption.
    - apply mids_tol_exact_b_ok; assumption.
    - apply mids_tol_exact_b_ok; assumption.
    - apply line_avoids_b_ok; assumption.
    - apply no_common_b_ok; [apply no_vertex_on_b_ok|apply no_vertex_on_b_ok|]; assumption.
    - vm_compute; reflexivity.
    - vm_compute; reflexivity.
    - apply faithful_follow_b_sound; assumption.
    - exact (HB q Hq). }
  repeat split; (rewrite T; [vm_compute; reflexivity|cbn [In]; tauto]).
Qed.

(* a point whose vertical line passes through two vertices of B, reached from p_A *)
Definition p_vert : point := (1, 1 # 2).
Example ex_seg_clear_vert : Cells.seg_clear exA exB p_A p_vert.
Proof.
  intros t T0 T1. split; apply Cells.ex_sq_off; unfold lerp_pt, p_A, p_vert; cbn [px py fst snd].
  - right. right. right. right. repeat split; lra.
  - right. right. left. split; lra.
Qed.

Example ex_union_sound_cell :
  exists a' b' new, recombine exA exB true false = Ok (a', b', new) /\
    no_vertex_on_b exjb (px p_vert) = false /\
    Zsum (map (fun j => wn_lines j p_vert) new) = 1%Z.
Proof.
  destruct (recombine exA exB true false) as [[[a' b'] new]| |] eqn:E;
    [|exfalso; vm_compute in E; discriminate E..].
  exists a', b', new. split; [reflexivity|]. split; [vm_compute; reflexivity|].
  assert (Hx : Cells.exact_joins a' b').
  { apply Cells.exact_joinsb_sound.
    assert (K : match recombine exA exB true false with
                | Ok (x, y, _) => Cells.exact_joinsb (jordans x ++ jordans y) = true
                | _ => True end) by (vm_compute; reflexivity).
    rewrite E in K. exact K. }
  pose proof (proj1 (ex_hyps p_A ltac:(left; reflexivity))) as H. unfold sound_hyps_b in H.
  change (SC (CS exja)) with exA in H. change (SC (CS exjb)) with exB in H. rewrite E in H.
  apply andb_true_iff in H. destruct H as [H R]. split_andb H. split_andb R.
  rewrite (recombine_union_sound_cell exja exjb a' b' new p_A p_vert); try assumption.
  - vm_compute. reflexivity.
  - exact exja_simple01.
  - exact exjb_simple01.
  - apply Subset.gp_b_ok; assumption.
  - apply tolerance_free_b_ok; assumption.
  - apply mids_tol_exact_b_ok; assumption.
  - apply mids_tol_exact_b_ok; assumption.
  - apply line_avoids_b_ok; assumption.
  - apply no_common_b_ok; [apply no_vertex_on_b_ok|apply no_vertex_on_b_ok|]; assumption.
  - exact ex_seg_clear_vert.
  - apply faithful_follow_b_sound; assumption.
Qed.

(* ================================================================== *)
(* STATUS                                                              *)
(* ================================================================== *)
(* proved here:  G1 (evalr_half_emid, wn_lines_mid), G2 (simple_has_point_wn,
   .._false_iff, .._true_iff), G4 (follow_path_wn_sum, selection_Zsum),
   G3 (split_two_open_off, recombine_pieces_open_off: from the completeness of
   the crossing finder Lines.intersection_exact and of JordanCurve.split,
   split_nodes_complete / split_piece_no_cut), the exact invariance of the
   boundary point set under split (split_boundary_eq), and the assembled
   theorems recombine_union_sound / recombine_inter_sound, op_or_union_sound /
   op_and_inter_sound, the [region] corollaries for a single result curve, and
   the extension to the cell of p (recombine_union_sound_cell).
   what remains a HYPOTHESIS of the final theorems:
   - simple01 ja, simple01 jb          (G5: the operands are simple polygons,
                                        winding number 0/1 off the boundary;
                                        proved for rectangles: ex_sq_simple01)
   - jordan_pos, closed_chain, all_lines of the operands (decidable)
   - Subset.general_position ja jb     (decidable sufficient check Subset.gp_b)
   - tolerance_free ja jb              (no crossing parameter within 1e-6 of an
                                        end or of another one; check tolerance_free_b)
   - mids_tol_exact a' b' / b' a'      (the 1e-6 on-segment test is exact at the
                                        piece midpoints; check mids_tol_exact_b)
   - faithful_follow                   (FollowPath uses every selected piece once,
                                        with exact joins; check Measure.faithful_follow_b)
   - line_avoids_vertices, no_common   (the choice of p; other points of the same
                                        cell by the _cell theorems, which need
                                        Cells.exact_joins a' b') *)

Print Assumptions evalr_half_emid.
Print Assumptions simple_has_point_false_iff.
Print Assumptions simple_has_point_true_iff.
Print Assumptions follow_path_wn_sum.
Print Assumptions selection_Zsum.
Print Assumptions split_boundary_eq.
Print Assumptions recombine_selected_sum.
Print Assumptions recombine_union_core.
Print Assumptions recombine_inter_core.
Print Assumptions split_nodes_complete.
Print Assumptions split_piece_no_cut.
Print Assumptions common_point_row.
Print Assumptions split_two_open_off.
Print Assumptions recombine_pieces_open_off.
Print Assumptions recombine_union_sound.
Print Assumptions recombine_inter_sound.
Print Assumptions op_or_union_sound.
Print Assumptions op_and_inter_sound.
Print Assumptions op_or_union_region.
Print Assumptions op_and_inter_region.
Print Assumptions recombine_union_sound_cell.
Print Assumptions recombine_inter_sound_cell.
Print Assumptions recombine_union_checked.
Print Assumptions recombine_inter_checked.
Print Assumptions ex_hyps.
Print Assumptions ex_union_sound.
Print Assumptions ex_inter_sound.
Print Assumptions ex_op_or_region.
Print Assumptions ex_union_sound_cell.
