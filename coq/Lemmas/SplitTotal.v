(* JordanCurve.split is TOTAL on valid requests (after the repair of F15/F15c): the cleaning loop
   leaves, on every segment, parameters that are at least 1e-6 apart, so the subdivision never
   sees a repeated parameter. *)
From SV Require Import Model.Jordan Spec.Spec.
From SV Require Import Lemmas.BezierFacts Lemmas.Lines Lemmas.SplitClean.
From Coq Require Import QArith Lqa Lia List Sorted Bool.
Import ListNotations.
Open Scope Q_scope.

Definition apart (x y : nat * Q) : Prop :=
  pair_le x y = true /\ (fst x = fst y -> tol6 <= snd y - snd x).

Lemma tol6_pos : 0 < tol6.
Proof. unfold tol6. reflexivity. Qed.

Lemma not_near_apart : forall u v, u <= v -> Qlt_bool (Qabs' (v - u)) tol6 = false -> tol6 <= v - u.
Proof.
  intros u v Huv H. apply Qlt_bool_false in H. unfold Qabs' in H.
  destruct (Qle_bool 0 (v - u)) eqn:E; [exact H|].
  apply Qle_bool_false in E. lra.
Qed.

Lemma drop_repeated_from_apart : forall l prev,
  StronglySorted (fun x y => pair_le x y = true) (prev :: l) ->
  Forall (apart prev) (drop_repeated_from prev l) /\
  StronglySorted apart (drop_repeated_from prev l).
Proof.
  induction l as [|p t IH]; intros prev H; cbn [drop_repeated_from].
  - split; constructor.
  - apply StronglySorted_inv in H. destruct H as [Hpt Hprev].
    pose proof (StronglySorted_inv Hpt) as [Ht Hp].
    assert (Hprev_t : StronglySorted (fun x y => pair_le x y = true) (prev :: t)).
    { constructor; [exact Ht|]. exact (Forall_inv_tail Hprev). }
    assert (Hpp : pair_le prev p = true) by exact (Forall_inv Hprev).
    destruct (Nat.eqb (fst prev) (fst p) && Qlt_bool (Qabs' (snd p - snd prev)) tol6) eqn:E.
    + apply IH. exact Hprev_t.
    + destruct (IH p Hpt) as [Fp Sp].
      assert (App : apart prev p).
      { split; [exact Hpp|]. intro Ef.
        apply andb_false_iff in E. destruct E as [E|E].
        - apply Nat.eqb_neq in E. contradiction.
        - apply not_near_apart; [|exact E].
          apply pair_le_spec in Hpp. destruct Hpp as [Hlt|[_ Hle]]; [lia|exact Hle]. }
      split.
      * constructor; [exact App|].
        rewrite Forall_forall in *. intros x Hx.
        specialize (Fp x Hx). destruct Fp as [Lpx Gpx].
        assert (Hxt : In x t) by (eapply drop_repeated_from_In; exact Hx).
        assert (Lprevx : pair_le prev x = true).
        { apply Hprev. right. exact Hxt. }
        split; [exact Lprevx|]. intro Ef.
        destruct App as [_ Gpp].
        apply pair_le_spec in Hpp. apply pair_le_spec in Lpx.
        assert (Efp : fst prev = fst p) by (destruct Hpp as [?|[? _]], Lpx as [?|[? _]]; lia).
        specialize (Gpp Efp). assert (Efx : fst p = fst x) by lia. specialize (Gpx Efx).
        pose proof tol6_pos. lra.
      * constructor; [exact Sp|exact Fp].
Qed.

Lemma drop_repeated_apart : forall l,
  StronglySorted (fun x y => pair_le x y = true) l -> StronglySorted apart (drop_repeated l).
Proof.
  intros [|p t] H; cbn [drop_repeated]; [constructor|].
  destruct (drop_repeated_from_apart t p H) as [F S]. constructor; assumption.
Qed.

Lemma split_pairs_apart : forall idx nodes, StronglySorted apart (split_pairs idx nodes).
Proof.
  intros. unfold split_pairs. apply drop_repeated_apart.
  apply filter_SS. apply sort_by_SS; [apply pair_le_total|apply pair_le_trans].
Qed.

(* the parameters used on one segment are at least 1e-6 apart *)
Lemma nodes_of_apart : forall pairs i, StronglySorted apart pairs ->
  StronglySorted (fun a b => tol6 <= b - a) (nodes_of pairs i).
Proof.
  intros pairs i H. unfold nodes_of. induction H as [|x l Hs IH Hall]; cbn [filter map]; [constructor|].
  destruct (Nat.eqb_spec (fst x) i) as [Ex|Nx]; [|exact IH].
  cbn [map]. constructor; [exact IH|].
  rewrite Forall_forall in *. intros b Hb. apply in_map_iff in Hb. destruct Hb as (y & <- & Hy).
  apply filter_In in Hy. destruct Hy as [Hy Ey]. apply Nat.eqb_eq in Ey.
  destruct (Hall y Hy) as [_ G]. apply G. congruence.
Qed.

Lemma apart_no_dup : forall ns, StronglySorted (fun a b => tol6 <= b - a) ns -> has_dup ns = false.
Proof.
  induction ns as [|a ns IH]; intro H; [reflexivity|].
  apply StronglySorted_inv in H. destruct H as [Hs Hall].
  specialize (IH Hs).
  destruct ns as [|b ns']; [reflexivity|].
  change (has_dup (a :: b :: ns')) with (Qeq_bool a b || has_dup (b :: ns')).
  rewrite IH, orb_false_r.
  rewrite Forall_forall in Hall. specialize (Hall b (or_introl eq_refl)).
  destruct (Qeq_bool a b) eqn:E; [|reflexivity].
  apply Qeq_bool_iff in E. pose proof tol6_pos. lra.
Qed.

Theorem split_nodes_apart : forall idx nodes i,
  StronglySorted (fun a b => tol6 <= b - a) (split_nodes idx nodes i).
Proof. intros. unfold split_nodes. apply nodes_of_apart. apply split_pairs_apart. Qed.

Lemma mapM_all_ok : forall {A B} (f : A -> res B) l,
  (forall x, In x l -> exists y, f x = Ok y) -> exists ys, mapM f l = Ok ys.
Proof.
  intros A B f. induction l as [|x l IH]; intro H; cbn [mapM].
  - eexists. reflexivity.
  - destruct (H x (or_introl eq_refl)) as (y & Hy). rewrite Hy. cbn [bind].
    destruct IH as (ys & Hys); [intros z Hz; apply H; right; exact Hz|].
    rewrite Hys. cbn [bind]. eexists. reflexivity.
Qed.

(* TOTALITY: every request with indexes in range and parameters in [0, 1] is served *)
Theorem split_total : forall j idx nodes,
  forallb (fun i => (i <? length j)%nat) idx = true ->
  forallb (fun u => negb (out01 u)) nodes = true ->
  length idx = length nodes ->
  exists j', Jordan.split j idx nodes = Ok j'.
Proof.
  intros j idx nodes H1 H2 H3. unfold Jordan.split.
  rewrite H1. cbn [assert_ bind]. rewrite H2. cbn [assert_ bind].
  rewrite H3, Nat.eqb_refl. cbn [assert_ bind].
  destruct (mapM_all_ok (fun is_ : nat * seg =>
              let '(i, s) := is_ in
              match map snd (filter (fun iu : nat * Q => Nat.eqb (fst iu) i) (split_pairs idx nodes)) with
              | [] => Ok [s]
              | _ :: _ => split_segment s (map snd (filter (fun iu : nat * Q => Nat.eqb (fst iu) i) (split_pairs idx nodes)))
              end) (combine (seq 0 (length j)) j)) as (ys & Hys).
  - intros [i s] _. fold (nodes_of (split_pairs idx nodes) i).
    destruct (nodes_of (split_pairs idx nodes) i) as [|t ns] eqn:E; [eexists; reflexivity|].
    rewrite <- E. unfold split_segment.
    rewrite (apart_no_dup _ (nodes_of_apart _ i (split_pairs_apart idx nodes))).
    eexists. reflexivity.
  - rewrite Hys. cbn [bind]. eexists. reflexivity.
Qed.
