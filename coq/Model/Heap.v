(* Heap.v -- MH, the object model: identity of control points (Point2D objects shared by
   consecutive segments), curves as lists of point locations with the cached signed length,
   shapes as trees of curve identities, and every API operation as a heap transformer that
   performs the allocations, sharing and in-place updates of the Python code and calls the
   value model MV for the geometry.  Non-mutating operations are also given as lists of
   atomic write steps (crash semantics).  Definitions only. *)
From SV Require Export Model.Expr.
Open Scope Q_scope.

Definition ploc := nat.
(* the cache holds the geometry float(jordan) was computed from (ghost snapshot) *)
Record hcurve := mkC { hsegs : list (list ploc); hcache : option jordan }.
Record heap := mkH { hpts : list point; hcurves : list hcurve }.
Definition hempty : heap := mkH [] [].
Definition dummyC : hcurve := mkC [] None.

Inductive hcomp := HCS (c : nat) | HCC (cs : list nat).
Inductive hshape := HEmpty | HWhole | HC (c : hcomp) | HD (cs : list hcomp).
Definition hcomp_curves (c : hcomp) : list nat := match c with HCS c => [c] | HCC cs => cs end.
Definition hcurves_of (s : hshape) : list nat :=
  match s with
  | HEmpty | HWhole => []
  | HC c => hcomp_curves c
  | HD cs => concat (map hcomp_curves cs)
  end.

(* ---------- abstraction function ---------- *)
Definition pval (h : heap) (l : ploc) : point := nth l (hpts h) pzero.
Definition curve_at (h : heap) (c : nat) : hcurve := nth c (hcurves h) dummyC.
Definition geom (h : heap) (c : nat) : jordan := map (map (pval h)) (hsegs (curve_at h c)).
Definition denot_comp (h : heap) (c : hcomp) : comp :=
  match c with HCS c => CS (geom h c) | HCC cs => CC (map (geom h) cs) end.
Definition denot (h : heap) (s : hshape) : shape :=
  match s with
  | HEmpty => SEmpty
  | HWhole => SWhole
  | HC c => SC (denot_comp h c)
  | HD cs => SD (map (denot_comp h) cs)
  end.
Definition locs_of_curve (h : heap) (c : nat) : list ploc := concat (hsegs (curve_at h c)).
Definition locs_of (h : heap) (s : hshape) : list ploc := concat (map (locs_of_curve h) (hcurves_of s)).

(* ---------- allocation of a closed curve with shared junction points ---------- *)
(* segment i gets fresh locations for all its control points but the last; its last location
   is the first location of segment i+1 (cyclically): what from_segments / __deepcopy__ build *)
Fixpoint alloc_starts (base : nat) (j : jordan) : list nat :=     (* first location of each segment *)
  match j with
  | [] => []
  | s :: t => base :: alloc_starts (base + (length s - 1)) t
  end.
Definition alloc_segs (base : nat) (j : jordan) : list (list ploc) :=
  let starts := alloc_starts base j in
  let nexts := tl starts ++ [base] in
  map2 (fun s sn => seq (fst sn) (length s - 1) ++ [snd sn]) j (combine starts nexts).
Definition alloc_pts (j : jordan) : list point := concat (map (@removelast point) j).
Definition alloc_curve (h : heap) (j : jordan) : heap * nat :=
  let base := length (hpts h) in
  (mkH (hpts h ++ alloc_pts j) (hcurves h ++ [mkC (alloc_segs base j) None]), length (hcurves h)).
Fixpoint alloc_curves (h : heap) (js : list jordan) : heap * list nat :=
  match js with
  | [] => (h, [])
  | j :: t => let '(h1, c) := alloc_curve h j in
              let '(h2, cs) := alloc_curves h1 t in (h2, c :: cs)
  end.
Definition alloc_comp (h : heap) (c : comp) : heap * hcomp :=
  match c with
  | CS j => let '(h1, c) := alloc_curve h j in (h1, HCS c)
  | CC js => let '(h1, cs) := alloc_curves h js in (h1, HCC cs)
  end.
Fixpoint alloc_comps (h : heap) (cs : list comp) : heap * list hcomp :=
  match cs with
  | [] => (h, [])
  | c :: t => let '(h1, c') := alloc_comp h c in
              let '(h2, t') := alloc_comps h1 t in (h2, c' :: t')
  end.
Definition alloc_shape (h : heap) (s : shape) : heap * hshape :=
  match s with
  | SEmpty => (h, HEmpty)
  | SWhole => (h, HWhole)
  | SC c => let '(h1, c') := alloc_comp h c in (h1, HC c')
  | SD cs => let '(h1, cs') := alloc_comps h cs in (h1, HD cs')
  end.

(* ---------- in-place mutation ---------- *)
Definition set_pt (h : heap) (l : ploc) (p : point) : heap := mkH (set_nth l p (hpts h)) (hcurves h).
Definition set_curve (h : heap) (c : nat) (x : hcurve) : heap := mkH (hpts h) (set_nth c x (hcurves h)).
(* JordanCurve.vertices: first occurrences, in order *)
Definition nodup_nat (l : list nat) : list nat :=
  rev (fold_left (fun acc x => if existsb (Nat.eqb x) acc then acc else x :: acc) l []).
Definition curve_vertices (h : heap) (c : nat) : list ploc := nodup_nat (locs_of_curve h c).
(* apply f once to every DISTINCT point object of the curve *)
Definition map_curve_pts (f : point -> point) (h : heap) (c : nat) : heap :=
  fold_left (fun h' l => set_pt h' l (f (pval h' l))) (curve_vertices h c) h.
Definition reset_cache (h : heap) (c : nat) : heap :=
  set_curve h c (mkC (hsegs (curve_at h c)) None).
(* move keeps the cache (length and orientation are translation invariant);
   scale and rotate reset it (repaired code) *)
Definition h_move (v : point) (h : heap) (s : hshape) : heap :=
  fold_left (map_curve_pts (move_pt v)) (hcurves_of s) h.
Definition h_scale (sx sy : Q) (h : heap) (s : hshape) : heap :=
  fold_left (fun h' c => reset_cache (map_curve_pts (scale_pt sx sy) h' c) c) (hcurves_of s) h.
Definition h_rotate (c s : Q) (h : heap) (x : hshape) : heap :=
  fold_left (fun h' k => reset_cache (map_curve_pts (rot_pt c s) h' k) k) (hcurves_of x) h.
(* the unrepaired scale, for the refutation witness *)
Definition h_scale_stale (sx sy : Q) (h : heap) (s : hshape) : heap :=
  fold_left (map_curve_pts (scale_pt sx sy)) (hcurves_of s) h.
(* JordanCurve.invert: reversed segments over the same point objects, cache reset by the setter *)
Definition h_invert_curve (h : heap) (c : nat) : heap :=
  set_curve h c (mkC (rev (map (@rev ploc) (hsegs (curve_at h c)))) None).

(* ---------- the cached signed length ---------- *)
Definition h_fill (h : heap) (c : nat) : heap :=
  match hcache (curve_at h c) with
  | Some _ => h
  | None => set_curve h c (mkC (hsegs (curve_at h c)) (Some (geom h c)))
  end.
(* float(jordan): the geometry it is computed from (observable: its orientation and length) *)
Definition h_float (h : heap) (c : nat) : heap * jordan :=
  let h' := h_fill h c in
  (h', match hcache (curve_at h' c) with Some g => g | None => geom h c end).
Definition h_fill_all (h : heap) (cs : list nat) : heap := fold_left h_fill cs h.

(* point containment as the code computes it: geometry from the live points, orientation from
   the CACHED signed length *)
Definition wn2_pos (pos : bool) (j : jordan) (p : point) : Z :=
  if box_contains (jordan_box j) p && existsb (fun s => on_seg s p) j
  then (if pos then 1 else -1)%Z
  else (2 * Zsum (map (fun s => seg_wn s p) j))%Z.
Definition simple_has_point_pos (pos : bool) (j : jordan) (p : point) (boundary : bool) : bool :=
  let w := wn2_pos pos j p in
  if pos then (if boundary then (0 <? w)%Z else (w =? 2)%Z)
  else (if boundary then (-2 <? w)%Z else (w =? 0)%Z).
Definition h_curve_has_point (h : heap) (c : nat) (p : point) (b : bool) : bool :=
  let '(h', g) := h_float h c in simple_has_point_pos (jordan_pos g) (geom h c) p b.
Definition h_comp_has_point (h : heap) (c : hcomp) (p : point) (b : bool) : bool :=
  match c with
  | HCS c => h_curve_has_point h c p b
  | HCC cs => forallb (fun c => h_curve_has_point h c p b) cs
  end.
Definition h_contains_point (h : heap) (s : hshape) (p : point) (b : bool) : heap * bool :=
  (h_fill_all h (hcurves_of s),
   match s with
   | HEmpty => false
   | HWhole => true
   | HC c => h_comp_has_point h c p b
   | HD cs => existsb (fun c => h_comp_has_point h c p b) cs
   end).

(* ---------- splitting a curve in place ---------- *)
(* pieces replacing one segment: the first keeps the segment's start object, the last its end
   object, consecutive pieces share one new junction object; interior control points are new *)
Fixpoint glue_pieces (base : nat) (first last : ploc) (pieces : list seg) : list (list ploc) * list point :=
  match pieces with
  | [] => ([], [])
  | [s] => ([first :: seq base (length s - 2) ++ [last]], removelast (tl s))
  | s :: t =>
      let n := (length s - 1)%nat in              (* new objects: interior points and the end junction *)
      let junction := (base + n - 1)%nat in
      let '(rest, pts) := glue_pieces (base + n) junction last t in
      ((first :: seq base n) :: rest, tl s ++ pts)
  end.
(* one JordanCurve.__split_segment: one assignment through the setter (cache reset) *)
Definition h_split_segment (h : heap) (c : nat) (i : nat) (pieces : list seg) : heap :=
  let cv := curve_at h c in
  let old := nth i (hsegs cv) [] in
  match pieces with
  | [] | [_] => h                                  (* no node on this segment: nothing is assigned *)
  | _ =>
      let '(news, pts) := glue_pieces (length (hpts h)) (hd O old) (last old O) pieces in
      mkH (hpts h ++ pts)
          (set_nth c (mkC (firstn i (hsegs cv) ++ news ++ skipn (S i) (hsegs cv)) None) (hcurves h))
  end.
(* the pieces per original segment, as JordanCurve.split computes them *)
Definition split_groups (j : jordan) (indexs : list nat) (nodes : list Q) : res (list (list seg)) :=
  do _ <- assert_ (forallb (fun i => (i <? length j)%nat) indexs);
  do _ <- assert_ (forallb (fun u => negb (out01 u)) nodes);
  do _ <- assert_ (Nat.eqb (length indexs) (length nodes));
  let pairs := split_pairs indexs nodes in
  mapM (fun is_ =>
          let '(i, s) := is_ in
          let ns := map snd (filter (fun iu => Nat.eqb (fst iu) i) pairs) in
          match ns with
          | [] => Ok [s]
          | _ => split_segment s ns
          end) (combine (seq 0 (length j)) j).
(* atomic write steps of jordan.split on curve c: one per segment that has nodes, with the
   index shift of the code *)
Fixpoint split_steps (c : nat) (i shift : nat) (groups : list (list seg)) : list (heap -> heap) :=
  match groups with
  | [] => []
  | g :: t =>
      match g with
      | [] | [_] => split_steps c (S i) shift t
      | _ => (fun h => h_split_segment h c (i + shift) g) :: split_steps c (S i) (shift + (length g - 1)) t
      end
  end.
Definition run_steps (steps : list (heap -> heap)) (h : heap) : heap := fold_left (fun h' f => f h') steps h.
Definition run_prefix (k : nat) (steps : list (heap -> heap)) (h : heap) : heap := run_steps (firstn k steps) h.

(* FollowPath.split_two_jordans on curves ca, cb: the write steps (value decisions by MV) *)
Definition split_two_steps (h : heap) (ca cb : nat) : res (list (heap -> heap)) :=
  let ja := geom h ca in let jb := geom h cb in
  match box_and (jordan_box ja) (jordan_box jb) with
  | None => Ok []
  | Some _ =>
      do inters <- jordan_and ja jb;
      let pa := concat (map (fun r : irow => let '(a, _, o) := r in
                   match o with Some (u, _) => [(a, u)] | None => [] end) inters) in
      let pb := concat (map (fun r : irow => let '(_, b, o) := r in
                   match o with Some (_, v) => [(b, v)] | None => [] end) inters) in
      let pa := sort_by nat_q_le (dedup nq_eqb pa) in
      let pb := sort_by nat_q_le (dedup nq_eqb pb) in
      do ga <- split_groups ja (map fst pa) (map snd pa);
      do gb <- split_groups jb (map fst pb) (map snd pb);
      Ok (split_steps ca 0 0 ga ++ split_steps cb 0 0 gb)
  end.
(* for jordana in A: for jordanb in B: split_two_jordans -- executed, because later pairs see
   the already split curves *)
Fixpoint h_split_all_pairs (h : heap) (pairs : list (nat * nat)) : res heap :=
  match pairs with
  | [] => Ok h
  | (ca, cb) :: t =>
      do st <- split_two_steps h ca cb;
      h_split_all_pairs (run_steps st h) t
  end.
Definition all_pairs (xs ys : list nat) : list (nat * nat) :=
  concat (map (fun x => map (fun y => (x, y)) ys) xs).

(* ---------- operators ---------- *)
Inductive bop := BOr | BAnd | BSub | BXor.
Definition mv_op (o : bop) (a b : shape) : res shape :=
  match o with
  | BOr => do r <- op_or a b; let '(_, _, s) := r in Ok s
  | BAnd => do r <- op_and a b; let '(_, _, s) := r in Ok s
  | BSub => do r <- op_sub a b; let '(_, s) := r in Ok s
  | BXor => do r <- op_xor a b; let '(_, _, s) := r in Ok s
  end.
(* does the operator reach FollowPath (and hence split its operands in place)?  It does unless a
   singleton or containment short-cut answers.  For - and ^ the second operand of the inner &
   is a fresh complement, so only the first is split by each half. *)
Definition shortcut (o : bop) (a b : shape) : res bool :=
  match a, b with
  | SEmpty, _ | SWhole, _ | _, SEmpty | _, SWhole => Ok true
  | _, _ =>
      match o with
      | BOr | BAnd =>
          do x <- contains_shape a b; if x then Ok true else contains_shape b a
      | _ => Ok false
      end
  end.
(* x op y : the operands' curves are split in place (value of the split = MV's, identity of
   the surviving point objects kept), caches of the operand curves may be filled, the result is
   allocated fresh.  Returns the new heap and the result. *)
Definition h_binop (o : bop) (h : heap) (x y : hshape) : res (heap * hshape) :=
  let a := denot h x in let b := denot h y in
  do r <- mv_op o a b;
  do sc <- shortcut o a b;
  do h1 <- (if sc then Ok h
            else match o with
                 | BOr | BAnd => h_split_all_pairs h (all_pairs (hcurves_of x) (hcurves_of y))
                 | BSub =>
                     (* a & ~b : ~b is a fresh object; a is split against it *)
                     do nb <- op_not b;
                     let '(h', nbx) := alloc_shape h nb in
                     do s2 <- shortcut BAnd a nb;
                     if s2 then Ok h' else h_split_all_pairs h' (all_pairs (hcurves_of x) (hcurves_of nbx))
                 | BXor =>
                     do nb <- op_not b;
                     let '(h', nbx) := alloc_shape h nb in
                     do s2 <- shortcut BAnd a nb;
                     do h'' <- (if s2 then Ok h' else h_split_all_pairs h' (all_pairs (hcurves_of x) (hcurves_of nbx)));
                     do na <- op_not (denot h'' x);
                     let '(h3, nax) := alloc_shape h'' na in
                     do s3 <- shortcut BAnd (denot h3 y) na;
                     if s3 then Ok h3 else h_split_all_pairs h3 (all_pairs (hcurves_of y) (hcurves_of nax))
                 end);
  let h2 := h_fill_all h1 (hcurves_of x ++ hcurves_of y) in
  Ok (alloc_shape h2 r).
Definition h_not (h : heap) (x : hshape) : res (heap * hshape) :=
  do r <- op_not (denot h x); Ok (alloc_shape h r).
Definition h_copy (h : heap) (x : hshape) : res (heap * hshape) :=
  do r <- copy_shape (denot h x); Ok (alloc_shape h r).
Definition h_new (h : heap) (s : shape) : heap * hshape := alloc_shape h s.

(* ---------- well-formedness of the identity structure ---------- *)
Fixpoint junctions_ok (first : ploc) (segs : list (list ploc)) : bool :=
  match segs with
  | [] => true
  | [s] => Nat.eqb (last s O) first
  | s :: ((s' :: _) as t) => Nat.eqb (last s O) (hd O s') && junctions_ok first t
  end.
Definition curve_wf (h : heap) (c : nat) : bool :=
  let segs := hsegs (curve_at h c) in
  forallb (fun s => (2 <=? length s)%nat && forallb (fun l => (l <? length (hpts h))%nat) s) segs &&
  match segs with [] => true | s :: _ => junctions_ok (hd O s) segs end &&
  (* no sharing other than the junctions: the locations without each segment's last are distinct *)
  (let inner := concat (map (@removelast ploc) segs) in Nat.eqb (length (nodup_nat inner)) (length inner)).
Fixpoint disjoint_nat (a b : list nat) : bool :=
  match a with [] => true | x :: t => negb (existsb (Nat.eqb x) b) && disjoint_nat t b end.
Fixpoint pairwise_disjoint (ls : list (list nat)) : bool :=
  match ls with [] => true | l :: t => forallb (disjoint_nat l) t && pairwise_disjoint t end.
(* every curve well formed, and no point object belongs to two curves *)
Definition heap_wf (h : heap) : bool :=
  forallb (curve_wf h) (seq 0 (length (hcurves h))) &&
  pairwise_disjoint (map (locs_of_curve h) (seq 0 (length (hcurves h)))).
(* the cached snapshot is a translate of the live geometry *)
Definition translate_of (g g' : jordan) : Prop :=
  exists v, Forall2 (Forall2 (fun p q => peq q (padd p v))) g g'.
Definition cache_coherent (h : heap) : Prop :=
  forall c, (c < length (hcurves h))%nat ->
  match hcache (curve_at h c) with None => True | Some g => translate_of g (geom h c) end.

(* ---------- histories ---------- *)
Inductive hop :=
| ONew (s : shape)
| OCopy (x : nat)
| ONot (x : nat)
| OBin (o : bop) (x y : nat)
| OMove (x : nat) (v : point)
| OScale (x : nat) (sx sy : Q)
| ORotate (x : nat) (c s : Q)
| OContains (x : nat) (p : point) (b : bool)
| OFloat (x : nat).                      (* float() of every curve of x *)
Definition hstate := (heap * list hshape)%type.
Definition var (st : hstate) (x : nat) : hshape := nth x (snd st) HEmpty.
Definition step (st : hstate) (o : hop) : res hstate :=
  let '(h, env) := st in
  match o with
  | ONew s => let '(h', x) := h_new h s in Ok (h', env ++ [x])
  | OCopy x => do r <- h_copy h (var st x); let '(h', y) := r in Ok (h', env ++ [y])
  | ONot x => do r <- h_not h (var st x); let '(h', y) := r in Ok (h', env ++ [y])
  | OBin o x y => do r <- h_binop o h (var st x) (var st y); let '(h', z) := r in Ok (h', env ++ [z])
  | OMove x v => Ok (h_move v h (var st x), env)
  | OScale x sx sy => Ok (h_scale sx sy h (var st x), env)
  | ORotate x c s => Ok (h_rotate c s h (var st x), env)
  | OContains x p b => Ok (fst (h_contains_point h (var st x) p b), env)
  | OFloat x => Ok (h_fill_all h (hcurves_of (var st x)), env)
  end.
Fixpoint run_history (st : hstate) (ops : list hop) : res hstate :=
  match ops with
  | [] => Ok st
  | o :: t => do st' <- step st o; run_history st' t
  end.
