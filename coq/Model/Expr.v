(* Expr.v -- nested operator expressions over an environment of shapes.
   Operands that are variables are updated in the environment with their
   (split) state after each operator, as the in-place splitting of the code does. *)
From SV Require Export Model.Shape.

Inductive expr :=
| EVar (n : nat)
| EOr (a b : expr) | EAnd (a b : expr) | ESub (a b : expr) | EXor (a b : expr)
| ENot (a : expr) | EAdd (a b : expr) | EMul (a b : expr) | ENeg (a : expr).

Definition env_set (env : list shape) (e : expr) (v : shape) : list shape :=
  match e with EVar n => set_nth n v env | _ => env end.

Fixpoint eval_expr (env : list shape) (e : expr) : res (list shape * shape) :=
  let bin (a b : expr) (f : shape -> shape -> res op3) : res (list shape * shape) :=
    do ra <- eval_expr env a;
    let '(env1, va) := ra in
    do rb <- eval_expr env1 b;
    let '(env2, vb) := rb in
    do r <- f va vb;
    let '(va', vb', s) := r in
    Ok (env_set (env_set env2 a va') b vb', s) in
  match e with
  | EVar n => match nth_error env n with Some s => Ok (env, s) | None => Err EIndex end
  | EOr a b | EAdd a b => bin a b op_or
  | EAnd a b | EMul a b => bin a b op_and
  | ESub a b => bin a b (fun x y => do r <- op_sub x y; let '(x', s) := r in Ok (x', y, s))
  | EXor a b => bin a b op_xor
  | ENot a | ENeg a =>
      do ra <- eval_expr env a;
      let '(env1, va) := ra in
      do s <- op_not va;
      Ok (env1, s)
  end.
