(* Jordan.v -- jordancurve.py: constructors, vertices, invert, box, points,
   split, clean, intersection (with flags), winding number, area, __eq__. *)
From SV Require Export Model.Curve.
Open Scope Q_scope.

(* ---------- BezierCurve.clean: exact degree reduction ---------- *)
Fixpoint fwd_diff (n : nat) (s : seg) : seg :=
  match n with
  | O => s
  | S k => fwd_diff k (map (fun ab => psub (snd ab) (fst ab)) (pairs_of s))
  end.
Definition reducible (s : seg) : bool :=
  (2 <=? degree s)%nat && forallb (fun p => peqb p pzero) (fwd_diff (degree s) s).
(* inverse degree elevation: Q_0 = P_0, Q_i = (d P_i - i Q_{i-1})/(d-i) *)
Fixpoint reduce_from (d i : nat) (prev : point) (ps : seg) : seg :=
  match ps with
  | [] => []
  | [_] => []                      (* last control point handled by caller *)
  | P :: t =>
      let q := pscale (/ nQ (d - i)) (psub (pscale (nQ d) P) (pscale (nQ i) prev)) in
      q :: reduce_from d (S i) q t
  end.
Definition reduce_once (s : seg) : seg :=
  match s with
  | P0 :: t => map pred_ (removelast (P0 :: reduce_from (degree s) 1 P0 t) ++ [last_pt s])
  | [] => []
  end.
Fixpoint seg_clean_fuel (f : nat) (s : seg) : seg :=
  match f with
  | O => s
  | S k => if reducible s then seg_clean_fuel k (reduce_once s) else s
  end.
Definition seg_clean (s : seg) : seg := seg_clean_fuel (length s) s.

(* ---------- constructors ---------- *)
(* segments setter (value part): type/junction checks are on identity and are
   covered in MH; here: degree reduction of every segment *)
Definition set_segments (j : jordan) : jordan := map seg_clean j.

(* from_segments: assert end_i == start_{i+1} (1e-9, closing pair included),
   re-point end_i to start_{i+1} *)
Definition from_segments (js : list seg) : res jordan :=
  match js with
  | [] => Ok []
  | s0 :: _ =>
      let nexts := map first_pt (tl js ++ [s0]) in
      do _ <- assert_ (forallb (fun sn => pt_eq (last_pt (fst sn)) (snd sn)) (combine js nexts));
      Ok (set_segments (map2 (fun s n => set_last n s) js nexts))
  end.
Definition from_vertices (vs : list point) : res jordan :=
  match vs with
  | [] => Ok []
  | v0 :: _ => from_segments (map (fun ab => [fst ab; snd ab]) (pairs_of (vs ++ [v0])))
  end.
Definition from_ctrlpoints (cs : list seg) : res jordan := from_segments cs.

Definition vertices (j : jordan) : list point := concat (map (@removelast point) j).
Definition invert (j : jordan) : jordan := set_segments (rev (map (@rev point) j)).
Definition jordan_box (j : jordan) : box :=
  match j with
  | [] => (0, 0, 0, 0)
  | s :: t => fold_left (fun b s' => box_or b (seg_box s')) t (seg_box s)
  end.
Definition jordan_has (j : jordan) (p : point) : bool :=   (* JordanCurve.__contains__ *)
  box_contains (jordan_box j) p && existsb (fun s => on_seg s p) j.
Definition points (j : jordan) (n : nat) : list point :=
  concat (map (fun s => map (fun k => evalr s (nQ k / nQ (S n))) (seq 0 (S n))) j).

(* ---------- split ---------- *)
Definition near01 (u : Q) : bool :=
  Qlt_bool (Qabs' u) tol6 || Qlt_bool (Qabs' (u - 1)) tol6.
Definition pair_le (a b : nat * Q) : bool :=
  (fst a <? fst b)%nat || (Nat.eqb (fst a) (fst b) && Qle_bool (snd a) (snd b)).
Fixpoint has_dup (l : list Q) : bool :=    (* sorted input *)
  match l with
  | a :: ((b :: _) as t) => Qeq_bool a b || has_dup t
  | _ => false
  end.
(* the cleaning loop of JordanCurve.split drops a pair whose node is within 1e-6 of the previous kept
   node of the same segment (sorted input) *)
Fixpoint drop_repeated_from (prev : nat * Q) (l : list (nat * Q)) : list (nat * Q) :=
  match l with
  | [] => []
  | p :: t =>
    if Nat.eqb (fst prev) (fst p) && Qlt_bool (Qabs' (snd p - snd prev)) tol6
    then drop_repeated_from prev t
    else p :: drop_repeated_from p t
  end.
Definition drop_repeated (l : list (nat * Q)) : list (nat * Q) :=
  match l with
  | [] => []
  | p :: t => p :: drop_repeated_from p t
  end.
(* the (index, node) pairs JordanCurve.split really uses *)
Definition split_pairs (indexs : list nat) (nodes : list Q) : list (nat * Q) :=
  drop_repeated (filter (fun iu => negb (near01 (snd iu))) (sort_by pair_le (combine indexs nodes))).
Definition split_segment (s : seg) (nodes : list Q) : res (list seg) :=
  if has_dup nodes then Err EIndex          (* pynurbs raises on repeated nodes *)
  else Ok (map seg_clean (split_many nodes s)).
Definition split (j : jordan) (indexs : list nat) (nodes : list Q) : res jordan :=
  do _ <- assert_ (forallb (fun i => (i <? length j)%nat) indexs);
  do _ <- assert_ (forallb (fun u => negb (out01 u)) nodes);
  do _ <- assert_ (Nat.eqb (length indexs) (length nodes));
  let pairs := split_pairs indexs nodes in
  do pieces <- mapM (fun is_ =>
                  let '(i, s) := is_ in
                  let ns := map snd (filter (fun iu => Nat.eqb (fst iu) i) pairs) in
                  match ns with
                  | [] => Ok [s]
                  | _ => split_segment s ns
                  end) (combine (seq 0 (length j)) j);
  Ok (set_segments (concat pieces)).

(* ---------- clean ---------- *)
Inductive unite_res := UYes (s : seg) | UNo | URaise (k : ekind).
(* PlanarCurve.__or__ followed by the caller's re-pointing of the end points *)
Definition unite (a b : seg) : unite_res :=
  if negb (Nat.eqb (degree a) (degree b)) then UNo      (* ValueError: cannot unite *)
  else if negb (pt_eq (last_pt a) (first_pt b)) then URaise EAssert
  else
    let dapt := psub (last_pt a) (last_pt (removelast a)) in
    let dbpt := psub (nth 1 b pzero) (first_pt b) in
    if Qlt_bool tol6 (Qabs' (cross dapt dbpt)) then UNo
    else
      let dsum := padd dapt dbpt in
      let den := inner dsum dsum in
      if Qeq_bool den 0 then URaise EZeroDiv
      else
        let node := inner dapt dsum / den in
        if Qle_bool node 0 || Qle_bool 1 node then URaise EOther
        else
          let c := fst (split_at (/ node) a) in
          let b' := snd (split_at node c) in
          if forallb (fun pq => peqb (fst pq) (snd pq)) (combine b' b)
          then UYes (map pred_ (set_last (last_pt b) (set_first (first_pt a) c)))
          else UNo.
Fixpoint remove_nth {A} (n : nat) (l : list A) : list A :=
  match n, l with
  | O, _ :: t => t
  | S k, h :: t => h :: remove_nth k t
  | _, [] => []
  end.
(* one scan i = 0..n-1: first pair that unites *)
Fixpoint clean_scan (n : nat) (i : nat) (segs : list seg) : res (option (list seg)) :=
  match n with
  | O => Ok None
  | S k =>
      let len := length segs in
      let j := Nat.modulo (i + 1) len in
      match unite (nth i segs []) (nth j segs []) with
      | URaise e => Err e
      | UYes m => Ok (Some (remove_nth j (set_nth i m segs)))
      | UNo => clean_scan k (S i) segs
      end
  end.
Fixpoint clean_loop (fuel : nat) (segs : list seg) : res (list seg) :=
  match fuel with
  | O => NoFuel
  | S f =>
      match segs with
      | [] => Ok []
      | _ =>
        do r <- clean_scan (length segs) 0 segs;
        match r with
        | Some segs' => clean_loop f segs'
        | None => Ok segs
        end
      end
  end.
Definition clean (j : jordan) : res jordan :=
  let segs := map seg_clean j in
  do segs' <- clean_loop (S (length segs)) segs;
  Ok (set_segments segs').

(* ---------- intersection ---------- *)
Definition irow := (nat * nat * option (Q * Q))%type.
Definition irow_le (r s : irow) : bool :=
  let '(a, b, o) := r in let '(a', b', o') := s in
  (a <? a')%nat || (Nat.eqb a a' &&
   ((b <? b')%nat || (Nat.eqb b b' &&
     match o, o' with
     | Some (u, v), Some (u', v') =>
         Qlt_bool u u' || (Qeq_bool u u' && Qle_bool v v')
     | _, _ => true
     end))).
Definition irow_eqb (r s : irow) : bool := irow_le r s && irow_le s r.
Definition raw_intersection (ja jb : jordan) : res (list irow) :=
  do rows <- mapM (fun ia =>
      let '(a, sa) := ia in
      do per_b <- mapM (fun ib =>
          let '(b, sb) := ib in
          do r <- seg_and sa sb;
          Ok match r with
             | INone => []
             | IEqual => [(a, b, None)]
             | IPairs l => map (fun uv => (a, b, Some uv)) l
             end) (combine (seq 0 (length jb)) jb);
      Ok (concat per_b)) (combine (seq 0 (length ja)) ja);
  Ok (dedup irow_eqb (concat rows)).
Definition inside01 (u : Q) : bool := Qlt_bool 0 u && Qlt_bool u 1.
Definition intersection (ja jb : jordan) (equal_beziers end_points : bool) : res (list irow) :=
  do rows <- raw_intersection ja jb;
  let rows1 := if equal_beziers then rows
               else filter (fun r => match snd r with None => false | _ => true end) rows in
  let rows2 := if end_points then rows1
               else filter (fun r => match snd r with
                                     | None => true
                                     | Some (u, v) => inside01 u || inside01 v
                                     end) rows1 in
  Ok (sort_by irow_le rows2).
Definition jordan_and (ja jb : jordan) : res (list irow) := intersection ja jb false false.

(* ---------- integrals and winding ---------- *)
Definition jordan_vertical (j : jordan) (ex ey : nat) : Q :=
  Qred (Qsum (map (fun s => vertical s ex ey) j)).
Definition jordan_area (j : jordan) : Q := jordan_vertical j 1 0.
Definition jordan_pos (j : jordan) : bool := Qlt_bool 0 (jordan_area j).   (* float(jordan) > 0 *)
(* twice the winding number, so that +-1/2 is +-1 *)
Definition jordan_wn2 (j : jordan) (p : point) : Z :=
  if box_contains (jordan_box j) p && existsb (fun s => on_seg s p) j
  then (if jordan_pos j then 1 else -1)%Z
  else (2 * Zsum (map (fun s => seg_wn s p) j))%Z.

(* ---------- JordanCurve.__eq__ ---------- *)
Definition jordan_eq (self other : jordan) : res bool :=
  if negb (forallb (jordan_has self) (points other 1)) then Ok false
  else
    do sc <- clean self;
    do oc <- clean other;
    if negb (Nat.eqb (length sc) (length oc)) then Ok false
    else
      match oc with
      | [] => Err EIndex
      | seg1 :: _ =>
          match index_where (fun s0 => seg_eq s0 seg1) sc with
          | None => Ok false
          | Some index =>
              let nsegments := length sc in         (* segment count of the cleaned copy *)
              let fix go (i : nat) (l : list seg) : res bool :=
                match l with
                | [] => Ok true
                | s1 :: t =>
                    let k := Nat.modulo (i + index) nsegments in
                    match nth_error sc k with
                    | None => Err EIndex
                    | Some s0 => if seg_eq s0 s1 then go (S i) t else Ok false
                    end
                end in
              go O oc
          end
      end.
