(* Curve.v -- curve.py above the Bezier arithmetic: PlanarCurve.__eq__,
   Intersection.lines, PlanarCurve.__and__ (straight), Projection (Newton),
   PlanarCurve.__contains__, chord winding, IntegratePlanar.vertical. *)
From SV Require Export Model.Poly.
Open Scope Q_scope.

(* PlanarCurve.__eq__ *)
Definition seg_eq (a b : seg) : bool :=
  Nat.eqb (length a) (length b) && forallb (fun pq => pt_eq (fst pq) (snd pq)) (combine a b).

(* Intersection.lines *)
Definition out01 (t : Q) : bool := Qlt_bool t 0 || Qlt_bool 1 t.
Definition lines (sa sb : seg) : option (Q * Q) :=
  match sa, sb with
  | [a0; a1], [b0; b1] =>
      let v0 := psub a1 a0 in
      let v1 := psub b1 b0 in
      let d := psub b0 a0 in
      let den := cross v0 v1 in
      if Qeq_bool den 0 then None
      else
        let p0 := cross d v1 / den in
        let p1 := cross d v0 / den in
        if out01 p0 then None else if out01 p1 then None
        else Some (Qred p0, Qred p1)
  | _, _ => None
  end.

(* PlanarCurve.__and__ : None / () / ((u,v),) *)
Inductive inter := INone | IEqual | IPairs (l : list (Q * Q)).
Definition seg_and (sa sb : seg) : res inter :=
  match box_and (seg_box sa) (seg_box sb) with
  | None => Ok INone
  | Some _ =>
      if seg_eq sa sb then Ok IEqual
      else if Nat.eqb (degree sa) 1 && Nat.eqb (degree sb) 1 then
             match lines sa sb with
             | Some uv => Ok (IPairs [uv])
             | None => Ok INone           (* no crossing (also parallel / collinear overlap) *)
             end
      else Err EOther                     (* curved crossings: not in MV *)
  end.

(* Projection.newton_iteration / point_on_curve / PlanarCurve.__contains__ *)
Definition round60 (q : Q) : Q := Qred (Qfloor (q * (1152921504606846976 # 1)) # 1152921504606846976).
Definition nround (deg : nat) (q : Q) : Q := if (deg <=? 1)%nat then Qred q else round60 q.
Definition newton_step (s ds dds : seg) (p : point) (u : Q) : Q :=
  let c := psub (eval s u) p in
  let d := eval ds u in
  let f := inner d c in
  let df0 := inner (eval dds u) c + inner d d in
  let df := if Qlt_bool tol6 (Qabs' df0) then df0 else tol6 in
  Qclamp01 (nround (degree s) (u - f / df)).
Fixpoint newton_rounds (n : nat) (s ds dds : seg) (p : point) (us : list Q) : list Q :=
  match n with
  | O => us
  | S k =>
      let us' := dedup Qeq_bool (map (newton_step s ds dds p) us) in
      match us' with
      | [_] => us'
      | _ => newton_rounds k s ds dds p us'
      end
  end.
Definition project (s : seg) (p : point) : list Q :=
  let ds := derivate s in
  newton_rounds 10 s ds (derivate ds) p (closed_linspace (2 + degree s)).
Definition dist2 (s : seg) (p : point) (u : Q) : Q := norm2 (psub (eval s u) p).
Definition tol6sq : Q := tol6 * tol6.
Definition on_seg (s : seg) (p : point) : bool :=
  box_contains (seg_box s) p &&
  existsb (fun u => Qlt_bool (dist2 s p u) tol6sq) (project s p).

(* chords at the nodes the code uses: closed_linspace(npts) *)
Definition chord_pts (s : seg) : list point :=
  map (eval s) (closed_linspace (length s)).
Definition orient (a b p : point) : Q := cross (psub b a) (psub p a).
(* signed crossing of the upward vertical ray from p with the chord a->b *)
Definition cr (a b p : point) : Z :=
  if Qle_bool (px a) (px p) && Qlt_bool (px p) (px b) then
    (if Qlt_bool (orient a b p) 0 then (-1)%Z else 0%Z)
  else if Qle_bool (px b) (px p) && Qlt_bool (px p) (px a) then
    (if Qlt_bool 0 (orient a b p) then 1%Z else 0%Z)
  else 0%Z.
Definition seg_wn (s : seg) (p : point) : Z :=
  Zsum (map (fun ab => cr (fst ab) (snd ab) p) (pairs_of (chord_pts s))).

(* IntegratePlanar.vertical: open Newton-Cotes on max(3+expx+expy+degree, degree*(expx+expy+1)) nodes
   (the second term since the repair of F29: enough nodes for the polynomial x^expx y^expy y') *)
Definition vertical_nodes (d ex ey : nat) : nat := Nat.max (3 + ex + ey + d) (d * (ex + ey + 1)).
Definition vertical (s : seg) (ex ey : nat) : Q :=
  let n := vertical_nodes (degree s) ex ey in
  let ds := derivate s in
  Qred (Qsum (map2 (fun w t =>
                let P := eval s t in
                w * (Qpow (px P) ex * Qpow (py P) ey * py (eval ds t)))
             (nc_w n) (open_linspace n))).
