(* Poly.v -- coefficient-list polynomials over Q (low degree first) and the
   textbook open Newton-Cotes weights (what pynurbs' open_newton_cotes returns). *)
From SV Require Export Model.Bezier.
Open Scope Q_scope.

Definition poly := list Q.
Fixpoint peval (p : poly) (x : Q) : Q :=
  match p with [] => 0 | c :: t => c + x * peval t x end.
Fixpoint poly_add (p q : poly) : poly :=
  match p, q with
  | [], _ => q
  | _, [] => p
  | a :: p', b :: q' => (a + b) :: poly_add p' q'
  end.
Definition poly_scale (k : Q) (p : poly) : poly := map (Qmult k) p.
Fixpoint poly_mul (p q : poly) : poly :=
  match p with
  | [] => []
  | a :: p' => poly_add (poly_scale a q) (0 :: poly_mul p' q)
  end.
Fixpoint poly_pow (p : poly) (n : nat) : poly :=
  match n with O => [1] | S k => poly_mul p (poly_pow p k) end.
(* formal integral over [0,1]: sum c_k/(k+1) *)
Fixpoint pint01_from (k : nat) (p : poly) : Q :=
  match p with [] => 0 | c :: t => c / nQ (S k) + pint01_from (S k) t end.
Definition pint01 (p : poly) : Q := pint01_from 0 p.
Fixpoint pderiv_from (k : nat) (p : poly) : poly :=
  match p with [] => [] | c :: t => (nQ k * c) :: pderiv_from (S k) t end.
Definition pderiv (p : poly) : poly :=
  match p with [] => [] | _ :: t => pderiv_from 1 t end.

(* Lagrange basis on the nodes xs, weight = integral of the basis polynomial *)
Definition lagrange_basis (xs : list Q) (i : nat) : poly :=
  let xi := nth i xs 0 in
  fold_left (fun acc jx =>
               let '(j, xj) := jx in
               if Nat.eqb j i then acc
               else map Qred (poly_mul acc (poly_scale (/ (xi - xj)) [- xj; 1])))
            (combine (seq 0 (length xs)) xs) [1].
Definition nc_weights (n : nat) : list Q :=
  let xs := open_linspace n in
  map (fun i => Qred (pint01 (lagrange_basis xs i))) (seq 0 n).

(* The weights are constants of n: tabulate the first 20 once (computed by the
   kernel from the definition above) so that the executable model does not
   redo the Lagrange integration at every call.  Lemmas/Quadrature.v proves
   nc_w n = nc_weights n for every n. *)
Definition nc_table : list (list Q) := Eval vm_compute in map nc_weights (seq 0 20).
Definition nc_w (n : nat) : list Q :=
  match nth_error nc_table n with Some w => w | None => nc_weights n end.
