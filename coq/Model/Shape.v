(* Shape.v -- shape.py: shape kinds, containment of points/curves/shapes,
   FollowPath (split, midpoints, pursue_path, follow_path), ShapeFromJordans /
   DivideConnecteds, the operators, __eq__, transformations, moments. *)
From SV Require Export Model.Jordan.
Open Scope Q_scope.

Inductive comp := CS (j : jordan) | CC (js : list jordan).
Inductive shape := SEmpty | SWhole | SC (c : comp) | SD (cs : list comp).

Definition comp_jordans (c : comp) : list jordan :=
  match c with CS j => [j] | CC js => js end.
Definition jordans (s : shape) : list jordan :=
  match s with
  | SEmpty | SWhole => []
  | SC c => comp_jordans c
  | SD cs => concat (map comp_jordans cs)
  end.
Definition comp_area (c : comp) : Q := Qred (Qsum (map jordan_area (comp_jordans c))).
Definition shape_area (s : shape) : Q := Qred (Qsum (map jordan_area (jordans s))).

(* rebuild a shape of the same structure over a new list of curves *)
Definition comp_with (c : comp) (js : list jordan) : comp * list jordan :=
  match c with
  | CS _ => (CS (hd [] js), tl js)
  | CC old => (CC (firstn (length old) js), skipn (length old) js)
  end.
Fixpoint comps_with (cs : list comp) (js : list jordan) : list comp :=
  match cs with
  | [] => []
  | c :: t => let '(c', rest) := comp_with c js in c' :: comps_with t rest
  end.
Definition with_jordans (s : shape) (js : list jordan) : shape :=
  match s with
  | SEmpty => SEmpty
  | SWhole => SWhole
  | SC c => SC (fst (comp_with c js))
  | SD cs => SD (comps_with cs js)
  end.

(* ---------- points ---------- *)
Definition simple_has_point (j : jordan) (p : point) (boundary : bool) : bool :=
  let w := jordan_wn2 j p in
  if jordan_pos j then (if boundary then (0 <? w)%Z else (w =? 2)%Z)
  else (if boundary then (-2 <? w)%Z else (w =? 0)%Z).
Definition comp_has_point (c : comp) (p : point) (b : bool) : bool :=
  match c with
  | CS j => simple_has_point j p b
  | CC js => forallb (fun j => simple_has_point j p b) js
  end.
Definition contains_point (s : shape) (p : point) (b : bool) : bool :=
  match s with
  | SEmpty => false
  | SWhole => true
  | SC c => comp_has_point c p b
  | SD cs => existsb (fun c => comp_has_point c p b) cs
  end.

(* ---------- curves ---------- *)
Definition mids_between (us : list Q) : list Q :=
  map (fun ab => (fst ab + snd ab) / 2) (pairs_of us).
Definition Qle_b (a b : Q) : bool := Qle_bool a b.
Definition simple_has_jordan (self j : jordan) (boundary : bool) : res bool :=
  if negb (forallb (fun p => simple_has_point self p boundary) (points j 0)) then Ok false
  else
    do inters <- intersection j self false true;
    Ok (forallb (fun a_s =>
          let '(a, s) := a_s in
          let us := 0 :: 1 :: concat (map (fun r : irow =>
                      let '(a', _, o) := r in
                      match o with
                      | Some (u, _) => if Nat.eqb a' a then [u] else []
                      | None => []
                      end) inters) in
          let us := sort_by Qle_b (dedup Qeq_bool us) in
          forallb (fun u => simple_has_point self (eval s u) boundary) (mids_between us))
        (combine (seq 0 (length j)) j)).
Definition comp_has_jordan (c : comp) (j : jordan) (b : bool) : res bool :=
  match c with
  | CS self => simple_has_jordan self j b
  | CC js => forallM (fun self => simple_has_jordan self j b) js
  end.
Definition contains_jordan (s : shape) (j : jordan) (b : bool) : res bool :=
  match s with
  | SEmpty => Ok false
  | SWhole => Ok true
  | SC c => comp_has_jordan c j b
  | SD cs => existsM (fun c => comp_has_jordan c j b) cs
  end.

(* ---------- shapes ---------- *)
(* SimpleShape.__contains_simple: is the simple shape on `other` inside the one on `self` *)
Definition simple_has_simple (self other : jordan) : res bool :=
  let areaA := jordan_area other in
  let areaB := jordan_area self in
  if Qlt_bool areaA 0 && Qlt_bool 0 areaB then Ok false
  else match box_and (jordan_box self) (jordan_box other) with
  | None => Ok (Qlt_bool 0 areaA && Qlt_bool areaB 0)
  | Some _ =>
    if Qlt_bool 0 areaA && Qlt_bool areaB 0 then
      do x <- simple_has_jordan self other true;
      if x then (do y <- simple_has_jordan other self true; Ok (negb y)) else Ok false
    else if Qlt_bool areaB areaA then Ok false
    else
      do x <- simple_has_jordan self other true;
      if negb x then Ok false
      else if Qlt_bool 0 areaA then Ok true
      else simple_has_jordan (invert other) self true   (* both unbounded: the hole of self lies in the hole of other *)
  end.
(* SimpleShape._contains_shape(ConnectedShape): temporary inversion *)
Definition simple_has_connected (self : jordan) (subs : list jordan) : res bool :=
  let nself := invert self in
  existsM (fun sub => simple_has_simple (invert sub) nself) subs.
Definition simple_has_comp (self : jordan) (c : comp) : res bool :=
  match c with
  | CS o => simple_has_simple self o
  | CC subs => simple_has_connected self subs
  end.
Definition comp_has_comp (c o : comp) : res bool :=
  match c with
  | CS self => simple_has_comp self o
  | CC js => forallM (fun self => simple_has_comp self o) js
  end.
Definition comp_has_disjoint (c : comp) (os : list comp) : res bool :=
  match c with
  | CS self => forallM (fun o => simple_has_comp self o) os
  | CC js => forallM (fun self => forallM (fun o => simple_has_comp self o) os) js
  end.
(* A.contains_shape(B) *)
Definition contains_shape (a b : shape) : res bool :=
  match a, b with
  | SEmpty, SEmpty => Ok true
  | SEmpty, _ => Ok false                    (* EmptyShape.__contains__: self is other *)
  | SWhole, _ => Ok true
  | _, SEmpty => Ok true
  | _, SWhole => Ok false
  | SC c, SC o => comp_has_comp c o
  | SC c, SD os => comp_has_disjoint c os
  | SD cs, SC o => existsM (fun c => comp_has_comp c o) cs
  | SD cs, SD os => forallM (fun o => existsM (fun c => comp_has_comp c o) cs) os
  end.

(* ---------- ShapeFromJordans / DivideConnecteds ---------- *)
Definition argmax_abs (areas : list Q) : nat :=
  let fix go (i best : nat) (bv : Q) (l : list Q) : nat :=
    match l with
    | [] => best
    | a :: t => if Qlt_bool bv (Qabs' a) then go (S i) i (Qabs' a) t else go (S i) best bv t
    end in
  match areas with
  | [] => O
  | a :: t => go 1%nat O (Qabs' a) t
  end.
Definition area_ge (a b : jordan) : bool := Qle_bool (jordan_area b) (jordan_area a).
(* inner "while len(simples)": grow the group, pushing the others to externals *)
Fixpoint grow_group (fuel : nat) (connected simples externals : list jordan)
  : res (list jordan * list jordan) :=
  match fuel with
  | O => NoFuel
  | S f =>
      match simples with
      | [] => Ok (connected, externals)
      | _ =>
        let idx := argmax_abs (map jordan_area simples) in
        let connected' := connected ++ [nth idx simples []] in
        let rest := remove_nth idx simples in
        do split2 <-
          (fix part (l : list jordan) : res (list jordan * list jordan) :=
             match l with
             | [] => Ok ([], [])
             | s :: t =>
                 do ext <- existsM (fun c =>
                             do x <- simple_has_jordan c s true;
                             if negb x then Ok true
                             else do y <- simple_has_jordan s c true; Ok (negb y)) connected';
                 do r <- part t;
                 let '(ins, exts) := r in
                 if ext then Ok (ins, s :: exts) else Ok (s :: ins, exts)
             end) rest;
        let '(internal, exts) := split2 in
        grow_group f connected' internal (externals ++ exts)
      end
  end.
Fixpoint divide_connecteds (fuel : nat) (simples : list jordan) : res (list comp) :=
  match fuel with
  | O => NoFuel
  | S f =>
      match simples with
      | [] => Ok []
      | _ =>
        do r <- grow_group (S (length simples)) [] simples [];
        let '(connected, externals) := r in
        let c := match connected with
                 | [j] => CS j
                 | _ => CC (sort_by area_ge connected)
                 end in
        do rest <- divide_connecteds f externals;
        Ok (c :: rest)
      end
  end.
Definition comp_ge (a b : comp) : bool := Qle_bool (comp_area b) (comp_area a).
Definition disjoint_of (cs : list comp) : shape :=      (* DisjointShape.__new__ *)
  match cs with
  | [] => SEmpty
  | [c] => SC c
  | _ => SD (sort_by comp_ge cs)
  end.
Definition shape_from_jordans (js : list jordan) : res shape :=
  match js with
  | [] => Err EAssert
  | [j] => Ok (SC (CS j))
  | _ =>
      do cs <- divide_connecteds (S (length js)) js;
      match cs with
      | [c] => Ok (SC c)
      | _ => Ok (disjoint_of cs)
      end
  end.
Definition copy_shape (s : shape) : res shape :=
  match s with
  | SEmpty => Ok SEmpty
  | SWhole => Ok SWhole
  | _ => shape_from_jordans (jordans s)
  end.

(* ---------- complement ---------- *)
Definition op_not (s : shape) : res shape :=
  match s with
  | SEmpty => Ok SWhole
  | SWhole => Ok SEmpty
  | SC (CS j) => Ok (SC (CS (invert j)))
  | SC (CC js) => Ok (disjoint_of (map (fun j => CS (invert j)) js))
  | SD _ => shape_from_jordans (map invert (jordans s))
  end.

(* ---------- FollowPath ---------- *)
Definition nat_q_le (a b : nat * Q) : bool := pair_le a b.
Definition nq_eqb (a b : nat * Q) : bool := Nat.eqb (fst a) (fst b) && Qeq_bool (snd a) (snd b).
Definition split_two_jordans (ja jb : jordan) : res (jordan * jordan) :=
  match box_and (jordan_box ja) (jordan_box jb) with
  | None => Ok (ja, jb)
  | Some _ =>
      do inters <- jordan_and ja jb;
      let pa := concat (map (fun r : irow => let '(a, _, o) := r in
                   match o with Some (u, _) => [(a, u)] | None => [] end) inters) in
      let pb := concat (map (fun r : irow => let '(_, b, o) := r in
                   match o with Some (_, v) => [(b, v)] | None => [] end) inters) in
      let pa := sort_by nat_q_le (dedup nq_eqb pa) in
      let pb := sort_by nat_q_le (dedup nq_eqb pb) in
      do ja' <- split ja (map fst pa) (map snd pa);
      do jb' <- split jb (map fst pb) (map snd pb);
      Ok (ja', jb')
  end.
(* for jordana in A: for jordanb in B: split_two_jordans *)
Fixpoint split_one_against (ja : jordan) (jbs : list jordan) : res (jordan * list jordan) :=
  match jbs with
  | [] => Ok (ja, [])
  | jb :: t =>
      do r <- split_two_jordans ja jb;
      let '(ja', jb') := r in
      do r2 <- split_one_against ja' t;
      let '(ja'', t') := r2 in
      Ok (ja'', jb' :: t')
  end.
Fixpoint split_all (jas jbs : list jordan) : res (list jordan * list jordan) :=
  match jas with
  | [] => Ok ([], jbs)
  | ja :: t =>
      do r <- split_one_against ja jbs;
      let '(ja', jbs') := r in
      do r2 <- split_all t jbs';
      let '(t', jbs'') := r2 in
      Ok (ja' :: t', jbs'')
  end.

Definition midpoints_one_shape (a b : shape) (closed inside : bool) : list (nat * nat) :=
  concat (map (fun ij =>
            let '(i, j) := ij in
            concat (map (fun ks =>
                      let '(k, s) := ks in
                      let mid := evalr s Qhalf in
                      if Bool.eqb (contains_point b mid closed) inside then [(i, k)] else [])
                    (combine (seq 0 (length j)) j)))
         (combine (seq 0 (length (jordans a))) (jordans a))).
Definition midpoints_shapes (a b : shape) (closed inside : bool) : list (nat * nat) :=
  let na := length (jordans a) in
  midpoints_one_shape a b closed inside ++
  map (fun ik => ((na + fst ik)%nat, snd ik)) (midpoints_one_shape b a closed inside).

Definition nn_eqb (a b : nat * nat) : bool := Nat.eqb (fst a) (fst b) && Nat.eqb (snd a) (snd b).
Fixpoint pursue_path (fuel : nat) (ij is_ : nat) (js : list jordan) (matrix : list (nat * nat))
  : res (list (nat * nat)) :=
  match fuel with
  | O => NoFuel
  | S f =>
      let segs := nth ij js [] in
      match segs with
      | [] => Err EZeroDiv       (* index_segment %= 0 *)
      | _ =>
      let is' := Nat.modulo is_ (length segs) in
      if existsb (nn_eqb (ij, is')) matrix then Ok matrix
      else
        let matrix' := matrix ++ [(ij, is')] in
        let last_point := last_pt (nth is' segs []) in
        let possibles := filter (fun i => negb (Nat.eqb i ij) && jordan_has (nth i js []) last_point)
                                (seq 0 (length js)) in
        match possibles with
        | [] => pursue_path f ij (S is') js matrix'
        | ij' :: _ =>
            let segs' := nth ij' js [] in
            let is'' := match index_where (fun s => pt_eq (first_pt s) last_point) segs' with
                        | Some k => k
                        | None => is'
                        end in
            pursue_path f ij' is'' js matrix'
        end
      end
  end.
Definition is_rotation (one other : list (nat * nat)) : bool :=
  if negb (Nat.eqb (length one) (length other)) then false
  else match other with
  | [] => true
  | o0 :: _ =>
      match index_where (nn_eqb o0) one with
      | None => false
      | Some r => forallb (fun ab => nn_eqb (fst ab) (snd ab)) (combine other (rotl r one))
      end
  end.
Definition filter_rotations (m : list (list (nat * nat))) : list (list (nat * nat)) :=
  fold_left (fun filtered line =>
               if existsb (fun fl => is_rotation line fl) filtered then filtered
               else filtered ++ [line]) m [].
Definition indexs_to_jordan (js : list jordan) (idx : list (nat * nat)) : res jordan :=
  from_segments (map (fun ik => nth (snd ik) (nth (fst ik) js []) []) idx).
Definition total_segments (js : list jordan) : nat :=
  fold_right (fun j n => (length j + n)%nat) O js.
Definition follow_path (js : list jordan) (starts : list (nat * nat)) : res (list jordan) :=
  do paths <- mapM (fun st => pursue_path (S (total_segments js)) (fst st) (snd st) js []) starts;
  mapM (indexs_to_jordan js) (filter_rotations paths).

(* or_shapes / and_shapes: returns the (split) operands and the new curves *)
Definition recombine (a b : shape) (closed inside : bool) : res (shape * shape * list jordan) :=
  do r <- split_all (jordans a) (jordans b);
  let '(jas, jbs) := r in
  let a' := with_jordans a jas in
  let b' := with_jordans b jbs in
  let idx := midpoints_shapes a' b' closed inside in
  do new <- follow_path (jas ++ jbs) idx;
  Ok (a', b', new).

(* ---------- operators: (operand a after, operand b after, result) ---------- *)
Definition op3 := (shape * shape * shape)%type.
Definition op_or (a b : shape) : res op3 :=
  match a, b with
  | SEmpty, _ => do c <- copy_shape b; Ok (a, b, c)
  | SWhole, _ => Ok (a, b, SWhole)
  | _, SWhole => Ok (a, b, SWhole)
  | _, SEmpty => do c <- copy_shape a; Ok (a, b, c)
  | _, _ =>
      do x <- contains_shape a b;
      if x then (do c <- copy_shape a; Ok (a, b, c)) else
      do y <- contains_shape b a;
      if y then (do c <- copy_shape b; Ok (a, b, c)) else
      do r <- recombine a b true false;
      let '(a', b', new) := r in
      match new with
      | [] => Ok (a', b', SWhole)
      | _ => do s <- shape_from_jordans new; Ok (a', b', s)
      end
  end.
Definition op_and (a b : shape) : res op3 :=
  match a, b with
  | SEmpty, _ => Ok (a, b, SEmpty)
  | SWhole, _ => do c <- copy_shape b; Ok (a, b, c)
  | _, SWhole => do c <- copy_shape a; Ok (a, b, c)
  | _, SEmpty => Ok (a, b, SEmpty)
  | _, _ =>
      do x <- contains_shape a b;
      if x then (do c <- copy_shape b; Ok (a, b, c)) else
      do y <- contains_shape b a;
      if y then (do c <- copy_shape a; Ok (a, b, c)) else
      do r <- recombine a b false true;
      let '(a', b', new) := r in
      match new with
      | [] => Ok (a', b', SEmpty)
      | _ => do s <- shape_from_jordans new; Ok (a', b', s)
      end
  end.
(* a - b : returns (a after, result); b is never touched (its complement is a fresh object) *)
Definition op_sub (a b : shape) : res (shape * shape) :=
  match a with
  | SEmpty => Ok (a, SEmpty)
  | SWhole => do nb <- op_not b; Ok (a, nb)
  | _ =>
      do nb <- op_not b;
      do r <- op_and a nb;
      let '(a', _, s) := r in Ok (a', s)
  end.
Definition op_xor (a b : shape) : res op3 :=
  do r1 <- op_sub a b;
  let '(a1, d1) := r1 in
  do r2 <- op_sub b a1;
  let '(b1, d2) := r2 in
  do r3 <- op_or d1 d2;
  let '(_, _, s) := r3 in
  Ok (a1, b1, s).

(* ---------- __eq__ ---------- *)
Definition simple_eq (a b : jordan) : res bool :=
  if negb (Qeq_bool (jordan_area a) (jordan_area b)) then Ok false else jordan_eq a b.
(* ConnectedShape.__eq__ (repaired): for every sub-shape of self, find and remove an == one of other *)
Fixpoint find_simple (s : jordan) (k : nat) (l : list jordan) : res (option nat) :=
  match l with
  | [] => Ok None
  | o :: t => do e <- simple_eq o s; if e then Ok (Some k) else find_simple s (S k) t
  end.
Fixpoint match_simples (ss os : list jordan) : res bool :=
  match ss with
  | [] => Ok true
  | s :: t =>
      do r <- find_simple s O os;
      match r with
      | None => Ok false
      | Some k => match_simples t (remove_nth k os)
      end
  end.
Definition comp_eq (a b : comp) : res bool :=
  match a, b with
  | CS ja, CS jb => simple_eq ja jb
  | CC ja, CC jb =>
      if negb (Qle_bool (Qabs' (comp_area a - comp_area b)) tol6) then Ok false
      else if negb (Nat.eqb (length ja) (length jb)) then Ok false
      else match_simples ja jb
  | _, _ => Ok false
  end.
(* DisjointShape.__eq__: greedy matching *)
Fixpoint disjoint_match (fuel : nat) (ss os : list comp) : res bool :=
  match fuel with
  | O => NoFuel
  | S f =>
      match ss, os with
      | [], [] => Ok true
      | [], _ | _, [] => Ok false
      | s0 :: st, _ =>
          let fix find (k : nat) (l : list comp) : res (option nat) :=
            match l with
            | [] => Ok None
            | o :: t => do e <- comp_eq o s0; if e then Ok (Some k) else find (S k) t
            end in
          do r <- find O os;
          match r with
          | None => Ok false
          | Some k => disjoint_match f st (remove_nth k os)
          end
      end
  end.
Definition shape_eq (a b : shape) : res bool :=
  match a, b with
  | SEmpty, SEmpty | SWhole, SWhole => Ok true
  | SC ca, SC cb => comp_eq ca cb
  | SD ca, SD cb =>
      if negb (Qeq_bool (shape_area a) (shape_area b)) then Ok false
      else disjoint_match (S (length ca)) ca cb
  | _, _ => Ok false
  end.

(* ---------- transformations (value level) ---------- *)
Definition map_points (f : point -> point) (s : shape) : shape :=
  with_jordans s (map (map (map f)) (jordans s)).
Definition move_pt (v p : point) : point := pred_ (padd p v).
Definition scale_pt (sx sy : Q) (p : point) : point := pred_ (sx * px p, sy * py p).
Definition rot_pt (c s : Q) (p : point) : point := pred_ (c * px p - s * py p, s * px p + c * py p).

(* ---------- IntegrateShape.polynomial ---------- *)
Definition moment (s : shape) (a b : nat) : Q :=
  Qred (Qsum (map (fun j => jordan_vertical j (S a) b) (jordans s)) / nQ (S a)).
