(* Wire.v -- decoding of requests and encoding of answers (integers and lists
   only), and the dispatcher run : sx -> sx that the extracted driver and the
   vm_compute cross-check both call. *)
From SV Require Export Model.Num Model.Expr Model.Heap Model.Plot Model.Prim.
From SV Require Import Lemmas.Measure Lemmas.UnionSound Lemmas.DiffSound Lemmas.Convex Lemmas.SubsetConvex.
Open Scope Q_scope.

Fixpoint sx_eqb (x y : sx) : bool :=
  match x, y with
  | A a, A b => Z.eqb a b
  | L l, L m =>
      (fix go (l m : list sx) : bool :=
         match l, m with
         | [], [] => true
         | a :: l', b :: m' => sx_eqb a b && go l' m'
         | _, _ => false
         end) l m
  | _, _ => false
  end.

(* ---------- decoders ---------- *)
Definition d_Z (x : sx) : option Z := match x with A z => Some z | _ => None end.
Definition d_nat (x : sx) : option nat := option_map Z.to_nat (d_Z x).
Definition d_bool (x : sx) : option bool := option_map (fun z => negb (Z.eqb z 0)) (d_Z x).
Definition d_Q (x : sx) : option Q :=
  match x with
  | L [A n; A (Zpos d)] => Some (Qred (n # d))
  | _ => None
  end.
Fixpoint d_list {T} (f : sx -> option T) (l : list sx) : option (list T) :=
  match l with
  | [] => Some []
  | x :: t => match f x, d_list f t with
              | Some a, Some b => Some (a :: b)
              | _, _ => None
              end
  end.
Definition d_listx {T} (f : sx -> option T) (x : sx) : option (list T) :=
  match x with L l => d_list f l | _ => None end.
Definition d_point (x : sx) : option point :=
  match x with
  | L [a; b] => match d_Q a, d_Q b with Some p, Some q => Some (p, q) | _, _ => None end
  | _ => None
  end.
Definition d_seg := d_listx d_point.
Definition d_jordan := d_listx d_seg.
Definition d_comp (x : sx) : option comp :=
  match x with
  | L [A 2%Z; j] => option_map CS (d_jordan j)
  | L [A 3%Z; js] => option_map CC (d_listx d_jordan js)
  | _ => None
  end.
Definition d_shape (x : sx) : option shape :=
  match x with
  | L [A 0%Z] => Some SEmpty
  | L [A 1%Z] => Some SWhole
  | L [A 4%Z; cs] => option_map SD (d_listx d_comp cs)
  | _ => option_map SC (d_comp x)
  end.
Fixpoint d_expr (fuel : nat) (x : sx) : option expr :=
  match fuel with
  | O => None
  | S f =>
      match x with
      | L [A 0%Z; A n] => Some (EVar (Z.to_nat n))
      | L [A k; a; b] =>
          match d_expr f a, d_expr f b with
          | Some ea, Some eb =>
              if (k =? 1)%Z then Some (EOr ea eb) else if (k =? 2)%Z then Some (EAnd ea eb)
              else if (k =? 3)%Z then Some (ESub ea eb) else if (k =? 4)%Z then Some (EXor ea eb)
              else if (k =? 6)%Z then Some (EAdd ea eb) else if (k =? 7)%Z then Some (EMul ea eb)
              else None
          | _, _ => None
          end
      | L [A k; a] =>
          match d_expr f a with
          | Some ea => if (k =? 5)%Z then Some (ENot ea) else if (k =? 8)%Z then Some (ENeg ea) else None
          | None => None
          end
      | _ => None
      end
  end.

(* ---------- encoders ---------- *)
Definition e_nat (n : nat) : sx := A (Z.of_nat n).
Definition e_bool (b : bool) : sx := A (if b then 1 else 0)%Z.
Definition e_Q (q : Q) : sx := let r := Qred q in L [A (Qnum r); A (Zpos (Qden r))].
Definition e_point (p : point) : sx := L [e_Q (px p); e_Q (py p)].
Definition e_list {T} (f : T -> sx) (l : list T) : sx := L (map f l).
Definition e_seg := e_list e_point.
Definition e_jordan := e_list e_seg.
Definition e_comp (c : comp) : sx :=
  match c with
  | CS j => L [A 2%Z; e_jordan j]
  | CC js => L [A 3%Z; e_list e_jordan js]
  end.
Definition e_shape (s : shape) : sx :=
  match s with
  | SEmpty => L [A 0%Z]
  | SWhole => L [A 1%Z]
  | SC c => e_comp c
  | SD cs => L [A 4%Z; e_list e_comp cs]
  end.
Definition e_kind (k : ekind) : sx :=
  A match k with
    | EAssert => 1 | EValue => 2 | EType => 3 | EIndex => 4 | EZeroDiv => 5 | EOther => 6
    end%Z.
Definition e_res {T} (f : T -> sx) (r : res T) : sx :=
  match r with
  | Ok a => L [A 0%Z; f a]
  | Err k => L [A 1%Z; e_kind k]
  | NoFuel => L [A 2%Z]
  end.
Definition e_box (b : box) : sx := L [e_Q (bxmin b); e_Q (bymin b); e_Q (bxmax b); e_Q (bymax b)].
Definition e_inter (i : inter) : sx :=
  match i with
  | INone => L [A 0%Z]
  | IEqual => L [A 1%Z]
  | IPairs l => L [A 2%Z; e_list (fun uv => L [e_Q (fst uv); e_Q (snd uv)]) l]
  end.
Definition e_irow (r : irow) : sx :=
  let '(a, b, o) := r in
  match o with
  | None => L [e_nat a; e_nat b]
  | Some (u, v) => L [e_nat a; e_nat b; e_Q u; e_Q v]
  end.
Definition bad : sx := L [A 9%Z].

Fixpoint iter_derivate (k : nat) (s : seg) : seg :=
  match k with O => s | S n => iter_derivate n (derivate s) end.

(* ---------- heap histories ---------- *)
Definition d_bop (x : sx) : option bop :=
  match x with
  | A 1%Z => Some BOr | A 2%Z => Some BAnd | A 3%Z => Some BSub | A 4%Z => Some BXor | _ => None
  end.
Definition d_hop (x : sx) : option hop :=
  match x with
  | L [A 0%Z; s] => option_map ONew (d_shape s)
  | L [A 1%Z; v] => option_map OCopy (d_nat v)
  | L [A 2%Z; v] => option_map ONot (d_nat v)
  | L [A 3%Z; o; v; w] =>
      match d_bop o, d_nat v, d_nat w with Some o, Some v, Some w => Some (OBin o v w) | _, _, _ => None end
  | L [A 4%Z; v; p] =>
      match d_nat v, d_point p with Some v, Some p => Some (OMove v p) | _, _ => None end
  | L [A 5%Z; v; p] =>
      match d_nat v, d_point p with Some v, Some p => Some (OScale v (px p) (py p)) | _, _ => None end
  | L [A 6%Z; v; p] =>
      match d_nat v, d_point p with Some v, Some p => Some (ORotate v (px p) (py p)) | _, _ => None end
  | L [A 7%Z; v; p; b] =>
      match d_nat v, d_point p, d_bool b with Some v, Some p, Some b => Some (OContains v p b) | _, _, _ => None end
  | L [A 8%Z; v] => option_map OFloat (d_nat v)
  | _ => None
  end.
Definition e_hcomp (c : hcomp) : sx :=
  match c with HCS c => L [A 2%Z; e_nat c] | HCC cs => L [A 3%Z; e_list e_nat cs] end.
Definition e_hshape (s : hshape) : sx :=
  match s with
  | HEmpty => L [A 0%Z]
  | HWhole => L [A 1%Z]
  | HC c => e_hcomp c
  | HD cs => L [A 4%Z; e_list e_hcomp cs]
  end.
Definition e_hcurve (c : hcurve) : sx :=
  L [e_list (e_list e_nat) (hsegs c);
     match hcache c with None => L [] | Some g => L [e_jordan g] end].
Definition e_hstate (st : hstate) : sx :=
  L [e_list e_point (hpts (fst st)); e_list e_hcurve (hcurves (fst st)); e_list e_hshape (snd st);
     e_bool (heap_wf (fst st))].

(* ---------- primitives, plotting ---------- *)
Definition d_pyarg (x : sx) : option pyarg :=
  match x with
  | L [A 0%Z; q] => option_map PNum (d_Q q)
  | L [A 1%Z; q] => option_map PNumStr (d_Q q)
  | L [A 2%Z] => Some PStr
  | L [A 3%Z] => Some PNone
  | L [A 4%Z; b] => option_map PBool (d_bool b)
  | L [A 5%Z] => Some PList
  | _ => None
  end.
Definition e_path (p : path) : sx :=
  e_list (fun vc : point * pcode => L [e_point (fst vc); A (code_num (snd vc))]) p.
Definition e_patch (p : patch) : sx :=
  match p with
  | Fill q => L [A 1%Z; e_path q]
  | Hole q => L [A 2%Z; e_path q]
  | Outline pos q => L [A 3%Z; e_bool pos; e_path q]
  | Background => L [A 4%Z]
  end.

(* ---------- dispatcher ---------- *)
Definition run (req : sx) : sx :=
  match req with
  | L (A op :: args) =>
      let opn := Z.to_nat op in
      match opn, args with
      | 1%nat, [s; t] =>
          match d_seg s, d_Q t with Some s, Some t => e_point (eval s t) | _, _ => bad end
      | 2%nat, [s; k] =>
          match d_seg s, d_nat k with Some s, Some k => e_seg (iter_derivate k s) | _, _ => bad end
      | 3%nat, [s; ts] =>
          match d_seg s, d_listx d_Q ts with
          | Some s, Some ts => e_list e_seg (split_many ts s) | _, _ => bad end
      | 4%nat, [s] => match d_seg s with Some s => e_box (seg_box s) | _ => bad end
      | 5%nat, [s; p] =>
          match d_seg s, d_point p with Some s, Some p => e_bool (on_seg s p) | _, _ => bad end
      | 6%nat, [s; p] =>
          match d_seg s, d_point p with Some s, Some p => A (seg_wn s p) | _, _ => bad end
      | 7%nat, [s; t] =>
          match d_seg s, d_Q t with Some s, Some t => e_point (bernstein s t) | _, _ => bad end
      | 8%nat, [s; ex; ey] =>
          match d_seg s, d_nat ex, d_nat ey with
          | Some s, Some ex, Some ey => e_Q (vertical s ex ey) | _, _, _ => bad end
      | 9%nat, [sa; sb] =>
          match d_seg sa, d_seg sb with
          | Some sa, Some sb => e_res e_inter (seg_and sa sb) | _, _ => bad end
      | 10%nat, [vs] =>
          match d_seg vs with Some vs => e_res e_jordan (from_vertices vs) | _ => bad end
      | 11%nat, [cs] =>
          match d_jordan cs with Some cs => e_res e_jordan (from_ctrlpoints cs) | _ => bad end
      | 12%nat, [j; idx; nodes] =>
          match d_jordan j, d_listx d_nat idx, d_listx d_Q nodes with
          | Some j, Some idx, Some nodes => e_res e_jordan (split j idx nodes) | _, _, _ => bad end
      | 13%nat, [j] => match d_jordan j with Some j => e_res e_jordan (clean j) | _ => bad end
      | 14%nat, [ja; jb; eb; ep] =>
          match d_jordan ja, d_jordan jb, d_bool eb, d_bool ep with
          | Some ja, Some jb, Some eb, Some ep => e_res (e_list e_irow) (intersection ja jb eb ep)
          | _, _, _, _ => bad end
      | 15%nat, [ja; jb] =>
          match d_jordan ja, d_jordan jb with
          | Some ja, Some jb => e_res e_bool (jordan_eq ja jb) | _, _ => bad end
      | 16%nat, [j] => match d_jordan j with Some j => e_Q (jordan_area j) | _ => bad end
      | 17%nat, [j; p] =>
          match d_jordan j, d_point p with Some j, Some p => A (jordan_wn2 j p) | _, _ => bad end
      | 18%nat, [j] => match d_jordan j with Some j => e_seg (vertices j) | _ => bad end
      | 19%nat, [j] => match d_jordan j with Some j => e_jordan (invert j) | _ => bad end
      | 20%nat, [j] => match d_jordan j with Some j => e_box (jordan_box j) | _ => bad end
      | 21%nat, [j; p] =>
          match d_jordan j, d_point p with Some j, Some p => e_bool (jordan_has j p) | _, _ => bad end
      | 22%nat, [j; n] =>
          match d_jordan j, d_nat n with Some j, Some n => e_seg (points j n) | _, _ => bad end
      | 23%nat, [j; ex; ey] =>
          match d_jordan j, d_nat ex, d_nat ey with
          | Some j, Some ex, Some ey => e_Q (jordan_vertical j ex ey) | _, _, _ => bad end
      | 30%nat, [s; p; b] =>
          match d_shape s, d_point p, d_bool b with
          | Some s, Some p, Some b => e_bool (contains_point s p b) | _, _, _ => bad end
      | 31%nat, [s; j; b] =>
          match d_shape s, d_jordan j, d_bool b with
          | Some s, Some j, Some b => e_res e_bool (contains_jordan s j b) | _, _, _ => bad end
      | 32%nat, [a; b] =>
          match d_shape a, d_shape b with
          | Some a, Some b => e_res e_bool (contains_shape a b) | _, _ => bad end
      | 33%nat, [s] => match d_shape s with Some s => e_Q (shape_area s) | _ => bad end
      | 34%nat, [s; a; b] =>
          match d_shape s, d_nat a, d_nat b with
          | Some s, Some a, Some b => e_Q (moment s a b) | _, _, _ => bad end
      | 35%nat, [s] => match d_shape s with Some s => e_res e_shape (op_not s) | _ => bad end
      | 36%nat, [env; e] =>
          match d_listx d_shape env, d_expr 64 e with
          | Some env, Some e =>
              e_res (fun r : list shape * shape => L [e_list e_shape (fst r); e_shape (snd r)])
                    (eval_expr env e)
          | _, _ => bad end
      | 37%nat, [a; b] =>
          match d_shape a, d_shape b with
          | Some a, Some b => e_res e_bool (shape_eq a b) | _, _ => bad end
      | 38%nat, [s] => match d_shape s with Some s => e_res e_shape (copy_shape s) | _ => bad end
      | 39%nat, [js] =>
          match d_listx d_jordan js with
          | Some js => e_res e_shape (shape_from_jordans js) | _ => bad end
      | 40%nat, [q] =>
          match d_Q q with
          | Some q => match norm_coord q with Some r => L [A 0%Z; e_Q r] | None => L [A 2%Z] end
          | None => bad end
      | 50%nat, [ops] =>
          match d_listx d_hop ops with
          | Some ops => e_res e_hstate (run_history (hempty, []) ops)
          | None => bad end
      | 51%nat, [ops; v; p; b] =>
          match d_listx d_hop ops, d_nat v, d_point p, d_bool b with
          | Some ops, Some v, Some p, Some b =>
              e_res (fun st : hstate => e_bool (snd (h_contains_point (fst st) (var st v) p b)))
                    (run_history (hempty, []) ops)
          | _, _, _, _ => bad end
      | 52%nat, [ops; v] =>
          match d_listx d_hop ops, d_nat v with
          | Some ops, Some v =>
              e_res (fun st : hstate =>
                       e_list (fun c => let g := snd (h_float (fst st) c) in L [e_bool (jordan_pos g); e_jordan g])
                              (hcurves_of (var st v)))
                    (run_history (hempty, []) ops)
          | _, _ => bad end
      | 42%nat, [a; b] =>
          match d_shape a, d_shape b with
          | Some a, Some b => e_bool (general_branch_faithful_b a b) | _, _ => bad end
      | 47%nat, [ja; jb; closed; inside; p] =>
          (* the decidable hypotheses of Props/C01.v C01_union_sound / C01_intersection_sound *)
          match d_jordan ja, d_jordan jb, d_bool closed, d_bool inside, d_point p with
          | Some ja, Some jb, Some c, Some i, Some p => e_bool (sound_hyps_b ja jb c i p)
          | _, _, _, _, _ => bad end
      | 48%nat, [ja; jb; p] =>
          (* the decidable hypotheses of Props/C01.v C01_difference_sound *)
          match d_jordan ja, d_jordan jb, d_point p with
          | Some ja, Some jb, Some p => e_bool (diff_hyps_b ja jb p)
          | _, _, _ => bad end
      | 49%nat, [va; vb; p] =>
          (* Props/C01.v C01_*_sound_convex on two vertex lists: the decidable convexity predicate, the
             decidable hypotheses of the three theorems at p, and the curves poly_of va / poly_of vb the
             theorems speak about (the harness compares them with what it gave the implementation) *)
          match d_listx d_point va, d_listx d_point vb, d_point p with
          | Some va, Some vb, Some p =>
              let ja := poly_of va in let jb := poly_of vb in
              L [e_bool (convex_ccw_b va); e_bool (convex_ccw_b vb);
                 e_bool (sound_hyps_b ja jb true false p); e_bool (sound_hyps_b ja jb false true p);
                 e_bool (diff_hyps_b ja jb p); e_jordan ja; e_jordan jb]
          | _, _, _ => bad end
      | 50%nat, [va; vb] =>
          (* Props/C03.v C03_convex_in_iff on two vertex lists: convexity, the two decidable hypotheses, the
             model's answer, and the curves the theorem speaks about *)
          match d_listx d_point va, d_listx d_point vb with
          | Some va, Some vb =>
              let ja := poly_of va in let jb := poly_of vb in
              L [e_bool (convex_ccw_b va); e_bool (convex_ccw_b vb); e_bool (tol_tested_b ja jb);
                 e_bool (negb (Qlt_bool (jordan_area ja) (jordan_area jb)));
                 e_res e_bool (simple_has_simple ja jb); e_jordan ja; e_jordan jb]
          | _, _ => bad end
      | 43%nat, [k; a; c] =>
          match d_nat k, d_pyarg a, d_point c with
          | Some k, Some a, Some c =>
              e_res e_shape (match k with
                             | O => prim_square a c
                             | S O => prim_triangle a c
                             | _ => prim_regular4 a c end)
          | _, _, _ => bad end
      | 44%nat, [n; r; h; c] =>
          match d_nat n, d_Q r, d_Q h, d_point c with
          | Some n, Some r, Some h, Some c => e_res e_shape (prim_circle n r h c) | _, _, _, _ => bad end
      | 45%nat, [s] => match d_shape s with Some s => e_list e_patch (plot_shape s) | None => bad end
      | 46%nat, [j] =>
          match d_jordan j with
          | Some j => match decode (path_jordan j) with
                      | Some js => L [A 0%Z; e_list e_jordan js] | None => L [A 1%Z] end
          | None => bad end
      | 41%nat, [x; y; z] =>
          match d_Z x, d_Z y, d_Z z with
          | Some n, Some m, Some d =>
              match limit_den n m d with Some (a, b) => L [A 0%Z; A a; A b] | None => L [A 2%Z] end
          | _, _, _ => bad end
      | _, _ => bad
      end
  | _ => bad
  end.
