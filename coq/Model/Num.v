(* Num.v -- Fraction.limit_denominator as CPython implements it (3.12 closing
   test and the 3.11 closing test), and Point2D's coordinate normalisation. *)
From SV Require Export Model.Base.
Open Scope Z_scope.

(* the continued-fraction loop; state (p0,q0,p1,q1,n,d) *)
Fixpoint ld_loop (fuel : nat) (N p0 q0 p1 q1 n d : Z) : option (Z * Z * Z * Z * Z * Z) :=
  match fuel with
  | O => None
  | S f =>
      let a := n / d in
      let q2 := q0 + a * q1 in
      if N <? q2 then Some (p0, q0, p1, q1, n, d)
      else ld_loop f N p1 q1 (p0 + a * p1) q2 d (n - a * d)
  end.

Definition ld_fuel (d : Z) : nat := S (S (2 * Z.to_nat (Z.log2 d)))%nat.

(* limit_denominator(N) of num/den (den > 0, lowest terms, N >= 1); Python 3.12 *)
Definition limit_den (N num den : Z) : option (Z * Z) :=
  if den <=? N then Some (num, den)
  else
    match ld_loop (ld_fuel den) N 0 1 1 0 num den with
    | None => None
    | Some (p0, q0, p1, q1, n, d) =>
        let k := (N - q0) / q1 in
        if 2 * d * (q0 + k * q1) <=? den then Some (p1, q1)
        else Some (p0 + k * p1, q0 + k * q1)
    end.

(* the closing test of Python <= 3.11: the bound closer to the input, ties to bound2 *)
Definition limit_den311 (N num den : Z) : option (Z * Z) :=
  if den <=? N then Some (num, den)
  else
    match ld_loop (ld_fuel den) N 0 1 1 0 num den with
    | None => None
    | Some (p0, q0, p1, q1, n, d) =>
        let k := (N - q0) / q1 in
        let b1n := p0 + k * p1 in let b1d := q0 + k * q1 in
        (* |p1/q1 - num/den| <= |b1n/b1d - num/den| *)
        if Z.abs (p1 * den - num * q1) * b1d <=? Z.abs (b1n * den - num * b1d) * q1
        then Some (p1, q1) else Some (b1n, b1d)
    end.

Definition cap9 : Z := 1000000000.
(* Point2D.__init__ on an int/Fraction coordinate *)
Definition norm_coord (q : Q) : option Q :=
  let r := Qred q in
  match limit_den cap9 (Qnum r) (Zpos (Qden r)) with
  | Some (n, Zpos d) => Some (Qred (n # d))
  | _ => None
  end.
