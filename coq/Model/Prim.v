(* Prim.v -- primitive.py: Primitive.square / triangle / regular_polygon /
   polygon / circle.  Definitions only; lemmas live in Lemmas/Prim.v.

   The float trigonometry of the code is replaced by exact rational data:
   a rotation is a rational point (c, s) of the unit circle; for the circle
   the half-angle tangent h = tan(angle/2) is the parameter and the rotation
   by `angle` is c = (1-h^2)/(1+h^2), s = 2h/(1+h^2). *)
From SV Require Export Model.Shape.
Open Scope Q_scope.

(* ---------- the argument-validation block ---------- *)
(* the Python values a caller may pass where a size (side / radius) is expected *)
Inductive pyarg :=
| PNum (q : Q)        (* int / float / Fraction *)
| PNumStr (q : Q)     (* a str such as "3": float() accepts it, "3" > 0 raises TypeError *)
| PStr                (* any other str: float() raises ValueError *)
| PNone               (* float(None) raises TypeError *)
| PBool (b : bool)    (* bool is an int: float(True) = 1.0, True > 0 *)
| PList.              (* float([]) raises TypeError *)

(* try: float(x); assert x > 0  except (ValueError, TypeError, AssertionError): raise ValueError
   Some q: accepted, q the value used afterwards *)
Definition valid_size (a : pyarg) : option Q :=
  match a with
  | PNum q => if Qlt_bool 0 q then Some q else None
  | PBool true => Some 1
  | _ => None
  end.

(* ---------- polygon ---------- *)
(* SimpleShape(JordanCurve.from_vertices(vertices)) *)
Definition prim_polygon (vs : list point) : res shape :=
  do j <- from_vertices vs; Ok (SC (CS j)).

(* [center + Point2D(vertex) for vertex in vertices] *)
Definition at_center (center : point) (vs : list point) : list point :=
  map (move_pt center) vs.

(* ---------- square ---------- *)
Definition square_vertices (side : Q) (center : point) : list point :=
  let s := side / 2 in
  at_center center [(s, s); (- s, s); (- s, - s); (s, - s)].
Definition prim_square (side : pyarg) (center : point) : res shape :=
  match valid_size side with
  | None => Err EValue
  | Some q => prim_polygon (square_vertices q center)
  end.

(* ---------- triangle ---------- *)
Definition triangle_vertices (side : Q) (center : point) : list point :=
  at_center center [(0, 0); (side, 0); (0, side)].
Definition prim_triangle (side : pyarg) (center : point) : res shape :=
  match valid_size side with
  | None => Err EValue
  | Some q => prim_polygon (triangle_vertices q center)
  end.

(* ---------- regular_polygon ---------- *)
(* nsides == 4: the exact branch *)
Definition regular4_vertices (r : Q) (center : point) : list point :=
  at_center center [(r, 0); (0, r); (- r, 0); (0, - r)].
Definition prim_regular4 (radius : pyarg) (center : point) : res shape :=
  match valid_size radius with
  | None => Err EValue
  | Some q => prim_polygon (regular4_vertices q center)
  end.

(* k-fold rotation by the unit-circle point (c, s) *)
Fixpoint rot_pt_n (c s : Q) (k : nat) (p : point) : point :=
  match k with
  | O => p
  | S k' => rot_pt c s (rot_pt_n c s k' p)
  end.

(* the general branch: vertex k = R^k (r, 0) + center *)
Definition regular_vertices (n : nat) (r c s : Q) (center : point) : list point :=
  at_center center (map (fun k => rot_pt_n c s k (r, 0)) (seq 0 n)).
Definition prim_regular (n : nat) (r c s : Q) (center : point) : res shape :=
  if (n <? 3)%nat || Qle_bool r 0 then Err EValue
  else prim_polygon (regular_vertices n r c s center).

(* ---------- circle ---------- *)
Definition circ_c (h : Q) : Q := (1 - h * h) / (1 + h * h).
Definition circ_s (h : Q) : Q := (2 * h) / (1 + h * h).

(* the first arc, with its end point written in closed form *)
Definition circle_arc (r h : Q) : seg :=
  [(r, 0); (r, r * h); (r * circ_c h, r * circ_s h)].
Definition rot_seg (c s : Q) (sg : seg) : seg := map (rot_pt c s) sg.

(* the loop of the code: n arcs from (start, middle); the end point of an arc
   is the rotated start point and IS the start point of the next arc; the
   last arc ends at `first` *)
Fixpoint circle_loop (c s : Q) (n : nat) (start middle first : point) : list seg :=
  match n with
  | O => []
  | S O => [[start; middle; first]]
  | S m =>
      let e := rot_pt c s start in
      [start; middle; e] :: circle_loop c s m e (rot_pt c s middle) first
  end.
Definition circle_segs (n : nat) (r h : Q) : list seg :=
  circle_loop (circ_c h) (circ_s h) n (r, 0) (r, r * h) (r, 0).

Definition prim_circle (n : nat) (r h : Q) (center : point) : res shape :=
  if (n <? 4)%nat || Qle_bool r 0 then Err EValue
  else
    do j <- from_segments (circle_segs n r h);
    Ok (SC (CS (map (map (move_pt center)) j))).
