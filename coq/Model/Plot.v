(* Plot.v -- plot.py: the translation of shapes into matplotlib paths and
   patches (patch_segment, path_shape, path_jordan, ShapePloter.plot_shape), and
   the SPEC side: a decoder that reads a matplotlib (vertex, code) list back
   into closed curves made of Bezier segments, following matplotlib's documented
   path-code semantics.  Definitions only; lemmas live in Lemmas/Plot.v. *)
From Coq Require Import List Bool ZArith QArith.
From SV Require Export Model.Shape.
Import ListNotations.
Open Scope Q_scope.

(* ---------- matplotlib.path.Path codes ---------- *)
Inductive pcode := MOVETO | LINETO | CURVE3 | CURVE4 | CLOSEPOLY.
Definition code_num (c : pcode) : Z :=
  match c with
  | MOVETO => 1 | LINETO => 2 | CURVE3 => 3 | CURVE4 => 4 | CLOSEPOLY => 79
  end%Z.
Definition pcode_eqb (a b : pcode) : bool := Z.eqb (code_num a) (code_num b).

(* Path(vertices, commands): the two parallel lists, zipped *)
Definition path := list (point * pcode).
Definition path_vertices (p : path) : list point := map fst p.
Definition path_codes (p : path) : list Z := map (fun vc => code_num (snd vc)) p.

(* ---------- patch_segment ---------- *)
(* degree 1: ctrlpoints[1] with LINETO; degree 2: ctrlpoints[1:] with CURVE3 x 2;
   degree 3: ctrlpoints[1:] with CURVE4 x 3; any other degree: nothing. *)
Definition patch_segment (s : seg) : path :=
  match degree s with
  | 1%nat => [(nth 1 s pzero, LINETO)]
  | 2%nat => map (fun v => (v, CURVE3)) (tl s)
  | 3%nat => map (fun v => (v, CURVE4)) (tl s)
  | _ => []
  end.

(* the code before the repair: no cubic branch (counterfactual, see Lemmas/Plot.v) *)
Definition patch_segment_old (s : seg) : path :=
  match degree s with
  | 1%nat => [(nth 1 s pzero, LINETO)]
  | 2%nat => map (fun v => (v, CURVE3)) (tl s)
  | _ => []
  end.

(* ---------- path_shape / path_jordan ---------- *)
Section PathGen.
  Variable ps : seg -> path.       (* patch_segment, or its unrepaired version *)

  (* one turn of the loop "for jordan in connected.jordans" on the accumulated
     (vertices, commands).  [vertices[0]] is the first vertex of the WHOLE list,
     i.e. of the first curve, also when a later curve is being closed.
     (jordan.segments[0] of a curve without segments raises IndexError in
     Python; curves are never empty, the model reads pzero there.) *)
  Definition path_add_jordan (acc : path) (j : jordan) : path :=
    let acc1 := acc ++ [(first_pt (hd [] j), MOVETO)] in
    let acc2 := fold_left (fun a s => a ++ ps s) j acc1 in
    acc2 ++ [(fst (hd (pzero, MOVETO) acc2), CLOSEPOLY)].

  Definition path_of_jordans (js : list jordan) : path :=
    fold_left path_add_jordan js [].
End PathGen.

(* path_jordan (without the rounding of the vertices to 1e-6) *)
Definition path_jordan (j : jordan) : path := path_of_jordans patch_segment [j].
(* path_shape on one component (SimpleShape or ConnectedShape) *)
Definition path_comp (c : comp) : path := path_of_jordans patch_segment (comp_jordans c).

Definition path_jordan_old (j : jordan) : path := path_of_jordans patch_segment_old [j].
Definition path_comp_old (c : comp) : path := path_of_jordans patch_segment_old (comp_jordans c).

(* ---------- plot_shape ---------- *)
Inductive patch :=
| Fill (p : path)                        (* PathPatch in the fill colour *)
| Hole (p : path)                        (* white PathPatch over a coloured background *)
| Outline (positive : bool) (p : path)   (* unfilled PathPatch, colour by orientation *)
| Background.                            (* axes.set_facecolor(fill colour) *)

(* one turn of "for connected in connecteds" *)
Definition plot_comp (c : comp) : list patch :=
  (if Qlt_bool 0 (comp_area c)                         (* float(connected) > 0 *)
   then [Fill (path_comp c)]
   else [Background; Hole (path_comp c)])
  ++ map (fun j => Outline (jordan_pos j) (path_jordan j)) (comp_jordans c).

Definition plot_shape (s : shape) : list patch :=
  match s with
  | SEmpty => []
  | SWhole => [Background]
  | SC c => plot_comp c
  | SD cs => concat (map plot_comp cs)
  end.

(* ---------- SPEC: reading a path back (matplotlib path-code semantics) ---------- *)
(* State: the finished curves, and the open subpath, if any:
   (its start, the current point, the segments drawn so far).
     MOVETO v       starts a subpath at v (an unfinished subpath before it: None)
     LINETO v       the straight segment [cur; v]
     CURVE3 v1, v2  two consecutive entries with code CURVE3: [cur; v1; v2]
     CURVE4 v1..v3  three consecutive entries with code CURVE4: [cur; v1; v2; v3]
     CLOSEPOLY _    its vertex is ignored; unless the current point is the start,
                    the straight closing segment [cur; start]; the curve is pushed.
   Everything else (drawing without a subpath, incomplete CURVE3/CURVE4 groups,
   a path ending inside a subpath) is malformed: None. *)
Definition substate := option (point * point * list seg).

Fixpoint decode_go (done : list jordan) (st : substate) (p : path) : option (list jordan) :=
  match p with
  | [] => match st with None => Some done | Some _ => None end
  | (v, c) :: r =>
      match c with
      | MOVETO =>
          match st with
          | None => decode_go done (Some (v, v, [])) r
          | Some _ => None
          end
      | LINETO =>
          match st with
          | Some (s0, cur, segs) => decode_go done (Some (s0, v, segs ++ [[cur; v]])) r
          | None => None
          end
      | CURVE3 =>
          match st, r with
          | Some (s0, cur, segs), (v2, CURVE3) :: r2 =>
              decode_go done (Some (s0, v2, segs ++ [[cur; v; v2]])) r2
          | _, _ => None
          end
      | CURVE4 =>
          match st, r with
          | Some (s0, cur, segs), (v2, CURVE4) :: (v3, CURVE4) :: r3 =>
              decode_go done (Some (s0, v3, segs ++ [[cur; v; v2; v3]])) r3
          | _, _ => None
          end
      | CLOSEPOLY =>
          match st with
          | Some (s0, cur, segs) =>
              decode_go (done ++ [if peqb cur s0 then segs else segs ++ [[cur; s0]]]) None r
          | None => None
          end
      end
  end.

Definition decode (p : path) : option (list jordan) := decode_go [] None p.

(* the patches of a picture, by kind *)
Definition region_paths (l : list patch) : list path :=
  concat (map (fun x => match x with Fill p | Hole p => [p] | _ => [] end) l).
Definition outline_patches (l : list patch) : list (bool * path) :=
  concat (map (fun x => match x with Outline b p => [(b, p)] | _ => [] end) l).
Definition n_regions (l : list patch) : nat := length (region_paths l).
Definition n_outlines (l : list patch) : nat := length (outline_patches l).
