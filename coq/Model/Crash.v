(* Crash.v -- crash semantics (property C11).  The writes a non-mutating operation performs on
   the heap, as DATA: a list of atomic write steps.  An exception (invalid operand, internal
   assertion, numerical failure, KeyboardInterrupt) surfaces at a call boundary, i.e. after
   some PREFIX of that list.  Also: argument validation of the in-place transformations
   move / scale / rotate, their point writes as data, and the unrepaired scale.
   Definitions only (executable); the theorems are in Lemmas/CrashFacts.v. *)
From SV Require Export Model.Heap.
Open Scope Q_scope.

(* ---------- (a) atomic write steps ---------- *)
(* the only writes of a non-mutating operation: one assignment `self.segments = ...` of a
   complete segment tuple (WSplit), filling the cached signed length (WFill), and the
   allocation of fresh objects (WAlloc: complement, copy, result) *)
Inductive wstep :=
| WSplit (c i : nat) (pieces : list seg)
| WFill (c : nat)
| WAlloc (s : shape).
Definition apply_w (w : wstep) (h : heap) : heap :=
  match w with
  | WSplit c i pieces => h_split_segment h c i pieces
  | WFill c => h_fill h c
  | WAlloc s => fst (alloc_shape h s)
  end.
Definition run_w (ws : list wstep) (h : heap) : heap := fold_left (fun h' w => apply_w w h') ws h.
(* the heap when the exception surfaces after k writes *)
Definition prefix_w (k : nat) (ws : list wstep) (h : heap) : heap := run_w (firstn k ws) h.

(* ---------- (b) the write trace of jordan.split on curve c ---------- *)
(* split_steps of Heap.v, as data: one write per segment that has nodes, same index shift *)
Fixpoint split_trace_from (c : nat) (i shift : nat) (groups : list (list seg)) : list wstep :=
  match groups with
  | [] => []
  | g :: t =>
      match g with
      | [] | [_] => split_trace_from c (S i) shift t
      | _ => WSplit c (i + shift) g :: split_trace_from c (S i) (shift + (length g - 1)) t
      end
  end.
Definition split_trace (c : nat) (groups : list (list seg)) : list wstep :=
  split_trace_from c 0 0 groups.

(* ---------- (c) the write trace of an operator ---------- *)
(* the split parameters FollowPath.split_two_jordans computes for curves ca, cb: None when the
   boxes are disjoint (nothing is split) *)
Definition two_params (h : heap) (ca cb : nat) : res (option (list (nat * Q) * list (nat * Q))) :=
  let ja := geom h ca in let jb := geom h cb in
  match box_and (jordan_box ja) (jordan_box jb) with
  | None => Ok None
  | Some _ =>
      do inters <- jordan_and ja jb;
      let pa := concat (map (fun r : irow => let '(a, _, o) := r in
                   match o with Some (u, _) => [(a, u)] | None => [] end) inters) in
      let pb := concat (map (fun r : irow => let '(_, b, o) := r in
                   match o with Some (_, v) => [(b, v)] | None => [] end) inters) in
      Ok (Some (sort_by nat_q_le (dedup nq_eqb pa), sort_by nat_q_le (dedup nq_eqb pb)))
  end.
Definition split_two_trace (h : heap) (ca cb : nat) : res (list wstep) :=
  do o <- two_params h ca cb;
  match o with
  | None => Ok []
  | Some (pa, pb) =>
      do ga <- split_groups (geom h ca) (map fst pa) (map snd pa);
      do gb <- split_groups (geom h cb) (map fst pb) (map snd pb);
      Ok (split_trace ca ga ++ split_trace cb gb)
  end.
(* for jordana in A: for jordanb in B -- computed by running, later pairs see the split curves *)
Fixpoint pairs_trace (h : heap) (pairs : list (nat * nat)) : res (list wstep) :=
  match pairs with
  | [] => Ok []
  | (ca, cb) :: t =>
      do st <- split_two_trace h ca cb;
      do rest <- pairs_trace (run_w st h) t;
      Ok (st ++ rest)
  end.
(* one half `a & ~b` of - and ^ : the complement ~b is allocated fresh, the curves cx of a are
   split against it (unless a short-cut answers).  `fa` reads the first operand of the inner &
   in the heap after the allocation. *)
Definition half_trace (h : heap) (cx : list nat) (fa : heap -> shape) (b : shape) : res (list wstep) :=
  do nb <- op_not b;
  let '(h', nbx) := alloc_shape h nb in
  do s2 <- shortcut BAnd (fa h') nb;
  do t1 <- (if s2 then Ok [] else pairs_trace h' (all_pairs cx (hcurves_of nbx)));
  Ok (WAlloc nb :: t1).
(* the writes of h_binop before the cache fills and the allocation of the result *)
Definition binop_mid_trace (o : bop) (h : heap) (x y : hshape) : res (list wstep) :=
  let a := denot h x in let b := denot h y in
  match o with
  | BOr | BAnd => pairs_trace h (all_pairs (hcurves_of x) (hcurves_of y))
  | BSub => half_trace h (hcurves_of x) (fun _ => a) b
  | BXor =>
      do t1 <- half_trace h (hcurves_of x) (fun _ => a) b;
      let h'' := run_w t1 h in
      do t2 <- half_trace h'' (hcurves_of y) (fun h3 => denot h3 y) (denot h'' x);
      Ok (t1 ++ t2)
  end.
Definition binop_trace (o : bop) (h : heap) (x y : hshape) : res (list wstep) :=
  let a := denot h x in let b := denot h y in
  do r <- mv_op o a b;
  do sc <- shortcut o a b;
  do w1 <- (if sc then Ok [] else binop_mid_trace o h x y);
  Ok (w1 ++ map WFill (hcurves_of x ++ hcurves_of y) ++ [WAlloc r]).

(* ---------- (c') partial traces: the writes performed UNTIL an internal error ---------- *)
(* total functions; the flag says whether the stage completed.  When the operation fails in the
   middle (jordan_and raises, split asserts, ...), these are the writes that were done. *)
Definition split_two_ptrace (h : heap) (ca cb : nat) : list wstep * bool :=
  match two_params h ca cb with
  | Ok None => ([], true)
  | Ok (Some (pa, pb)) =>
      match split_groups (geom h ca) (map fst pa) (map snd pa) with
      | Ok ga =>
          (* jordana.split(...) has been executed when jordanb.split(...) raises *)
          match split_groups (geom h cb) (map fst pb) (map snd pb) with
          | Ok gb => (split_trace ca ga ++ split_trace cb gb, true)
          | _ => (split_trace ca ga, false)
          end
      | _ => ([], false)
      end
  | _ => ([], false)
  end.
Fixpoint pairs_ptrace (h : heap) (pairs : list (nat * nat)) : list wstep * bool :=
  match pairs with
  | [] => ([], true)
  | (ca, cb) :: t =>
      let '(st, ok) := split_two_ptrace h ca cb in
      if ok then let '(rest, ok') := pairs_ptrace (run_w st h) t in (st ++ rest, ok')
      else (st, false)
  end.
Definition opt_ptrace (skip : bool) (h : heap) (pairs : list (nat * nat)) : list wstep * bool :=
  if skip then ([], true) else pairs_ptrace h pairs.
Definition half_ptrace (h : heap) (cx : list nat) (fa : heap -> shape) (b : shape) : list wstep * bool :=
  match op_not b with
  | Ok nb =>
      let '(h', nbx) := alloc_shape h nb in
      match shortcut BAnd (fa h') nb with
      | Ok s2 =>
          let '(t1, ok) := opt_ptrace s2 h' (all_pairs cx (hcurves_of nbx)) in (WAlloc nb :: t1, ok)
      | _ => ([WAlloc nb], false)
      end
  | _ => ([], false)
  end.
Definition binop_mid_ptrace (o : bop) (h : heap) (x y : hshape) : list wstep * bool :=
  let a := denot h x in let b := denot h y in
  match o with
  | BOr | BAnd => pairs_ptrace h (all_pairs (hcurves_of x) (hcurves_of y))
  | BSub => half_ptrace h (hcurves_of x) (fun _ => a) b
  | BXor =>
      let '(t1, ok) := half_ptrace h (hcurves_of x) (fun _ => a) b in
      if ok then
        let h'' := run_w t1 h in
        let '(t2, ok2) := half_ptrace h'' (hcurves_of y) (fun h3 => denot h3 y) (denot h'' x) in
        (t1 ++ t2, ok2)
      else (t1, false)
  end.
(* the value computation (mv_op, shortcut) writes nothing; if the splitting stage fails, the
   fills and the result allocation are not reached *)
Definition binop_ptrace (o : bop) (h : heap) (x y : hshape) : list wstep * bool :=
  let a := denot h x in let b := denot h y in
  match mv_op o a b with
  | Ok r =>
      match shortcut o a b with
      | Ok sc =>
          let '(w1, ok) := if sc then ([], true) else binop_mid_ptrace o h x y in
          if ok then (w1 ++ map WFill (hcurves_of x ++ hcurves_of y) ++ [WAlloc r], true)
          else (w1, false)
      | _ => ([], false)
      end
  | _ => ([], false)
  end.

(* the other non-mutating operations: one allocation (copy, ~), cache fills (contains, float) *)
Definition not_trace (h : heap) (x : hshape) : res (list wstep) :=
  do r <- op_not (denot h x); Ok [WAlloc r].
Definition copy_trace (h : heap) (x : hshape) : res (list wstep) :=
  do r <- copy_shape (denot h x); Ok [WAlloc r].
Definition contains_trace (x : hshape) : list wstep := map WFill (hcurves_of x).

Definition wkind (w : wstep) : nat := match w with WSplit _ _ _ => 0 | WFill _ => 1 | WAlloc _ => 2 end.
Definition count_kinds (ws : list wstep) : nat * nat * nat :=
  (length (filter (fun w => Nat.eqb (wkind w) 0) ws),
   length (filter (fun w => Nat.eqb (wkind w) 1) ws),
   length (filter (fun w => Nat.eqb (wkind w) 2) ws)).

(* ---------- (d) argument validation of the in-place transformations ---------- *)
Inductive pyarg :=
| PNum (q : Q)          (* int, Fraction, float *)
| PNumStr (q : Q)       (* a str that float() parses: "3" *)
| PStr                  (* any other str *)
| PNone
| PBool (b : bool)
| PList.
(* Point2D(x, y) / np.cos(angle): numbers and bools are accepted, everything else raises *)
Definition num_of (a : pyarg) : res Q :=
  match a with
  | PNum q => Ok q
  | PBool b => Ok (if b then 1 else 0)
  | PNumStr _ | PStr | PNone | PList => Err EType
  end.
(* scale / rotate call float() first: a non-numeric str raises ValueError there; a numeric str
   passes float() and is rejected (TypeError) by Point2D.scale / np.cos before any assignment *)
Definition num_of_float (a : pyarg) : res Q :=
  match a with PStr => Err EValue | _ => num_of a end.

(* repaired code: both arguments are validated FIRST, then the transformation runs *)
Definition t_move (a b : pyarg) (h : heap) (x : hshape) : res heap :=
  do qa <- num_of a; do qb <- num_of b; Ok (h_move (qa, qb) h x).
Definition t_scale (a b : pyarg) (h : heap) (x : hshape) : res heap :=
  do qa <- num_of_float a; do qb <- num_of_float b; Ok (h_scale qa qb h x).
Definition t_rotate (c s : pyarg) (h : heap) (x : hshape) : res heap :=
  do qc <- num_of_float c; do qs <- num_of_float s; Ok (h_rotate qc qs h x).

(* the writes of a transformation, as data: one per distinct point object, and the cache reset
   of the setter (scale, rotate) *)
Inductive tstepw :=
| TPt (l : ploc) (p : point)
| TReset (c : nat).
Definition apply_t (w : tstepw) (h : heap) : heap :=
  match w with
  | TPt l p => set_pt h l p
  | TReset c => reset_cache h c
  end.
Definition run_t (ws : list tstepw) (h : heap) : heap := fold_left (fun h' w => apply_t w h') ws h.
Fixpoint pts_steps (f : point -> point) (ls : list ploc) (h : heap) : list tstepw :=
  match ls with
  | [] => []
  | l :: t => let w := TPt l (f (pval h l)) in w :: pts_steps f t (apply_t w h)
  end.
Definition curve_steps (f : point -> point) (reset : bool) (h : heap) (c : nat) : list tstepw :=
  pts_steps f (curve_vertices h c) h ++ (if reset then [TReset c] else []).
Fixpoint shape_steps (f : point -> point) (reset : bool) (cs : list nat) (h : heap) : list tstepw :=
  match cs with
  | [] => []
  | c :: t => let st := curve_steps f reset h c in st ++ shape_steps f reset t (run_t st h)
  end.
Definition t_move_steps (a b : pyarg) (h : heap) (x : hshape) : list tstepw :=
  match num_of a, num_of b with
  | Ok qa, Ok qb => shape_steps (move_pt (qa, qb)) false (hcurves_of x) h
  | _, _ => []
  end.
Definition t_scale_steps (a b : pyarg) (h : heap) (x : hshape) : list tstepw :=
  match num_of_float a, num_of_float b with
  | Ok qa, Ok qb => shape_steps (scale_pt qa qb) true (hcurves_of x) h
  | _, _ => []
  end.
Definition t_rotate_steps (c s : pyarg) (h : heap) (x : hshape) : list tstepw :=
  match num_of_float c, num_of_float s with
  | Ok qc, Ok qs => shape_steps (rot_pt qc qs) true (hcurves_of x) h
  | _, _ => []
  end.

(* ---------- the UNREPAIRED scale (refutation witness) ---------- *)
(* validation by float() only, which ACCEPTS a numeric str; then, vertex by vertex,
   `self.x *= xscale` and `self.y *= yscale`: the product with a str raises TypeError AFTER the
   coordinates before it were written *)
Inductive cwrite := CX (l : ploc) (v : Q) | CY (l : ploc) (v : Q).
Definition apply_c (w : cwrite) (h : heap) : heap :=
  match w with
  | CX l v => set_pt h l (v, py (pval h l))
  | CY l v => set_pt h l (px (pval h l), v)
  end.
Definition run_c (ws : list cwrite) (h : heap) : heap := fold_left (fun h' w => apply_c w h') ws h.
Definition float_accepts (a : pyarg) : res unit :=
  match a with
  | PNum _ | PNumStr _ | PBool _ => Ok tt
  | PStr => Err EValue
  | PNone | PList => Err EType
  end.
Definition mul_arg (a : pyarg) (v : Q) : res Q :=
  match a with
  | PNum q => Ok (Qred (q * v))
  | PBool b => Ok (Qred ((if b then 1 else 0) * v))
  | _ => Err EType
  end.
Fixpoint unrepaired_pts (a b : pyarg) (ls : list ploc) (h : heap) : list cwrite * res heap :=
  match ls with
  | [] => ([], Ok h)
  | l :: t =>
      match mul_arg a (px (pval h l)) with
      | Ok nx =>
          let h1 := apply_c (CX l nx) h in
          match mul_arg b (py (pval h1 l)) with
          | Ok ny =>
              let h2 := apply_c (CY l ny) h1 in
              let '(ws, r) := unrepaired_pts a b t h2 in (CX l nx :: CY l ny :: ws, r)
          | Err k => ([CX l nx], Err k)
          | NoFuel => ([CX l nx], NoFuel)
          end
      | Err k => ([], Err k)
      | NoFuel => ([], NoFuel)
      end
  end.
Fixpoint unrepaired_curves (a b : pyarg) (cs : list nat) (h : heap) : list cwrite * res heap :=
  match cs with
  | [] => ([], Ok h)
  | c :: t =>
      let '(ws, r) := unrepaired_pts a b (curve_vertices h c) h in
      match r with
      | Ok h1 => let '(ws', r') := unrepaired_curves a b t h1 in (ws ++ ws', r')
      | _ => (ws, r)
      end
  end.
(* the coordinate writes performed, and the outcome *)
Definition t_scale_unrepaired (a b : pyarg) (h : heap) (x : hshape) : list cwrite * res heap :=
  match float_accepts a, float_accepts b with
  | Ok _, Ok _ => unrepaired_curves a b (hcurves_of x) h
  | Err k, _ => ([], Err k)
  | _, Err k => ([], Err k)
  | _, _ => ([], NoFuel)
  end.
