(* Base.v -- common definitions of the value model MV: error monad, rational
   helpers, points, tolerances, and the wire type used by the driver.
   Definitions only; lemmas live under Lemmas/. *)
From Coq Require Export QArith ZArith List Bool Qreduction Qabs Qround.
Export ListNotations.
Open Scope Q_scope.

(* ---------- outcomes: "raises" is a first-class value ---------- *)
Inductive ekind := EAssert | EValue | EType | EIndex | EZeroDiv | EOther.
Inductive res (A : Type) : Type :=
| Ok (a : A) | Err (k : ekind) | NoFuel.
Arguments Ok {A} a.
Arguments Err {A} k.
Arguments NoFuel {A}.

Definition bind {A B} (r : res A) (f : A -> res B) : res B :=
  match r with Ok a => f a | Err k => Err k | NoFuel => NoFuel end.
Notation "'do' x <- e ; f" := (bind e (fun x => f))
  (at level 200, x pattern, e at level 100, f at level 200, right associativity).
Definition assert_ (b : bool) : res unit := if b then Ok tt else Err EAssert.

Fixpoint mapM {A B} (f : A -> res B) (l : list A) : res (list B) :=
  match l with
  | [] => Ok []
  | x :: xs => do y <- f x; do ys <- mapM f xs; Ok (y :: ys)
  end.

Fixpoint forallM {A} (f : A -> res bool) (l : list A) : res bool :=
  match l with
  | [] => Ok true
  | x :: xs => do b <- f x; if b then forallM f xs else Ok false
  end.

Fixpoint existsM {A} (f : A -> res bool) (l : list A) : res bool :=
  match l with
  | [] => Ok false
  | x :: xs => do b <- f x; if b then Ok true else existsM f xs
  end.

(* ---------- rationals ---------- *)
Definition Qlt_bool (a b : Q) : bool := negb (Qle_bool b a).
Definition Qmin' (a b : Q) : Q := if Qle_bool a b then a else b.
Definition Qmax' (a b : Q) : Q := if Qle_bool a b then b else a.
Definition Qabs' (a : Q) : Q := if Qle_bool 0 a then a else - a.
Definition Qhalf : Q := 1 # 2.
Definition Qclamp01 (a : Q) : Q := Qmin' 1 (Qmax' a 0).
Definition Qsgn (a : Q) : Z := Z.sgn (Qnum a).
Definition nQ (n : nat) : Q := inject_Z (Z.of_nat n).

(* The float literals of the code, as the exact rationals Python compares
   against (Fraction(1e-6), Fraction(1e-9)). *)
Definition tol6 : Q := 4722366482869645 # 4722366482869645213696.
Definition tol9 : Q := 4835703278458517 # 4835703278458516698824704.

(* ---------- points ---------- *)
Definition point := (Q * Q)%type.
Definition px (p : point) : Q := fst p.
Definition py (p : point) : Q := snd p.
Definition padd (p q : point) : point := (px p + px q, py p + py q).
Definition psub (p q : point) : point := (px p - px q, py p - py q).
Definition pscale (k : Q) (p : point) : point := (k * px p, k * py p).
Definition inner (p q : point) : Q := px p * px q + py p * py q.
Definition cross (p q : point) : Q := px p * py q - py p * px q.
Definition norm2 (p : point) : Q := inner p p.
Definition pzero : point := (0, 0).
Definition pred_ (p : point) : point := (Qred (px p), Qred (py p)).
Definition peq (p q : point) : Prop := px p == px q /\ py p == py q.
Definition peqb (p q : point) : bool := Qeq_bool (px p) (px q) && Qeq_bool (py p) (py q).
Definition psum (l : list point) : point := fold_right padd pzero l.

(* Point2D.__eq__ : unequal iff |dx| > 1e-9 or |dy| > 1e-9 *)
Definition pt_eq (p q : point) : bool :=
  negb (Qlt_bool tol9 (Qabs' (px p - px q))) && negb (Qlt_bool tol9 (Qabs' (py p - py q))).

Definition seg := list point.      (* control points; degree = length - 1 *)
Definition jordan := list seg.

(* ---------- list helpers ---------- *)
Fixpoint map2 {A B C} (f : A -> B -> C) (l : list A) (m : list B) : list C :=
  match l, m with
  | a :: l', b :: m' => f a b :: map2 f l' m'
  | _, _ => []
  end.
Fixpoint pairs_of {A} (l : list A) : list (A * A) :=   (* consecutive pairs *)
  match l with
  | a :: ((b :: _) as t) => (a, b) :: pairs_of t
  | _ => []
  end.
Definition last_pt (s : seg) : point := last s pzero.
Definition first_pt (s : seg) : point := hd pzero s.
Fixpoint set_nth {A} (n : nat) (x : A) (l : list A) : list A :=
  match n, l with
  | O, _ :: t => x :: t
  | S n', h :: t => h :: set_nth n' x t
  | _, [] => []
  end.
Definition set_last {A} (x : A) (l : list A) : list A := removelast l ++ [x].
Definition set_first {A} (x : A) (l : list A) : list A :=
  match l with [] => [] | _ :: t => x :: t end.
Definition rotl {A} (k : nat) (l : list A) : list A := skipn k l ++ firstn k l.
Fixpoint Qsum (l : list Q) : Q := match l with [] => 0 | x :: t => x + Qsum t end.
Fixpoint Zsum (l : list Z) : Z := match l with [] => 0%Z | x :: t => (x + Zsum t)%Z end.
Fixpoint index_where {A} (f : A -> bool) (l : list A) : option nat :=
  match l with
  | [] => None
  | x :: t => if f x then Some O else option_map S (index_where f t)
  end.
Fixpoint insert_sorted {A} (le : A -> A -> bool) (x : A) (l : list A) : list A :=
  match l with
  | [] => [x]
  | y :: t => if le x y then x :: l else y :: insert_sorted le x t
  end.
(* stable insertion sort: equal keys keep their input order *)
Definition sort_by {A} (le : A -> A -> bool) (l : list A) : list A :=
  fold_right (insert_sorted le) [] l.
Fixpoint dedup {A} (eqb : A -> A -> bool) (l : list A) : list A :=
  match l with
  | [] => []
  | x :: t => if existsb (eqb x) t then dedup eqb t else x :: dedup eqb t
  end.

(* ---------- wire type: integers and lists, nothing else ---------- *)
Inductive sx := A (z : Z) | L (l : list sx).
