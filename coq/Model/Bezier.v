(* Bezier.v -- curve.py: Math.comb / bezier_caract_matrix / horner_method,
   BezierCurve.eval, derivate, split (de Casteljau, the textbook meaning of
   pynurbs' knot-insertion split), box, closed/open linspace. *)
From SV Require Export Model.Base.
Open Scope Q_scope.

(* Math.comb: product of the i top factors, then floor-divide by 2..i *)
Definition comb (n i : nat) : Z :=
  let prod := fold_left Z.mul (map Z.of_nat (seq (n - i + 1) i)) 1%Z in
  fold_left Z.div (map Z.of_nat (seq 2 (i - 1))) prod.

(* [M]_{ij}, coefficient of x^{d-j} in B_{i,d} *)
Definition caract (d i j : nat) : Z :=
  if (j <=? d - i)%nat then
    let v := (comb d i * comb (d - i) j)%Z in
    if Nat.odd (d + i + j) then (- v)%Z else v
  else 0%Z.

Definition degree (s : seg) : nat := (length s - 1)%nat.

(* np.dot(ctrlpoints, matrix): column j = sum_i P_i * M[i][j] *)
Definition canon (s : seg) : list point :=
  let d := degree s in
  map (fun j => psum (map2 (fun i P => pscale (inject_Z (caract d i j)) P) (seq 0 (S d)) s))
      (seq 0 (S d)).

(* Math.horner_method: coefs = [a_n ... a_0] *)
Definition horner (t : Q) (cs : list point) : point :=
  fold_left (fun v c => padd (pscale t v) c) cs pzero.

Definition eval (s : seg) (t : Q) : point := horner t (canon s).
Definition evalr (s : seg) (t : Q) : point := pred_ (eval s t).

(* Derivate.non_rational_bezier_once: Q_i = d (P_{i+1} - P_i); degree 0 -> one zero point *)
Definition derivate (s : seg) : seg :=
  match s with
  | [] => []
  | [_] => [pzero]
  | _ => map (fun ab => pscale (nQ (degree s)) (psub (snd ab) (fst ab))) (pairs_of s)
  end.

(* de Casteljau *)
Definition lerp (t : Q) (a b : point) : point :=
  padd (pscale (1 - t) a) (pscale t b).
Definition casteljau_step (t : Q) (s : seg) : seg :=
  map (fun ab => lerp t (fst ab) (snd ab)) (pairs_of s).
Fixpoint casteljau_levels (fuel : nat) (t : Q) (s : seg) : list seg :=
  match fuel with
  | O => []
  | S f => s :: match s with
                | _ :: _ :: _ => casteljau_levels f t (casteljau_step t s)
                | _ => []
                end
  end.
Definition split_at (t : Q) (s : seg) : seg * seg :=
  let lv := casteljau_levels (length s) t s in
  (map first_pt lv, rev (map last_pt lv)).

(* split at increasing parameters t1 < t2 < ... of the ORIGINAL segment *)
Fixpoint split_many_from (t0 : Q) (ts : list Q) (s : seg) : list seg :=
  match ts with
  | [] => [s]
  | t :: ts' =>
      let '(l, r) := split_at ((t - t0) / (1 - t0)) s in
      l :: split_many_from t ts' r
  end.
Definition split_many (ts : list Q) (s : seg) : list seg :=
  map (map pred_) (split_many_from 0 ts s).

(* PlanarCurve.box : (xmin, ymin, xmax, ymax) *)
Definition box := (Q * Q * Q * Q)%type.
Definition qmin_list (d : Q) (l : list Q) : Q :=
  match l with [] => d | x :: t => fold_left Qmin' t x end.
Definition qmax_list (d : Q) (l : list Q) : Q :=
  match l with [] => d | x :: t => fold_left Qmax' t x end.
Definition seg_box (s : seg) : box :=
  (qmin_list 0 (map px s), qmin_list 0 (map py s),
   qmax_list 0 (map px s), qmax_list 0 (map py s)).
Definition bxmin (b : box) := fst (fst (fst b)).
Definition bymin (b : box) := snd (fst (fst b)).
Definition bxmax (b : box) := snd (fst b).
Definition bymax (b : box) := snd b.
(* Box.__contains__ : margin 1e-6 *)
Definition box_contains (b : box) (p : point) : bool :=
  negb (Qlt_bool (px p) (bxmin b - tol6)) && negb (Qlt_bool (py p) (bymin b - tol6)) &&
  negb (Qlt_bool (bxmax b + tol6) (px p)) && negb (Qlt_bool (bymax b + tol6) (py p)).
(* Box.__or__ / __and__ (no margin) *)
Definition box_or (a b : box) : box :=
  (Qmin' (bxmin a) (bxmin b), Qmin' (bymin a) (bymin b),
   Qmax' (bxmax a) (bxmax b), Qmax' (bymax a) (bymax b)).
Definition box_and (a b : box) : option box :=
  let xmin := Qmax' (bxmin a) (bxmin b) in
  let xmax := Qmin' (bxmax a) (bxmax b) in
  if Qlt_bool xmax xmin then None else
  let ymin := Qmax' (bymin a) (bymin b) in
  let ymax := Qmin' (bymax a) (bymax b) in
  if Qlt_bool ymax ymin then None else Some (xmin, ymin, xmax, ymax).

(* Math.closed_linspace(n) = k/(n-1), k=0..n-1 ; open_linspace(n) = (2k+1)/(2n) *)
Definition closed_linspace (n : nat) : list Q :=
  map (fun k => Qred (nQ k / nQ (n - 1))) (seq 0 n).
Definition open_linspace (n : nat) : list Q :=
  map (fun k => Qred (nQ (2 * k + 1) / nQ (2 * n))) (seq 0 n).

(* Bernstein sum of the docs: the specification of eval *)
Fixpoint Qpow (x : Q) (n : nat) : Q := match n with O => 1 | S k => x * Qpow x k end.
Definition binom (n k : nat) : Z := Z.of_nat (Nat.div (fact n) (fact k * fact (n - k))).
Definition bernstein (s : seg) (t : Q) : point :=
  let d := degree s in
  psum (map2 (fun i P => pscale (inject_Z (binom d i) * Qpow (1 - t) (d - i) * Qpow t i) P)
             (seq 0 (S d)) s).
