(* Extraction of the executable model.  ExtrOcamlBasic only; Z, positive, N,
   nat and Q stay the extracted inductives.  No directives of our own. *)
Require Extraction.
Require Import ExtrOcamlBasic.
From SV Require Import Model.Wire.
Extraction Language OCaml.
Extraction "mv.ml" run.
