
val negb : bool -> bool

type nat =
| O
| S of nat

val option_map : ('a1 -> 'a2) -> 'a1 option -> 'a2 option

val fst : ('a1 * 'a2) -> 'a1

val snd : ('a1 * 'a2) -> 'a2

val length : 'a1 list -> nat

val app : 'a1 list -> 'a1 list -> 'a1 list

type comparison =
| Eq
| Lt
| Gt

val compOpp : comparison -> comparison

val add : nat -> nat -> nat

val mul : nat -> nat -> nat

val sub : nat -> nat -> nat

type positive =
| XI of positive
| XO of positive
| XH

type z =
| Z0
| Zpos of positive
| Zneg of positive

val eqb : bool -> bool -> bool

module Nat :
 sig
  val sub : nat -> nat -> nat

  val eqb : nat -> nat -> bool

  val leb : nat -> nat -> bool

  val ltb : nat -> nat -> bool

  val even : nat -> bool

  val odd : nat -> bool

  val divmod : nat -> nat -> nat -> nat -> nat * nat

  val div : nat -> nat -> nat

  val modulo : nat -> nat -> nat
 end

module Pos :
 sig
  type mask =
  | IsNul
  | IsPos of positive
  | IsNeg
 end

module Coq_Pos :
 sig
  val succ : positive -> positive

  val add : positive -> positive -> positive

  val add_carry : positive -> positive -> positive

  val pred_double : positive -> positive

  type mask = Pos.mask =
  | IsNul
  | IsPos of positive
  | IsNeg

  val succ_double_mask : mask -> mask

  val double_mask : mask -> mask

  val double_pred_mask : positive -> mask

  val sub_mask : positive -> positive -> mask

  val sub_mask_carry : positive -> positive -> mask

  val sub : positive -> positive -> positive

  val mul : positive -> positive -> positive

  val size_nat : positive -> nat

  val compare_cont : comparison -> positive -> positive -> comparison

  val compare : positive -> positive -> comparison

  val eqb : positive -> positive -> bool

  val ggcdn : nat -> positive -> positive -> positive * (positive * positive)

  val ggcd : positive -> positive -> positive * (positive * positive)

  val iter_op : ('a1 -> 'a1 -> 'a1) -> positive -> 'a1 -> 'a1

  val to_nat : positive -> nat

  val of_succ_nat : nat -> positive
 end

module Z :
 sig
  val double : z -> z

  val succ_double : z -> z

  val pred_double : z -> z

  val pos_sub : positive -> positive -> z

  val add : z -> z -> z

  val opp : z -> z

  val sub : z -> z -> z

  val mul : z -> z -> z

  val compare : z -> z -> comparison

  val sgn : z -> z

  val leb : z -> z -> bool

  val ltb : z -> z -> bool

  val eqb : z -> z -> bool

  val abs : z -> z

  val to_nat : z -> nat

  val of_nat : nat -> z

  val to_pos : z -> positive

  val pos_div_eucl : positive -> z -> z * z

  val div_eucl : z -> z -> z * z

  val div : z -> z -> z

  val ggcd : z -> z -> z * (z * z)
 end

val fact : nat -> nat

val zeq_bool : z -> z -> bool

val hd : 'a1 -> 'a1 list -> 'a1

val tl : 'a1 list -> 'a1 list

val nth : nat -> 'a1 list -> 'a1 -> 'a1

val nth_error : 'a1 list -> nat -> 'a1 option

val last : 'a1 list -> 'a1 -> 'a1

val removelast : 'a1 list -> 'a1 list

val rev : 'a1 list -> 'a1 list

val concat : 'a1 list list -> 'a1 list

val map : ('a1 -> 'a2) -> 'a1 list -> 'a2 list

val fold_left : ('a1 -> 'a2 -> 'a1) -> 'a2 list -> 'a1 -> 'a1

val fold_right : ('a2 -> 'a1 -> 'a1) -> 'a1 -> 'a2 list -> 'a1

val existsb : ('a1 -> bool) -> 'a1 list -> bool

val forallb : ('a1 -> bool) -> 'a1 list -> bool

val filter : ('a1 -> bool) -> 'a1 list -> 'a1 list

val combine : 'a1 list -> 'a2 list -> ('a1 * 'a2) list

val firstn : nat -> 'a1 list -> 'a1 list

val skipn : nat -> 'a1 list -> 'a1 list

val seq : nat -> nat -> nat list

type q = { qnum : z; qden : positive }

val inject_Z : z -> q

val qeq_bool : q -> q -> bool

val qle_bool : q -> q -> bool

val qplus : q -> q -> q

val qmult : q -> q -> q

val qopp : q -> q

val qminus : q -> q -> q

val qinv : q -> q

val qdiv : q -> q -> q

val qred : q -> q

val qfloor : q -> z

type ekind =
| EAssert
| EValue
| EType
| EIndex
| EZeroDiv
| EOther

type 'a res =
| Ok of 'a
| Err of ekind
| NoFuel

val bind : 'a1 res -> ('a1 -> 'a2 res) -> 'a2 res

val assert_ : bool -> unit res

val mapM : ('a1 -> 'a2 res) -> 'a1 list -> 'a2 list res

val forallM : ('a1 -> bool res) -> 'a1 list -> bool res

val existsM : ('a1 -> bool res) -> 'a1 list -> bool res

val qlt_bool : q -> q -> bool

val qmin' : q -> q -> q

val qmax' : q -> q -> q

val qabs' : q -> q

val qhalf : q

val qclamp01 : q -> q

val nQ : nat -> q

val tol6 : q

val tol9 : q

type point = q * q

val px : point -> q

val py : point -> q

val padd : point -> point -> point

val psub : point -> point -> point

val pscale : q -> point -> point

val inner : point -> point -> q

val cross : point -> point -> q

val norm2 : point -> q

val pzero : point

val pred_ : point -> point

val peqb : point -> point -> bool

val psum : point list -> point

val pt_eq : point -> point -> bool

type seg = point list

type jordan = seg list

val map2 : ('a1 -> 'a2 -> 'a3) -> 'a1 list -> 'a2 list -> 'a3 list

val pairs_of : 'a1 list -> ('a1 * 'a1) list

val last_pt : seg -> point

val first_pt : seg -> point

val set_nth : nat -> 'a1 -> 'a1 list -> 'a1 list

val set_last : 'a1 -> 'a1 list -> 'a1 list

val set_first : 'a1 -> 'a1 list -> 'a1 list

val rotl : nat -> 'a1 list -> 'a1 list

val qsum : q list -> q

val zsum : z list -> z

val index_where : ('a1 -> bool) -> 'a1 list -> nat option

val insert_sorted : ('a1 -> 'a1 -> bool) -> 'a1 -> 'a1 list -> 'a1 list

val sort_by : ('a1 -> 'a1 -> bool) -> 'a1 list -> 'a1 list

val dedup : ('a1 -> 'a1 -> bool) -> 'a1 list -> 'a1 list

type sx =
| A of z
| L of sx list

val comb : nat -> nat -> z

val caract : nat -> nat -> nat -> z

val degree : seg -> nat

val canon : seg -> point list

val horner : q -> point list -> point

val eval : seg -> q -> point

val evalr : seg -> q -> point

val derivate : seg -> seg

val lerp : q -> point -> point -> point

val casteljau_step : q -> seg -> seg

val casteljau_levels : nat -> q -> seg -> seg list

val split_at : q -> seg -> seg * seg

val split_many_from : q -> q list -> seg -> seg list

val split_many : q list -> seg -> seg list

type box = ((q * q) * q) * q

val qmin_list : q -> q list -> q

val qmax_list : q -> q list -> q

val seg_box : seg -> box

val bxmin : box -> q

val bymin : box -> q

val bxmax : box -> q

val bymax : box -> q

val box_contains : box -> point -> bool

val box_or : box -> box -> box

val box_and : box -> box -> box option

val closed_linspace : nat -> q list

val open_linspace : nat -> q list

val qpow : q -> nat -> q

val binom : nat -> nat -> z

val bernstein : seg -> q -> point

type poly = q list

val poly_add : poly -> poly -> poly

val poly_scale : q -> poly -> poly

val poly_mul : poly -> poly -> poly

val pint01_from : nat -> poly -> q

val pint01 : poly -> q

val lagrange_basis : q list -> nat -> poly

val nc_weights : nat -> q list

val nc_table : q list list

val nc_w : nat -> q list

val seg_eq : seg -> seg -> bool

val out01 : q -> bool

val lines : seg -> seg -> (q * q) option

type inter =
| INone
| IEqual
| IPairs of (q * q) list

val seg_and : seg -> seg -> inter res

val round60 : q -> q

val nround : nat -> q -> q

val newton_step : seg -> seg -> seg -> point -> q -> q

val newton_rounds : nat -> seg -> seg -> seg -> point -> q list -> q list

val project : seg -> point -> q list

val dist2 : seg -> point -> q -> q

val tol6sq : q

val on_seg : seg -> point -> bool

val chord_pts : seg -> point list

val orient : point -> point -> point -> q

val cr : point -> point -> point -> z

val seg_wn : seg -> point -> z

val vertical : seg -> nat -> nat -> q

val fwd_diff : nat -> seg -> seg

val reducible : seg -> bool

val reduce_from : nat -> nat -> point -> seg -> seg

val reduce_once : seg -> seg

val seg_clean_fuel : nat -> seg -> seg

val seg_clean : seg -> seg

val set_segments : jordan -> jordan

val from_segments : seg list -> jordan res

val from_vertices : point list -> jordan res

val from_ctrlpoints : seg list -> jordan res

val vertices : jordan -> point list

val invert : jordan -> jordan

val jordan_box : jordan -> box

val jordan_has : jordan -> point -> bool

val points : jordan -> nat -> point list

val near01 : q -> bool

val pair_le : (nat * q) -> (nat * q) -> bool

val has_dup : q list -> bool

val split_segment : seg -> q list -> seg list res

val split : jordan -> nat list -> q list -> jordan res

type unite_res =
| UYes of seg
| UNo
| URaise of ekind

val unite : seg -> seg -> unite_res

val remove_nth : nat -> 'a1 list -> 'a1 list

val clean_scan : nat -> nat -> seg list -> seg list option res

val clean_loop : nat -> seg list -> seg list res

val clean : jordan -> jordan res

type irow = (nat * nat) * (q * q) option

val irow_le : irow -> irow -> bool

val irow_eqb : irow -> irow -> bool

val raw_intersection : jordan -> jordan -> irow list res

val inside01 : q -> bool

val intersection : jordan -> jordan -> bool -> bool -> irow list res

val jordan_and : jordan -> jordan -> irow list res

val jordan_vertical : jordan -> nat -> nat -> q

val jordan_area : jordan -> q

val jordan_pos : jordan -> bool

val jordan_wn2 : jordan -> point -> z

val jordan_eq : jordan -> jordan -> bool res

type comp =
| CS of jordan
| CC of jordan list

type shape =
| SEmpty
| SWhole
| SC of comp
| SD of comp list

val comp_jordans : comp -> jordan list

val jordans : shape -> jordan list

val comp_area : comp -> q

val shape_area : shape -> q

val comp_with : comp -> jordan list -> comp * jordan list

val comps_with : comp list -> jordan list -> comp list

val with_jordans : shape -> jordan list -> shape

val simple_has_point : jordan -> point -> bool -> bool

val comp_has_point : comp -> point -> bool -> bool

val contains_point : shape -> point -> bool -> bool

val mids_between : q list -> q list

val qle_b : q -> q -> bool

val simple_has_jordan : jordan -> jordan -> bool -> bool res

val comp_has_jordan : comp -> jordan -> bool -> bool res

val contains_jordan : shape -> jordan -> bool -> bool res

val simple_has_simple : jordan -> jordan -> bool res

val simple_has_connected : jordan -> jordan list -> bool res

val simple_has_comp : jordan -> comp -> bool res

val comp_has_comp : comp -> comp -> bool res

val comp_has_disjoint : comp -> comp list -> bool res

val contains_shape : shape -> shape -> bool res

val argmax_abs : q list -> nat

val area_ge : jordan -> jordan -> bool

val grow_group :
  nat -> jordan list -> jordan list -> jordan list -> (jordan list * jordan
  list) res

val divide_connecteds : nat -> jordan list -> comp list res

val comp_ge : comp -> comp -> bool

val disjoint_of : comp list -> shape

val shape_from_jordans : jordan list -> shape res

val copy_shape : shape -> shape res

val op_not : shape -> shape res

val nat_q_le : (nat * q) -> (nat * q) -> bool

val nq_eqb : (nat * q) -> (nat * q) -> bool

val split_two_jordans : jordan -> jordan -> (jordan * jordan) res

val split_one_against : jordan -> jordan list -> (jordan * jordan list) res

val split_all : jordan list -> jordan list -> (jordan list * jordan list) res

val midpoints_one_shape : shape -> shape -> bool -> bool -> (nat * nat) list

val midpoints_shapes : shape -> shape -> bool -> bool -> (nat * nat) list

val nn_eqb : (nat * nat) -> (nat * nat) -> bool

val pursue_path :
  nat -> nat -> nat -> jordan list -> (nat * nat) list -> (nat * nat) list res

val is_rotation : (nat * nat) list -> (nat * nat) list -> bool

val filter_rotations : (nat * nat) list list -> (nat * nat) list list

val indexs_to_jordan : jordan list -> (nat * nat) list -> jordan res

val total_segments : jordan list -> nat

val follow_path : jordan list -> (nat * nat) list -> jordan list res

val recombine :
  shape -> shape -> bool -> bool -> ((shape * shape) * jordan list) res

type op3 = (shape * shape) * shape

val op_or : shape -> shape -> op3 res

val op_and : shape -> shape -> op3 res

val op_sub : shape -> shape -> (shape * shape) res

val op_xor : shape -> shape -> op3 res

val simple_eq : jordan -> jordan -> bool res

val comp_eq : comp -> comp -> bool res

val disjoint_match : nat -> comp list -> comp list -> bool res

val shape_eq : shape -> shape -> bool res

val moment : shape -> nat -> nat -> q

type expr =
| EVar of nat
| EOr of expr * expr
| EAnd of expr * expr
| ESub of expr * expr
| EXor of expr * expr
| ENot of expr
| EAdd of expr * expr
| EMul of expr * expr
| ENeg of expr

val env_set : shape list -> expr -> shape -> shape list

val eval_expr : shape list -> expr -> (shape list * shape) res

val d_Z : sx -> z option

val d_nat : sx -> nat option

val d_bool : sx -> bool option

val d_Q : sx -> q option

val d_list : (sx -> 'a1 option) -> sx list -> 'a1 list option

val d_listx : (sx -> 'a1 option) -> sx -> 'a1 list option

val d_point : sx -> point option

val d_seg : sx -> point list option

val d_jordan : sx -> point list list option

val d_comp : sx -> comp option

val d_shape : sx -> shape option

val d_expr : nat -> sx -> expr option

val e_nat : nat -> sx

val e_bool : bool -> sx

val e_Q : q -> sx

val e_point : point -> sx

val e_list : ('a1 -> sx) -> 'a1 list -> sx

val e_seg : point list -> sx

val e_jordan : point list list -> sx

val e_comp : comp -> sx

val e_shape : shape -> sx

val e_kind : ekind -> sx

val e_res : ('a1 -> sx) -> 'a1 res -> sx

val e_box : box -> sx

val e_inter : inter -> sx

val e_irow : irow -> sx

val bad : sx

val iter_derivate : nat -> seg -> seg

val run : sx -> sx
