(* driver.ml -- line protocol around the extracted dispatcher Mv.run.
   One request per line: an s-expression of decimal integers and parentheses.
   One answer per line, same syntax. *)
module ZA = Z
open Mv

let rec pos_of_z (n : ZA.t) : positive =
  if ZA.equal n ZA.one then XH
  else if ZA.testbit n 0 then XI (pos_of_z (ZA.shift_right n 1))
  else XO (pos_of_z (ZA.shift_right n 1))

let z_of_zarith (n : ZA.t) : z =
  let s = ZA.sign n in
  if s = 0 then Z0 else if s > 0 then Zpos (pos_of_z n) else Zneg (pos_of_z (ZA.neg n))

let rec z_of_pos (p : positive) : ZA.t =
  match p with
  | XH -> ZA.one
  | XO q -> ZA.shift_left (z_of_pos q) 1
  | XI q -> ZA.succ (ZA.shift_left (z_of_pos q) 1)

let zarith_of_z (n : z) : ZA.t =
  match n with Z0 -> ZA.zero | Zpos p -> z_of_pos p | Zneg p -> ZA.neg (z_of_pos p)

(* parser *)
let parse (s : string) : sx =
  let n = String.length s in
  let i = ref 0 in
  let rec skip () = if !i < n && (s.[!i] = ' ' || s.[!i] = '\t' || s.[!i] = '\r') then (incr i; skip ()) in
  let rec item () : sx =
    skip ();
    if !i >= n then failwith "eof"
    else if s.[!i] = '(' then begin
      incr i;
      let acc = ref [] in
      let rec loop () =
        skip ();
        if !i >= n then failwith "unclosed"
        else if s.[!i] = ')' then incr i
        else (acc := item () :: !acc; loop ()) in
      loop ();
      L (List.rev !acc)
    end else begin
      let j = !i in
      while !i < n && s.[!i] <> ' ' && s.[!i] <> '(' && s.[!i] <> ')' do incr i done;
      A (z_of_zarith (ZA.of_string (String.sub s j (!i - j))))
    end in
  item ()

let rec print (b : Buffer.t) (x : sx) : unit =
  match x with
  | A z -> Buffer.add_string b (ZA.to_string (zarith_of_z z))
  | L l ->
      Buffer.add_char b '(';
      List.iteri (fun k y -> if k > 0 then Buffer.add_char b ' '; print b y) l;
      Buffer.add_char b ')'

let () =
  try
    while true do
      let line = input_line stdin in
      let b = Buffer.create 256 in
      (try print b (run (parse line)) with
       | Stack_overflow -> Buffer.add_string b "(8)"
       | Failure _ | Invalid_argument _ -> Buffer.add_string b "(9)");
      print_string (Buffer.contents b);
      print_newline ()
    done
  with End_of_file -> ()
